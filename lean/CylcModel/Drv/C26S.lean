/-
Driver for C26 on the `Sched3Set` model (id C26S): pool bookkeeping under `cylc set` (outputs / prerequisites on
pooled, inactive, future, finished and leaf instances), several flows, flow merges, flow wait, stop + restart.

Model side: the `Sched3Set` correspondence (all observation keys of `obsJson`) plus the prediction of the new
observation key `idx` (every look-up path of the pool is consistent, `n` = the size of the model's pool).

Judge (reads only the REAL scheduler's observations; C26 as written): in every observation
* `dup`            no two pooled proxies with one (cycle point, name) - in the observed pool list, in the flat view
                   of `TaskPool.active_tasks` (`book.dup`) and by identity string (`idx.ids`);
* `empty-bucket`   no empty cycle bucket in `active_tasks`;
* `misfiled`       every proxy is filed under its own point and identity (`book.key_ok`);
* `cache`          the cached task list equals the filed objects unless the changed-flag is up (`book.cache_ok`), the
                   refreshed list is exactly the filed objects (`idx.list`), `get_task_ids()` are their identities;
* `lookup`         `_get_task_by_id` and `get_task` return the filed object itself for every filed proxy
                   (`idx.byid`, `idx.get_task`): no second proxy object of an instance is reachable;
* `transient`      no filed object is a transient one (`idx.transient`);
* `side-index`     every proxy sitting in an internal queue or in the trigger-now set is the pooled object of its
                   identity (`idx.queued_out`, `idx.now_out`);
* `size`           the number of filed objects is the length of the observed pool list (`idx.n`);
* `task-pool-table` after each main loop the `task_pool` table lists exactly the pooled tasks with their status, flow
                   numbers and held state (`db`).
-/
import CylcModel.Sched3SetJson
open Lean CylcModel.Drv CylcModel.Sched3Set

namespace CylcModel.DrvC26S

def hasDupKeys : List (Int × String) → Bool
  | [] => false
  | k :: ks => ks.contains k || hasDupKeys ks

def emptyArr (j : Option Json) : Bool := j == some (Json.arr #[])

def judgeObs (idx : Nat) (ob : Json) : Option String :=
  let pool := poolOf ob
  let book := (jField? ob "book").getD Json.null
  let ix := (jField? ob "idx").getD Json.null
  if hasDupKeys (pool.map keyOf) || jBoolField? book "dup" != some false || jBoolField? ix "ids" != some true then
    some s!"dup: obs {idx}: two proxies with the same cycle point and name"
  else if jBoolField? book "empty_bucket" != some false then some s!"empty-bucket: obs {idx}: empty cycle bucket in the pool"
  else if jBoolField? book "key_ok" != some true then
    some s!"misfiled: obs {idx}: a proxy is filed under the wrong point/identity"
  else if jBoolField? book "cache_ok" != some true then
    some s!"cache: obs {idx}: cached task list differs from the pool while the changed-flag is down"
  else if jBoolField? ix "list" != some true || jBoolField? ix "task_ids" != some true then
    some s!"cache: obs {idx}: get_tasks() / get_task_ids() differ from the objects filed in the pool"
  else if jBoolField? ix "byid" != some true || jBoolField? ix "get_task" != some true then
    some s!"lookup: obs {idx}: _get_task_by_id / get_task do not return the filed proxy object of an instance"
  else if !emptyArr (jField? ix "transient") then
    some s!"transient: obs {idx}: transient objects filed in the pool: {((jField? ix "transient").getD Json.null).compress}"
  else if !emptyArr (jField? ix "queued_out") || !emptyArr (jField? ix "now_out") then
    some s!"side-index: obs {idx}: a queue / the trigger-now set holds a proxy object that is not the pooled one: {((jField? ix "queued_out").getD Json.null).compress} {((jField? ix "now_out").getD Json.null).compress}"
  else if jNatField? ix "n" != some pool.length then
    some s!"size: obs {idx}: {((jField? ix "n").getD Json.null).compress} objects filed, {pool.length} tasks listed"
  else
    match jOptField ob "db" with
    | none => none
    | some db =>
      let want := pool.map fun t => Json.arr #[(jField? t "p").getD Json.null, (jField? t "n").getD Json.null,
        (jField? t "fl").getD Json.null, (jField? t "st").getD Json.null, (jField? t "held").getD Json.null]
      if db == Json.arr want.toArray then none
      else some s!"task-pool-table: obs {idx}: task_pool table {db.compress} differs from the pool {(Json.arr want.toArray).compress}"

def judge (o : Json) : Option String :=
  let rec go (i : Nat) : List Json → Option String
    | [] => none
    | ob :: rest => match judgeObs i ob with
      | some w => some w
      | none => go (i + 1) rest
  go 0 (obsList o)

/-- what the model predicts for the observation key `idx` -/
def idxJson (s : State) : Json :=
  Json.mkObj [("n", jOfNat s.pool.length), ("byid", Json.bool true), ("get_task", Json.bool true),
    ("ids", Json.bool (!hasDup s.pool)), ("list", Json.bool true), ("task_ids", Json.bool true),
    ("transient", Json.arr #[]), ("queued_out", Json.arr #[]), ("now_out", Json.arr #[])]

def modelObsIdx (c : Case) : Json :=
  jOfList (fun s => (obsJson c.graph s).setObjVal! "idx" (idxJson s)) (run c.graph c.ops)

/-- a run in which the real scheduler raised an exception is never a behaviour of the model; the crash that is a
recorded finding of C29 (data store, `graph_depth`) gets its key -/
def crashKeyed? (i : Json) : Option Reply :=
  match jStrField? i "crash" with
  | some msg =>
    let key := if (msg.splitOn "graph_depth").length > 1 then "datastore-graph-depth" else "scheduler-exception"
    some { model := Json.null, holds := false, why := s!"{key}: {msg}" }
  | none => none

def handle (i o : Json) : Except String Reply := do
  if let some r := crashKeyed? i then return r
  let c ← parseCase i
  match judge o with
  | some w => return { model := modelObsIdx c, holds := false, why := w }
  | none => return { model := modelObsIdx c, holds := true }

end CylcModel.DrvC26S

def main : IO Unit := CylcModel.Drv.run CylcModel.DrvC26S.handle
