/-
Driver for C25 (the published data store reflects the task pool; delta replay).

Case kinds (`i.kind`):

* "sched"  - a run of the real scheduler.  `i.steps[k]` = what was PUBLISHED during op k (`fresh`: a new scheduler,
  i.e. a new subscriber; `pub`: batches, each `{src: "startup" | "queue", deltas: [D..]}` in published order).
  `o[k]` = what was observed after op k: `store` (the scheduler's store, null = unchanged), `client` (the store of
  a subscriber kept by the real `apply_delta`; "same" = equal to `store`, null = unchanged), `ccs` (the checksums
  that subscriber computes after each delta), `upd` (after every `update_data_structure`: per pooled task the
  projection of the TaskProxy and of its store entry), `pending` (a batch is waiting for publication).
  MODEL: the DataStore model replays the published batches (`client`, `ccs`).
  JUDGE (from the property, on the observation only):
    (a) the replayed store holds the same data as the scheduler's store whenever nothing is pending,
    (b) each published checksum equals the checksum of the replayed store after that delta,
    (c) after every data-store update every pooled task has a store entry with the same status, held / queued /
        runahead flags, flow numbers, completed outputs and prerequisite satisfaction.
  A failure of (a) that disappears when the subscriber compensates for a recorded defect is reported under that
  finding's key (`added-aliased`: skip the updates the scheduler already merged into the published `added`
  elements; `startup-republish`: skip the start-up publication when it repeats the batch published before it);
  a pooled task without store entry whose task definition is missing from the store too is `reload-orphan-missing`;
  a pool / store difference of a task is filed under `remove-flow-stale` / `set-pre-no-delta` / `unpooled-object-deltas`
  only after the harness observed the call-site condition of that finding for that task (`ds.ev`).
* "apply"  - component tie: random store + batches through the real `apply_delta` (subscriber protocol).
* "alias"  - component tie: what `DataStoreMgr.apply_delta_batch` leaves in the delta that is published afterwards.
  JUDGE: the published delta is the applied delta.
* "tstate" / "tdelta" - component tie of `delta_task_state` / `delta_task_held` / `_delta_task_flow_nums` /
  `delta_task_outputs` / `delta_task_prerequisite` + flush.  JUDGE: the flushed store element shows the proxy's values.
-/
import CylcModel.DataStoreJson
open Lean CylcModel.Drv CylcModel.DataStore

namespace CylcModel.DrvC25

/-- a judge failure: the key of the recorded finding that explains it (if any) and the text -/
structure Failure where
  key : Option String
  msg : String

/-- an unexplained failure first; among failures explained by recorded findings the most specific finding first -/
def pickWhy (fs : List Failure) : Option String :=
  match fs.find? (fun f => f.key.isNone) with
  | some f => some f.msg
  | none =>
    let byKey := fun (k : String) => fs.find? (fun f => f.key == some k)
    let prio := ["reload-orphan-missing", "unpooled-object-deltas", "set-pre-no-delta", "remove-flow-stale",
                 "startup-republish"]
    match (prio.findSome? byKey).orElse (fun _ => fs.head?) with
    | some f => some s!"{f.key.getD ""}: {f.msg}"
    | none => none

def sameData (a b : Store) : Bool := a.norm == b.norm

/-! ### compensating subscribers (classification of known findings only) -/

/-- the updates a subscriber must NOT apply again because the scheduler already merged them into the `added` element
it published (for `RESET_PROTOBUF_TYPES` the first update of an added id, for the other types all of them) -/
def compUpdated (reset : Bool) (ids : List String) : List Elem → List String → List Elem
  | [], _ => []
  | u :: t, skipped =>
    if ids.contains u.id && (!reset || !skipped.contains u.id) then compUpdated reset ids t (u.id :: skipped)
    else u :: compUpdated reset ids t skipped

def compAlias : AnyDelta → AnyDelta
  | .el d => .el { d with updated := compUpdated (isResetType d.key) (d.added.map (·.id)) d.updated [] }
  | .wf d => .wf d

structure Pub where
  src : String
  text : String                 -- compressed JSON of the deltas (identity of a batch)
  deltas : List PubDelta

def parsePub (j : Json) : Except String Pub := do
  let ds ← need (jArrField? j "deltas") "pub.deltas"
  return { src := (jStrField? j "src").getD "queue", text := (Json.arr ds.toArray).compress,
           deltas := ← ds.mapM parseDelta }

structure Clients where
  strict : Store := {}
  alias : Store := {}           -- compensates `added-aliased`
  startup : Store := {}         -- compensates `startup-republish`
  both : Store := {}
  lastText : Option String := none
  scur : Option Store := none   -- the scheduler's store as last dumped
  lastOut : Option Store := none
  recheck : Bool := false       -- the comparison was skipped at the previous observation (a batch was pending)

/-- apply one published batch; returns the checksums of the strict subscriber after each delta -/
def feedBatch (c : Clients) (b : Pub) : Clients × List (Option Nat) × List Failure :=
  let dup := b.src == "startup" && c.lastText == some b.text
  let step := fun (acc : Store × List (Option Nat) × List Failure) (pd : PubDelta) =>
    let s := applyAny acc.1 pd.delta
    let cs : Option Nat := match pd.delta with
      | .el d => some (s.checksum d.key)
      | .wf _ => none
    let fails := match pd.checksum, pd.delta with
      | some want, .el d =>
        if s.checksum d.key == want then acc.2.2
        else acc.2.2 ++ [{ key := none, msg := s!"published checksum {want} of {d.key.name} differs from the checksum {s.checksum d.key} of the replayed store" }]
      | _, _ => acc.2.2
    (s, acc.2.1 ++ [cs], fails)
  let (strict, ccs, fails) := b.deltas.foldl step (c.strict, [], [])
  let alias := b.deltas.foldl (fun s pd => applyAny s (compAlias pd.delta)) c.alias
  let startup := if dup then c.startup else b.deltas.foldl (fun s pd => applyAny s pd.delta) c.startup
  let both := if dup then c.both else b.deltas.foldl (fun s pd => applyAny s (compAlias pd.delta)) c.both
  ({ c with strict, alias, startup, both, lastText := some b.text }, ccs, fails)

/-! ### clause 1: pool vs store rows -/

def cmpFields : List (String × String) :=
  [("st", "status"), ("held", "held flag"), ("q", "queued flag"), ("rh", "runahead flag"), ("fl", "flow numbers"),
   ("out", "completed outputs"), ("pre", "prerequisite satisfaction")]

/-- which pool / store fields a recorded finding can explain, once its call-site condition was observed for the task -/
def explains : String → List String
  | "remove-flow-stale" => ["fl"]
  | "set-pre-no-delta" => ["pre"]
  | "unpooled-object-deltas" => ["st", "held", "q", "rh", "fl", "out", "pre"]
  | _ => []

def judgeRow (taints : List (String × String)) (idx : Nat) (row : Json) : List Failure :=
  let id := (jStrField? row "id").getD "?"
  let pool := (jField? row "pool").getD Json.null
  match jOptField row "store" with
  | none =>
    if jBoolField? row "def" == some false then
      [{ key := some "reload-orphan-missing",
         msg := s!"obs {idx}: pooled task {id} has no entry in the data store (nor has its task definition)" }]
    else [{ key := none, msg := s!"obs {idx}: pooled task {id} has no entry in the data store" }]
  | some st =>
    cmpFields.filterMap fun (f, what) =>
      let a := (jField? pool f).getD Json.null
      let b := (jField? st f).getD Json.null
      if a == b then none
      else
        let key := (taints.find? fun t => t.2 == id && (explains t.1).contains f).map (·.1)
        some { key, msg := s!"obs {idx}: task {id}: {what} {a.compress} in the pool, {b.compress} in the data store" }

/-! ### a scheduler run -/

structure RunAcc where
  c : Clients := {}
  taints : List (String × String) := []     -- (finding key, task id): call-site conditions observed so far
  out : List Json := []
  fails : List Failure := []

def stepObs (acc : RunAcc) (idx : Nat) (step ob : Json) : Except String RunAcc := do
  let fresh := (jBoolField? step "fresh").getD false
  let c0 : Clients := if fresh then {} else acc.c
  let pubs ← ((jArrField? step "pub").getD []).mapM parsePub
  let (c1, ccsAll, f1) := pubs.foldl (fun (a : Clients × List Json × List Failure) b =>
      let (c', ccs, fs) := feedBatch a.1 b
      (c', a.2.1 ++ [Json.arr (ccs.map fun x => match x with | some n => jOfNat n | none => Json.null).toArray],
       a.2.2 ++ fs.map fun f => { f with msg := s!"obs {idx}: {f.msg}" })) (c0, [], [])
  let ds := (jField? ob "ds").getD Json.null
  let scur ← match jOptField ds "store" with
    | none => pure c1.scur
    | some sj => do pure (some (← parseStore sj))
  let pending := (jBoolField? ds "pending").getD false
  -- (a) replayed store vs the scheduler's store
  let changed := fresh || !pubs.isEmpty || (jOptField ds "store").isSome || c1.recheck
  let fa : List Failure :=
    match scur with
    | none => []
    | some s =>
      if !changed || pending || sameData c1.strict s then []
      else
        let why := (storeDiff c1.strict s).getD "the stores differ"
        let key :=
          if sameData c1.alias s then some "added-aliased"
          else if sameData c1.startup s then some "startup-republish"
          else if sameData c1.both s then some "startup-republish"
          else none
        [{ key, msg := s!"obs {idx}: a subscriber that applied every published delta differs from the scheduler's store (replayed vs scheduler): {why}" }]
  -- (c) pool vs store after every data-store update
  let taints := acc.taints ++ ((jArrField? ds "ev").getD []).filterMap fun e =>
    match jArr? e with
    | some [k, t] => match jStr? k, jStr? t with
      | some k, some t => some (k, t)
      | _, _ => none
    | _ => none
  let fc := ((jArrField? ds "upd").getD []).foldl (fun fs snap =>
      fs ++ ((jArr? snap).getD []).foldl (fun g row => g ++ judgeRow taints idx row) []) []
  let fe := match jOptField ds "error" with
    | some e => [{ key := none, msg := s!"obs {idx}: observer error {e.compress}" : Failure }]
    | none => []
  let outClient :=
    if !fresh && pubs.isEmpty then Json.null                  -- nothing was applied: unchanged
    else if c1.lastOut.map Store.norm == some c1.strict.norm then Json.null else c1.strict.toJson
  let outOb := Json.mkObj [("client", outClient), ("ccs", Json.arr ccsAll.toArray)]
  return { c := { c1 with scur, lastOut := some c1.strict, recheck := pending && changed }, taints, out := acc.out ++ [outOb],
           fails := acc.fails ++ f1 ++ fa ++ fc ++ fe }

def handleSched (i o : Json) : Except String Reply := do
  let steps ← need (jArrField? i "steps") "steps"
  let obs ← need (jArr? o) "observations"
  if steps.length != obs.length then throw "steps / observations length mismatch"
  let rec go (acc : RunAcc) (idx : Nat) : List Json → List Json → Except String RunAcc
    | s :: ss, ob :: os => do go (← stepObs acc idx s ob) (idx + 1) ss os
    | _, _ => pure acc
  let acc ← go {} 0 steps obs
  let model := Json.arr acc.out.toArray
  match pickWhy acc.fails with
  | some w => return { model, holds := false, why := w }
  | none => return { model, holds := true }

/-! ### component cases -/

def ccsJson (l : List (Option Nat)) : Json :=
  Json.arr (l.map fun x => match x with | some n => jOfNat n | none => Json.null).toArray

def handleApply (i : Json) : Except String Reply := do
  let s0 ← parseStore (← need (jField? i "store") "store")
  let batches ← (← need (jArrField? i "batches") "batches").mapM fun b => do
    (← need (jArr? b) "batch").mapM parseDelta
  let (s, ccs) := batches.foldl (fun (acc : Store × List Json) b =>
    let (s', cs) := b.foldl (fun (a : Store × List (Option Nat)) pd =>
      let s2 := applyAny a.1 pd.delta
      (s2, a.2 ++ [match pd.delta with | .el d => some (s2.checksum d.key) | .wf _ => none])) (acc.1, [])
    (s', acc.2 ++ [ccsJson cs])) (s0, [])
  return { model := Json.mkObj [("store", s.toJson), ("ccs", Json.arr ccs.toArray)], holds := true }

def deltaNorm : AnyDelta → AnyDelta
  | .el d => .el { d with added := d.added.map Elem.norm, updated := d.updated.map Elem.norm }
  | .wf d => .wf { d with added := d.added.norm, updated := d.updated.norm }

def handleAlias (i o : Json) : Except String Reply := do
  let s0 ← parseStore (← need (jField? i "store") "store")
  let d ← parseDelta (← need (jField? i "delta") "delta")
  let model := Json.mkObj [("published", (publishDelta codePolicy d.delta).toJson),
                           ("store", (applySrv s0 d.delta).toJson)]
  let pub ← parseDelta (← need (jField? o "published") "published")
  if deltaNorm pub.delta == deltaNorm d.delta then return { model, holds := true }
  else if deltaNorm pub.delta == deltaNorm (publishDelta .aliased d.delta) then
    let why := "added-aliased: the delta published after the scheduler applied it differs from the delta it applied (updates of the batch are merged into its added elements)"
    return { model, holds := false, why }
  else return { model, holds := false, why := "the delta published after the scheduler applied it differs from the delta it applied" }

def bstr (b : Bool) : String := if b then "true" else "false"

def handleTState (i o : Json) : Except String Reply := do
  let store ← parseElem (← need (jField? i "store") "store")
  let pending ← parseElem (← need (jField? i "pending") "pending")
  let pj ← need (jField? i "proxy") "proxy"
  let p : ProxyState := {
    status := ← need (jStrField? pj "st") "st", isHeld := ← need (jBoolField? pj "held") "held",
    isQueued := ← need (jBoolField? pj "q") "q", isRunahead := ← need (jBoolField? pj "rh") "rh" }
  let op ← parseElem (← need (jField? o "pending") "o.pending")
  let ofl ← parseElem (← need (jField? o "flushed") "o.flushed")
  let pend' := deltaTaskState store pending p (op.getS "stamp")
  let model := Json.mkObj [("pending", pend'.toJson), ("flushed", (flushTP store pend').toJson)]
  let bad := [("state", p.status), ("is_held", bstr p.isHeld), ("is_queued", bstr p.isQueued),
              ("is_runahead", bstr p.isRunahead)].filter fun (f, v) =>
    if f == "state" then ofl.getS f != v else ofl.getB f != (v == "true")
  match bad with
  | [] => return { model, holds := true }
  | (f, v) :: _ =>
    let why := s!"after delta_task_state and the flush the store element has {f} = {ofl.getS f}, the task proxy {v}"
    return { model, holds := false, why }

def handleTDelta (i o : Json) : Except String Reply := do
  let store ← parseElem (← need (jField? i "store") "store")
  let pending ← parseElem (← need (jField? i "pending") "pending")
  let what ← need (jStrField? i "what") "what"
  let arg ← need (jField? i "arg") "arg"
  let op ← parseElem (← need (jField? o "pending") "o.pending")
  let ofl ← parseElem (← need (jField? o "flushed") "o.flushed")
  let stamp := op.getS "stamp"
  let mk := fun (pend' : Elem) => Json.mkObj [("pending", pend'.toJson), ("flushed", (flushTP store pend').toJson)]
  match what with
  | "held" =>
    let v ← need (jBool? arg) "held arg"
    let ok := ofl.getB "is_held" == v
    let why := if ok then "" else "after delta_task_held and the flush the store element has another held flag"
    return { model := mk (deltaTaskHeld pending v stamp), holds := ok, why }
  | "flows" =>
    let v ← need (jStr? arg) "flows arg"
    let ok := ofl.getS "flow_nums" == v
    let why := if ok then "" else "after delta_task_flow_nums and the flush the store element has other flow numbers"
    return { model := mk (deltaTaskFlowNums pending v stamp), holds := ok, why }
  | "outputs" =>
    let outs ← (← need (jArr? arg) "outputs arg").mapM fun x => do
      match jArr? x with
      | some [a, b] => pure ((← need (jStr? a) "label"), (← need (jStr? b) "text"))
      | _ => .error "bad output"
    let ok := outs.all fun (l, _) => AL.get? (ofl.getM "outputs") l == AL.get? outs l
    let why := if ok then "" else "after delta_task_outputs and the flush an output of the proxy is missing or different in the store element"
    return { model := mk (deltaTaskOutputs pending outs stamp), holds := ok, why }
  | "prereq" =>
    let pres ← (← need (jArr? arg) "prereq arg").mapM fun x => need (jStr? x) "prereq text"
    let ok := pres.isEmpty || ofl.getR "prerequisites" == pres
    let why := if ok then "" else "after delta_task_prerequisite and the flush the store element holds other prerequisites"
    return { model := mk (deltaTaskPrereq pending pres stamp), holds := ok, why }
  | _ => throw s!"unknown tdelta kind {what}"

def handle (i o : Json) : Except String Reply := do
  if let some msg := jStrField? i "crash" then
    return { model := Json.null, holds := false, why := s!"scheduler-exception: {msg}" }
  match jStrField? i "kind" with
  | some "sched" => handleSched i o
  | some "apply" => handleApply i
  | some "alias" => handleAlias i o
  | some "tstate" => handleTState i o
  | some "tdelta" => handleTDelta i o
  | k => throw s!"unknown case kind {k}"

end CylcModel.DrvC25

def main : IO Unit := CylcModel.Drv.run CylcModel.DrvC25.handle
