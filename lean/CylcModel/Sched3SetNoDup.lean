/-
Pool-shape invariants of the `Sched3Set` model (checks C26S and C11R), generic in a per-proxy predicate:

  `INV Q s` = no two pooled proxies share a (cycle point, name)   [C26]
              ∧ every pooled proxy `x` satisfies `Q s x`,

where `Q` may depend on the proxy through its key and flows only, and on the state through the set of
(point, name, flows) keys that have a `task_states` row or a queued INSERT, monotonically (`PInv`).
Instances: `Q = True` (plain no-duplicates, C26S) and `Q s x = x's key has a row or a queued insert` (C11R: restart
drops no pooled task).  One lemma per primitive of the model (this file: pool primitives, spawning, merging,
removal, spawn-on-output; `Sched3SetNoDup2`: messages, `cylc set`, the main loop, holds, restart, all runs).
-/
import CylcModel.Sched3SetFrame

namespace CylcModel.Sched3Set

/-! ### keys of the pool -/

def keys (s : State) : List (Int × String) := s.pool.map Proxy.key

/-- C26: no two proxies for the same (point, name) -/
def ND (s : State) : Prop := (keys s).Nodup

/-- the (point, name, flows) key has a `task_states` / `task_outputs` row, or an INSERT of it is queued -/
def hasKey (s : State) (p : Int) (n : String) (f : Flows) : Prop :=
  ∃ r, (r ∈ s.rows ∨ r ∈ s.qIns) ∧ r.isKey p n f = true

/-- every key with a row (or queued insert) in `s` has one in `s'` -/
def RowsLe (s s' : State) : Prop := ∀ p n f, hasKey s p n f → hasKey s' p n f

theorem RowsLe.refl (s : State) : RowsLe s s := fun _ _ _ h => h

theorem RowsLe.trans {a b c : State} (h1 : RowsLe a b) (h2 : RowsLe b c) : RowsLe a c :=
  fun p n f h => h2 p n f (h1 p n f h)

theorem rowsLe_of_eq {s s' : State} (hr : s'.rows = s.rows) (hq : s'.qIns = s.qIns) : RowsLe s s' := by
  intro p n f ⟨r, hm, hk⟩
  exact ⟨r, by rw [hr, hq]; exact hm, hk⟩

/-- what the per-proxy predicate must satisfy -/
structure PInv (Q : State → Proxy → Prop) : Prop where
  congr : ∀ s x y, y.pt = x.pt → y.name = x.name → y.flows = x.flows → Q s x → Q s y
  mono : ∀ s s' x, RowsLe s s' → Q s x → Q s' x
  ins : ∀ s x, Q (dbInsert s x) x
  load : ∀ g s x, Q (loadHistoricalOutputs g s x).1 (loadHistoricalOutputs g s x).2

def INV (Q : State → Proxy → Prop) (s : State) : Prop := ND s ∧ ∀ x ∈ s.pool, Q s x

section
variable {Q : State → Proxy → Prop}

theorem inv_of_eq {s s' : State} (hQ : PInv Q) (h : INV Q s) (hp : s'.pool = s.pool) (hr : s'.rows = s.rows)
    (hq : s'.qIns = s.qIns) : INV Q s' := by
  refine ⟨?_, ?_⟩
  · unfold ND keys; rw [hp]; exact h.1
  · intro x hx
    rw [hp] at hx
    exact hQ.mono s s' x (rowsLe_of_eq hr hq) (h.2 x hx)

theorem inv_of_le {s s' : State} (hQ : PInv Q) (h : INV Q s) (hp : s'.pool = s.pool) (hle : RowsLe s s') :
    INV Q s' := by
  refine ⟨?_, ?_⟩
  · unfold ND keys; rw [hp]; exact h.1
  · intro x hx
    rw [hp] at hx
    exact hQ.mono s s' x hle (h.2 x hx)

theorem keys_put (s : State) (x : Proxy) : keys (s.put x) = keys s := by
  unfold keys State.put
  simp only [List.map_map]
  apply List.map_congr_left
  intro y _
  simp only [Function.comp]
  split
  · rename_i h
    simp only [Bool.and_eq_true, beq_iff_eq] at h
    unfold Proxy.key
    rw [h.1, h.2]
  · rfl

theorem q_put {s : State} {x z : Proxy} (hQ : PInv Q) (hz : Q s z) : Q (s.put x) z :=
  hQ.mono s (s.put x) z (rowsLe_of_eq rfl rfl) hz

/-- `put`: the stored proxy must be fine when it replaces something -/
theorem inv_put {s : State} {x : Proxy} (hQ : PInv Q) (h : INV Q s) (hx : Q s x) : INV Q (s.put x) := by
  refine ⟨?_, ?_⟩
  · unfold ND; rw [keys_put]; exact h.1
  · intro y hy
    unfold State.put at hy
    simp only [List.mem_map] at hy
    obtain ⟨z, hz, rfl⟩ := hy
    split
    · exact q_put hQ hx
    · exact q_put hQ (h.2 z hz)

/-- `put` of a proxy with the key and flows of the pooled one it replaces -/
theorem inv_put_same {s : State} {x y : Proxy} (hQ : PInv Q) (h : INV Q s) (hy : s.get? x.pt x.name = some y)
    (hf : x.flows = y.flows) : INV Q (s.put x) := by
  apply inv_put hQ h
  have hk := get?_key hy
  have hm : y ∈ s.pool := by
    unfold State.get? at hy
    exact List.mem_of_find?_eq_some hy
  exact hQ.congr s y x hk.1.symm hk.2.symm hf (h.2 y hm)

theorem mem_of_get? {s : State} {p : Int} {n : String} {y : Proxy} (h : s.get? p n = some y) : y ∈ s.pool := by
  unfold State.get? at h
  exact List.mem_of_find?_eq_some h

theorem q_of_get? {s : State} {p : Int} {n : String} {y : Proxy} (h : INV Q s) (hy : s.get? p n = some y) : Q s y :=
  h.2 y (mem_of_get? hy)

theorem get?_none_not_mem (s : State) (p : Int) (n : String) (h : s.get? p n = none) :
    (p, n) ∉ keys s := by
  unfold State.get? at h
  unfold keys
  intro hm
  obtain ⟨y, hy, hk⟩ := List.mem_map.mp hm
  have := List.find?_eq_none.mp h y hy
  unfold Proxy.key at hk
  simp only [Prod.mk.injEq] at hk
  simp [hk.1, hk.2] at this

theorem nodup_addBucket (x : Proxy) : ∀ (l : List Proxy), x.key ∉ l.map Proxy.key → (l.map Proxy.key).Nodup →
    ((addBucket x l).map Proxy.key).Nodup := by
  intro l
  induction l with
  | nil => intro _ _; simp [addBucket]
  | cons y ys ih =>
    intro hx hn
    simp only [List.map_cons, List.mem_cons, not_or] at hx
    simp only [List.map_cons, List.nodup_cons] at hn
    unfold addBucket
    split
    · simp only [List.map_cons, List.nodup_cons, List.mem_cons, not_or]
      exact ⟨⟨fun e => hx.1 e.symm, hn.1⟩, hx.2, hn.2⟩
    · simp only [List.map_cons, List.nodup_cons]
      refine ⟨?_, ih hx.2 hn.2⟩
      intro hm
      obtain ⟨z, hz, hk⟩ := List.mem_map.mp hm
      rcases (mem_addBucket x ys z).mp hz with rfl | hz'
      · exact hx.1 hk
      · exact hn.1 (List.mem_map.mpr ⟨z, hz', hk⟩)

/-- `add` (a no-op when the key is present) -/
theorem inv_add {s : State} {x : Proxy} (hQ : PInv Q) (h : INV Q s) (hx : Q s x) : INV Q (s.add x) := by
  unfold State.add
  split
  · exact h
  · rename_i hn
    have hn' : s.get? x.pt x.name = none := by
      cases hg : s.get? x.pt x.name with
      | none => rfl
      | some v => simp [hg] at hn
    have hle : RowsLe s { s with pool := addBucket x s.pool } := rowsLe_of_eq rfl rfl
    refine ⟨?_, ?_⟩
    · unfold ND keys
      exact nodup_addBucket x s.pool (get?_none_not_mem s x.pt x.name hn') h.1
    · intro y hy
      simp only at hy
      rcases (mem_addBucket x s.pool y).mp hy with rfl | hm
      · exact hQ.mono _ _ _ hle hx
      · exact hQ.mono _ _ _ hle (h.2 y hm)

/-- removal of proxies from the pool -/
theorem inv_filter {s s' : State} (hQ : PInv Q) (h : INV Q s) (f : Proxy → Bool) (hp : s'.pool = s.pool.filter f)
    (hle : RowsLe s s') : INV Q s' := by
  refine ⟨?_, ?_⟩
  · unfold ND keys; rw [hp]
    exact List.Nodup.sublist (List.Sublist.map _ List.filter_sublist) h.1
  · intro x hx
    rw [hp] at hx
    exact hQ.mono s s' x hle (h.2 x (List.mem_filter.mp hx).1)

/-- a key-and-flows preserving rewrite of every pooled proxy -/
theorem inv_map {s s' : State} (hQ : PInv Q) (h : INV Q s) (f : Proxy → Proxy) (hp : s'.pool = s.pool.map f)
    (hf : ∀ y, (f y).pt = y.pt ∧ (f y).name = y.name ∧ (f y).flows = y.flows)
    (hle : RowsLe s s') : INV Q s' := by
  refine ⟨?_, ?_⟩
  · unfold ND keys; rw [hp]
    have : (s.pool.map f).map Proxy.key = s.pool.map Proxy.key := by
      simp only [List.map_map]
      apply List.map_congr_left
      intro y _
      simp only [Function.comp, Proxy.key]
      rw [(hf y).1, (hf y).2.1]
    rw [this]; exact h.1
  · intro x hx
    rw [hp] at hx
    obtain ⟨z, hz, rfl⟩ := List.mem_map.mp hx
    exact hQ.congr s' z (f z) (hf z).1 (hf z).2.1 (hf z).2.2 (hQ.mono s s' z hle (h.2 z hz))

/-- `store`: a transient object goes to the ghosts, a pooled proxy replaces itself -/
theorem inv_store {s : State} {x : Proxy} {tr : Bool} (hQ : PInv Q) (h : INV Q s) (hx : tr = false → Q s x) :
    INV Q (store s x tr) := by
  unfold store
  split
  · exact inv_of_eq hQ h rfl rfl rfl
  · rename_i htr
    exact inv_put hQ h (hx (by simpa using htr))

/-- the looked-up object, when pooled, is fine; so is anything with its key and flows -/
theorem q_of_lookup {s : State} {p : Int} {n : String} {x y : Proxy} {tr : Bool} (hQ : PInv Q) (h : INV Q s)
    (hl : lookup s p n = some (x, tr)) (hp : y.pt = x.pt) (hn : y.name = x.name) (hf : y.flows = x.flows) :
    tr = false → Q s y := by
  intro htr
  unfold lookup at hl
  split at hl
  · rename_i x' hx'
    simp only [Option.some.injEq, Prod.mk.injEq] at hl
    rw [← hl.1] at hp hn hf
    exact hQ.congr s x' y hp hn hf (q_of_get? h hx')
  · -- a ghost: tr = true
    cases hg : (s.ghosts.find? fun x => x.pt == p && x.name == n) with
    | none => rw [hg] at hl; cases hl
    | some v => rw [hg] at hl; simp at hl; rw [htr] at hl; simp at hl

/-! ### database primitives: the set of row keys only grows -/

theorem rowsLe_dbInsert (s : State) (x : Proxy) : RowsLe s (dbInsert s x) := by
  intro p n f ⟨r, hm, hk⟩
  refine ⟨r, ?_, hk⟩
  unfold dbInsert
  rcases hm with hm | hm
  · exact Or.inl hm
  · exact Or.inr (List.mem_append_left _ hm)

theorem rowsLe_dbQueue (s : State) (k : UpdKind) (x : Proxy) (o : List (String × Bool)) : RowsLe s (dbQueue s k x o) :=
  rowsLe_of_eq rfl rfl

theorem isKey_iff (r : Row) (p : Int) (n : String) (f : Flows) :
    r.isKey p n f = true ↔ r.pt = p ∧ r.name = n ∧ r.flows = f := by
  unfold Row.isKey
  simp only [Bool.and_eq_true, beq_iff_eq, and_assoc]

theorem upd_apply_key (u : Upd) (r : Row) : (u.apply r).pt = r.pt ∧ (u.apply r).name = r.name ∧ (u.apply r).flows = r.flows := by
  unfold Upd.apply
  split
  · exact ⟨rfl, rfl, rfl⟩
  · cases u.kind <;> exact ⟨rfl, rfl, rfl⟩

/-- keys of a row list: `some key ∈` is preserved by applying updates -/
theorem key_mem_map_apply (u : Upd) (rows : List Row) (p : Int) (n : String) (f : Flows)
    (h : ∃ r ∈ rows, r.isKey p n f = true) : ∃ r ∈ rows.map u.apply, r.isKey p n f = true := by
  obtain ⟨r, hr, hk⟩ := h
  refine ⟨u.apply r, List.mem_map.mpr ⟨r, hr, rfl⟩, ?_⟩
  have := upd_apply_key u r
  rw [isKey_iff] at hk ⊢
  rw [this.1, this.2.1, this.2.2]; exact hk

theorem key_mem_foldl_apply (us : List Upd) : ∀ (rows : List Row) (p : Int) (n : String) (f : Flows),
    (∃ r ∈ rows, r.isKey p n f = true) → ∃ r ∈ us.foldl (fun (rows : List Row) u => rows.map u.apply) rows, r.isKey p n f = true := by
  induction us with
  | nil => intro rows p n f h; exact h
  | cons u us ih =>
    intro rows p n f h
    simp only [List.foldl_cons]
    exact ih _ p n f (key_mem_map_apply u rows p n f h)

theorem key_mem_insert_fold (ins : List Row) : ∀ (rows : List Row) (p : Int) (n : String) (f : Flows),
    ((∃ r ∈ rows, r.isKey p n f = true) ∨ (∃ r ∈ ins, r.isKey p n f = true)) →
    ∃ r ∈ ins.foldl (fun (rows : List Row) r => (rows.filter fun q => !q.isKey r.pt r.name r.flows) ++ [r]) rows,
      r.isKey p n f = true := by
  induction ins with
  | nil =>
    intro rows p n f h
    rcases h with h | ⟨r, hr, _⟩
    · exact h
    · cases hr
  | cons a ins ih =>
    intro rows p n f h
    simp only [List.foldl_cons]
    apply ih
    rcases h with ⟨r, hr, hk⟩ | ⟨r, hr, hk⟩
    · -- r stays unless `a` has its key, then `a` is there
      by_cases hka : r.isKey a.pt a.name a.flows = true
      · left
        refine ⟨a, List.mem_append_right _ (by simp), ?_⟩
        rw [isKey_iff] at hk hka ⊢
        exact ⟨hka.1.symm.trans hk.1, hka.2.1.symm.trans hk.2.1, hka.2.2.symm.trans hk.2.2⟩
      · left
        refine ⟨r, List.mem_append_left _ (List.mem_filter.mpr ⟨hr, by simpa using hka⟩), hk⟩
    · rcases List.mem_cons.mp hr with rfl | hr'
      · left
        exact ⟨r, List.mem_append_right _ (by simp), hk⟩
      · right
        exact ⟨r, hr', hk⟩

theorem rowsLe_flushDb (s : State) : RowsLe s (flushDb s) := by
  intro p n f ⟨r, hm, hk⟩
  unfold flushDb
  simp only
  have h1 := key_mem_insert_fold s.qIns s.rows p n f (by
    rcases hm with hm | hm
    · exact Or.inl ⟨r, hm, hk⟩
    · exact Or.inr ⟨r, hm, hk⟩)
  -- the updates, kind by kind
  have h2 : ∀ (kinds : List UpdKind) (rows : List Row), (∃ r ∈ rows, r.isKey p n f = true) →
      ∃ r ∈ kinds.foldl (fun (rows : List Row) k =>
        (s.qUpd.filter (·.kind == k)).foldl (fun (rows : List Row) u => rows.map u.apply) rows) rows,
        r.isKey p n f = true := by
    intro kinds
    induction kinds with
    | nil => intro rows h; exact h
    | cons k kinds ih =>
      intro rows h
      simp only [List.foldl_cons]
      exact ih _ (key_mem_foldl_apply _ rows p n f h)
  obtain ⟨r', hr', hk'⟩ := h2 _ _ h1
  exact ⟨r', Or.inl hr', hk'⟩

theorem inv_dbInsert {s : State} (hQ : PInv Q) (x : Proxy) (h : INV Q s) : INV Q (dbInsert s x) :=
  inv_of_le hQ h rfl (rowsLe_dbInsert s x)

theorem inv_dbQueue {s : State} (hQ : PInv Q) (k : UpdKind) (x : Proxy) (o : List (String × Bool)) (h : INV Q s) :
    INV Q (dbQueue s k x o) := inv_of_eq hQ h rfl rfl rfl

theorem inv_flushDb {s : State} (hQ : PInv Q) (h : INV Q s) : INV Q (flushDb s) :=
  inv_of_le hQ h rfl (rowsLe_flushDb s)

/-! ### spawning -/

theorem rowsLe_loadHistoricalOutputs (g : Graph) (s : State) (x : Proxy) : RowsLe s (loadHistoricalOutputs g s x).1 := by
  unfold loadHistoricalOutputs
  simp only
  split
  · exact rowsLe_dbInsert s x
  · split
    · exact RowsLe.refl s
    · exact rowsLe_dbInsert s _

theorem inv_loadHistoricalOutputs {s : State} (hQ : PInv Q) (g : Graph) (x : Proxy) (h : INV Q s) :
    INV Q (loadHistoricalOutputs g s x).1 :=
  inv_of_le hQ h (pool_loadHistoricalOutputs g s x) (rowsLe_loadHistoricalOutputs g s x)

theorem holdNew_rows (s : State) (x : Proxy) : (holdNew s x).1.rows = s.rows ∧ (holdNew s x).1.qIns = s.qIns := by
  unfold holdNew
  split
  · exact ⟨rfl, rfl⟩
  · split
    · split
      · exact ⟨rfl, rfl⟩
      · exact ⟨rfl, rfl⟩
    · exact ⟨rfl, rfl⟩

theorem rowsLe_finishSpawn (t : TaskDefn) (s : State) (x : Proxy) (b : Bool) : RowsLe s (finishSpawn t s x b).1 := by
  unfold finishSpawn
  dsimp only
  have hr := holdNew_rows s x
  generalize holdNew s x = H at hr
  split
  · exact (rowsLe_of_eq hr.1 hr.2).trans (rowsLe_dbInsert _ _)
  · exact rowsLe_of_eq hr.1 hr.2

theorem inv_finishSpawn {s : State} (hQ : PInv Q) (t : TaskDefn) (x : Proxy) (b : Bool) (h : INV Q s) :
    INV Q (finishSpawn t s x b).1 :=
  inv_of_le hQ h (finishSpawn_ok t s x b).1 (rowsLe_finishSpawn t s x b)

/-- what a spawner does: keeps the invariant, only adds row keys, and returns a proxy that is fine in the state
it returns -/
def SpawnInv (Q : State → Proxy → Prop) (spawn : State → String → Int → Flows → State × Option Proxy) : Prop :=
  ∀ st n q f, INV Q st → INV Q (spawn st n q f).1 ∧ RowsLe st (spawn st n q f).1 ∧
    ∀ y, (spawn st n q f).2 = some y → Q (spawn st n q f).1 y

theorem inv_spawnOnAllOutputsWith {s : State} (hQ : PInv Q) (spawn : State → String → Int → Flows → State × Option Proxy)
    (hspawn : SpawnInv Q spawn) (g : Graph) (x : Proxy) (h : INV Q s) :
    INV Q (spawnOnAllOutputsWith spawn g s x) ∧ RowsLe s (spawnOnAllOutputsWith spawn g s x) := by
  unfold spawnOnAllOutputsWith
  split
  · exact ⟨h, RowsLe.refl s⟩
  · split
    · exact ⟨h, RowsLe.refl s⟩
    · apply foldl_inv (fun st => INV Q st ∧ RowsLe s st)
      · intro st o hst
        apply foldl_inv (fun st => INV Q st ∧ RowsLe s st)
        · intro st c hst
          split
          · exact hst
          · have hs := hspawn st c.name c.pt x.flows hst.1
            split
            · rename_i st' y heq
              rw [heq] at hs
              simp only at hs
              refine ⟨inv_add hQ hs.1 (hQ.congr _ y _ (by simp) (by simp) (by simp) (hs.2.2 y rfl)), ?_⟩
              exact hst.2.trans (hs.2.1.trans (rowsLe_of_eq (by unfold State.add; split <;> rfl)
                (by unfold State.add; split <;> rfl)))
            · rename_i st' heq
              rw [heq] at hs
              exact ⟨hs.1, hst.2.trans hs.2.1⟩
        · exact hst
      · exact ⟨h, RowsLe.refl s⟩

theorem rowsLe_add (s : State) (x : Proxy) : RowsLe s (s.add x) :=
  rowsLe_of_eq (by unfold State.add; split <;> rfl) (by unfold State.add; split <;> rfl)

theorem rowsLe_put (s : State) (x : Proxy) : RowsLe s (s.put x) := rowsLe_of_eq rfl rfl

theorem inv_spawnTask (hQ : PInv Q) (g : Graph) : ∀ (fuel : Nat) (fw : Bool) (s : State) (name : String) (p : Int)
    (F : Flows), INV Q s →
      INV Q (spawnTask g fuel s name p F fw).1 ∧ RowsLe s (spawnTask g fuel s name p F fw).1 ∧
      ∀ y, (spawnTask g fuel s name p F fw).2 = some y → Q (spawnTask g fuel s name p F fw).1 y := by
  intro fuel
  induction fuel with
  | zero =>
    intro fw s name p F h
    unfold spawnTask
    exact ⟨h, RowsLe.refl s, by intro y hy; cases hy⟩
  | succ fuel ih =>
    intro fw s name p F h
    unfold spawnTask
    dsimp only
    split
    · exact ⟨h, RowsLe.refl s, by intro y hy; cases hy⟩
    · split
      · rename_i x0 t _ _
        have hLf := loadHistoricalOutputs_fields g s
          { x0 with flows := F, status := (taskHistory s name p F).2.1.getD Status.waiting,
                    submitNum := (taskHistory s name p F).1, flowWait := fw }
        have hLp := inv_loadHistoricalOutputs hQ g
          { x0 with flows := F, status := (taskHistory s name p F).2.1.getD Status.waiting,
                    submitNum := (taskHistory s name p F).1, flowWait := fw } h
        have hLr := rowsLe_loadHistoricalOutputs g s
          { x0 with flows := F, status := (taskHistory s name p F).2.1.getD Status.waiting,
                    submitNum := (taskHistory s name p F).1, flowWait := fw }
        have hLq := hQ.load g s
          { x0 with flows := F, status := (taskHistory s name p F).2.1.getD Status.waiting,
                    submitNum := (taskHistory s name p F).1, flowWait := fw }
        generalize loadHistoricalOutputs g s
          { x0 with flows := F, status := (taskHistory s name p F).2.1.getD Status.waiting,
                    submitNum := (taskHistory s name p F).1, flowWait := fw } = L at hLf hLp hLr hLq
        split
        · exact ⟨hLp, hLr, by intro y hy; cases hy⟩
        · have hW : INV Q (if (histFinal (taskHistory s name p F).2.1 && (taskHistory s name p F).2.2) = true then
                afterFlowWait (spawnOnAllOutputsWith (fun st n q f => spawnTask g fuel st n q f false) g L.1 L.2) L.2
              else L).1 ∧ RowsLe s (if (histFinal (taskHistory s name p F).2.1 && (taskHistory s name p F).2.2) = true then
                afterFlowWait (spawnOnAllOutputsWith (fun st n q f => spawnTask g fuel st n q f false) g L.1 L.2) L.2
              else L).1 ∧ Q (if (histFinal (taskHistory s name p F).2.1 && (taskHistory s name p F).2.2) = true then
                afterFlowWait (spawnOnAllOutputsWith (fun st n q f => spawnTask g fuel st n q f false) g L.1 L.2) L.2
              else L).1 (if (histFinal (taskHistory s name p F).2.1 && (taskHistory s name p F).2.2) = true then
                afterFlowWait (spawnOnAllOutputsWith (fun st n q f => spawnTask g fuel st n q f false) g L.1 L.2) L.2
              else L).2 := by
            split
            · unfold afterFlowWait
              have hS := inv_spawnOnAllOutputsWith hQ (fun st n q f => spawnTask g fuel st n q f false)
                (fun st n q f hst => ih false st n q f hst) g L.2 hLp
              refine ⟨inv_dbQueue hQ _ _ _ hS.1, hLr.trans (hS.2.trans (rowsLe_dbQueue _ _ _ _)), ?_⟩
              exact hQ.congr _ L.2 _ rfl rfl rfl (hQ.mono _ _ _ (hS.2.trans (rowsLe_dbQueue _ _ _ _)) hLq)
            · exact ⟨hLp, hLr, hLq⟩
          generalize (if (histFinal (taskHistory s name p F).2.1 && (taskHistory s name p F).2.2) = true then
              afterFlowWait (spawnOnAllOutputsWith (fun st n q f => spawnTask g fuel st n q f false) g L.1 L.2) L.2
            else L) = W at hW
          split
          · exact ⟨hW.1, hW.2.1, by intro y hy; cases hy⟩
          · have hF := finishSpawn_ok t W.1 W.2 (taskHistory s name p F).2.1.isNone
            refine ⟨inv_finishSpawn hQ t W.2 _ hW.1, hW.2.1.trans (rowsLe_finishSpawn t W.1 W.2 _), ?_⟩
            intro y hy
            simp only [Option.some.injEq] at hy
            rw [← hy]
            exact hQ.congr _ W.2 _ hF.2.2.1 hF.2.2.2 hF.2.1 (hQ.mono _ _ _ (rowsLe_finishSpawn t W.1 W.2 _) hW.2.2)
      · exact ⟨h, RowsLe.refl s, by intro y hy; cases hy⟩

theorem spawnInv_spawnTask (hQ : PInv Q) (g : Graph) (fuel : Nat) :
    SpawnInv Q (fun st n q f => spawnTask g fuel st n q f false) :=
  fun st n q f hst => inv_spawnTask hQ g fuel false st n q f hst

theorem inv_spawnOnAllOutputs {s : State} (hQ : PInv Q) (g : Graph) (x : Proxy) (h : INV Q s) :
    INV Q (spawnOnAllOutputs g s x) := by
  unfold spawnOnAllOutputs
  exact (inv_spawnOnAllOutputsWith hQ _ (spawnInv_spawnTask hQ g spawnFuel) g x h).1

/-- `mergeFlows` on a pooled proxy (the merged proxy gets its rows inserted) -/
theorem inv_mergeFlows {s : State} (hQ : PInv Q) (g : Graph) (x : Proxy) (f : Flows) (h : INV Q s) :
    INV Q (mergeFlows g s x f) := by
  unfold mergeFlows
  split
  · exact h
  · dsimp only
    -- put, then insert: the proxy is fine after the insert
    have h1 : INV Q (dbInsert (s.put (x.merged f)) (x.merged f)) := by
      refine ⟨?_, ?_⟩
      · have : ND (s.put (x.merged f)) := by unfold ND; rw [keys_put]; exact h.1
        exact this
      · intro y hy
        have hy' : y ∈ (s.put (x.merged f)).pool := hy
        unfold State.put at hy'
        simp only [List.mem_map] at hy'
        obtain ⟨z, hz, rfl⟩ := hy'
        split
        · exact hQ.ins _ _
        · exact hQ.mono _ _ _ ((rowsLe_put s _).trans (rowsLe_dbInsert _ _)) (h.2 z hz)
    have hq : Q (dbInsert (s.put (x.merged f)) (x.merged f)) (x.merged f) := hQ.ins _ _
    generalize dbInsert (s.put (x.merged f)) (x.merged f) = s1 at h1 hq
    split
    · exact inv_put hQ h1 (hQ.congr _ (x.merged f) _ (by simp [queueTask]) (by simp [queueTask]) (by simp [queueTask]) hq)
    · split
      · exact inv_spawnOnAllOutputs hQ g _ (inv_put hQ h1 (hQ.congr _ (x.merged f) _ rfl rfl rfl hq))
      · exact h1

theorem inv_spawnAndAdd {s : State} (hQ : PInv Q) (g : Graph) (name : String) (p : Int) (F : Flows) (h : INV Q s) :
    INV Q (spawnAndAdd g s name p F) := by
  unfold spawnAndAdd
  split
  · exact inv_mergeFlows hQ g _ F h
  · have hs := inv_spawnTask hQ g spawnFuel false s name p F h
    split
    · rename_i heq; rw [heq] at hs; exact inv_add hQ hs.1 (hs.2.2 _ rfl)
    · rename_i heq; rw [heq] at hs; exact hs.1

theorem inv_spawnNextParentless {s : State} (hQ : PInv Q) (g : Graph) (x : Proxy) (h : INV Q s) :
    INV Q (spawnNextParentless g s x) := by
  unfold spawnNextParentless
  split
  · exact h
  · split
    · exact inv_spawnAndAdd hQ g _ _ _ h
    · exact h

/-! ### holds, removal, spawn-on-output -/

theorem relY_fields (x : Proxy) :
    (if (!(x.reset (held := some false)).runahead && (x.reset (held := some false)).isReadyToRun) = true
      then (x.reset (held := some false)).reset (queued := some true) else x.reset (held := some false)).pt = x.pt ∧
    (if (!(x.reset (held := some false)).runahead && (x.reset (held := some false)).isReadyToRun) = true
      then (x.reset (held := some false)).reset (queued := some true) else x.reset (held := some false)).name = x.name ∧
    (if (!(x.reset (held := some false)).runahead && (x.reset (held := some false)).isReadyToRun) = true
      then (x.reset (held := some false)).reset (queued := some true) else x.reset (held := some false)).flows = x.flows := by
  split <;> simp

theorem inv_releaseHeldActive {s : State} (hQ : PInv Q) (x : Proxy) (h : INV Q s) (hx : Q s x) :
    INV Q (releaseHeldActive s x) := by
  unfold releaseHeldActive
  dsimp only
  split
  · exact inv_of_eq hQ (inv_put hQ h (hQ.congr s x _ (relY_fields x).1 (relY_fields x).2.1 (relY_fields x).2.2 hx))
      rfl rfl rfl
  · exact inv_of_eq hQ h rfl rfl rfl

theorem put_pool_of_none (s : State) (z : Proxy) (hg : s.get? z.pt z.name = none) : (s.put z).pool = s.pool := by
  unfold State.put
  simp only
  have : ∀ y ∈ s.pool, (if (y.pt == z.pt && y.name == z.name) = true then z else y) = y := by
    intro y hy
    split
    · rename_i hc
      exfalso
      unfold State.get? at hg
      have := List.find?_eq_none.mp hg y hy
      exact this hc
    · rfl
  conv => rhs; rw [← List.map_id s.pool]
  exact List.map_congr_left this

/-- `releaseHeldActive` of an object that need not be pooled (a transient object): when no pooled proxy has its
key the `put` is a no-op; else the pooled proxy of that key must carry the same flows -/
theorem inv_releaseHeldActive' {s : State} (hQ : PInv Q) (x : Proxy) (h : INV Q s)
    (hx : ∀ y, s.get? x.pt x.name = some y → y.flows = x.flows) : INV Q (releaseHeldActive s x) := by
  cases hg : s.get? x.pt x.name with
  | some y =>
    have hk := get?_key hg
    exact inv_releaseHeldActive hQ x h (hQ.congr s y x hk.1.symm hk.2.symm (hx y hg).symm (q_of_get? h hg))
  | none =>
    unfold releaseHeldActive
    dsimp only
    split
    · refine inv_of_eq hQ h ?_ rfl rfl
      apply put_pool_of_none
      rw [(relY_fields x).1, (relY_fields x).2.1]
      exact hg
    · exact inv_of_eq hQ h rfl rfl rfl

theorem inv_remove {s : State} (hQ : PInv Q) (g : Graph) (x : Proxy) (h : INV Q s)
    (hx : ∀ y, s.get? x.pt x.name = some y → y.flows = x.flows) : INV Q (remove g s x) := by
  unfold remove
  dsimp only
  have h1 := inv_releaseHeldActive' hQ x h hx
  generalize releaseHeldActive s x = s1 at h1
  generalize (s1.get? x.pt x.name).getD x = x1
  have h2 : INV Q (if (!x1.flows.isEmpty && x1.runahead) = true then spawnNextParentless g s1 x1 else s1) := by
    split
    · exact inv_spawnNextParentless hQ g x1 h1
    · exact h1
  generalize (if (!x1.flows.isEmpty && x1.runahead) = true then spawnNextParentless g s1 x1 else s1) = s2 at h2
  split
  · apply inv_flushDb hQ
    apply inv_dbQueue hQ
    exact inv_filter hQ h2 (fun y => !(y.pt == x1.pt && y.name == x1.name)) rfl (rowsLe_of_eq rfl rfl)
  · exact h2

/-- the object `lookup` returns is the pooled proxy of its key whenever that key is pooled -/
theorem lookup_cur {s : State} {p : Int} {n : String} {x : Proxy} {tr : Bool} (hl : lookup s p n = some (x, tr)) :
    ∀ y, s.get? x.pt x.name = some y → y.flows = x.flows := by
  intro y hy
  unfold lookup at hl
  split at hl
  · rename_i x' hx'
    simp only [Option.some.injEq, Prod.mk.injEq] at hl
    have hk := get?_key hx'
    rw [← hl.1, hk.1, hk.2, hx'] at hy
    simp only [Option.some.injEq] at hy
    rw [← hy, hl.1]
  · rename_i hnone
    cases hg : (s.ghosts.find? fun x => x.pt == p && x.name == n) with
    | none => rw [hg] at hl; cases hl
    | some v =>
      rw [hg] at hl
      simp only [Option.map_some, Option.some.injEq, Prod.mk.injEq] at hl
      have := List.find?_some hg
      simp only [Bool.and_eq_true, beq_iff_eq] at this
      rw [← hl.1, this.1, this.2] at hy
      rw [hnone] at hy
      cases hy

theorem get?_cur {s : State} {p : Int} {n : String} {x : Proxy} (hx : s.get? p n = some x) :
    ∀ y, s.get? x.pt x.name = some y → y.flows = x.flows := by
  intro y hy
  have hk := get?_key hx
  rw [hk.1, hk.2, hx] at hy
  simp only [Option.some.injEq] at hy
  rw [hy]

theorem inv_removeIfComplete {s : State} (hQ : PInv Q) (g : Graph) (x : Proxy) (h : INV Q s)
    (hx : ∀ y, s.get? x.pt x.name = some y → y.flows = x.flows) : INV Q (removeIfComplete g s x) := by
  unfold removeIfComplete
  split
  · exact h
  · dsimp only
    have h1 : INV Q (if (s.stopTask == some (x.pt, x.name)) = true then { s with stopTaskFinished := true } else s) ∧
        ∀ y, (if (s.stopTask == some (x.pt, x.name)) = true then { s with stopTaskFinished := true } else s).get? x.pt x.name
          = some y → y.flows = x.flows := by
      split
      · exact ⟨inv_of_eq hQ h rfl rfl rfl, hx⟩
      · exact ⟨h, hx⟩
    generalize (if (s.stopTask == some (x.pt, x.name)) = true then { s with stopTaskFinished := true } else s) = s1 at h1
    split
    · exact h1.1
    · split
      · exact inv_remove hQ g x h1.1 h1.2
      · exact h1.1

theorem inv_recordAbs {st : State} (hQ : PInv Q) (atom : Atom) (b : Bool) (h : INV Q st) : INV Q (recordAbs st atom b) := by
  unfold recordAbs
  dsimp only
  have h' : INV Q { st with absDone := st.absDone ++ [atom] } := inv_of_eq hQ h rfl rfl rfl
  split
  · split
    · exact inv_flushDb hQ h'
    · exact inv_flushDb hQ h
  · split
    · exact h'
    · exact h

theorem inv_findOrSpawnChild {st : State} (hQ : PInv Q) (g : Graph) (p : Int) (n : String) (pf : Flows) (c : Child)
    (h : INV Q st) :
    INV Q (findOrSpawnChild g st p n pf c).1 ∧ ∀ y, (findOrSpawnChild g st p n pf c).2 = some y →
      Q (findOrSpawnChild g st p n pf c).1 y := by
  unfold findOrSpawnChild
  split
  · rename_i y0 hy0
    dsimp only
    have h1 : INV Q (if (c.pt == p && c.name == n) = true then st else mergeFlows g st y0 pf) := by
      split
      · exact h
      · exact inv_mergeFlows hQ g y0 pf h
    exact ⟨h1, fun y hy => q_of_get? h1 hy⟩
  · split
    · exact ⟨h, by intro y hy; cases hy⟩
    · have := inv_spawnTask hQ g spawnFuel false st c.name c.pt pf h
      exact ⟨this.1, this.2.2⟩

theorem inv_satisfyTargets {acc : State × List (Int × String)} (hQ : PInv Q) (atom : Atom) (targets : List (Int × String))
    (h : INV Q acc.1) : INV Q (satisfyTargets atom targets acc).1 := by
  unfold satisfyTargets
  apply foldl_inv (fun (a : State × List (Int × String)) => INV Q a.1)
  · intro a k ha
    split
    · exact ha
    · rename_i z hz
      have hk := get?_key hz
      exact inv_put hQ ha (hQ.congr a.1 z _ rfl rfl rfl (q_of_get? ha hz))
  · exact h

theorem inv_spawnChild {acc : State × List (Int × String)} (hQ : PInv Q) (g : Graph) (p : Int) (n out : String) (c : Child)
    (h : INV Q acc.1) : INV Q (spawnChild g p n out acc c).1 := by
  unfold spawnChild
  dsimp only
  generalize parentFlows acc.1 p n = pf
  have h0 := inv_recordAbs hQ ⟨p, n, out⟩ c.isAbs h
  generalize recordAbs acc.1 ⟨p, n, out⟩ c.isAbs = st0 at h0
  have hR := inv_findOrSpawnChild hQ g p n pf c h0
  generalize findOrSpawnChild g st0 p n pf c = R at hR
  split
  · exact hR.1
  · rename_i y hy
    apply inv_satisfyTargets hQ
    dsimp only
    split
    · exact hR.1
    · exact inv_add hQ hR.1 (hQ.congr _ y _ rfl rfl rfl (hR.2 y hy))

theorem inv_removeSuicides {s : State} (hQ : PInv Q) (g : Graph) (ks : List (Int × String)) (h : INV Q s) :
    INV Q (removeSuicides g s ks) := by
  unfold removeSuicides
  apply foldl_inv (INV Q)
  · intro st k hst
    split
    · rename_i z hz
      exact inv_remove hQ g z hst (get?_cur hz)
    · exact hst
  · exact h

theorem inv_spawnOnOutput {s : State} (hQ : PInv Q) (g : Graph) (p : Int) (n out : String) (h : INV Q s) :
    INV Q (spawnOnOutput g s p n out) := by
  unfold spawnOnOutput
  split
  · exact h
  · rename_i x _ hl
    split
    · exact inv_removeIfComplete hQ g x h (lookup_cur hl)
    · dsimp only
      have hR : INV Q (List.foldl (spawnChild g p n out) (s, []) (childrenIfFlows g x out)).1 := by
        apply foldl_inv (fun (a : State × List (Int × String)) => INV Q a.1)
        · intro a c ha; exact inv_spawnChild hQ g p n out c ha
        · exact h
      generalize (List.foldl (spawnChild g p n out) (s, []) (childrenIfFlows g x out)) = R at hR
      have h3 := inv_removeSuicides hQ g R.2 hR
      generalize removeSuicides g R.1 R.2 = s3 at h3
      have h4 : INV Q (if R.2.isEmpty = true then s3 else flushDb s3) := by
        split
        · exact h3
        · exact inv_flushDb hQ h3
      generalize (if R.2.isEmpty = true then s3 else flushDb s3) = s4 at h4
      split
      · rename_i x' _ hl'
        exact inv_removeIfComplete hQ g x' h4 (lookup_cur hl')
      · exact h4

theorem inv_spawnChildren {s : State} (hQ : PInv Q) (g : Graph) (p : Int) (n out : String) (tr forced : Bool)
    (h : INV Q s) : INV Q (spawnChildren g s p n out tr forced) := by
  unfold spawnChildren
  dsimp only
  have h1 : ∀ s1, (s1 = (match lookup s p n with | some (x, _) => dbUpdateOutputs g s x | none => s)) → INV Q s1 := by
    intro s1 he; rw [he]
    split
    · exact inv_dbQueue hQ _ _ _ h
    · exact h
  split
  · exact h1 _ rfl
  · exact inv_spawnOnOutput hQ g p n out (h1 _ rfl)

end

end CylcModel.Sched3Set
