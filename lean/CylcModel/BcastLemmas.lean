/-
Helper lemmas for `CylcModel.Bcast` (property C22).
-/
import CylcModel.Bcast

namespace CylcModel.Bcast

variable {κ : Type} [DecidableEq κ]

/-- the keys of the dictionary are distinct (as in any Python dict) -/
def NodupKeys (s : AList κ) : Prop := (s.map (·.1)).Nodup

instance (s : AList κ) : Decidable (NodupKeys s) := by unfold NodupKeys; infer_instance

theorem lookup_eq_none_of_not_mem {s : AList κ} {q : κ} (h : q ∉ s.map (·.1)) : lookup s q = none := by
  induction s with
  | nil => rfl
  | cons e r ih =>
    obtain ⟨k, v⟩ := e
    simp only [List.map_cons, List.mem_cons, not_or] at h
    simp only [lookup]
    rw [if_neg (fun hk => h.1 hk.symm)]
    exact ih h.2

theorem lookup_upsert (s : AList κ) (k q : κ) (v : String) :
    lookup (upsert s k v) q = if k = q then some v else lookup s q := by
  induction s with
  | nil => simp [upsert, lookup]
  | cons e r ih =>
    obtain ⟨k', v'⟩ := e
    simp only [upsert]
    by_cases hk : k' = k
    · subst hk
      simp only [if_true, lookup]
      by_cases hq : k' = q <;> simp [hq]
    · simp only [hk, if_false, lookup, ih]
      by_cases hq : k' = q
      · subst hq
        simp [hk, Ne.symm hk]
      · simp [hq]

theorem keys_upsert (s : AList κ) (k : κ) (v : String) :
    ∀ x, x ∈ (upsert s k v).map (·.1) ↔ x = k ∨ x ∈ s.map (·.1) := by
  induction s with
  | nil => intro x; simp [upsert]
  | cons e r ih =>
    obtain ⟨k', v'⟩ := e
    intro x
    simp only [upsert]
    by_cases hk : k' = k
    · subst hk; simp
    · simp only [hk, if_false, List.map_cons, List.mem_cons, ih x]
      constructor
      · rintro (h | h | h)
        · exact Or.inr (Or.inl h)
        · exact Or.inl h
        · exact Or.inr (Or.inr h)
      · rintro (h | h | h)
        · exact Or.inr (Or.inl h)
        · exact Or.inl h
        · exact Or.inr (Or.inr h)

theorem nodup_upsert {s : AList κ} (h : NodupKeys s) (k : κ) (v : String) : NodupKeys (upsert s k v) := by
  unfold NodupKeys at *
  induction s with
  | nil => simp [upsert]
  | cons e r ih =>
    obtain ⟨k', v'⟩ := e
    simp only [List.map_cons, List.nodup_cons] at h
    simp only [upsert]
    by_cases hk : k' = k
    · subst hk
      simpa using h
    · simp only [hk, if_false, List.map_cons, List.nodup_cons]
      refine ⟨?_, ih h.2⟩
      intro hm
      rcases (keys_upsert r k v k').1 hm with h1 | h1
      · exact hk h1
      · exact h.1 h1

theorem nodup_upsertAll (kvs : List (κ × String)) : ∀ {s : AList κ}, NodupKeys s → NodupKeys (upsertAll s kvs) := by
  induction kvs with
  | nil => intro s h; exact h
  | cons e r ih =>
    intro s h
    simp only [upsertAll, List.foldl_cons]
    exact ih (nodup_upsert h e.1 e.2)

/-- setting the items of a dictionary `l` (distinct keys): `l` wins, the rest stays -/
theorem lookup_upsertAll (l : AList κ) (hl : NodupKeys l) : ∀ (acc : AList κ) (q : κ),
    lookup (upsertAll acc l) q = (lookup l q).orElse fun _ => lookup acc q := by
  induction l with
  | nil => intro acc q; simp [upsertAll, lookup]
  | cons e r ih =>
    obtain ⟨k, v⟩ := e
    intro acc q
    unfold NodupKeys at hl
    simp only [List.map_cons, List.nodup_cons] at hl
    have := ih hl.2 (upsert acc k v) q
    simp only [upsertAll, List.foldl_cons] at this ⊢
    rw [this, lookup_upsert]
    simp only [lookup]
    by_cases hk : k = q
    · subst hk
      rw [lookup_eq_none_of_not_mem hl.1]
      simp
    · simp [hk]

theorem lookup_filter_key (p : κ → Bool) (s : AList κ) (q : κ) :
    lookup (s.filter fun e => p e.1) q = if p q then lookup s q else none := by
  induction s with
  | nil => simp [lookup]
  | cons e r ih =>
    obtain ⟨k, v⟩ := e
    simp only [List.filter_cons]
    by_cases hp : p k = true
    · simp only [hp, if_true, lookup, ih]
      by_cases hk : k = q
      · subst hk; simp [hp]
      · simp [hk]
    · simp only [hp, Bool.false_eq_true, if_false, ih, lookup]
      by_cases hk : k = q
      · subst hk; simp [hp]
      · simp [hk]

/-! ### get -/

theorem lookup_entriesOf (st : Store) (c ns : String) (path : Path) :
    lookup (entriesOf st c ns) path = lookup st ⟨c, ns, path⟩ := by
  induction st with
  | nil => rfl
  | cons e r ih =>
    obtain ⟨k, v⟩ := e
    simp only [entriesOf, List.filterMap_cons] at ih ⊢
    by_cases h : k.point = c ∧ k.ns = ns
    · simp only [h, and_self, if_true, lookup]
      rw [ih]
      obtain ⟨kp, kn, kpath⟩ := k
      simp only at h
      obtain ⟨rfl, rfl⟩ := h
      by_cases hp : kpath = path
      · subst hp; simp
      · have : ¬ ((⟨kp, kn, kpath⟩ : Key) = ⟨kp, kn, path⟩) := by
          intro heq; injection heq with _ _ h3; exact hp h3
        simp [hp, this]
    · simp only [h, if_false, lookup]
      rw [ih]
      have : ¬ (k = ⟨c, ns, path⟩) := by
        intro heq; subst heq; exact h ⟨rfl, rfl⟩
      simp [this]

theorem keys_entriesOf (st : Store) (c ns : String) (p : Path) :
    p ∈ (entriesOf st c ns).map (·.1) ↔ (⟨c, ns, p⟩ : Key) ∈ st.map (·.1) := by
  induction st with
  | nil => simp [entriesOf]
  | cons e r ih =>
    obtain ⟨k, v⟩ := e
    simp only [entriesOf, List.filterMap_cons] at ih ⊢
    by_cases h : k.point = c ∧ k.ns = ns
    · simp only [h, and_self, if_true, List.map_cons, List.mem_cons, ih]
      obtain ⟨kp, kn, kpath⟩ := k
      simp only at h
      obtain ⟨rfl, rfl⟩ := h
      constructor
      · rintro (h1 | h1)
        · left; rw [h1]
        · right; exact h1
      · rintro (h1 | h1)
        · left; injection h1 with _ _ h3
        · right; exact h1
    · simp only [h, if_false, List.map_cons, List.mem_cons, ih]
      constructor
      · intro h1; exact Or.inr h1
      · rintro (h1 | h1)
        · exfalso; apply h; rw [← h1]; exact ⟨rfl, rfl⟩
        · exact h1

theorem nodup_entriesOf {st : Store} (h : NodupKeys st) (c ns : String) : NodupKeys (entriesOf st c ns) := by
  unfold NodupKeys at *
  induction st with
  | nil => simp [entriesOf]
  | cons e r ih =>
    obtain ⟨k, v⟩ := e
    simp only [List.map_cons, List.nodup_cons] at h
    have ihr := ih h.2
    simp only [entriesOf, List.filterMap_cons] at ihr ⊢
    by_cases hk : k.point = c ∧ k.ns = ns
    · simp only [hk, and_self, if_true, List.map_cons, List.nodup_cons]
      refine ⟨?_, ihr⟩
      intro hm
      have := (keys_entriesOf r c ns k.path).1 hm
      apply h.1
      obtain ⟨kp, kn, kpath⟩ := k
      simp only at hk
      obtain ⟨rfl, rfl⟩ := hk
      exact this
    · simp only [hk, if_false]
      exact ihr

/-- the value of the last source that defines it -/
def lastSome {α} : List (Option α) → Option α
  | [] => none
  | x :: r => match lastSome r with
    | some v => some v
    | none => x

theorem lastSome_append_single {α} (l : List (Option α)) (x : Option α) :
    lastSome (l ++ [x]) = match x with | some v => some v | none => lastSome l := by
  induction l with
  | nil => cases x <;> rfl
  | cons a r ih =>
    simp only [List.cons_append, lastSome, ih]
    cases x <;> simp

end CylcModel.Bcast
