/-
Helper lemmas for `CylcModel.Bcast` (property C22).
-/
import CylcModel.Bcast

namespace CylcModel.Bcast

variable {κ : Type} [DecidableEq κ]

/-- the keys of the dictionary are distinct (as in any Python dict) -/
def NodupKeys (s : AList κ) : Prop := (s.map (·.1)).Nodup

instance (s : AList κ) : Decidable (NodupKeys s) := by unfold NodupKeys; infer_instance

theorem lookup_eq_none_of_not_mem {s : AList κ} {q : κ} (h : q ∉ s.map (·.1)) : lookup s q = none := by
  induction s with
  | nil => rfl
  | cons e r ih =>
    obtain ⟨k, v⟩ := e
    simp only [List.map_cons, List.mem_cons, not_or] at h
    simp only [lookup]
    rw [if_neg (fun hk => h.1 hk.symm)]
    exact ih h.2

theorem lookup_upsert (s : AList κ) (k q : κ) (v : String) :
    lookup (upsert s k v) q = if k = q then some v else lookup s q := by
  induction s with
  | nil => simp [upsert, lookup]
  | cons e r ih =>
    obtain ⟨k', v'⟩ := e
    simp only [upsert]
    by_cases hk : k' = k
    · subst hk
      simp only [if_true, lookup]
      by_cases hq : k' = q <;> simp [hq]
    · simp only [hk, if_false, lookup, ih]
      by_cases hq : k' = q
      · subst hq
        simp [hk, Ne.symm hk]
      · simp [hq]

theorem keys_upsert (s : AList κ) (k : κ) (v : String) :
    ∀ x, x ∈ (upsert s k v).map (·.1) ↔ x = k ∨ x ∈ s.map (·.1) := by
  induction s with
  | nil => intro x; simp [upsert]
  | cons e r ih =>
    obtain ⟨k', v'⟩ := e
    intro x
    simp only [upsert]
    by_cases hk : k' = k
    · subst hk; simp
    · simp only [hk, if_false, List.map_cons, List.mem_cons, ih x]
      constructor
      · rintro (h | h | h)
        · exact Or.inr (Or.inl h)
        · exact Or.inl h
        · exact Or.inr (Or.inr h)
      · rintro (h | h | h)
        · exact Or.inr (Or.inl h)
        · exact Or.inl h
        · exact Or.inr (Or.inr h)

theorem nodup_upsert {s : AList κ} (h : NodupKeys s) (k : κ) (v : String) : NodupKeys (upsert s k v) := by
  unfold NodupKeys at *
  induction s with
  | nil => simp [upsert]
  | cons e r ih =>
    obtain ⟨k', v'⟩ := e
    simp only [List.map_cons, List.nodup_cons] at h
    simp only [upsert]
    by_cases hk : k' = k
    · subst hk
      simpa using h
    · simp only [hk, if_false, List.map_cons, List.nodup_cons]
      refine ⟨?_, ih h.2⟩
      intro hm
      rcases (keys_upsert r k v k').1 hm with h1 | h1
      · exact hk h1
      · exact h.1 h1

theorem nodup_upsertAll (kvs : List (κ × String)) : ∀ {s : AList κ}, NodupKeys s → NodupKeys (upsertAll s kvs) := by
  induction kvs with
  | nil => intro s h; exact h
  | cons e r ih =>
    intro s h
    simp only [upsertAll, List.foldl_cons]
    exact ih (nodup_upsert h e.1 e.2)

/-- setting the items of a dictionary `l` (distinct keys): `l` wins, the rest stays -/
theorem lookup_upsertAll (l : AList κ) (hl : NodupKeys l) : ∀ (acc : AList κ) (q : κ),
    lookup (upsertAll acc l) q = (lookup l q).orElse fun _ => lookup acc q := by
  induction l with
  | nil => intro acc q; simp [upsertAll, lookup]
  | cons e r ih =>
    obtain ⟨k, v⟩ := e
    intro acc q
    unfold NodupKeys at hl
    simp only [List.map_cons, List.nodup_cons] at hl
    have := ih hl.2 (upsert acc k v) q
    simp only [upsertAll, List.foldl_cons] at this ⊢
    rw [this, lookup_upsert]
    simp only [lookup]
    by_cases hk : k = q
    · subst hk
      rw [lookup_eq_none_of_not_mem hl.1]
      simp
    · simp [hk]

theorem lookup_filter_key (p : κ → Bool) (s : AList κ) (q : κ) :
    lookup (s.filter fun e => p e.1) q = if p q then lookup s q else none := by
  induction s with
  | nil => simp [lookup]
  | cons e r ih =>
    obtain ⟨k, v⟩ := e
    simp only [List.filter_cons]
    by_cases hp : p k = true
    · simp only [hp, if_true, lookup, ih]
      by_cases hk : k = q
      · subst hk; simp [hp]
      · simp [hk]
    · simp only [hp, Bool.false_eq_true, if_false, ih, lookup]
      by_cases hk : k = q
      · subst hk; simp [hp]
      · simp [hk]

/-! ### get -/

theorem lookup_entriesOf (st : Store) (c ns : String) (path : Path) :
    lookup (entriesOf st c ns) path = lookup st ⟨c, ns, path⟩ := by
  induction st with
  | nil => rfl
  | cons e r ih =>
    obtain ⟨k, v⟩ := e
    simp only [entriesOf, List.filterMap_cons] at ih ⊢
    by_cases h : k.point = c ∧ k.ns = ns
    · simp only [h, and_self, if_true, lookup]
      rw [ih]
      obtain ⟨kp, kn, kpath⟩ := k
      simp only at h
      obtain ⟨rfl, rfl⟩ := h
      by_cases hp : kpath = path
      · subst hp; simp
      · have : ¬ ((⟨kp, kn, kpath⟩ : Key) = ⟨kp, kn, path⟩) := by
          intro heq; injection heq with _ _ h3; exact hp h3
        simp [hp, this]
    · simp only [h, if_false, lookup]
      rw [ih]
      have : ¬ (k = ⟨c, ns, path⟩) := by
        intro heq; subst heq; exact h ⟨rfl, rfl⟩
      simp [this]

theorem keys_entriesOf (st : Store) (c ns : String) (p : Path) :
    p ∈ (entriesOf st c ns).map (·.1) ↔ (⟨c, ns, p⟩ : Key) ∈ st.map (·.1) := by
  induction st with
  | nil => simp [entriesOf]
  | cons e r ih =>
    obtain ⟨k, v⟩ := e
    simp only [entriesOf, List.filterMap_cons] at ih ⊢
    by_cases h : k.point = c ∧ k.ns = ns
    · simp only [h, and_self, if_true, List.map_cons, List.mem_cons, ih]
      obtain ⟨kp, kn, kpath⟩ := k
      simp only at h
      obtain ⟨rfl, rfl⟩ := h
      constructor
      · rintro (h1 | h1)
        · left; rw [h1]
        · right; exact h1
      · rintro (h1 | h1)
        · left; injection h1 with _ _ h3
        · right; exact h1
    · simp only [h, if_false, List.map_cons, List.mem_cons, ih]
      constructor
      · intro h1; exact Or.inr h1
      · rintro (h1 | h1)
        · exfalso; apply h; rw [← h1]; exact ⟨rfl, rfl⟩
        · exact h1

theorem nodup_entriesOf {st : Store} (h : NodupKeys st) (c ns : String) : NodupKeys (entriesOf st c ns) := by
  unfold NodupKeys at *
  induction st with
  | nil => simp [entriesOf]
  | cons e r ih =>
    obtain ⟨k, v⟩ := e
    simp only [List.map_cons, List.nodup_cons] at h
    have ihr := ih h.2
    simp only [entriesOf, List.filterMap_cons] at ihr ⊢
    by_cases hk : k.point = c ∧ k.ns = ns
    · simp only [hk, and_self, if_true, List.map_cons, List.nodup_cons]
      refine ⟨?_, ihr⟩
      intro hm
      have := (keys_entriesOf r c ns k.path).1 hm
      apply h.1
      obtain ⟨kp, kn, kpath⟩ := k
      simp only at hk
      obtain ⟨rfl, rfl⟩ := hk
      exact this
    · simp only [hk, if_false]
      exact ihr

/-- the value of the last source that defines it -/
def lastSome {α} : List (Option α) → Option α
  | [] => none
  | x :: r => match lastSome r with
    | some v => some v
    | none => x

theorem lastSome_append_single {α} (l : List (Option α)) (x : Option α) :
    lastSome (l ++ [x]) = match x with | some v => some v | none => lastSome l := by
  induction l with
  | nil => cases x <;> rfl
  | cons a r ih =>
    simp only [List.cons_append, lastSome, ih]
    cases x <;> simp

/-- the fold of `get_broadcast`: distinct keys are kept, the last defining source wins -/
theorem get_fold (st : Store) (hst : NodupKeys st) (path : Path) :
    ∀ (srcs : List (String × String)) (acc : AList Path), NodupKeys acc →
      NodupKeys (srcs.foldl (fun acc (cn : String × String) => upsertAll acc (entriesOf st cn.1 cn.2)) acc) ∧
      lookup (srcs.foldl (fun acc (cn : String × String) => upsertAll acc (entriesOf st cn.1 cn.2)) acc) path =
        match lastSome (srcs.map fun cn => lookup st ⟨cn.1, cn.2, path⟩) with
        | some v => some v
        | none => lookup acc path := by
  intro srcs
  induction srcs with
  | nil => intro acc h; exact ⟨h, by simp [lastSome]⟩
  | cons cn r ih =>
    intro acc hacc
    simp only [List.foldl_cons, List.map_cons, lastSome]
    have hn := nodup_upsertAll (entriesOf st cn.1 cn.2) hacc
    obtain ⟨h1, h2⟩ := ih (upsertAll acc (entriesOf st cn.1 cn.2)) hn
    refine ⟨h1, ?_⟩
    rw [h2, lookup_upsertAll _ (nodup_entriesOf hst cn.1 cn.2), lookup_entriesOf]
    cases lastSome (r.map fun cn => lookup st ⟨cn.1, cn.2, path⟩) with
    | some v => rfl
    | none => cases lookup st ⟨cn.1, cn.2, path⟩ <;> rfl

/-! ### the `key` column -/

/-- no `[` or `]` in the text -/
def NoBr (s : String) : Prop := ∀ ch ∈ s.toList, ch ≠ '[' ∧ ch ≠ ']'

/-- a key path the `key` column can represent: not empty, no brackets in any component, section
names not empty -/
def SafePath : Path → Prop
  | [] => False
  | [k] => NoBr k
  | s :: r => NoBr s ∧ s ≠ "" ∧ SafePath r

instance (s : String) : Decidable (NoBr s) := by unfold NoBr; infer_instance

instance decSafePath : (p : Path) → Decidable (SafePath p)
  | [] => isFalse (fun h => h)
  | [k] => (inferInstance : Decidable (NoBr k))
  | s :: t :: r =>
    have := decSafePath (t :: r)
    (inferInstance : Decidable (NoBr s ∧ s ≠ "" ∧ SafePath (t :: r)))

theorem findSections_noOpen : ∀ (l : List Char), (∀ ch ∈ l, ch ≠ '[') → findSections l none = [] := by
  intro l
  induction l with
  | nil => intro _; rfl
  | cons c r ih =>
    intro h
    have hc : c ≠ '[' := h c (by simp)
    simp only [findSections, hc, if_false]
    exact ih (fun ch hch => h ch (by simp [hch]))

/-- inside a group: the body grows until the closing bracket -/
theorem findSections_inside : ∀ (body : List Char) (acc rest : List Char),
    (∀ ch ∈ body, ch ≠ ']') →
    findSections (body ++ ']' :: rest) (some acc) =
      if (body.reverse ++ acc).isEmpty then findSections rest none
      else String.ofList (body.reverse ++ acc).reverse :: findSections rest none := by
  intro body
  induction body with
  | nil => intro acc rest _; simp [findSections]
  | cons c r ih =>
    intro acc rest h
    have hc : c ≠ ']' := h c (by simp)
    simp only [List.cons_append, findSections, hc, if_false]
    rw [ih (c :: acc) rest (fun ch hch => h ch (by simp [hch]))]
    simp

theorem takeWhile_all {α} (p : α → Bool) : ∀ (l : List α), (∀ x ∈ l, p x = true) → l.takeWhile p = l := by
  intro l
  induction l with
  | nil => intro _; rfl
  | cons a r ih =>
    intro h
    simp only [List.takeWhile_cons, h a (by simp), if_true]
    rw [ih (fun x hx => h x (by simp [hx]))]

theorem takeWhile_stop {α} (p : α → Bool) : ∀ (l : List α) (b : α) (r : List α),
    (∀ x ∈ l, p x = true) → p b = false → (l ++ b :: r).takeWhile p = l := by
  intro l
  induction l with
  | nil => intro b r _ hb; simp [List.takeWhile_cons, hb]
  | cons a t ih =>
    intro b r h hb
    simp only [List.cons_append, List.takeWhile_cons, h a (by simp), if_true]
    rw [ih b r (fun x hx => h x (by simp [hx])) hb]

theorem afterLast_noClose (l : List Char) (h : ∀ ch ∈ l, ch ≠ ']') : afterLastBracket l = l := by
  unfold afterLastBracket
  rw [takeWhile_all, List.reverse_reverse]
  intro ch hch
  simpa using h ch (by simpa using hch)

theorem afterLast_append (a rest : List Char) (h : ∀ ch ∈ rest, ch ≠ ']') :
    afterLastBracket (a ++ ']' :: rest) = rest := by
  unfold afterLastBracket
  have : (a ++ ']' :: rest).reverse = rest.reverse ++ ']' :: a.reverse := by simp
  rw [this, takeWhile_stop, List.reverse_reverse]
  · intro ch hch
    simpa using h ch (by simpa using hch)
  · simp


theorem renderKey_cons2 (s t : String) (r : Path) :
    (renderKey (s :: t :: r)).toList = '[' :: (s.toList ++ ']' :: (renderKey (t :: r)).toList) := by
  simp [renderKey]

/-- what the parser needs from a rendered safe path -/
theorem render_facts : ∀ (p : Path), SafePath p →
    findSections (renderKey p).toList none = p.dropLast ∧
    (∃ pre, (renderKey p).toList = pre ++ (p.getLast?.getD "").toList ∧
        (p.length ≥ 2 → ∃ pre', pre = pre' ++ [']']) ∧ (p.length < 2 → pre = [])) ∧
    NoBr (p.getLast?.getD "") := by
  intro p
  induction p with
  | nil => intro h; exact h.elim
  | cons s r ih =>
    intro h
    cases r with
    | nil =>
      have hs : NoBr s := h
      refine ⟨?_, ⟨[], by simp [renderKey], by simp, by simp⟩, by simpa using hs⟩
      simp only [renderKey, List.dropLast_singleton]
      exact findSections_noOpen _ (fun ch hch => (hs ch hch).1)
    | cons t r' =>
      obtain ⟨hs, hne, hr⟩ : NoBr s ∧ s ≠ "" ∧ SafePath (t :: r') := h
      obtain ⟨ih1, ⟨pre, ih2, ih3, ih4⟩, ih5⟩ := ih hr
      refine ⟨?_, ⟨'[' :: (s.toList ++ ']' :: pre), ?_, ?_, by simp⟩, by simpa using ih5⟩
      · rw [renderKey_cons2]
        simp only [findSections, if_true]
        rw [findSections_inside s.toList [] _ (fun ch hch => (hs ch hch).2)]
        have hsne : s.toList ≠ [] := by
          intro h0
          apply hne
          have := congrArg String.ofList h0
          simpa using this
        simp only [List.append_nil, List.isEmpty_reverse, List.reverse_reverse]
        have : s.toList.isEmpty = false := by
          cases hl : s.toList with
          | nil => exact (hsne hl).elim
          | cons _ _ => rfl
        rw [this]
        simp [ih1, List.dropLast]
      · rw [renderKey_cons2, ih2]
        simp
      · intro _
        by_cases hlen : (t :: r').length ≥ 2
        · obtain ⟨pre', hp⟩ := ih3 hlen
          exact ⟨'[' :: (s.toList ++ ']' :: pre'), by simp [hp]⟩
        · have := ih4 (by omega)
          exact ⟨'[' :: s.toList, by simp [this]⟩


/-- the `key` column round-trips for safe key paths -/
theorem parse_render (p : Path) (h : SafePath p) : parseKey (renderKey p) = p := by
  obtain ⟨h1, ⟨pre, h2, h3, h4⟩, h5⟩ := render_facts p h
  unfold parseKey
  by_cases hlen : p.length ≥ 2
  · obtain ⟨pre', hp⟩ := h3 hlen
    have hcs : (renderKey p).toList = pre' ++ ']' :: (p.getLast?.getD "").toList := by
      rw [h2, hp]; simp
    have hcont : (renderKey p).toList.contains ']' = true := by
      rw [hcs]; simp
    simp only [hcont, if_true, h1]
    rw [hcs, afterLast_append _ _ (fun ch hch => (h5 ch hch).2)]
    simp only [String.ofList_toList]
    cases p with
    | nil => simp at hlen
    | cons a r =>
      have hne : (a :: r) ≠ [] := by simp
      rw [List.getLast?_eq_some_getLast hne]
      simp only [Option.getD_some]
      exact List.dropLast_concat_getLast hne
  · have hpre := h4 (by omega)
    cases p with
    | nil => exact h.elim
    | cons a r =>
      cases r with
      | cons _ _ => simp at hlen
      | nil =>
        have hk : NoBr a := h
        have hcont : (renderKey [a]).toList.contains ']' = false := by
          simp only [renderKey]
          rw [List.contains_eq_any_beq]
          simp only [List.any_eq_false, beq_iff_eq]
          intro ch hch heq
          exact (hk ch hch).2 heq.symm
        simp only [renderKey] at hcont ⊢
        simp only [hcont, Bool.false_eq_true, if_false]


/-! ### persistence -/

def renderK (k : Key) : DbKey := ⟨k.point, k.ns, renderKey k.path⟩
def parseK (d : DbKey) : Key := ⟨d.point, d.ns, parseKey d.key⟩
def SafeKey (k : Key) : Prop := SafePath k.path

theorem parseK_renderK (k : Key) (h : SafeKey k) : parseK (renderK k) = k := by
  obtain ⟨p, n, path⟩ := k
  simp only [parseK, renderK, parse_render path h]

theorem renderK_inj {k k' : Key} (h : SafeKey k) (h' : SafeKey k') (he : renderK k = renderK k') : k = k' := by
  rw [← parseK_renderK k h, ← parseK_renderK k' h', he]

theorem lookup_append (a b : AList κ) (q : κ) : lookup (a ++ b) q = (lookup a q).orElse fun _ => lookup b q := by
  induction a with
  | nil => simp [lookup]
  | cons e r ih =>
    obtain ⟨k, v⟩ := e
    simp only [List.cons_append, lookup, ih]
    by_cases hk : k = q <;> simp [hk]

theorem mem_of_lookup {s : AList κ} {q : κ} {v : String} (h : lookup s q = some v) : (q, v) ∈ s := by
  induction s with
  | nil => simp [lookup] at h
  | cons e r ih =>
    obtain ⟨k, v'⟩ := e
    simp only [lookup] at h
    by_cases hk : k = q
    · subst hk
      simp only [if_true, Option.some.injEq] at h
      subst h
      simp
    · simp only [hk, if_false] at h
      simp [ih h]

theorem lookup_of_mem {s : AList κ} (hn : NodupKeys s) {q : κ} {v : String} (h : (q, v) ∈ s) : lookup s q = some v := by
  induction s with
  | nil => cases h
  | cons e r ih =>
    obtain ⟨k, v'⟩ := e
    unfold NodupKeys at hn
    simp only [List.map_cons, List.nodup_cons] at hn
    simp only [lookup]
    rcases List.mem_cons.1 h with h1 | h1
    · injection h1 with h2 h3
      subst h2; subst h3
      simp
    · have hne : k ≠ q := by
        intro hk; subst hk
        exact hn.1 (List.mem_map.2 ⟨(k, v), h1, rfl⟩)
      simp only [hne, if_false]
      exact ih hn.2 h1

theorem lookup_ext_of_mem {κ' : Type} [DecidableEq κ'] {a : AList κ} {b : AList κ'} (ha : NodupKeys a) (hb : NodupKeys b)
    {q : κ} {q' : κ'} (h : ∀ v, (q, v) ∈ a ↔ (q', v) ∈ b) : lookup a q = lookup b q' := by
  cases h1 : lookup a q with
  | some v =>
    exact (lookup_of_mem hb ((h v).1 (mem_of_lookup h1))).symm
  | none =>
    cases h2 : lookup b q' with
    | none => rfl
    | some v =>
      have := lookup_of_mem ha ((h v).2 (mem_of_lookup h2))
      rw [h1] at this; cases this

/-- what the `broadcast_states` table will hold for key `q` once the pending operations are written:
the last pending insert, else nothing if a delete is pending, else the current row -/
def dbView (db : Db) (q : DbKey) : Option String :=
  (lookup db.inss.reverse q).orElse fun _ => if db.dels.contains q then none else lookup db.rows q

theorem dbView_insert (db : Db) (a : DbKey) (v : String) (q : DbKey) :
    dbView { db with inss := db.inss ++ [(a, v)] } q = if a = q then some v else dbView db q := by
  simp only [dbView, List.reverse_append, List.reverse_cons, List.reverse_nil, List.nil_append,
    List.singleton_append, lookup]
  by_cases h : a = q <;> simp [h]

theorem dbView_clear1 (db : Db) (dk q : DbKey) :
    dbView { db with dels := db.dels ++ [dk], inss := db.inss.filter fun e => e.1 != dk } q =
      if q = dk then none else dbView db q := by
  simp only [dbView]
  have hrev : (db.inss.filter fun e => e.1 != dk).reverse = db.inss.reverse.filter fun e => (fun k => k != dk) e.1 := by
    rw [List.filter_reverse]
  rw [hrev, lookup_filter_key (fun k => k != dk)]
  by_cases h : q = dk
  · subst h
    simp
  · have h' : (q != dk) = true := by simpa using h
    have hc : (db.dels ++ [dk]).contains q = db.dels.contains q := by
      simp [List.contains_eq_any_beq, List.any_append, h]
    simp only [h', if_true, h, if_false, hc]

theorem dbView_recordClear (removed : List (Key × String)) : ∀ (db : Db) (q : DbKey),
    dbView (db.recordClear removed) q = if q ∈ removed.map (fun e => renderK e.1) then none else dbView db q := by
  induction removed with
  | nil => intro db q; simp [Db.recordClear]
  | cons e r ih =>
    intro db q
    have hstep : db.recordClear (e :: r) =
        Db.recordClear { db with dels := db.dels ++ [renderK e.1],
                                 inss := db.inss.filter fun x => x.1 != renderK e.1 } r := by
      obtain ⟨k, v⟩ := e
      simp [Db.recordClear, renderK]
    rw [hstep, ih, dbView_clear1]
    simp only [List.map_cons, List.mem_cons]
    by_cases h1 : q ∈ r.map (fun e => renderK e.1) <;> by_cases h2 : q = renderK e.1 <;> simp [h1, h2]

theorem recordClear_rows (removed : List (Key × String)) : ∀ (db : Db), (db.recordClear removed).rows = db.rows := by
  induction removed with
  | nil => intro db; rfl
  | cons e r ih =>
    intro db
    simp only [Db.recordClear, List.foldl_cons] at ih ⊢
    rw [ih]

theorem lookup_replaceRow (rows : AList DbKey) (k q : DbKey) (v : String) :
    lookup (replaceRow rows k v) q = if k = q then some v else lookup rows q := by
  unfold replaceRow
  rw [lookup_append, lookup_filter_key (fun x => x != k)]
  by_cases h : k = q
  · subst h; simp [lookup]
  · have : (q != k) = true := by simpa using (fun hh => h hh.symm)
    simp [this, h, lookup]

theorem lookup_foldl_replaceRow (inss : List (DbKey × String)) : ∀ (base : AList DbKey) (q : DbKey),
    lookup (inss.foldl (fun acc (e : DbKey × String) => replaceRow acc e.1 e.2) base) q =
      (lookup inss.reverse q).orElse fun _ => lookup base q := by
  induction inss with
  | nil => intro base q; simp [lookup]
  | cons e r ih =>
    intro base q
    obtain ⟨k, v⟩ := e
    simp only [List.foldl_cons, List.reverse_cons]
    rw [ih, lookup_replaceRow, lookup_append]
    simp only [lookup]
    by_cases h : k = q
    · simp [h]
    · simp [h]

theorem lookup_flush (db : Db) (q : DbKey) : lookup db.flush.rows q = dbView db q := by
  unfold Db.flush dbView
  simp only
  have := lookup_foldl_replaceRow db.inss (db.rows.filter fun e => !db.dels.contains e.1) q
  rw [show (db.inss.foldl (fun acc (x : DbKey × String) => match x with | (k, v) => replaceRow acc k v)
        (db.rows.filter fun e => !db.dels.contains e.1)) =
      db.inss.foldl (fun acc (e : DbKey × String) => replaceRow acc e.1 e.2) (db.rows.filter fun e => !db.dels.contains e.1) from rfl]
  rw [this, lookup_filter_key (fun k => !db.dels.contains k)]
  cases db.dels.contains q <;> simp

theorem dbView_flush (db : Db) (q : DbKey) : dbView db.flush q = dbView db q := by
  rw [← lookup_flush db q]
  simp [dbView, Db.flush, lookup]

theorem nodup_replaceRow {rows : AList DbKey} (h : NodupKeys rows) (k : DbKey) (v : String) :
    NodupKeys (replaceRow rows k v) := by
  unfold NodupKeys replaceRow at *
  rw [List.map_append, List.nodup_append]
  refine ⟨?_, by simp, ?_⟩
  · exact List.Nodup.sublist (List.Sublist.map _ List.filter_sublist) h
  · intro a ha b hb
    simp only [List.map_cons, List.map_nil, List.mem_singleton] at hb
    subst hb
    rw [List.mem_map] at ha
    obtain ⟨e, he, rfl⟩ := ha
    have := (List.mem_filter.1 he).2
    simpa using this

theorem nodup_flush {db : Db} (h : NodupKeys db.rows) : NodupKeys db.flush.rows := by
  unfold Db.flush
  simp only
  have hbase : NodupKeys (db.rows.filter fun e => !db.dels.contains e.1) :=
    List.Nodup.sublist (List.Sublist.map _ List.filter_sublist) h
  generalize (db.rows.filter fun e => !db.dels.contains e.1) = base at hbase
  induction db.inss generalizing base with
  | nil => exact hbase
  | cons e r ih =>
    simp only [List.foldl_cons]
    exact ih _ (nodup_replaceRow hbase e.1 e.2)

/-- The database (with its pending operations applied) holds exactly the store, item by item. -/
structure Persist (s : State) : Prop where
  view : ∀ k, SafeKey k → dbView s.db (renderK k) = lookup s.store k
  image : ∀ q, dbView s.db q ≠ none → ∃ k, SafeKey k ∧ q = renderK k
  safe : ∀ k ∈ s.store.map (·.1), SafeKey k
  rowsNodup : NodupKeys s.db.rows
  storeNodup : NodupKeys s.store

theorem persist_init : Persist {} := by
  refine ⟨fun k _ => rfl, fun q h => ?_, fun k h => (by cases h), (by simp [NodupKeys]), (by simp [NodupKeys])⟩
  simp [dbView, lookup] at h

theorem persist_upsertAll (L : List (Key × String)) : ∀ (st : Store) (db : Db),
    (∀ e ∈ L, SafeKey e.1) → Persist ⟨st, db⟩ →
    Persist ⟨upsertAll st L, { db with inss := db.inss ++ L.map fun e => (renderK e.1, e.2) }⟩ := by
  induction L with
  | nil => intro st db _ h; simpa [upsertAll] using h
  | cons e r ih =>
    intro st db hL h
    obtain ⟨k, v⟩ := e
    have hk : SafeKey k := hL (k, v) (by simp)
    have hstep : Persist ⟨upsert st k v, { db with inss := db.inss ++ [(renderK k, v)] }⟩ := by
      refine ⟨?_, ?_, ?_, h.rowsNodup, nodup_upsert h.storeNodup k v⟩
      · intro k' hk'
        show dbView { db with inss := db.inss ++ [(renderK k, v)] } (renderK k') = lookup (upsert st k v) k'
        rw [dbView_insert, lookup_upsert]
        by_cases he : k = k'
        · subst he; simp
        · have : renderK k ≠ renderK k' := fun hh => he (renderK_inj hk hk' hh)
          simp only [this, if_false, he]
          exact h.view k' hk'
      · intro q hq
        have hq' : dbView { db with inss := db.inss ++ [(renderK k, v)] } q ≠ none := hq
        rw [dbView_insert] at hq'
        by_cases he : renderK k = q
        · exact ⟨k, hk, he.symm⟩
        · simp only [he, if_false] at hq'
          exact h.image q hq'
      · intro k' hk'
        rcases (keys_upsert st k v k').1 hk' with h1 | h1
        · rw [h1]; exact hk
        · exact h.safe k' h1
    have := ih (upsert st k v) { db with inss := db.inss ++ [(renderK k, v)] }
      (fun e he => hL e (by simp [he])) hstep
    simpa [upsertAll, List.append_assoc] using this

theorem persist_clear (st : Store) (db : Db) (f : Filter) (h : Persist ⟨st, db⟩) :
    Persist ⟨(clear st f).1, db.recordClear (clear st f).2⟩ := by
  have hsub : ∀ k, k ∈ ((clear st f).1).map (·.1) → k ∈ st.map (·.1) := by
    intro k hk
    simp only [clear, List.mem_map, List.mem_filter] at hk ⊢
    obtain ⟨e, ⟨he, _⟩, rfl⟩ := hk
    exact ⟨e, he, rfl⟩
  refine ⟨?_, ?_, fun k hk => h.safe k (hsub k hk), ?_, ?_⟩
  · intro k hk
    show dbView (db.recordClear (clear st f).2) (renderK k) = lookup (clear st f).1 k
    rw [dbView_recordClear]
    have hl : lookup (clear st f).1 k = if f.hits k then none else lookup st k := by
      have := lookup_filter_key (fun k => !f.hits k) st k
      simp only [clear]
      rw [this]
      cases f.hits k <;> simp
    rw [hl, h.view k hk]
    by_cases hm : renderK k ∈ (clear st f).2.map (fun e => renderK e.1)
    · simp only [hm, if_true]
      obtain ⟨e, he, heq⟩ := List.mem_map.1 hm
      simp only [clear, List.mem_filter] at he
      have hes : SafeKey e.1 := h.safe e.1 (List.mem_map.2 ⟨e, he.1, rfl⟩)
      have : e.1 = k := renderK_inj hes hk heq
      rw [← this, he.2]
      simp
    · simp only [hm, if_false]
      cases hh : f.hits k with
      | false => simp
      | true =>
        simp only [if_true]
        cases hlk : lookup st k with
        | none => rfl
        | some v =>
          exfalso
          apply hm
          have hmem := mem_of_lookup hlk
          exact List.mem_map.2 ⟨(k, v), by simp [clear, List.mem_filter, hmem, hh], rfl⟩
  · intro q hq
    have hq' : dbView (db.recordClear (clear st f).2) q ≠ none := hq
    rw [dbView_recordClear] at hq'
    by_cases hm : q ∈ (clear st f).2.map (fun e => renderK e.1)
    · simp [hm] at hq'
    · simp only [hm, if_false] at hq'
      exact h.image q hq'
  · show NodupKeys (db.recordClear (clear st f).2).rows
    rw [recordClear_rows]; exact h.rowsNodup
  · exact List.Nodup.sublist (List.Sublist.map _ List.filter_sublist) h.storeNodup

theorem persist_flush (st : Store) (db : Db) (h : Persist ⟨st, db⟩) : Persist ⟨st, db.flush⟩ := by
  refine ⟨fun k hk => ?_, fun q hq => ?_, h.safe, nodup_flush h.rowsNodup, h.storeNodup⟩
  · show dbView db.flush (renderK k) = lookup st k
    rw [dbView_flush]; exact h.view k hk
  · have hq' : dbView db.flush q ≠ none := hq
    rw [dbView_flush] at hq'
    exact h.image q hq'

/-! ### put -/

theorem flatMap_congr'' {α β} (f g : α → List β) : ∀ (l : List α), (∀ a ∈ l, f a = g a) → l.flatMap f = l.flatMap g := by
  intro l
  induction l with
  | nil => intro _; rfl
  | cons a r ih =>
    intro h
    simp only [List.flatMap_cons]
    rw [h a (by simp), ih (fun x hx => h x (by simp [hx]))]

theorem foldl_inv {α β} (P : β → Prop) (f : β → α → β) : ∀ (l : List α),
    (∀ b a, a ∈ l → P b → P (f b a)) → ∀ b, P b → P (l.foldl f b) := by
  intro l
  induction l with
  | nil => intro _ b hb; exact hb
  | cons x r ih =>
    intro h b hb
    simp only [List.foldl_cons]
    exact ih (fun b a ha => h b a (by simp [ha])) _ (h b x (by simp) hb)

/-- the items of the modified settings, in order -/
def modEntries (m : List (String × String × Setting)) : List (Key × String) :=
  m.flatMap fun x => x.2.2.map fun e => (⟨x.1, x.2.1, e.1⟩, e.2)

theorem upsertAll_append (s : AList κ) (a b : List (κ × String)) :
    upsertAll s (a ++ b) = upsertAll (upsertAll s a) b := by
  simp [upsertAll, List.foldl_append]

/-- `put_broadcast` sets exactly the items of the settings it reports as modified, in that order -/
theorem put_store (known : List String) (st : Store) (points nss : List String) (settings : List Setting) :
    (put known st points nss settings).store = upsertAll st (modEntries (put known st points nss settings).modified) ∧
    ∀ m ∈ (put known st points nss settings).modified, m.2.2 ∈ settings := by
  unfold put
  apply foldl_inv (fun acc : PutResult => acc.store = upsertAll st (modEntries acc.modified) ∧
      ∀ m ∈ acc.modified, m.2.2 ∈ settings)
  · intro acc setting hset hacc
    apply foldl_inv (fun acc : PutResult => acc.store = upsertAll st (modEntries acc.modified) ∧
      ∀ m ∈ acc.modified, m.2.2 ∈ settings) _ _ _ _ hacc
    intro acc p _ hacc
    cases putPoint p with
    | none =>
      simp only
      refine foldl_inv (fun acc : PutResult => acc.store = upsertAll st (modEntries acc.modified) ∧
        ∀ m ∈ acc.modified, m.2.2 ∈ settings) _ _ ?_ _ ?_
      · intro acc ns _ hacc
        by_cases hk : known.contains ns = true
        · simp only [hk, if_true]; exact hacc
        · simp only [hk, Bool.false_eq_true, if_false]; exact hacc
      · exact hacc
    | some q =>
      simp only
      apply foldl_inv (fun acc : PutResult => acc.store = upsertAll st (modEntries acc.modified) ∧
        ∀ m ∈ acc.modified, m.2.2 ∈ settings) _ _ _ _ hacc
      intro acc ns _ hacc
      by_cases hk : known.contains ns = true
      · simp only [hk, Bool.not_true, Bool.false_eq_true, if_false]
        refine ⟨?_, ?_⟩
        · simp only [modEntries, List.flatMap_append, List.flatMap_cons, List.flatMap_nil, List.append_nil]
          rw [upsertAll_append, hacc.1]
          rfl
        · intro m hm
          rcases List.mem_append.1 hm with h1 | h1
          · exact hacc.2 m h1
          · simp only [List.mem_singleton] at h1
            subst h1; exact hset
      · simp only [hk, Bool.not_false, if_true]; exact hacc
  · exact ⟨by simp [modEntries, upsertAll], by simp⟩

theorem changes_all (m : List (String × String × Setting)) :
    m.flatMap (changes true) = (modEntries m).map fun e => (renderK e.1, e.2) := by
  induction m with
  | nil => rfl
  | cons x r ih =>
    simp only [List.flatMap_cons, modEntries, List.map_append, List.map_map] at ih ⊢
    rw [ih]
    congr 1

/-! ### load -/

theorem keys_upsertAll (L : List (κ × String)) : ∀ (s : AList κ) (x : κ),
    x ∈ (upsertAll s L).map (·.1) ↔ x ∈ s.map (·.1) ∨ x ∈ L.map (·.1) := by
  induction L with
  | nil => intro s x; simp [upsertAll]
  | cons e r ih =>
    intro s x
    simp only [upsertAll, List.foldl_cons] at ih ⊢
    rw [ih, keys_upsert]
    simp only [List.map_cons, List.mem_cons]
    constructor
    · rintro ((h | h) | h)
      · exact Or.inr (Or.inl h)
      · exact Or.inl h
      · exact Or.inr (Or.inr h)
    · rintro (h | h | h)
      · exact Or.inl (Or.inr h)
      · exact Or.inl (Or.inl h)
      · exact Or.inr h

theorem nodup_map_of_inj_on {α β} (f : α → β) : ∀ (l : List α), l.Nodup →
    (∀ a ∈ l, ∀ b ∈ l, f a = f b → a = b) → (l.map f).Nodup := by
  intro l
  induction l with
  | nil => intro _ _; simp
  | cons x r ih =>
    intro hn hinj
    simp only [List.nodup_cons] at hn
    simp only [List.map_cons, List.nodup_cons]
    refine ⟨?_, ih hn.2 (fun a ha b hb => hinj a (by simp [ha]) b (by simp [hb]))⟩
    intro hm
    obtain ⟨y, hy, hxy⟩ := List.mem_map.1 hm
    have := hinj y (by simp [hy]) x (by simp) hxy
    subst this
    exact hn.1 hy

theorem load_eq (rows : AList DbKey) : load rows = upsertAll [] (rows.map fun e => (parseK e.1, e.2)) := by
  unfold load upsertAll
  rw [List.foldl_map]
  rfl

/-- loading a table whose keys are distinct renderings of safe key paths gives back, item by item,
what the table holds -/
theorem load_spec (rows : AList DbKey) (hn : NodupKeys rows)
    (himg : ∀ q ∈ rows.map (·.1), ∃ k, SafeKey k ∧ q = renderK k) :
    (∀ k, SafeKey k → lookup (load rows) k = lookup rows (renderK k)) ∧
    (∀ k ∈ (load rows).map (·.1), SafeKey k) ∧ NodupKeys (load rows) := by
  have hP : NodupKeys (rows.map fun e => (parseK e.1, e.2)) := by
    unfold NodupKeys at *
    rw [List.map_map]
    have : ((fun x : Key × String => x.1) ∘ fun e : DbKey × String => (parseK e.1, e.2)) = parseK ∘ (·.1) := rfl
    rw [this, ← List.map_map]
    apply nodup_map_of_inj_on parseK _ hn
    intro a ha b hb hab
    obtain ⟨ka, hka, rfl⟩ := himg a ha
    obtain ⟨kb, hkb, rfl⟩ := himg b hb
    rw [parseK_renderK ka hka, parseK_renderK kb hkb] at hab
    rw [hab]
  have hkeys : ∀ k ∈ (load rows).map (·.1), SafeKey k := by
    intro k hk
    rw [load_eq, keys_upsertAll] at hk
    rcases hk with h | h
    · cases h
    · rw [List.map_map] at h
      obtain ⟨e, he, rfl⟩ := List.mem_map.1 h
      obtain ⟨k0, hk0, hq⟩ := himg e.1 (List.mem_map.2 ⟨e, he, rfl⟩)
      show SafeKey (parseK e.1)
      rw [hq, parseK_renderK k0 hk0]; exact hk0
  refine ⟨?_, hkeys, ?_⟩
  · intro k hk
    rw [load_eq, lookup_upsertAll _ hP]
    have : lookup (rows.map fun e => (parseK e.1, e.2)) k = lookup rows (renderK k) := by
      apply lookup_ext_of_mem hP hn
      intro v
      constructor
      · intro hm
        obtain ⟨e, he, heq⟩ := List.mem_map.1 hm
        injection heq with h1 h2
        obtain ⟨k0, hk0, hq⟩ := himg e.1 (List.mem_map.2 ⟨e, he, rfl⟩)
        rw [hq, parseK_renderK k0 hk0] at h1
        subst h1
        have : e = (renderK k0, v) := by
          obtain ⟨e1, e2⟩ := e
          simp only at hq h2
          rw [hq, h2]
        rw [← this]; exact he
      · intro hm
        exact List.mem_map.2 ⟨(renderK k, v), hm, by simp [parseK_renderK k hk]⟩
    rw [this]
    cases lookup rows (renderK k) <;> rfl
  · rw [load_eq]
    exact nodup_upsertAll _ (by simp [NodupKeys])

theorem persist_restart (st : Store) (db : Db) (h : Persist ⟨st, db⟩) :
    Persist ⟨load db.flush.rows, db.flush⟩ ∧ ∀ k, lookup (load db.flush.rows) k = lookup st k := by
  have hf := persist_flush st db h
  have himg : ∀ q ∈ db.flush.rows.map (·.1), ∃ k, SafeKey k ∧ q = renderK k := by
    intro q hq
    obtain ⟨e, he, rfl⟩ := List.mem_map.1 hq
    have hl : lookup db.flush.rows e.1 = some e.2 := lookup_of_mem hf.rowsNodup (by simpa using he)
    apply h.image
    rw [← lookup_flush, hl]
    simp
  obtain ⟨h1, h2, h3⟩ := load_spec db.flush.rows hf.rowsNodup himg
  have hsame : ∀ k, lookup (load db.flush.rows) k = lookup st k := by
    intro k
    by_cases hk : SafeKey k
    · rw [h1 k hk, lookup_flush]; exact h.view k hk
    · rw [lookup_eq_none_of_not_mem (fun hm => hk (h2 k hm)),
          lookup_eq_none_of_not_mem (fun hm => hk (h.safe k hm))]
  refine ⟨⟨?_, hf.image, h2, hf.rowsNodup, h3⟩, hsame⟩
  intro k hk
  show dbView db.flush (renderK k) = lookup (load db.flush.rows) k
  rw [hsame k]
  exact hf.view k hk

/-! ### histories -/

/-- every key path set by the operation is representable in the `key` column -/
def SafeOp : Op → Prop
  | .put _ _ sets => ∀ s ∈ sets, ∀ e ∈ s, SafePath e.1
  | _ => True

instance (op : Op) : Decidable (SafeOp op) := by
  cases op <;> unfold SafeOp <;> infer_instance

theorem persist_step (known : List String) (s : State) (op : Op) (hop : SafeOp op) (h : Persist s) :
    Persist (step true known s op) := by
  obtain ⟨st, db⟩ := s
  cases op with
  | put ps nss sets =>
    obtain ⟨h1, h2⟩ := put_store known st ps nss sets
    have hsafe : ∀ e ∈ modEntries (put known st ps nss sets).modified, SafeKey e.1 := by
      intro e he
      simp only [modEntries, List.mem_flatMap, List.mem_map] at he
      obtain ⟨m, hm, x, hx, rfl⟩ := he
      exact hop _ (h2 m hm) x hx
    have := persist_upsertAll _ st db hsafe h
    simp only [step, Db.recordPut]
    rw [h1, changes_all]
    exact this
  | clear f => exact persist_clear st db f h
  | expire c =>
    simp only [step, expire]
    by_cases hem : (expirePoints st c).isEmpty = true
    · simp only [hem, if_true]
      exact h
    · simp only [hem, Bool.false_eq_true, if_false]
      exact persist_clear st db _ h
  | flush => exact persist_flush st db h
  | restart => exact (persist_restart st db h).1

theorem persist_run (known : List String) : ∀ (ops : List Op) (s : State),
    (∀ op ∈ ops, SafeOp op) → Persist s → Persist (ops.foldl (step true known) s) := by
  intro ops
  induction ops with
  | nil => intro s _ h; exact h
  | cons op r ih =>
    intro s hs h
    simp only [List.foldl_cons]
    exact ih _ (fun o ho => hs o (by simp [ho])) (persist_step known s op (hs op (by simp)) h)

/-- with single-item settings the first-item-only change iterator records everything -/
def SingleItems : Op → Prop
  | .put _ _ sets => ∀ s ∈ sets, s.length ≤ 1
  | _ => True

instance (op : Op) : Decidable (SingleItems op) := by
  cases op <;> unfold SingleItems <;> infer_instance

theorem step_single (known : List String) (s : State) (op : Op) (h : SingleItems op) :
    step false known s op = step true known s op := by
  cases op with
  | put ps nss sets =>
    simp only [step, Db.recordPut]
    have hm := (put_store known s.store ps nss sets).2
    have : (put known s.store ps nss sets).modified.flatMap (changes false) =
        (put known s.store ps nss sets).modified.flatMap (changes true) := by
      apply flatMap_congr''
      intro m hmem
      have hl : m.2.2.length ≤ 1 := h _ (hm m hmem)
      simp only [changes, Bool.false_eq_true, if_false, if_true]
      rw [List.take_of_length_le hl]
    rw [this]
  | clear f => rfl
  | expire c => rfl
  | flush => rfl
  | restart => rfl

end CylcModel.Bcast
