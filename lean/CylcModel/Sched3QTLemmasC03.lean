/-
Lemmas for C03 on workflows with limited internal queues (id C03Q), over the `Sched3QT` model:
what counts against a queue limit, progress of the queue release step, job preparation of what was released,
and the stall / automatic-shutdown decisions read as propositions over the pool.
Builds on `Sched3QTLemmas` (C05S).
-/
import CylcModel.Sched3QTLemmas
namespace CylcModel.Sched3QT

/-! ### What counts against a queue limit -/

theorem countsActive_iff (x : Proxy) : x.countsActive = true ↔
    x.wjp = true ∨ x.status = .preparing ∨ x.status = .submitted ∨ x.status = .running := by
  unfold Proxy.countsActive
  simp only [Bool.or_eq_true, beq_iff_eq, or_assoc]

/-- the pooled members of a queue that hold one of its slots: preparing, submitted, running, or released by the
queue and awaiting job preparation -/
def slotHolders (s : State) (members : List String) : List Proxy :=
  s.pool.filter fun x => members.contains x.name &&
    (x.wjp || x.status == .preparing || x.status == .submitted || x.status == .running)

theorem act_eq_slotHolders (s : State) (members : List String) : act s members = (slotHolders s members).length := by
  unfold act actList slotHolders
  congr 1
  apply List.filter_congr
  intro x _
  unfold Proxy.countsActive
  rw [Bool.and_comm]

/-- a proxy that is waiting or finished and is not awaiting job preparation does not count -/
theorem countsActive_false_of_idle (x : Proxy) (hw : x.wjp = false)
    (h : x.status = .waiting ∨ x.status.isFinal = true) : x.countsActive = false := by
  unfold Proxy.countsActive
  rcases h with h | h
  · simp [hw, h]
  · cases hs : x.status <;> simp [hs, Status.isFinal] at h <;> simp [hw]

/-- the pool without its finished proxies -/
def dropFinished (s : State) : State := { s with pool := s.pool.filter fun x => !x.status.isFinal || x.wjp }

theorem act_dropFinished (s : State) (members : List String) : act (dropFinished s) members = act s members := by
  unfold act actList dropFinished
  simp only [List.filter_filter]
  congr 1
  apply List.filter_congr
  intro x _
  unfold Proxy.countsActive
  cases hs : x.status <;> cases hw : x.wjp <;> simp [Status.isFinal]

theorem act_eq_zero_of_idle (s : State) (members : List String)
    (h : ∀ x ∈ s.pool, members.contains x.name = true →
      x.wjp = false ∧ x.status ≠ .preparing ∧ x.status ≠ .submitted ∧ x.status ≠ .running) :
    act s members = 0 := by
  unfold act actList
  rw [List.length_eq_zero_iff]
  apply List.filter_eq_nil_iff.mpr
  intro x hx hc
  simp only [Bool.and_eq_true] at hc
  obtain ⟨h1, h2, h3, h4⟩ := h x hx hc.2
  rcases (countsActive_iff x).mp hc.1 with h | h | h | h
  · rw [h1] at h; cases h
  · exact h2 h
  · exact h3 h
  · exact h4 h

/-! ### Progress of the release step -/

/-- one queue: a task that is not held stays in the deque only when the queue is at its limit -/
theorem releaseLoop_progress (limit : Nat) (isHeld : Key → Bool) (d : List Key) (n : Nat) (k : Key)
    (hk : k ∈ d) (hh : isHeld k = false) (hn : k ∉ (releaseLoop limit isHeld d n).released) :
    0 < limit ∧ limit ≤ n + (releaseLoop limit isHeld d n).released.length := by
  obtain ⟨h1, _, h3⟩ := releaseLoop_spec limit isHeld d n
  apply releaseLoop_stops_at_limit
  rw [h3]
  have hsplit : k ∈ d.take (popCount limit isHeld d n) ++ d.drop (popCount limit isHeld d n) := by
    rw [List.take_append_drop]; exact hk
  rcases List.mem_append.mp hsplit with h | h
  · exfalso
    apply hn
    rw [h1]
    exact List.mem_filter.mpr ⟨h, by simp [hh]⟩
  · exact List.ne_nil_of_mem h

/-- all queues (`IndepQueueManager.release_tasks`), independent memberships: a queued task that is not held is
released, or its queue is at its limit counting the active instances and what the queue just released -/
theorem releaseQueues_progress (isHeld : Key → Bool) : ∀ (qs : List LQ) (active : List String),
    IndepSig (qs.map LQ.sig) →
    (∀ q ∈ qs, ∀ k ∈ q.deque, q.members.contains k.2 = true) →
    ∀ q ∈ qs, ∀ k ∈ q.deque, isHeld k = false → k ∉ (releaseQueues isHeld qs active).2 →
      0 < q.limit ∧ q.limit ≤ nActive active q.members +
        ((releaseQueues isHeld qs active).2.filter (fun k => q.members.contains k.2)).length := by
  intro qs
  induction qs with
  | nil => intro active _ _ q hq; simp at hq
  | cons q0 rest ih =>
    intro active hind hmem q hq k hk hh hn
    have hind' : (∀ b ∈ rest.map LQ.sig, ∀ n, q0.sig.2.2.contains n = true → b.2.2.contains n = true → False) ∧
        IndepSig (rest.map LQ.sig) := by
      unfold IndepSig at hind
      rw [List.map_cons] at hind
      exact List.pairwise_cons.mp hind
    have hmem' : ∀ q ∈ rest, ∀ k ∈ q.deque, q.members.contains k.2 = true :=
      fun q1 hq1 => hmem q1 (List.mem_cons_of_mem _ hq1)
    have hdis : ∀ q1 ∈ rest, ∀ n, q0.members.contains n = true → q1.members.contains n = true → False := by
      intro q1 hq1 n h0 h1
      exact hind'.1 q1.sig (List.mem_map.mpr ⟨q1, hq1, rfl⟩) n h0 h1
    unfold releaseQueues at hn ⊢
    simp only at hn ⊢
    generalize hr : releaseLoop q0.limit isHeld q0.deque (nActive active q0.members) = r at hn ⊢
    have hrel0 : ∀ k ∈ r.released, q0.members.contains k.2 = true := by
      intro k hk
      rw [← hr] at hk
      exact hmem q0 List.mem_cons_self k (releaseLoop_released_mem _ _ _ _ k hk).1
    have hrelrest : ∀ k ∈ (releaseQueues isHeld rest (r.released.foldl (fun a k => k.2 :: a) active)).2,
        ∃ q1 ∈ rest, q1.members.contains k.2 = true := by
      intro k hk
      obtain ⟨⟨q1, hq1, hk1⟩, _⟩ := releaseQueues_released_mem _ _ _ k hk
      exact ⟨q1, hq1, hmem' q1 hq1 k hk1⟩
    rw [List.filter_append]
    have hn1 : k ∉ r.released := fun h => hn (List.mem_append_left _ h)
    have hn2 : k ∉ (releaseQueues isHeld rest (r.released.foldl (fun a k => k.2 :: a) active)).2 :=
      fun h => hn (List.mem_append_right _ h)
    rcases List.mem_cons.mp hq with rfl | hq
    · have h1 : r.released.filter (fun k => q.members.contains k.2) = r.released :=
        filter_eq_self_of_forall _ _ hrel0
      have h2 : (releaseQueues isHeld rest (r.released.foldl (fun a k => k.2 :: a) active)).2.filter
          (fun k => q.members.contains k.2) = [] := by
        apply filter_eq_nil_of_forall
        intro k hk
        obtain ⟨q1, hq1, hc⟩ := hrelrest k hk
        cases hcq : q.members.contains k.2 with
        | false => rfl
        | true => exact (hdis q1 hq1 k.2 hcq hc).elim
      rw [h1, h2, List.append_nil]
      rw [← hr] at hn1 ⊢
      exact releaseLoop_progress _ _ _ _ k hk hh hn1
    · have hq0 : ∀ k ∈ r.released, q.members.contains k.2 = false := by
        intro k hk
        cases hcq : q.members.contains k.2 with
        | false => rfl
        | true => exact (hdis q hq k.2 (hrel0 k hk) hcq).elim
      rw [filter_eq_nil_of_forall _ _ hq0, List.nil_append]
      have := ih (r.released.foldl (fun a k => k.2 :: a) active) hind'.2 hmem' q hq k hk hh hn2
      rw [nActive_foldl_disjoint _ _ _ hq0] at this
      exact this

/-- `release_queued_tasks` on a state satisfying the run invariants -/
theorem releaseQueued_progress {g : Graph} {s : State} (h : KeepQ g s) (hi : IndepSig (g.queues.map QDef.sig))
    (q : LQ) (hq : q ∈ s.qs) (k : Key) (hk : k ∈ q.deque) (hh : s.isHeldKey k = false)
    (hn : k ∉ (releaseQueued s).2) :
    0 < q.limit ∧ q.limit ≤ act s q.members + ((releaseQueued s).2.filter fun k => q.members.contains k.2).length := by
  have := releaseQueues_progress s.isHeldKey s.qs (countActive s) (indep_of_qi h.2 hi) h.2.2 q hq k hk hh hn
  rw [nActive_countActive] at this
  exact this

/-- what a queue releases are members of that queue -/
theorem released_of_queue {g : Graph} {s : State} (h : KeepQ g s) (q : LQ) (hq : q ∈ s.qs) (k : Key)
    (hk : k ∈ q.deque) (hr : k ∈ (releaseQueued s).2) :
    k ∈ (releaseQueued s).2.filter fun k => q.members.contains k.2 :=
  List.mem_filter.mpr ⟨hr, h.2.2 q hq k hk⟩

/-! ### Job preparation of what was released -/

theorem find?_map_replace (q k : Proxy → Bool) (x : Proxy) (hq : q x = false)
    (hk : ∀ y, k y = true → q y = false) :
    ∀ l : List Proxy, (l.map fun y => if k y = true then x else y).find? q = l.find? q := by
  intro l
  induction l with
  | nil => rfl
  | cons y ys ih =>
    simp only [List.map_cons]
    cases hy : k y with
    | true =>
      simp only [if_true]
      rw [List.find?_cons, List.find?_cons, hq, hk y hy]
      exact ih
    | false =>
      simp only [Bool.false_eq_true, if_false]
      rw [List.find?_cons, List.find?_cons, ih]

theorem get?_put_other (s : State) (x : Proxy) (p : Int) (n : String) (hk : ¬ (x.pt = p ∧ x.name = n)) :
    (s.put x).get? p n = s.get? p n := by
  unfold State.put State.get?
  simp only
  have hq : (x.pt == p && x.name == n) = false := by
    cases hc : (x.pt == p && x.name == n) with
    | false => rfl
    | true => simp only [Bool.and_eq_true, beq_iff_eq] at hc; exact absurd hc hk
  exact find?_map_replace (fun z => z.pt == p && z.name == n) (fun y => y.pt == x.pt && y.name == x.name) x hq
    (by
      intro y hy
      simp only [Bool.and_eq_true, beq_iff_eq] at hy
      simp only [hy.1, hy.2]; exact hq) s.pool

theorem get?_put_self (s : State) (x : Proxy) (h : (s.get? x.pt x.name).isSome = true) :
    (s.put x).get? x.pt x.name = some x := by
  unfold State.put State.get? at *
  simp only
  generalize s.pool = l at h
  induction l with
  | nil => simp at h
  | cons y ys ih =>
    simp only [List.map_cons]
    by_cases hy : (y.pt == x.pt && y.name == x.name) = true
    · simp [List.find?, hy]
    · have hy' : (y.pt == x.pt && y.name == x.name) = false := by simpa using hy
      simp only [Bool.false_eq_true, if_false, List.find?, hy']
      apply ih
      simpa [List.find?, hy'] using h

/-- the proxy at key `k` keeps its identity, status and submit number (`x` = what it was) -/
def SameJob (x : Proxy) (st : State) (k : Key) : Prop :=
  ∃ y, st.get? k.1 k.2 = some y ∧ y.pt = x.pt ∧ y.name = x.name ∧ y.status = x.status ∧ y.submitNum = x.submitNum

theorem sameJob_markReleased {x : Proxy} {st : State} {k : Key} (k' : Key) (h : SameJob x st k) :
    SameJob x (markReleased st k') k := by
  obtain ⟨y, hy, h1, h2, h3, h4⟩ := h
  unfold markReleased
  split
  · rename_i z hz
    obtain ⟨_, hzp, hzn⟩ := get?_some_mem hz
    by_cases hkk : k'.1 = k.1 ∧ k'.2 = k.2
    · -- the same key: z = y
      rw [hkk.1, hkk.2, hy] at hz
      cases hz
      refine ⟨{ (y.reset (queued := some false)) with wjp := true }, ?_, by simp [h1], by simp [h2],
        by simp [h3], by simp [h4]⟩
      have hp : ({ (y.reset (queued := some false)) with wjp := true } : Proxy).pt = k.1 := by
        simp; exact (get?_some_mem hy).2.1
      have hn : ({ (y.reset (queued := some false)) with wjp := true } : Proxy).name = k.2 := by
        simp; exact (get?_some_mem hy).2.2
      have := get?_put_self st { (y.reset (queued := some false)) with wjp := true } (by rw [hp, hn, hy]; rfl)
      rw [hp, hn] at this
      exact this
    · refine ⟨y, ?_, h1, h2, h3, h4⟩
      rw [get?_put_other]
      · exact hy
      · simp only [reset_pt, reset_name]
        rw [hzp, hzn]
        exact hkk
  · exact ⟨y, hy, h1, h2, h3, h4⟩

theorem sameJob_markFold {x : Proxy} {k : Key} : ∀ (rel : List Key) (st : State), SameJob x st k →
    SameJob x (rel.foldl markReleased st) k := by
  intro rel
  induction rel with
  | nil => intro st h; exact h
  | cons k' rel ih => intro st h; exact ih _ (sameJob_markReleased k' h)

theorem prepSubmit_launched_mono (st : State) (k : Key) : ∀ l ∈ st.launched, l ∈ (prepSubmit st k).launched := by
  intro l hl
  unfold prepSubmit
  split
  · exact hl
  · exact List.mem_append_left _ hl

theorem prepFold_launched_mono : ∀ (l : List Key) (st : State), ∀ e ∈ st.launched, e ∈ (l.foldl prepSubmit st).launched := by
  intro l
  induction l with
  | nil => intro st e he; exact he
  | cons k l ih => intro st e he; exact ih _ e (prepSubmit_launched_mono st k e he)

/-- preparing the job of a proxy that is not already preparing launches it under its next submit number -/
theorem prepSubmit_launch {x : Proxy} {st : State} {k : Key} (h : SameJob x st k) (hs : x.status ≠ .preparing) :
    (x.pt, x.name, x.submitNum + 1) ∈ (prepSubmit st k).launched := by
  obtain ⟨y, hy, h1, h2, h3, h4⟩ := h
  unfold prepSubmit
  rw [hy]
  simp only
  apply List.mem_append_right
  have hne : (y.status == Status.preparing) = false := by
    rw [h3]; cases hsx : x.status <;> simp_all
  simp [hne, h1, h2, h4]

theorem sameJob_prepSubmit_other {x : Proxy} {st : State} {k k' : Key} (hne : ¬ (k'.1 = k.1 ∧ k'.2 = k.2))
    (h : SameJob x st k) : SameJob x (prepSubmit st k') k := by
  obtain ⟨y, hy, h1, h2, h3, h4⟩ := h
  unfold prepSubmit
  split
  · exact ⟨y, hy, h1, h2, h3, h4⟩
  · rename_i z hz
    obtain ⟨_, hzp, hzn⟩ := get?_some_mem hz
    refine ⟨y, ?_, h1, h2, h3, h4⟩
    show (State.put _ _).get? k.1 k.2 = some y
    rw [get?_put_other]
    · exact hy
    · have e1 : ∀ w : Proxy, ({ (if z.status == .preparing then z
          else { (z.reset (status := some .preparing)) with submitNum := z.submitNum + 1 }) with
          wjp := false, live := true, timers := true } : Proxy) = w → w.pt = z.pt ∧ w.name = z.name := by
        intro w hw; subst hw; split <;> simp
      obtain ⟨e2, e3⟩ := e1 _ rfl
      rw [e2, e3, hzp, hzn]
      exact hne

theorem prepFold_launch {x : Proxy} {k : Key} (hs : x.status ≠ .preparing) : ∀ (l : List Key) (st : State),
    k ∈ l → SameJob x st k → (x.pt, x.name, x.submitNum + 1) ∈ (l.foldl prepSubmit st).launched := by
  intro l
  induction l with
  | nil => intro st hk; simp at hk
  | cons a l ih =>
    intro st hk h
    simp only [List.foldl_cons]
    by_cases hak : a.1 = k.1 ∧ a.2 = k.2
    · have : a = k := Prod.ext hak.1 hak.2
      subst this
      exact prepFold_launched_mono l _ _ (prepSubmit_launch h hs)
    · have hk' : k ∈ l := by
        rcases List.mem_cons.mp hk with rfl | hk'
        · exact absurd ⟨rfl, rfl⟩ hak
        · exact hk'
      exact ih _ hk' (sameJob_prepSubmit_other hak h)

/-- **what the queues release is launched by the same release step**, under the next submit number -/
theorem releaseAndSubmit_launches (s : State) (k : Key) (x : Proxy) (hx : s.get? k.1 k.2 = some x)
    (hs : x.status ≠ .preparing) (hr : k ∈ (releaseQueued s).2) :
    (x.pt, x.name, x.submitNum + 1) ∈ (releaseAndSubmit s).launched := by
  have hkt : k ∈ todoOf s := mem_dedupKeys.mpr (List.mem_append_left _ hr)
  have hne : (todoOf s).isEmpty = false := by
    cases ht : todoOf s with
    | nil => rw [ht] at hkt; simp at hkt
    | cons a l => rfl
  rw [releaseAndSubmit_eq, hne]
  simp only [Bool.false_eq_true, if_false]
  apply prepFold_launch hs _ _ hkt
  rw [releaseQueued_eq]
  apply sameJob_markFold
  exact ⟨x, hx, rfl, rfl, rfl, rfl⟩

/-! ### The stall and automatic-shutdown decisions as propositions over the pool -/

/-- `p` is beyond the stop point in effect (`TaskPool.stop_point`) -/
def beyondS (s : State) (p : Int) : Bool := match s.stopPoint with | some sp => p > sp | none => false

/-- no task is preparing, submitted or running -/
def NoActive (s : State) : Prop :=
  ∀ x ∈ s.pool, x.status ≠ .preparing ∧ x.status ≠ .submitted ∧ x.status ≠ .running

/-- no waiting task has been released from the runahead pool -/
def NoReleasedWaiting (s : State) : Prop := ∀ x ∈ s.pool, ¬ (x.status = .waiting ∧ x.runahead = false)

/-- no released waiting task has all its prerequisites satisfied -/
def NoReadyWaiting (s : State) : Prop :=
  ∀ x ∈ s.pool, ¬ (x.status = .waiting ∧ x.runahead = false ∧ x.prereqsSatisfied = true)

/-- finished but incomplete -/
def Incomplete (g : Graph) (x : Proxy) : Prop :=
  x.status.isFinal = true ∧ ∃ t, g.task? x.name = some t ∧ isComplete t x.done = false

/-- within the stop point, with an unsatisfied prerequisite that waits for an output within the stop point -/
def PartiallySatisfied (s : State) (x : Proxy) : Prop :=
  beyondS s x.pt = false ∧ ∃ pr ∈ x.pre, pr.isSatisfied = false ∧ ∃ a ∈ pr.atoms, a.2 = false ∧ beyondS s a.1.pt = false

def StallSpec (g : Graph) (s : State) : Prop :=
  NoActive s ∧ NoReadyWaiting s ∧ ((∃ x ∈ s.pool, Incomplete g x) ∨ (∃ x ∈ s.pool, PartiallySatisfied s x))

def busyB (x : Proxy) : Bool :=
  x.status.isActive || x.status == .preparing || (x.status == .waiting && !x.runahead && x.prereqsSatisfied)

def incompleteB (g : Graph) (x : Proxy) : Bool :=
  x.status.isFinal && (match g.task? x.name with | some t => !isComplete t x.done | none => false)

def partialB (s : State) (x : Proxy) : Bool :=
  !beyondS s x.pt && x.pre.any fun pr => !pr.isSatisfied && pr.atoms.any (fun a => !a.2 && !beyondS s a.1.pt)

def shutB (x : Proxy) : Bool :=
  x.status == .preparing || x.status == .submitted || x.status == .running || (x.status == .waiting && !x.runahead)

theorem isStalled_eq (g : Graph) (s : State) :
    isStalled g s = if s.pool.any busyB then false else (s.pool.any (incompleteB g) || s.pool.any (partialB s)) := rfl

theorem incompleteB_iff (g : Graph) (x : Proxy) : incompleteB g x = true ↔ Incomplete g x := by
  unfold incompleteB Incomplete
  cases ht : g.task? x.name with
  | none => simp
  | some t => simp

theorem partialB_iff (s : State) (x : Proxy) : partialB s x = true ↔ PartiallySatisfied s x := by
  unfold partialB PartiallySatisfied
  simp only [Bool.and_eq_true, Bool.not_eq_true', List.any_eq_true]

theorem busyB_false_iff (x : Proxy) : busyB x = false ↔
    (x.status ≠ .preparing ∧ x.status ≠ .submitted ∧ x.status ≠ .running) ∧
    ¬ (x.status = .waiting ∧ x.runahead = false ∧ x.prereqsSatisfied = true) := by
  unfold busyB
  cases hs : x.status <;> simp [Status.isActive]

theorem shutB_false_iff (x : Proxy) : shutB x = false ↔
    (x.status ≠ .preparing ∧ x.status ≠ .submitted ∧ x.status ≠ .running) ∧
    ¬ (x.status = .waiting ∧ x.runahead = false) := by
  unfold shutB
  cases hs : x.status <;> simp

theorem isStalled_iff (g : Graph) (s : State) : isStalled g s = true ↔ StallSpec g s := by
  rw [isStalled_eq]
  unfold StallSpec NoActive NoReadyWaiting
  constructor
  · intro h
    split at h
    · simp at h
    · rename_i hb
      have hb' : ∀ x ∈ s.pool, busyB x = false := by
        intro x hx
        cases hbx : busyB x with
        | false => rfl
        | true => exact absurd (List.any_eq_true.mpr ⟨x, hx, hbx⟩) hb
      refine ⟨fun x hx => ((busyB_false_iff x).mp (hb' x hx)).1, fun x hx => ((busyB_false_iff x).mp (hb' x hx)).2, ?_⟩
      simp only [Bool.or_eq_true, List.any_eq_true] at h
      rcases h with ⟨x, hx, hi⟩ | ⟨x, hx, hp⟩
      · exact Or.inl ⟨x, hx, (incompleteB_iff g x).mp hi⟩
      · exact Or.inr ⟨x, hx, (partialB_iff s x).mp hp⟩
  · rintro ⟨h1, h2, h3⟩
    have hb : ¬ (s.pool.any busyB = true) := by
      intro hb
      obtain ⟨x, hx, hbx⟩ := List.any_eq_true.mp hb
      have := (busyB_false_iff x).mpr ⟨h1 x hx, h2 x hx⟩
      rw [this] at hbx; exact absurd hbx (by simp)
    rw [if_neg hb]
    simp only [Bool.or_eq_true, List.any_eq_true]
    rcases h3 with ⟨x, hx, hi⟩ | ⟨x, hx, hp⟩
    · exact Or.inl ⟨x, hx, (incompleteB_iff g x).mpr hi⟩
    · exact Or.inr ⟨x, hx, (partialB_iff s x).mpr hp⟩

/-- `check_workflow_stalled` raises the flag only when `is_stalled` holds and the scheduler is not paused -/
theorem checkStalled_raises (g : Graph) (s : State) (h0 : s.stalled = false)
    (h : (checkStalled g s).stalled = true) : isStalled g s = true ∧ s.paused = false := by
  unfold checkStalled at h
  split at h
  · rename_i hs; rw [h0] at hs; cases hs
  · split at h
    · rw [h0] at h; cases h
    · rename_i hp
      split at h
      · rename_i hst
        exact ⟨hst, by simpa using hp⟩
      · rw [h0] at h; cases h

theorem checkStalled_pool (g : Graph) (s : State) : (checkStalled g s).pool = s.pool :=
  (checkStalled_frame g s).1

/-- an automatic shutdown is decided only in a pool without active and without released waiting proxies,
not stalled, not paused -/
theorem autoShutdown_sound (g : Graph) (s : State) (h : (checkAutoShutdown g s).2 = true) :
    NoActive s ∧ NoReleasedWaiting s ∧ (checkStalled g s).stalled = false ∧ s.paused = false := by
  unfold checkAutoShutdown at h
  split at h
  · cases h
  · rename_i hp
    simp only at h
    split at h
    · cases h
    · rename_i hst
      split at h
      · cases h
      · rename_i hany
        rw [checkStalled_pool] at hany
        have hall : ∀ x ∈ s.pool, shutB x = false := by
          intro x hx
          cases hbx : shutB x with
          | false => rfl
          | true => exact absurd (List.any_eq_true.mpr ⟨x, hx, hbx⟩) hany
        refine ⟨fun x hx => ((shutB_false_iff x).mp (hall x hx)).1,
          fun x hx => ((shutB_false_iff x).mp (hall x hx)).2, by simpa using hst, ?_⟩
        simp only [Bool.or_eq_true, not_or] at hp
        simpa using hp.1

end CylcModel.Sched3QT
