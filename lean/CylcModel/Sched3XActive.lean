/-
"`cylc set` never puts a task into the submitted or running state" as an invariant of the `Sched3Set` model:
for any set `A` of (point, name, status) triples, if every submitted / running status in the state (pooled proxies,
transient objects, committed and queued database rows) is in `A`, the same holds after `cylc set` — the command
creates no active status, it can only bring back one that the database history records.  One lemma per primitive.
-/
import CylcModel.Sched3XFrame

namespace CylcModel.Sched3X

abbrev Act := List (Int × String × Status)

def AOK (A : Act) (x : Proxy) : Prop := x.status.isActive = true → (x.pt, x.name, x.status) ∈ A
def ROK (A : Act) (r : Row) : Prop := r.status.isActive = true → (r.pt, r.name, r.status) ∈ A
def UOK (A : Act) (u : Upd) : Prop := u.status.isActive = true → (u.pt, u.name, u.status) ∈ A

/-- every active status of the state is in `A` -/
structure SOK (A : Act) (s : State) : Prop where
  pool : ∀ y ∈ s.pool, AOK A y
  ghosts : ∀ y ∈ s.ghosts, AOK A y
  rows : ∀ r ∈ s.rows, ROK A r
  qIns : ∀ r ∈ s.qIns, ROK A r
  qUpd : ∀ u ∈ s.qUpd, UOK A u

theorem sok_of_eq {A : Act} {s s' : State} (hp : s'.pool = s.pool) (hg : s'.ghosts = s.ghosts) (hr : s'.rows = s.rows)
    (hi : s'.qIns = s.qIns) (hu : s'.qUpd = s.qUpd) (h : SOK A s) : SOK A s' :=
  ⟨by rw [hp]; exact h.pool, by rw [hg]; exact h.ghosts, by rw [hr]; exact h.rows, by rw [hi]; exact h.qIns,
   by rw [hu]; exact h.qUpd⟩

theorem sok_same {A : Act} {s s' : State} (h : SOK A s) (hp : s'.pool = s.pool) (hg : s'.ghosts = s.ghosts)
    (hr : s'.rows = s.rows) (hi : s'.qIns = s.qIns) (hu : s'.qUpd = s.qUpd) : SOK A s' :=
  sok_of_eq hp hg hr hi hu h

theorem aok_of_eq {A : Act} {x y : Proxy} (hp : y.pt = x.pt) (hn : y.name = x.name) (hs : y.status = x.status)
    (hx : AOK A x) : AOK A y := by
  unfold AOK; rw [hp, hn, hs]; exact hx

theorem aok_nonactive {A : Act} {x : Proxy} (h : x.status.isActive = false) : AOK A x := by
  intro ha; rw [h] at ha; cases ha

@[simp] theorem reset_status_none (x : Proxy) (b c d : Option Bool) : (x.reset none b c d).status = x.status := by
  unfold Proxy.reset; simp only [Option.getD_none]; split <;> rfl

theorem reset_status_some (x : Proxy) (st : Status) (b c d : Option Bool) : (x.reset (some st) b c d).status = st := by
  unfold Proxy.reset
  simp only [Option.getD_some]
  split
  · rename_i hc
    simp only [Bool.and_eq_true, beq_iff_eq] at hc
    exact hc.1.1.1.symm
  · rfl

theorem aok_reset_none {A : Act} {x : Proxy} (b c d : Option Bool) (hx : AOK A x) : AOK A (x.reset none b c d) :=
  aok_of_eq (by simp) (by simp) (by simp) hx

theorem aok_reset_to {A : Act} (x : Proxy) (st : Status) (b c d : Option Bool) (hst : st.isActive = false) :
    AOK A (x.reset (some st) b c d) := by
  apply aok_nonactive; rw [reset_status_some]; exact hst

theorem sok_put {A : Act} {s : State} {x : Proxy} (h : SOK A s) (hx : AOK A x) : SOK A (s.put x) := by
  refine ⟨?_, h.ghosts, h.rows, h.qIns, h.qUpd⟩
  intro y hy
  unfold State.put at hy
  simp only [List.mem_map] at hy
  obtain ⟨z, hz, rfl⟩ := hy
  split
  · exact hx
  · exact h.pool z hz

theorem sok_add {A : Act} {s : State} {x : Proxy} (h : SOK A s) (hx : AOK A x) : SOK A (s.add x) := by
  unfold State.add
  split
  · exact h
  · refine ⟨?_, h.ghosts, h.rows, h.qIns, h.qUpd⟩
    intro y hy
    simp only at hy
    rcases (mem_addBucket x s.pool y).mp hy with rfl | hm
    · exact hx
    · exact h.pool y hm

theorem sok_store {A : Act} {s : State} {x : Proxy} {tr : Bool} (h : SOK A s) (hx : AOK A x) : SOK A (store s x tr) := by
  unfold store
  split
  · refine ⟨h.pool, ?_, h.rows, h.qIns, h.qUpd⟩
    intro y hy
    simp only [List.mem_map] at hy
    obtain ⟨z, hz, rfl⟩ := hy
    split
    · exact hx
    · exact h.ghosts z hz
  · exact sok_put h hx

theorem aok_of_get? {A : Act} {s : State} {p : Int} {n : String} {y : Proxy} (h : SOK A s)
    (hy : s.get? p n = some y) : AOK A y := by
  unfold State.get? at hy
  exact h.pool y (List.mem_of_find?_eq_some hy)

theorem aok_of_lookup {A : Act} {s : State} {p : Int} {n : String} {x : Proxy} {tr : Bool} (h : SOK A s)
    (hl : lookup s p n = some (x, tr)) : AOK A x := by
  unfold lookup at hl
  split at hl
  · rename_i y hy
    simp only [Option.some.injEq, Prod.mk.injEq] at hl
    rw [← hl.1]; exact aok_of_get? h hy
  · cases hf : s.ghosts.find? fun y => y.pt == p && y.name == n with
    | none => simp [hf] at hl
    | some v =>
      simp only [hf, Option.map_some, Option.some.injEq, Prod.mk.injEq] at hl
      rw [← hl.1]; exact h.ghosts v (List.mem_of_find?_eq_some hf)

/-! ### the database -/

theorem sok_dbInsert {A : Act} {s : State} (x : Proxy) (h : SOK A s) (hx : AOK A x) : SOK A (dbInsert s x) := by
  refine ⟨h.pool, h.ghosts, h.rows, ?_, h.qUpd⟩
  intro r hr
  unfold dbInsert at hr
  simp only at hr
  rcases List.mem_append.mp hr with hm | hm
  · exact h.qIns r hm
  · simp at hm; rw [hm]; exact hx

theorem sok_dbQueue {A : Act} {s : State} (k : UpdKind) (x : Proxy) (o : List (String × Bool)) (h : SOK A s)
    (hx : AOK A x) : SOK A (dbQueue s k x o) := by
  refine ⟨h.pool, h.ghosts, h.rows, h.qIns, ?_⟩
  intro u hu
  unfold dbQueue at hu
  simp only at hu
  rcases List.mem_append.mp hu with hm | hm
  · exact h.qUpd u hm
  · simp at hm; rw [hm]; exact hx

theorem rok_apply {A : Act} (u : Upd) (r : Row) (hu : UOK A u) (hr : ROK A r) : ROK A (u.apply r) := by
  unfold Upd.apply
  split
  · exact hr
  · rename_i hk
    have hkey : r.pt = u.pt ∧ r.name = u.name := by
      have : r.isKey u.pt u.name u.flows = true := by simpa using hk
      unfold Row.isKey at this
      simp only [Bool.and_eq_true, beq_iff_eq] at this
      exact ⟨this.1.1, this.1.2⟩
    cases u.kind with
    | state => intro ha; simp only at ha ⊢; rw [hkey.1, hkey.2]; exact hu ha
    | stateTransient => intro ha; simp only at ha ⊢; rw [hkey.1, hkey.2]; exact hu ha
    | pool => intro ha; simp only at ha ⊢; rw [hkey.1, hkey.2]; exact hu ha
    | flowWait => exact hr
    | outputs => exact hr

theorem sok_flushDb {A : Act} {s : State} (h : SOK A s) : SOK A (flushDb s) := by
  unfold flushDb
  dsimp only
  refine ⟨h.pool, h.ghosts, ?_, (by intro r hr; cases hr), (by intro u hu; cases hu)⟩
  -- rows after the inserts
  have h1 : ∀ r ∈ s.qIns.foldl (fun (rows : List Row) r =>
      (rows.filter fun q => !q.isKey r.pt r.name r.flows) ++ [r]) s.rows, ROK A r := by
    have gen : ∀ (ins : List Row) (rows : List Row), (∀ r ∈ ins, ROK A r) → (∀ r ∈ rows, ROK A r) →
        ∀ r ∈ ins.foldl (fun (rows : List Row) r => (rows.filter fun q => !q.isKey r.pt r.name r.flows) ++ [r]) rows,
          ROK A r := by
      intro ins
      induction ins with
      | nil => intro rows _ hr; exact hr
      | cons a ins ih =>
        intro rows hi hr
        simp only [List.foldl_cons]
        apply ih _ (fun r hm => hi r (List.mem_cons_of_mem _ hm))
        intro r hm
        rcases List.mem_append.mp hm with h2 | h2
        · exact hr r (List.mem_filter.mp h2).1
        · simp at h2; rw [h2]; exact hi a List.mem_cons_self
    exact gen s.qIns s.rows h.qIns h.rows
  generalize s.qIns.foldl (fun (rows : List Row) r =>
      (rows.filter fun q => !q.isKey r.pt r.name r.flows) ++ [r]) s.rows = rows1 at h1
  -- ... and after the updates
  have gen2 : ∀ (us : List Upd) (rows : List Row), (∀ u ∈ us, UOK A u) → (∀ r ∈ rows, ROK A r) →
      ∀ r ∈ us.foldl (fun (rows : List Row) u => rows.map u.apply) rows, ROK A r := by
    intro us
    induction us with
    | nil => intro rows _ hr; exact hr
    | cons u us ih =>
      intro rows hu hr
      simp only [List.foldl_cons]
      apply ih _ (fun v hm => hu v (List.mem_cons_of_mem _ hm))
      intro r hm
      obtain ⟨r0, hr0, rfl⟩ := List.mem_map.mp hm
      exact rok_apply u r0 (hu u List.mem_cons_self) (hr r0 hr0)
  apply foldl_inv (fun (rows : List Row) => ∀ r ∈ rows, ROK A r)
  · intro rows k hrows
    exact gen2 _ rows (fun u hu => h.qUpd u (List.mem_filter.mp hu).1) hrows
  · exact h1

theorem mem_insertRow (r : Row) : ∀ (l : List Row) (q : Row), q ∈ insertRow r l → q = r ∨ q ∈ l := by
  intro l
  induction l with
  | nil => intro q hq; simp [insertRow] at hq; exact Or.inl hq
  | cons a l ih =>
    intro q hq
    unfold insertRow at hq
    split at hq
    · rcases List.mem_cons.mp hq with h | h
      · exact Or.inl h
      · exact Or.inr h
    · rcases List.mem_cons.mp hq with h | h
      · exact Or.inr (by rw [h]; exact List.mem_cons_self)
      · rcases ih q h with h2 | h2
        · exact Or.inl h2
        · exact Or.inr (List.mem_cons_of_mem _ h2)

theorem mem_rowsFor {s : State} {p : Int} {n : String} {r : Row} (h : r ∈ rowsFor s p n) :
    r ∈ s.rows ∧ r.pt = p ∧ r.name = n := by
  unfold rowsFor at h
  have gen : ∀ (l acc : List Row), r ∈ l.foldl (fun acc r => insertRow r acc) acc → r ∈ acc ∨ r ∈ l := by
    intro l
    induction l with
    | nil => intro acc hm; exact Or.inl hm
    | cons a l ih =>
      intro acc hm
      simp only [List.foldl_cons] at hm
      rcases ih _ hm with h1 | h1
      · rcases mem_insertRow a acc r h1 with h2 | h2
        · exact Or.inr (by rw [h2]; exact List.mem_cons_self)
        · exact Or.inl h2
      · exact Or.inr (List.mem_cons_of_mem _ h1)
  rcases gen _ [] h with h1 | h1
  · cases h1
  · have := List.mem_filter.mp h1
    refine ⟨this.1, ?_⟩
    simpa using this.2

/-- the status `_get_task_history` returns is the status of a committed row of the instance -/
theorem taskHistory_status {s : State} {n : String} {p : Int} {F : Flows} {st : Status}
    (h : (taskHistory s n p F).2.1 = some st) : ∃ r ∈ s.rows, r.pt = p ∧ r.name = n ∧ r.status = st := by
  unfold taskHistory at h
  dsimp only at h
  have gen : ∀ (l : List Row) (cur : Option Status) (fw : Bool),
      (taskHistory.go F l cur fw).1 = some st → cur = some st ∨ ∃ r ∈ l, r.status = st := by
    intro l
    induction l with
    | nil => intro cur fw hg; unfold taskHistory.go at hg; exact Or.inl hg
    | cons a l ih =>
      intro cur fw hg
      unfold taskHistory.go at hg
      split at hg
      · split at hg
        · simp only [Option.some.injEq] at hg
          exact Or.inr ⟨a, List.mem_cons_self, hg⟩
        · rcases ih _ _ hg with h1 | ⟨r, hr, hrs⟩
          · simp only [Option.some.injEq] at h1
            exact Or.inr ⟨a, List.mem_cons_self, h1⟩
          · exact Or.inr ⟨r, List.mem_cons_of_mem _ hr, hrs⟩
      · rcases ih _ _ hg with h1 | ⟨r, hr, hrs⟩
        · exact Or.inl h1
        · exact Or.inr ⟨r, List.mem_cons_of_mem _ hr, hrs⟩
  rcases gen _ none false h with h1 | ⟨r, hr, hrs⟩
  · cases h1
  · obtain ⟨h2, h3, h4⟩ := mem_rowsFor hr
    exact ⟨r, h2, h3, h4, hrs⟩

end CylcModel.Sched3X
