/-
Model of `cylc.flow.xtrigger_mgr.XtriggerManager`: `call_xtriggers_async`, `callback`, `housekeep`,
`load_xtrigger_for_restart`, `force_satisfy`, with the task pool reduced to what the manager reads
of it (per task: the ordered dict `itask.state.xtriggers : label -> satisfied`).

Uniqueness of an xtrigger is by *signature* (function name + templated arguments); the signature of
label `l` for task `t` is `env.sigOf t l` (an arbitrary function in the theorems; in the driver it
is `renderSig`, the port of `get_xtrig_ctx` + `SubFuncContext.get_signature`).

Wall-clock labels (`wall_clock_labels`) are evaluated synchronously (`time() > trigger_time`), all
other labels are submitted to the process pool (observable: `Out.subs`) and answered later by a
`callback` operation. Time is the virtual clock `now`.
-/
namespace CylcModel.Xtrig

abbrev Sig := String
abbrev Label := String
/-- function results of a succeeded xtrigger (`sat_xtrig[sig]`) -/
abbrev Results := List (String × String)

structure LabelCfg where
  label : Label
  /-- `label in xtriggers.wall_clock_labels` -/
  clock : Bool
  /-- `ctx.intvl`: call interval -/
  intvl : Int
  /-- `trigger_time` of a wall-clock label -/
  trig : Int
  deriving Repr, DecidableEq

structure Task where
  id : Nat
  /-- `itask.state.xtriggers` -/
  xt : List (Label × Bool)
  deriving Repr, DecidableEq

/-- static configuration: `functx_map` / `wall_clock_labels` (a label that is not configured is a
`KeyError` in the code: not an input of the model; the driver rejects such cases) and the signature of
each (task, label) -/
structure Env where
  cfg : Label → LabelCfg
  sigOf : Nat → Label → Sig

/-- configuration from a table -/
def cfgOfList (ls : List LabelCfg) (l : Label) : LabelCfg :=
  (ls.find? (·.label == l)).getD { label := l, clock := false, intvl := 0, trig := 0 }

structure State where
  now : Int
  /-- `t_next_call` -/
  tNext : Sig → Option Int
  /-- `sat_xtrig` -/
  sat : List (Sig × Results)
  /-- `active` -/
  active : List Sig
  pool : List Task
  /-- `do_housekeeping` -/
  hk : Bool

def init : State := { now := 0, tNext := fun _ => none, sat := [], active := [], pool := [], hk := false }

def keys (m : List (Sig × Results)) : List Sig := m.map (·.1)
def satSet (m : List (Sig × Results)) (k : Sig) (v : Results) : List (Sig × Results) :=
  (k, v) :: m.filter (·.1 != k)

inductive Op where
  | advance (dt : Nat)
  /-- a new task proxy with these xtrigger labels, all unsatisfied -/
  | spawn (id : Nat) (labels : List Label)
  | remove (id : Nat)
  /-- `call_xtriggers_async(itask)` -/
  | call (id : Nat)
  /-- the process pool answers a submitted call: `callback(ctx)` with `ctx.out = [ok, res]` -/
  | callback (sig : Sig) (ok : Bool) (res : Results)
  /-- main loop: `if do_housekeeping (or force): housekeep(pool tasks)` -/
  | housekeep (force : Bool)
  /-- `load_xtrigger_for_restart` -/
  | load (sig : Sig) (res : Results)
  /-- `force_satisfy(itask, {label: val})` -/
  | force (id : Nat) (label : Label) (val : Bool)
  deriving Repr

/-- what one operation shows -/
structure Out where
  /-- submissions to the process pool, in order: (label, signature) -/
  subs : List (Label × Sig) := []
  /-- broadcast environment items (`<label>_<key>`, value) -/
  bcs : List (String × String) := []
  /-- signatures written to the DB / data store as succeeded -/
  db : List Sig := []
  /-- flags of the task the operation is about (call / spawn / force), after the operation -/
  xt : List Bool := []
  deriving Repr, DecidableEq

/-! ### `call_xtriggers_async` -/

/-- the part of the manager a call works on, plus the outputs so far -/
structure Acc where
  tNext : Sig → Option Int
  sat : List (Sig × Results)
  active : List Sig
  hk : Bool
  subs : List (Label × Sig)
  bcs : List (String × String)
  db : List Sig

/-- `sig in t_next_call and now < t_next_call[sig]` -/
def tooSoon (tn : Option Int) (now : Int) : Bool :=
  match tn with
  | some t => decide (now < t)
  | none => false

/-- one label of the loop in `call_xtriggers_async` (only unsatisfied labels get here);
returns the new accumulator and the label's new flag -/
def callOne (env : Env) (now : Int) (tid : Nat) (a : Acc) (l : Label) : Acc × Bool :=
  let c := env.cfg l
  let sig := env.sigOf tid l
  if c.clock then
    if (keys a.sat).contains sig then (a, true)
    else if now > c.trig then
      ({ a with sat := satSet a.sat sig [], db := a.db ++ [sig], hk := true }, true)
    else (a, false)
  else
    match a.sat.lookup sig with
    | some res => ({ a with bcs := a.bcs ++ res.map fun kv => (l ++ "_" ++ kv.1, kv.2) }, true)
    | none =>
      if a.active.contains sig then (a, false)
      else if tooSoon (a.tNext sig) now then (a, false)
      else ({ a with tNext := fun k => if k = sig then some (now + c.intvl) else a.tNext k,
                     active := a.active ++ [sig], subs := a.subs ++ [(l, sig)] }, false)

def callLoop (env : Env) (now : Int) (tid : Nat) : Acc → List (Label × Bool) → Acc × List (Label × Bool)
  | a, [] => (a, [])
  | a, (l, true) :: rest =>
    let r := callLoop env now tid a rest
    (r.1, (l, true) :: r.2)
  | a, (l, false) :: rest =>
    let r1 := callOne env now tid a l
    let r := callLoop env now tid r1.1 rest
    (r.1, (l, r1.2) :: r.2)

def findTask (pool : List Task) (id : Nat) : Option Task := pool.find? (·.id == id)

def setTask (pool : List Task) (t : Task) : List Task :=
  pool.map fun u => if u.id == t.id then t else u

/-- signatures some pool task still waits for (`_get_xtrigs(itask, unsat_only, sigs_only)` over the pool) -/
def needed (env : Env) (pool : List Task) : List Sig :=
  pool.flatMap fun t => (t.xt.filter (fun p => !p.2)).map fun p => env.sigOf t.id p.1

def step (env : Env) (s : State) : Op → State × Out
  | .advance dt => ({ s with now := s.now + dt }, {})
  | .spawn id labels =>
    match findTask s.pool id with
    | some _ => (s, {})
    | none =>
      let t : Task := ⟨id, labels.map fun l => (l, false)⟩
      ({ s with pool := s.pool ++ [t] }, { xt := t.xt.map (·.2) })
  | .remove id => ({ s with pool := s.pool.filter (·.id != id) }, {})
  | .call id =>
    match findTask s.pool id with
    | none => (s, {})
    | some t =>
      let r := callLoop env s.now id ⟨s.tNext, s.sat, s.active, s.hk, [], [], []⟩ t.xt
      ({ s with tNext := r.1.tNext, sat := r.1.sat, active := r.1.active, hk := r.1.hk,
                pool := setTask s.pool ⟨id, r.2⟩ },
       { subs := r.1.subs, bcs := r.1.bcs, db := r.1.db, xt := r.2.map (·.2) })
  | .callback sig ok res =>
    if s.active.contains sig then
      if ok then
        ({ s with active := s.active.erase sig, sat := satSet s.sat sig res, hk := true }, { db := [sig] })
      else ({ s with active := s.active.erase sig }, {})
    else (s, {})
  | .housekeep force =>
    if force || s.hk then
      let nd := needed env s.pool
      ({ s with sat := s.sat.filter (fun p => nd.contains p.1),
                tNext := fun k => if (keys s.sat).contains k && !nd.contains k then none else s.tNext k,
                hk := false }, {})
    else (s, {})
  | .load sig res => ({ s with sat := satSet s.sat sig res }, {})
  | .force id label val =>
    match findTask s.pool id with
    | none => (s, {})
    | some t =>
      let xt' := t.xt.map fun p => if p.1 == label then (p.1, val) else p
      ({ s with pool := setTask s.pool ⟨id, xt'⟩ }, { xt := xt'.map (·.2) })

/-- whole history: final state, outputs per operation -/
def run (env : Env) (s : State) : List Op → State × List Out
  | [] => (s, [])
  | op :: ops =>
    let r1 := step env s op
    let r2 := run env r1.1 ops
    (r2.1, r1.2 :: r2.2)

/-! ### signatures (port of `get_xtrig_ctx` templating + `SubFuncContext.get_signature`) -/

inductive Piece where
  | lit (s : String)
  | point | name | ident | workflow
  deriving Repr, DecidableEq

inductive Arg where
  /-- a string argument, possibly with `%(point)s`-style templates -/
  | str (ps : List Piece)
  | int (v : Int)
  | bool (b : Bool)
  deriving Repr, DecidableEq

structure TaskInfo where
  id : Nat
  point : String
  name : String
  deriving Repr

structure FuncCfg where
  func : String
  args : List Arg
  /-- keyword arguments, any order -/
  kwargs : List (String × Arg)
  deriving Repr

def renderPiece (wf : String) (t : TaskInfo) : Piece → String
  | .lit s => s
  | .point => t.point
  | .name => t.name
  | .ident => t.point ++ "/" ++ t.name
  | .workflow => wf

def renderArg (wf : String) (t : TaskInfo) : Arg → String
  | .str ps => String.join (ps.map (renderPiece wf t))
  | .int v => toString v
  | .bool b => if b then "True" else "False"

def insertKw (kv : String × Arg) : List (String × Arg) → List (String × Arg)
  | [] => [kv]
  | x :: xs => if kv.1 < x.1 then kv :: x :: xs else x :: insertKw kv xs

def sortKw (l : List (String × Arg)) : List (String × Arg) := l.foldr insertKw []

/-- `"%s(%s)" % (func_name, ", ".join(args + ["k=v" for k in sorted(kwargs)]))` -/
def renderSig (wf : String) (f : FuncCfg) (t : TaskInfo) : Sig :=
  let a := f.args.map (renderArg wf t)
  let k := (sortKw f.kwargs).map fun kv => kv.1 ++ "=" ++ renderArg wf t kv.2
  f.func ++ "(" ++ ", ".intercalate (a ++ k) ++ ")"

/-! ### the property as a monitor over observed histories (the judge of the driver)

The monitor sees the operations, the configuration (labels, intervals, signatures) and, per
operation, what was observed of the implementation (`Out.subs`, `Out.xt`); it has its own
bookkeeping and knows nothing of the manager's state. -/
namespace Spec

inductive Fail where
  /-- submitted while a call of the same signature is in progress -/
  | oneInFlight (k : Nat) (sig : Sig)
  /-- submitted less than the interval after the previous submission (no success in between) -/
  | interval (k : Nat) (sig : Sig) (prev now intvl : Int)
  /-- the same, but the previous call succeeded and its result has been forgotten since (known finding) -/
  | intervalAfterForget (k : Nat) (sig : Sig) (prev now intvl : Int)
  /-- submitted although a call succeeded and a task has needed the signature ever since -/
  | callAfterSuccess (k : Nat) (sig : Sig)
  /-- a task waiting for a succeeded signature (or a wall-clock label whose time has passed) was not satisfied by its call -/
  | notSatisfied (k : Nat) (id : Nat) (l : Label)
  /-- malformed observation -/
  | shape (k : Nat)
  deriving Repr, DecidableEq

structure Last where
  time : Int
  intvl : Int
  /-- a call of the signature has succeeded since that submission -/
  succeeded : Bool
  deriving Repr, DecidableEq

structure Mon where
  now : Int := 0
  inflight : List Sig := []
  last : Sig → Option Last := fun _ => none
  /-- succeeded, and needed by some pool task ever since -/
  succ : List Sig := []
  pool : List Task := []

def intvlOf (env : Env) (l : Label) : Int := (env.cfg l).intvl

/-- the previous submission, if it is less than its interval ago -/
def violates (now : Int) : Option Last → Option Last
  | some p => if now < p.time + p.intvl then some p else none
  | none => none

/-- one observed submission -/
def onSub (env : Env) (k : Nat) (m : Mon) (ls : Label × Sig) : Except Fail Mon :=
  if m.inflight.contains ls.2 then .error (.oneInFlight k ls.2)
  else if m.succ.contains ls.2 then .error (.callAfterSuccess k ls.2)
  else
    match violates m.now (m.last ls.2) with
    | some p =>
      if p.succeeded then .error (.intervalAfterForget k ls.2 p.time m.now p.intvl)
      else .error (.interval k ls.2 p.time m.now p.intvl)
    | none =>
      .ok { m with inflight := ls.2 :: m.inflight,
                   last := fun s => if s = ls.2 then some ⟨m.now, intvlOf env ls.1, false⟩ else m.last s }

def onSubs (env : Env) (k : Nat) : Mon → List (Label × Sig) → Except Fail Mon
  | m, [] => .ok m
  | m, x :: xs => do
    let m1 ← onSub env k m x
    onSubs env k m1 xs

def markSucceeded (m : Mon) (sig : Sig) : Mon :=
  { m with succ := if m.succ.contains sig then m.succ else sig :: m.succ,
           last := fun s => if s = sig then (m.last s).map fun p => { p with succeeded := true } else m.last s }

/-- labels of `before` whose flag turned from false to true -/
def newlyTrue : List (Label × Bool) → List Bool → List Label
  | (l, b) :: rest, b' :: rest' => if !b && b' then l :: newlyTrue rest rest' else newlyTrue rest rest'
  | _, _ => []

/-- a label that must be satisfied by a call: it waits for a signature in `succ`, or is a wall-clock
label whose trigger time has passed -/
def mustSatisfy (env : Env) (m : Mon) (id : Nat) (l : Label) : Bool :=
  m.succ.contains (env.sigOf id l) || ((env.cfg l).clock && decide (m.now > (env.cfg l).trig))

def unsatisfiedDue (env : Env) (m : Mon) (id : Nat) : List (Label × Bool) → List Bool → Option Label
  | (l, b) :: rest, b' :: rest' =>
    if !b && !b' && mustSatisfy env m id l then some l else unsatisfiedDue env m id rest rest'
  | _, _ => none

def setFlags (xt : List (Label × Bool)) (flags : List Bool) : List (Label × Bool) :=
  (xt.zip flags).map fun p => (p.1.1, p.2)

def prune (env : Env) (m : Mon) : Mon :=
  { m with succ := m.succ.filter fun s => (needed env m.pool).contains s }

def onOp (env : Env) (k : Nat) (m : Mon) (op : Op) (o : Out) : Except Fail Mon :=
  match op with
  | .advance dt => .ok { m with now := m.now + dt }
  | .spawn id labels =>
    match findTask m.pool id with
    | some _ => .ok m
    | none =>
      if o.xt.length != labels.length then .error (.shape k)
      else .ok (prune env { m with pool := m.pool ++ [⟨id, setFlags (labels.map fun l => (l, false)) o.xt⟩] })
  | .remove id => .ok (prune env { m with pool := m.pool.filter (·.id != id) })
  | .call id =>
    match findTask m.pool id with
    | none => if o.subs.isEmpty then .ok m else .error (.shape k)
    | some t =>
      if o.xt.length != t.xt.length then .error (.shape k)
      else do
        let m1 ← onSubs env k m o.subs
        match unsatisfiedDue env m id t.xt o.xt with
        | some l => .error (.notSatisfied k id l)
        | none =>
          let m2 := (newlyTrue t.xt o.xt).foldl (fun mm l => markSucceeded mm (env.sigOf id l)) m1
          .ok (prune env { m2 with pool := setTask m2.pool ⟨id, setFlags t.xt o.xt⟩ })
  | .callback sig ok _ =>
    if m.inflight.contains sig then
      let m1 := { m with inflight := m.inflight.erase sig }
      .ok (prune env (if ok then markSucceeded m1 sig else m1))
    else .ok m
  | .housekeep _ => .ok m
  | .load sig _ => .ok (prune env (markSucceeded m sig))
  | .force id _ _ =>
    match findTask m.pool id with
    | none => .ok m
    | some t =>
      if o.xt.length != t.xt.length then .error (.shape k)
      else .ok (prune env { m with pool := setTask m.pool ⟨id, setFlags t.xt o.xt⟩ })

def monitor (env : Env) : Nat → Mon → List Op → List Out → Except Fail Mon
  | _, m, [], _ => .ok m
  | k, m, op :: ops, obs => do
    let m1 ← onOp env k m op (obs.headD {})
    monitor env (k + 1) m1 ops obs.tail

def judge (env : Env) (ops : List Op) (obs : List Out) : Except Fail Unit :=
  (monitor env 0 {} ops obs).map fun _ => ()

end Spec

end CylcModel.Xtrig
