/-
Definitions shared by the theorems and the drivers of C45 (absolute triggers) and C46 (warm start):
the dependents of an absolute output, atom satisfaction, and the decidable well-formedness
conditions on an extracted instance graph that the theorems assume and the drivers check.
Core Lean only (linked into the drivers).
-/
import CylcModel.Sched

namespace CylcModel.Sched

/-- the children listed for output `a.out` of instance `a.pt/a.task` that come from an absolute
(`foo[^]`, `foo[^+P1]`, `foo[2]`) trigger: `(child task, first point of the child's sequence)` -/
def absChildren (g : Graph) (a : Atom) : List Child :=
  (childrenOf g { pt := a.pt, name := a.task } a.out).filter (·.isAbs)

/-- task `d` depends on output `a` through an absolute trigger -/
def dependentB (g : Graph) (a : Atom) (d : String) : Bool := (absChildren g a).any (·.name == d)

/-- every occurrence of atom `a` in the prerequisites of `x` is satisfied -/
def Proxy.atomSat (x : Proxy) (a : Atom) : Bool :=
  x.pre.all fun pr => pr.atoms.all fun e => !(e.1 == a) || e.2

/-- C45 well-formedness: the target task of every absolute child exists and is flagged `has_abs_triggers` -/
def absWfB (g : Graph) : Bool :=
  g.tasks.all fun t => t.insts.all fun pd => pd.2.children.all fun oc => oc.2.all fun c =>
    !c.isAbs || (match g.task? c.name with | some t' => t'.hasAbs | none => false)

/-- C46 rule of `Dependency.get_prerequisite`: on an instance at or after the start point every
atom that points before the start point is initially satisfied -/
def preStartSatB (g : Graph) : Bool :=
  g.tasks.all fun t => t.insts.all fun pd => decide (pd.1 < g.start) ||
    pd.2.pre.all fun pr => pr.atoms.all fun e => !(decide (e.1.pt < g.start)) || e.2

end CylcModel.Sched
