/-
Specification objects and helper lemmas for C34 (`Params`).

Specification: a *combination* assigns to every parameter used one position of its value list
(`Pick`: name, index, the member at that index); `combos` is the Cartesian product of the
positions, in loop order.  `specItemVal` says what an item of a `<...>` group denotes under a
combination: `p` the member, `p=raw` the selected value, `p±k` the member `k` positions away, or
the removal sentinel when there is none.  The model instead keeps the loop variables in a dict and
finds the position of the current *value* with `list.index` (first occurrence).
-/
import CylcModel.Params
namespace CylcModel.Params

structure Pick where
  name : String
  idx : Nat
  val : Val
  deriving DecidableEq, Repr

abbrev Combo := List Pick

/-- the members of a value list with their positions, counted from `n` -/
def positions : Nat → List Val → List (Nat × Val)
  | _, [] => []
  | n, v :: r => (n, v) :: positions (n + 1) r

/-- all combinations, in the order of the nested loops -/
def combos : List (String × List Val) → List Combo
  | [] => [[]]
  | (p, vs) :: r => (positions 0 vs).flatMap fun iv => (combos r).map fun c => ⟨p, iv.1, iv.2⟩ :: c

def Combo.env (c : Combo) : Env := c.map fun k => (k.name, k.val)

def Combo.pick? : Combo → String → Option Pick
  | [], _ => none
  | k :: r, p => if k.name = p then some k else Combo.pick? r p

/-- what an item denotes under a combination -/
def specItemVal (q : Quirks) (cfg : Cfg) (c : Combo) (it : Item) : Option Val :=
  match it.sel with
  | .plain => (c.pick? it.name).map (·.val)
  | .fixed raw => fixedSubst q.selMemberGraph (cfg.values it.name) raw
  | .offset k =>
    match c.pick? it.name with
    | none => none
    | some pk =>
      let vs := cfg.values it.name
      let j : Int := (pk.idx : Int) + k
      if 0 ≤ j ∧ j < vs.length then vs[j.toNat]? else some sentinel

/-- the instance of a line for one combination -/
def specLine (q : Quirks) (cfg : Cfg) (c : Combo) (line : List Seg) : Option String :=
  renderSegsWith cfg (specItemVal q cfg c) line

def nonEmpty (s : String) : List String := if s = "" then [] else [s]

def prodLen : List (String × List Val) → Nat
  | [] => 1
  | (_, vs) :: r => vs.length * prodLen r

/-! ### optConcatMap -/

theorem optConcatMap_append {α β} (f : α → Option (List β)) (l₁ l₂ : List α) :
    optConcatMap f (l₁ ++ l₂) =
      match optConcatMap f l₁, optConcatMap f l₂ with
      | some x, some y => some (x ++ y)
      | _, _ => none := by
  induction l₁ with
  | nil => simp [optConcatMap]; cases optConcatMap f l₂ <;> rfl
  | cons a r ih =>
    simp only [List.cons_append, optConcatMap, ih]
    cases f a <;> cases optConcatMap f r <;> cases optConcatMap f l₂ <;> simp

theorem optConcatMap_map {α β γ} (f : α → Option (List β)) (h : γ → α) (l : List γ) :
    optConcatMap f (l.map h) = optConcatMap (fun x => f (h x)) l := by
  induction l with
  | nil => rfl
  | cons a r ih => simp [optConcatMap, ih]

theorem optConcatMap_flatMap {α β γ} (f : α → Option (List β)) (g : γ → List α) (l : List γ) :
    optConcatMap f (l.flatMap g) = optConcatMap (fun x => optConcatMap f (g x)) l := by
  induction l with
  | nil => rfl
  | cons a r ih =>
    simp only [List.flatMap_cons, optConcatMap_append, ih, optConcatMap]
    cases optConcatMap f (g a) <;> cases optConcatMap (fun x => optConcatMap f (g x)) r <;> rfl

theorem optConcatMap_congr {α β} (f g : α → Option (List β)) (l : List α)
    (h : ∀ a ∈ l, f a = g a) : optConcatMap f l = optConcatMap g l := by
  induction l with
  | nil => rfl
  | cons a r ih =>
    simp only [optConcatMap]
    rw [h a (by simp), ih (fun x hx => h x (by simp [hx]))]

theorem optConcatMap_positions {β} (H : Val → Option (List β)) (n : Nat) (vs : List Val) :
    optConcatMap (fun iv : Nat × Val => H iv.2) (positions n vs) = optConcatMap H vs := by
  induction vs generalizing n with
  | nil => rfl
  | cons v r ih => simp [positions, optConcatMap, ih]

theorem optConcatMap_mem {α β} (f : α → Option (List β)) (l : List α) (L : List β)
    (h : optConcatMap f l = some L) (x : β) :
    x ∈ L ↔ ∃ a ∈ l, ∃ la, f a = some la ∧ x ∈ la := by
  induction l generalizing L with
  | nil =>
    simp [optConcatMap] at h
    subst h; simp
  | cons a r ih =>
    simp only [optConcatMap] at h
    cases hfa : f a with
    | none => simp [hfa] at h
    | some la =>
      cases hr : optConcatMap f r with
      | none => simp [hfa, hr] at h
      | some lr =>
        simp [hfa, hr] at h
        subst h
        have := ih lr hr
        simp only [List.mem_append, this, List.mem_cons]
        constructor
        · rintro (hx | ⟨b, hb, lb, hfb, hxb⟩)
          · exact ⟨a, Or.inl rfl, la, hfa, hx⟩
          · exact ⟨b, Or.inr hb, lb, hfb, hxb⟩
        · rintro ⟨b, hb | hb, lb, hfb, hxb⟩
          · subst hb; rw [hfa] at hfb; cases hfb; exact Or.inl hxb
          · exact Or.inr ⟨b, hb, lb, hfb, hxb⟩

theorem optConcatMap_length_singleton {α β} (f : α → Option (List β)) (l : List α) (L : List β)
    (h : optConcatMap f l = some L) (h1 : ∀ a ∈ l, ∀ la, f a = some la → la.length = 1) :
    L.length = l.length := by
  induction l generalizing L with
  | nil => simp [optConcatMap] at h; subst h; rfl
  | cons a r ih =>
    simp only [optConcatMap] at h
    cases hfa : f a with
    | none => simp [hfa] at h
    | some la =>
      cases hr : optConcatMap f r with
      | none => simp [hfa, hr] at h
      | some lr =>
        simp [hfa, hr] at h
        subst h
        have := ih lr hr (fun b hb => h1 b (by simp [hb]))
        have h2 := h1 a (by simp) la hfa
        simp [this, h2]; omega

theorem optConcatMap_length_le {α β} (f : α → Option (List β)) (l : List α) (L : List β)
    (h : optConcatMap f l = some L) (h1 : ∀ a ∈ l, ∀ la, f a = some la → la.length ≤ 1) :
    L.length ≤ l.length := by
  induction l generalizing L with
  | nil => simp [optConcatMap] at h; subst h; simp
  | cons a r ih =>
    simp only [optConcatMap] at h
    cases hfa : f a with
    | none => simp [hfa] at h
    | some la =>
      cases hr : optConcatMap f r with
      | none => simp [hfa, hr] at h
      | some lr =>
        simp [hfa, hr] at h
        subst h
        have := ih lr hr (fun b hb => h1 b (by simp [hb]))
        have h2 := h1 a (by simp) la hfa
        simp; omega

/-! ### dicts -/

theorem Env.set_of_not_mem (env : Env) (p : String) (v : Val)
    (h : ∀ kv ∈ env, kv.1 ≠ p) : env.set p v = env ++ [(p, v)] := by
  induction env with
  | nil => rfl
  | cons kv r ih =>
    obtain ⟨k, w⟩ := kv
    have hk : k ≠ p := h (k, w) (by simp)
    simp only [Env.set, hk, if_false, List.cons_append]
    rw [ih (fun x hx => h x (by simp [hx]))]

theorem Combo.env_get? (c : Combo) (p : String) :
    c.env.get? p = (c.pick? p).map (·.val) := by
  induction c with
  | nil => rfl
  | cons k r ih =>
    simp only [Combo.env, List.map_cons, Env.get?, Combo.pick?]
    by_cases h : k.name = p
    · simp [h]
    · simp only [h, if_false]; exact ih

/-! ### the loop nest is the product -/

theorem combos_length (ps : List (String × List Val)) : (combos ps).length = prodLen ps := by
  induction ps with
  | nil => rfl
  | cons pv r ih =>
    obtain ⟨p, vs⟩ := pv
    simp only [combos, prodLen]
    have : ∀ (n : Nat) (vs : List Val),
        ((positions n vs).flatMap fun iv => (combos r).map fun c => (⟨p, iv.1, iv.2⟩ : Pick) :: c).length
          = vs.length * prodLen r := by
      intro n vs
      induction vs generalizing n with
      | nil => simp [positions]
      | cons v t iht =>
        simp only [positions, List.flatMap_cons, List.length_append, List.length_map, iht, ih,
          List.length_cons]
        rw [Nat.add_mul]; omega
    exact this 0 vs

theorem expandAux_eq_combos {β} (leaf : Env → Option (List β)) (ps : List (String × List Val))
    (env : Env)
    (hnd : (ps.map (·.1)).Nodup)
    (hdisj : ∀ kv ∈ env, kv.1 ∉ ps.map (·.1)) :
    expandAux leaf ps env = optConcatMap (fun c : Combo => leaf (env ++ c.env)) (combos ps) := by
  induction ps generalizing env with
  | nil => simp [expandAux, combos, optConcatMap, Combo.env]; cases leaf env <;> simp
  | cons pv r ih =>
    obtain ⟨p, vs⟩ := pv
    simp only [List.map_cons, List.nodup_cons] at hnd
    obtain ⟨hp, hr⟩ := hnd
    have hset : ∀ v, env.set p v = env ++ [(p, v)] := fun v =>
      Env.set_of_not_mem env p v (fun kv hkv heq => hdisj kv hkv (by simp [heq]))
    simp only [expandAux, combos, optConcatMap_flatMap, optConcatMap_map]
    rw [← optConcatMap_positions (fun v => expandAux leaf r (env.set p v)) 0 vs]
    apply optConcatMap_congr
    intro iv _
    rw [hset, ih (env ++ [(p, iv.2)]) hr]
    · apply optConcatMap_congr
      intro c _
      simp [Combo.env, List.append_assoc]
    · intro kv hkv
      simp only [List.mem_append, List.mem_singleton] at hkv
      rcases hkv with hkv | hkv
      · intro hmem; exact hdisj kv hkv (by simp [hmem])
      · subst hkv; exact hp

/-! ### positions and `list.index` -/

theorem positions_spec (n : Nat) (vs : List Val) (i : Nat) (v : Val)
    (h : (i, v) ∈ positions n vs) : n ≤ i ∧ vs[i - n]? = some v := by
  induction vs generalizing n with
  | nil => simp [positions] at h
  | cons w r ih =>
    simp only [positions, List.mem_cons, Prod.mk.injEq] at h
    rcases h with ⟨hi, hv⟩ | h
    · subst hi; subst hv; simp
    · have ⟨h1, h2⟩ := ih (n + 1) h
      refine ⟨by omega, ?_⟩
      have : i - n = (i - (n + 1)) + 1 := by omega
      rw [this]; simpa using h2

theorem combos_consistent (ps : List (String × List Val)) (c : Combo) (hc : c ∈ combos ps) :
    ∀ k ∈ c, ∃ vs, (k.name, vs) ∈ ps ∧ vs[k.idx]? = some k.val := by
  induction ps generalizing c with
  | nil => simp [combos] at hc; subst hc; simp
  | cons pv r ih =>
    obtain ⟨p, vs⟩ := pv
    simp only [combos, List.mem_flatMap, List.mem_map] at hc
    obtain ⟨iv, hiv, c', hc', rfl⟩ := hc
    intro k hk
    simp only [List.mem_cons] at hk
    rcases hk with rfl | hk
    · have := positions_spec 0 vs iv.1 iv.2 hiv
      exact ⟨vs, by simp, by simpa using this.2⟩
    · obtain ⟨ws, hws, hget⟩ := ih c' hc' k hk
      exact ⟨ws, by simp [hws], hget⟩

theorem mem_paramList (cfg : Cfg) (names : List String) (p : String) (vs : List Val)
    (h : (p, vs) ∈ paramList cfg names) : vs = cfg.values p := by
  simp only [paramList, List.mem_map, Prod.mk.injEq] at h
  obtain ⟨a, _, rfl, rfl⟩ := h
  rfl

theorem idxOf_of_nodup (vs : List Val) (i : Nat) (v : Val)
    (hnd : vs.Nodup) (h : vs[i]? = some v) : idxOf v vs = some i := by
  induction vs generalizing i with
  | nil => simp at h
  | cons w r ih =>
    simp only [List.nodup_cons] at hnd
    cases i with
    | zero => simp at h; subst h; simp [idxOf]
    | succ j =>
      simp at h
      have hmem : v ∈ r := List.mem_of_getElem? h
      have hne : w ≠ v := fun e => hnd.1 (e ▸ hmem)
      simp [idxOf, hne, ih j hnd.2 h]

theorem pick?_mem (c : Combo) (p : String) (k : Pick) (h : c.pick? p = some k) : k ∈ c ∧ k.name = p := by
  induction c with
  | nil => simp [Combo.pick?] at h
  | cons a r ih =>
    simp only [Combo.pick?] at h
    by_cases ha : a.name = p
    · simp [ha] at h; subst h; exact ⟨by simp, ha⟩
    · simp [ha] at h; have := ih h; exact ⟨by simp [this.1], this.2⟩

/-- the model's item value (dict of loop variables + `list.index`) is the specified one -/
theorem itemValGraph_eq_spec (q : Quirks) (cfg : Cfg) (names : List String) (c : Combo)
    (hc : c ∈ combos (paramList cfg names)) (it : Item)
    (hnd : (∃ k, it.sel = .offset k) → (cfg.values it.name).Nodup) :
    itemValGraph q cfg c.env it = specItemVal q cfg c it := by
  unfold itemValGraph specItemVal
  cases hsel : it.sel with
  | plain => simp [Combo.env_get?]
  | fixed raw => rfl
  | offset k =>
    simp only [Combo.env_get?]
    cases hp : c.pick? it.name with
    | none => rfl
    | some pk =>
      simp only [Option.map_some]
      have ⟨hmem, hname⟩ := pick?_mem c it.name pk hp
      obtain ⟨vs, hvs, hget⟩ := combos_consistent _ c hc pk hmem
      have hvs' := mem_paramList cfg names _ _ hvs
      rw [hname] at hvs'
      subst hvs'
      have := idxOf_of_nodup _ _ _ (hnd ⟨k, hsel⟩) hget
      simp [this]

/-! ### congruence of rendering in the item-value function -/

theorem groupValsWith_congr (iv₁ iv₂ : Item → Option Val) (items : List Item) (pv : Env)
    (h : ∀ it ∈ items, iv₁ it = iv₂ it) : groupValsWith iv₁ items pv = groupValsWith iv₂ items pv := by
  induction items generalizing pv with
  | nil => rfl
  | cons it r ih =>
    simp only [groupValsWith]
    rw [h it (by simp)]
    cases iv₂ it with
    | none => rfl
    | some v => exact ih _ (fun x hx => h x (by simp [hx]))

theorem renderSegsWith_congr (cfg : Cfg) (iv₁ iv₂ : Item → Option Val) (segs : List Seg)
    (h : ∀ it ∈ itemsOf segs, iv₁ it = iv₂ it) :
    renderSegsWith cfg iv₁ segs = renderSegsWith cfg iv₂ segs := by
  induction segs with
  | nil => rfl
  | cons sg r ih =>
    cases sg with
    | lit s =>
      simp only [renderSegsWith]
      rw [ih (fun it hit => h it (by simpa [itemsOf, groupsOf] using hit))]
    | group items =>
      simp only [renderSegsWith, renderGroupWith]
      rw [groupValsWith_congr iv₁ iv₂ items [] (fun it hit => h it (by simp [itemsOf, groupsOf, hit])),
        ih (fun it hit => h it (by
          simp only [itemsOf, groupsOf, List.flatten_cons, List.mem_append]
          exact Or.inr (by simpa [itemsOf] using hit)))]

theorem dedup_nodup (l : List String) : (dedup l).Nodup := by
  induction l with
  | nil => simp [dedup]
  | cons a r ih =>
    simp only [dedup, List.nodup_cons]
    refine ⟨by simp, ?_⟩
    exact List.Nodup.sublist List.filter_sublist ih

theorem paramList_names (cfg : Cfg) (names : List String) :
    (paramList cfg names).map (·.1) = names := by
  simp [paramList, List.map_map, Function.comp_def]

/-! ### specific values -/

/-- `raw` names the member `v`: written exactly so, or equal as integers -/
def Matches (raw : String) (v : Val) : Prop :=
  v = .str raw ∨ ∃ n, pyInt? raw = some n ∧ v.asInt? = some n

theorem selectMember_sound (vs : List Val) (raw : String) (v : Val)
    (h : selectMember vs raw = some v) : v ∈ vs ∧ Matches raw v := by
  unfold selectMember at h
  split at h
  · cases h; exact ⟨by assumption, Or.inl rfl⟩
  · cases hn : pyInt? raw with
    | none => simp [hn] at h
    | some n =>
      simp only [hn] at h
      have hm := List.mem_of_find?_eq_some h
      have hp := List.find?_some h
      exact ⟨hm, Or.inr ⟨n, hn, by simpa using hp⟩⟩

theorem selectMember_complete (vs : List Val) (raw : String)
    (h : ∃ v ∈ vs, Matches raw v) : (selectMember vs raw).isSome := by
  obtain ⟨v, hv, hm⟩ := h
  unfold selectMember
  split
  · rfl
  · rcases hm with rfl | ⟨n, hn, hv'⟩
    · contradiction
    · simp only [hn]
      rw [List.find?_isSome]
      exact ⟨v, hv, by simpa using hv'⟩

theorem scanInt_ints (n : Int) (vs : List Val) (hall : ∀ v ∈ vs, ∃ i, v = Val.int i)
    (hnot : Val.int n ∉ vs) : scanInt n vs = some false := by
  induction vs with
  | nil => rfl
  | cons w r ih =>
    obtain ⟨i, rfl⟩ := hall w (by simp)
    have hne : i ≠ n := fun e => hnot (by simp [e])
    simp only [scanInt, Val.asInt?, hne, if_false]
    exact ih (fun v hv => hall v (by simp [hv])) (fun hm => hnot (by simp [hm]))

theorem find?_int (n : Int) (vs : List Val) (hmem : Val.int n ∈ vs)
    (hall : ∀ v ∈ vs, ∃ i, v = Val.int i) :
    vs.find? (fun v => v.asInt? = some n) = some (Val.int n) := by
  induction vs with
  | nil => simp at hmem
  | cons w r ih =>
    obtain ⟨i, rfl⟩ := hall w (by simp)
    by_cases hi : i = n
    · subst hi; simp [List.find?, Val.asInt?]
    · have : Val.int n ∈ r := by
        simp only [List.mem_cons] at hmem
        rcases hmem with h | h
        · cases h; exact absurd rfl hi
        · exact h
      simp [List.find?, Val.asInt?, hi]
      exact ih this (fun v hv => hall v (by simp [hv]))

theorem find?_int_none (n : Int) (vs : List Val) (hmem : Val.int n ∉ vs)
    (hall : ∀ v ∈ vs, ∃ i, v = Val.int i) :
    vs.find? (fun v => v.asInt? = some n) = none := by
  rw [List.find?_eq_none]
  intro v hv
  obtain ⟨i, rfl⟩ := hall v hv
  simp [Val.asInt?]
  intro e; subst e; exact hmem hv

theorem str_not_mem_ints (raw : String) (vs : List Val) (hall : ∀ v ∈ vs, ∃ i, v = Val.int i) :
    Val.str raw ∉ vs := by
  intro h; obtain ⟨i, hi⟩ := hall _ h; cases hi

/-! ### dropping flagged nodes -/

theorem dropAll_nodes {α} (flag : α → Bool) (ts : List (String × α)) :
    (dropAll flag ts).map (·.2) = (ts.filter fun t => !flag t.2).map (·.2) := by
  unfold dropAll
  cases ts.filter (fun t => !flag t.2) <;> simp

theorem dropOnce_nodes {α} (flag : α → Bool) (ts : List (String × α))
    (h : ∀ t1 t2 rest, ts = t1 :: t2 :: rest → ¬ (flag t1.2 = true ∧ flag t2.2 = true)) :
    (dropOnce flag ts).map (·.2) = (ts.filter fun t => !flag t.2).map (·.2) := by
  match ts with
  | [] => rfl
  | [t] => simp only [dropOnce]; cases hf : flag t.2 <;> simp [hf]
  | t1 :: t2 :: rest =>
    have h' := h t1 t2 rest rfl
    simp only [dropOnce]
    cases h1 : flag t1.2
    · simp [h1, List.filter]
    · have h2 : flag t2.2 = false := by
        cases h2 : flag t2.2
        · rfl
        · exact absurd ⟨h1, h2⟩ h'
      simp [h1, h2, List.filter]

/-! ### the sentinel in a node text -/

theorem isPrefix_append (n r : List Char) : isPrefix n (n ++ r) = true := by
  induction n with
  | nil => cases r <;> rfl
  | cons a t ih => simp [isPrefix, ih]

theorem needleThenMore_here (needle r : List Char) (hr : r ≠ []) :
    needleThenMore needle (needle ++ r) = true := by
  cases hnr : needle ++ r with
  | nil => simp at hnr; exact absurd hnr.2 hr
  | cons c cs =>
    have hp := isPrefix_append needle r
    rw [hnr] at hp
    have hl : needle.length < (c :: cs).length := by
      rw [← hnr, List.length_append]
      have : 0 < r.length := List.length_pos_iff.mpr hr
      omega
    simp only [needleThenMore, hp, Bool.true_and, Bool.or_eq_true, decide_eq_true_eq]
    exact Or.inl hl

theorem needleThenMore_append (needle pre r : List Char) (hr : r ≠ []) :
    needleThenMore needle (pre ++ (needle ++ r)) = true := by
  induction pre with
  | nil => exact needleThenMore_here needle r hr
  | cons a t ih => simp [needleThenMore, ih]

/-! ### headings -/

def plainNamesI (items : List Item) : List String :=
  items.filterMap fun it => if it.sel = .plain then some it.name else none

def fixedNamesI (items : List Item) : List String :=
  items.filterMap fun it => match it.sel with | .fixed _ => some it.name | _ => none

/-- the parameters of a heading name that are looped over, in order of appearance -/
def plainNames (segs : List Seg) : List String := plainNamesI (itemsOf segs)

theorem Env.mem_set (env : Env) (p : String) (v : Val) (kv : String × Val)
    (h : kv ∈ env.set p v) : kv ∈ env ∨ kv = (p, v) := by
  induction env with
  | nil => simp [Env.set] at h; exact Or.inr h
  | cons a r ih =>
    obtain ⟨k, w⟩ := a
    simp only [Env.set] at h
    by_cases hk : k = p
    · simp only [hk, if_true, List.mem_cons] at h
      rcases h with h | h
      · subst hk; exact Or.inr h
      · exact Or.inl (by simp [h])
    · simp only [hk, if_false, List.mem_cons] at h
      rcases h with h | h
      · exact Or.inl (by simp [h])
      · rcases ih h with h' | h'
        · exact Or.inl (by simp [h'])
        · exact Or.inr h'

/-- what one group does to the state of `NameExpander.expand` -/
theorem nameItems_spec (q : Quirks) (cfg : Cfg) (st st' : NameState) (items : List Item)
    (h : nameItems q cfg st items = some st') :
    st'.used = st.used ++ paramList cfg (plainNamesI items) ∧ st'.grouped = st.grouped ∧
    (∀ kv ∈ st'.spec, kv ∈ st.spec ∨
      ∃ raw, (⟨kv.1, .fixed raw⟩ : Item) ∈ items ∧ fixedVal q.selMemberName (cfg.values kv.1) raw = some kv.2) := by
  induction items generalizing st with
  | nil =>
    simp [nameItems] at h; subst h
    simp [plainNamesI, paramList]
  | cons it r ih =>
    simp only [nameItems] at h
    cases hit : nameItem q cfg st it with
    | none => simp [hit] at h
    | some st1 =>
      simp only [hit] at h
      obtain ⟨hu, hg, hs⟩ := ih st1 h
      unfold nameItem at hit
      split at hit
      · simp at hit
      · rename_i vs hvs
        obtain ⟨name, sel⟩ := it
        cases sel with
        | offset k => simp at hit
        | plain =>
          simp at hit
          subst hit
          refine ⟨?_, by simpa using hg, ?_⟩
          · simp [hu, plainNamesI, paramList, List.append_assoc]
          · intro kv hkv
            rcases hs kv hkv with h1 | ⟨raw, hm, hv⟩
            · exact Or.inl (by simpa using h1)
            · exact Or.inr ⟨raw, by simp [hm], hv⟩
        | fixed raw =>
          simp only at hit
          cases hfv : fixedVal q.selMemberName (cfg.values name) raw with
          | none => simp [hfv] at hit
          | some v =>
            simp [hfv] at hit
            subst hit
            refine ⟨?_, by simpa using hg, ?_⟩
            · simp [hu, plainNamesI]
            · intro kv hkv
              rcases hs kv hkv with h1 | ⟨raw', hm, hv⟩
              · simp only at h1
                rcases Env.mem_set _ _ _ _ h1 with h2 | h2
                · exact Or.inl h2
                · subst h2; exact Or.inr ⟨raw, by simp, hfv⟩
              · exact Or.inr ⟨raw', by simp [hm], hv⟩

theorem nameSegs_spec (q : Quirks) (cfg : Cfg) (st st' : NameState) (segs : List Seg)
    (h : nameSegs q cfg st segs = some st') :
    st'.used = st.used ++ paramList cfg (plainNames segs) ∧
    (∀ kv ∈ st'.spec, kv ∈ st.spec ∨
      ∃ raw, (⟨kv.1, .fixed raw⟩ : Item) ∈ itemsOf segs ∧ fixedVal q.selMemberName (cfg.values kv.1) raw = some kv.2) := by
  induction segs generalizing st with
  | nil => simp [nameSegs] at h; subst h; simp [plainNames, plainNamesI, itemsOf, groupsOf, paramList]
  | cons sg r ih =>
    cases sg with
    | lit s =>
      simp only [nameSegs] at h
      obtain ⟨hu, hs⟩ := ih _ h
      refine ⟨by simpa [plainNames, itemsOf, groupsOf] using hu, ?_⟩
      intro kv hkv
      rcases hs kv hkv with h1 | ⟨raw, hm, hv⟩
      · exact Or.inl h1
      · exact Or.inr ⟨raw, by simpa [itemsOf, groupsOf] using hm, hv⟩
    | group items =>
      simp only [nameSegs] at h
      cases hni : nameItems q cfg { st with grouped := true } items with
      | none => simp [hni] at h
      | some st1 =>
        simp only [hni] at h
        obtain ⟨hu1, _, hs1⟩ := nameItems_spec q cfg _ st1 items hni
        obtain ⟨hu, hs⟩ := ih st1 h
        refine ⟨?_, ?_⟩
        · rw [hu, hu1]
          simp [plainNames, plainNamesI, itemsOf, groupsOf, paramList, List.append_assoc]
        · intro kv hkv
          rcases hs kv hkv with h1 | ⟨raw, hm, hv⟩
          · rcases hs1 kv h1 with h2 | ⟨raw, hm, hv⟩
            · exact Or.inl h2
            · exact Or.inr ⟨raw, by simp [itemsOf, groupsOf, hm], hv⟩
          · refine Or.inr ⟨raw, ?_, hv⟩
            simp only [itemsOf, groupsOf, List.flatten_cons, List.mem_append]
            exact Or.inr (by simpa [itemsOf] using hm)

theorem plain_fixed_disjoint (items : List Item) (hnd : (items.map (·.name)).Nodup) :
    (plainNamesI items).Nodup ∧ ∀ p ∈ plainNamesI items, ∀ raw, (⟨p, .fixed raw⟩ : Item) ∉ items := by
  induction items with
  | nil => simp [plainNamesI]
  | cons it r ih =>
    simp only [List.map_cons, List.nodup_cons] at hnd
    obtain ⟨hn, hr⟩ := hnd
    obtain ⟨ih1, ih2⟩ := ih hr
    have hsub : ∀ p ∈ plainNamesI r, p ∈ r.map (·.name) := by
      intro p hp
      simp only [plainNamesI, List.mem_filterMap] at hp
      obtain ⟨a, ha, hpa⟩ := hp
      split at hpa
      · cases hpa; exact List.mem_map_of_mem ha
      · cases hpa
    obtain ⟨name, sel⟩ := it
    by_cases hsel : sel = .plain
    · subst hsel
      have e : plainNamesI (⟨name, .plain⟩ :: r) = name :: plainNamesI r := by simp [plainNamesI]
      rw [e]
      refine ⟨List.nodup_cons.mpr ⟨fun hm => hn (hsub _ hm), ih1⟩, ?_⟩
      intro p hp raw hmem
      simp only [List.mem_cons] at hp hmem
      rcases hmem with hmem | hmem
      · cases hmem
      · rcases hp with rfl | hp
        · exact hn (by simpa using List.mem_map_of_mem (f := (·.name)) hmem)
        · exact ih2 p hp raw hmem
    · have e : plainNamesI (⟨name, sel⟩ :: r) = plainNamesI r := by simp [plainNamesI, hsel]
      rw [e]
      refine ⟨ih1, ?_⟩
      intro p hp raw hmem
      simp only [List.mem_cons] at hmem
      rcases hmem with hmem | hmem
      · cases hmem
        exact hn (hsub _ hp)
      · exact ih2 p hp raw hmem

theorem dedup_of_nodup (l : List String) (h : l.Nodup) : dedup l = l := by
  induction l with
  | nil => rfl
  | cons a r ih =>
    simp only [List.nodup_cons] at h
    simp only [dedup, ih h.2]
    congr 1
    rw [List.filter_eq_self]
    intro x hx
    simp
    intro e; subst e; exact h.1 hx

/-- the `%`-template `NameExpander.expand` builds for a name: its literal parts and, for every
item of every group, the template of that parameter -/
def tmplOfSegs (cfg : Cfg) : List Seg → List TSeg
  | [] => []
  | .lit s :: r => .lit s :: tmplOfSegs cfg r
  | .group items :: r => items.flatMap (fun it => cfg.tmpl it.name) ++ tmplOfSegs cfg r

theorem nameItems_tmpl (q : Quirks) (cfg : Cfg) (st st' : NameState) (items : List Item)
    (h : nameItems q cfg st items = some st') :
    st'.tmpl = st.tmpl ++ items.flatMap (fun it => cfg.tmpl it.name) := by
  induction items generalizing st with
  | nil => simp [nameItems] at h; subst h; simp
  | cons it r ih =>
    simp only [nameItems] at h
    cases hit : nameItem q cfg st it with
    | none => simp [hit] at h
    | some st1 =>
      simp only [hit] at h
      rw [ih st1 h]
      unfold nameItem at hit
      split at hit
      · simp at hit
      · obtain ⟨name, sel⟩ := it
        cases sel with
        | offset k => simp at hit
        | plain => simp at hit; subst hit; simp [List.append_assoc]
        | fixed raw =>
          simp only at hit
          cases hfv : fixedVal q.selMemberName (cfg.values name) raw with
          | none => simp [hfv] at hit
          | some v => simp [hfv] at hit; subst hit; simp [List.append_assoc]

theorem nameSegs_tmpl (q : Quirks) (cfg : Cfg) (st st' : NameState) (segs : List Seg)
    (h : nameSegs q cfg st segs = some st') : st'.tmpl = st.tmpl ++ tmplOfSegs cfg segs := by
  induction segs generalizing st with
  | nil => simp [nameSegs] at h; subst h; simp [tmplOfSegs]
  | cons sg r ih =>
    cases sg with
    | lit s =>
      simp only [nameSegs] at h
      rw [ih _ h]; simp [tmplOfSegs, List.append_assoc]
    | group items =>
      simp only [nameSegs] at h
      cases hni : nameItems q cfg { st with grouped := true } items with
      | none => simp [hni] at h
      | some st1 =>
        simp only [hni] at h
        rw [ih st1 h, nameItems_tmpl q cfg _ st1 items hni]
        simp [tmplOfSegs, List.append_assoc]

/-! ### distinct combinations -/

theorem positions_pairwise (n : Nat) (vs : List Val) :
    List.Pairwise (fun a b : Nat × Val => a.1 ≠ b.1) (positions n vs) := by
  induction vs generalizing n with
  | nil => simp [positions]
  | cons v r ih =>
    simp only [positions, List.pairwise_cons]
    refine ⟨?_, ih (n + 1)⟩
    intro b hb
    have := (positions_spec (n + 1) r b.1 b.2 hb).1
    simp; omega

theorem combos_nodup (ps : List (String × List Val)) : (combos ps).Nodup := by
  induction ps with
  | nil => simp [combos]
  | cons pv r ih =>
    obtain ⟨p, vs⟩ := pv
    rw [List.nodup_iff_pairwise_ne] at ih ⊢
    simp only [combos, List.pairwise_flatMap, List.pairwise_map]
    refine ⟨fun iv _ => ih.imp (fun hab e => hab (List.cons.inj e).2), ?_⟩
    refine (positions_pairwise 0 vs).imp ?_
    intro a b hab x hx y hy
    simp only [List.mem_map] at hx hy
    obtain ⟨x', _, rfl⟩ := hx
    obtain ⟨y', _, rfl⟩ := hy
    intro e
    have := (List.cons.inj e).1
    exact hab (by simpa using congrArg Pick.idx this)

theorem optConcatMap_singletons {α β} (f : α → Option (List β)) (g : α → β) (l : List α)
    (h : ∀ a ∈ l, f a = some [g a]) : optConcatMap f l = some (l.map g) := by
  induction l with
  | nil => rfl
  | cons a r ih =>
    simp only [optConcatMap, h a (by simp), ih (fun x hx => h x (by simp [hx]))]
    rfl

theorem nodup_map_of_injOn {α β} (g : α → β) (l : List α) (hl : l.Nodup)
    (hinj : ∀ a ∈ l, ∀ b ∈ l, g a = g b → a = b) : (l.map g).Nodup := by
  induction l with
  | nil => simp
  | cons a r ih =>
    simp only [List.nodup_cons] at hl
    simp only [List.map_cons, List.nodup_cons, List.mem_map]
    refine ⟨?_, ih hl.2 (fun x hx y hy => hinj x (by simp [hx]) y (by simp [hy]))⟩
    rintro ⟨b, hb, hgb⟩
    have := hinj b (by simp [hb]) a (by simp) hgb
    subst this
    exact hl.1 hb

/-! ### items of a chain -/

theorem groupsOf_append (a b : List Seg) : groupsOf (a ++ b) = groupsOf a ++ groupsOf b := by
  induction a with
  | nil => rfl
  | cons sg r ih => cases sg <;> simp [groupsOf, ih]

theorem itemsOf_append (a b : List Seg) : itemsOf (a ++ b) = itemsOf a ++ itemsOf b := by
  simp [itemsOf, groupsOf_append]

theorem itemsOf_exprSegs (e : Expr) (t : Term) (ht : t ∈ e) (it : Item) (hit : it ∈ itemsOf t.segs) :
    it ∈ itemsOf (exprSegs e) := by
  induction e with
  | nil => simp at ht
  | cons a r ih =>
    simp only [exprSegs]
    have e1 : itemsOf (Seg.lit a.op :: (a.segs ++ exprSegs r)) = itemsOf a.segs ++ itemsOf (exprSegs r) := by
      rw [← itemsOf_append]; simp [itemsOf, groupsOf]
    rw [e1, List.mem_append]
    simp only [List.mem_cons] at ht
    rcases ht with rfl | ht
    · exact Or.inl hit
    · exact Or.inr (ih ht)

theorem itemsOf_chainSegs (chain : Chain) (e : Expr) (he : e ∈ chain) (it : Item)
    (hit : it ∈ itemsOf (exprSegs e)) : it ∈ itemsOf (chainSegs chain) := by
  induction chain with
  | nil => simp at he
  | cons a r ih =>
    cases r with
    | nil =>
      simp only [List.mem_singleton] at he
      subst he; simpa [chainSegs] using hit
    | cons b r' =>
      simp only [chainSegs]
      have e1 : itemsOf (exprSegs a ++ Seg.lit "=>" :: chainSegs (b :: r'))
          = itemsOf (exprSegs a) ++ itemsOf (chainSegs (b :: r')) := by
        rw [itemsOf_append]; simp [itemsOf, groupsOf]
      rw [e1, List.mem_append]
      simp only [List.mem_cons] at he
      rcases he with rfl | he
      · exact Or.inl hit
      · exact Or.inr (ih (by simpa using he))

end CylcModel.Params
