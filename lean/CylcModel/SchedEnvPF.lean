/-
The retry bound of C02 for the extended model `SchedPF`: job-file preparation failures included.
-/
import CylcModel.SchedLemmasPF
import CylcModel.SchedEnvC02

namespace CylcModel.Sched

variable {g : Graph}

/-! ### message processing does not touch the message queue -/

theorem queue_put (s : State) (x : Proxy) : (s.put x).queue = s.queue := rfl

theorem queue_add (s : State) (x : Proxy) : (s.add x).queue = s.queue := by
  unfold State.add; split <;> rfl

theorem queue_remove (s : State) (x : Proxy) : (remove g s x).queue = s.queue := by
  unfold remove
  simp only
  split
  · exact queue_spawnNextParentless s x
  · rfl

theorem queue_removeIfComplete (s : State) (x : Proxy) : (removeIfComplete g s x).queue = s.queue := by
  unfold removeIfComplete
  split
  · rfl
  · split
    · rfl
    · split
      · exact queue_remove s x
      · rfl

theorem queue_spawnChild (p : Int) (n out : String) (acc : State × List (Int × String)) (c : Child) :
    (spawnChild g p n out acc c).1.queue = acc.1.queue := by
  obtain ⟨st, sui⟩ := acc
  unfold spawnChild
  simp only
  have h0 : (if (c.isAbs && !st.absDone.contains ⟨p, n, out⟩) = true then
      { st with absDone := st.absDone ++ [⟨p, n, out⟩] } else st).queue = st.queue := by
    split <;> rfl
  generalize (if (c.isAbs && !st.absDone.contains ⟨p, n, out⟩) = true then
      { st with absDone := st.absDone ++ [⟨p, n, out⟩] } else st) = st0 at h0 ⊢
  have hfold : ∀ (ks : List (Int × String)) (a : State × List (Int × String)),
      (ks.foldl (fun (a : State × List (Int × String)) k =>
        match a.1.get? k.1 k.2 with
        | none => a
        | some z =>
          let z := z.satisfyMe ⟨p, n, out⟩
          (a.1.put z, if (z.suicideNow && !a.2.contains k) = true then a.2 ++ [k] else a.2)) a).1.queue = a.1.queue := by
    intro ks; induction ks with
    | nil => intro a; rfl
    | cons k ks ih =>
      intro a
      simp only [List.foldl_cons]
      rw [ih]
      split <;> rfl
  split
  · exact h0
  · refine (hfold _ _).trans ?_
    simp only
    split
    · exact h0
    · rw [queue_add]; exact h0

theorem queue_spawnOnOutput (s : State) (p : Int) (n out : String) : (spawnOnOutput g s p n out).queue = s.queue := by
  unfold spawnOnOutput
  split
  · rfl
  · simp only
    have h1 : ∀ (cs : List Child) (acc : State × List (Int × String)),
        (cs.foldl (spawnChild g p n out) acc).1.queue = acc.1.queue := by
      intro cs; induction cs with
      | nil => intro acc; rfl
      | cons c cs ih => intro acc; simp only [List.foldl_cons]; rw [ih, queue_spawnChild]
    have h2 : ∀ (ks : List (Int × String)) (st : State),
        (ks.foldl (fun (st : State) k => match st.get? k.1 k.2 with
          | some z => remove g st z
          | none => st) st).queue = st.queue := by
      intro ks; induction ks with
      | nil => intro st; rfl
      | cons k ks ih =>
        intro st
        simp only [List.foldl_cons]
        rw [ih]
        split
        · exact queue_remove _ _
        · rfl
    generalize hR : (List.foldl (spawnChild g p n out) (s, []) _) = R
    have hRq : R.1.queue = s.queue := by rw [← hR]; exact h1 _ _
    split
    · rw [queue_removeIfComplete]; exact (h2 R.2 R.1).trans hRq
    · exact (h2 R.2 R.1).trans hRq

theorem queue_store (s : State) (x : Proxy) (tr : Bool) : (store s x tr).queue = s.queue := by
  unfold store; split <;> rfl

theorem queue_spawnChildren (s : State) (p : Int) (n out : String) (tr : Bool) :
    (spawnChildren g s p n out tr).queue = s.queue := by
  unfold spawnChildren; split
  · rfl
  · exact queue_spawnOnOutput s p n out

theorem queue_processMessage : ∀ (fuel : Nat) (s : State) (p : Int) (n : String) (flag : Flag) (sn : Nat)
    (msg : String), (processMessage g fuel s p n flag sn msg).1.queue = s.queue := by
  intro fuel
  induction fuel with
  | zero => intro s p n flag sn msg; rfl
  | succ fuel ih =>
    intro s p n flag sn msg
    unfold processMessage
    split
    · rfl
    · rename_i x tr _
      split
      · rfl
      · split
        · rfl
        · simp only
          have himp : ∀ (l : List String) (st : State),
              (l.foldl (fun st m => (processMessage g fuel st p n .internal sn m).1) st).queue = st.queue := by
            intro l; induction l with
            | nil => intro st; rfl
            | cons a l ihl => intro st; simp only [List.foldl_cons]; rw [ihl, ih]
          generalize hS : (List.foldl (fun st m => (processMessage g fuel st p n Flag.internal sn m).1) _ _) = S
          have hSq : S.queue = s.queue := by rw [← hS, himp, queue_store]
          split
          · exact hSq
          · repeat' split
            all_goals first
              | exact hSq
              | (rw [queue_store]; exact hSq)
              | (rw [queue_spawnChildren, queue_store]; exact hSq)
              | (rw [queue_spawnChildren]; exact hSq)

theorem queue_prepFail (s : State) (k : Int × String) : (prepFail g s k).queue = s.queue := by
  unfold prepFail
  split
  · split
    · exact queue_processMessage _ _ _ _ _ _ _
    · rfl
  · rfl

/-! ### the environment invariant in the extended model -/

/-- the environment assumption on an operation of the extended model (a main loop with preparation failures is a
main loop) -/
def opOK2X (s : State) : OpX → Bool
  | .base op => opOK2 s op
  | .loopPF _ => opOK2 s .loop

def envAllX (g : Graph) : State → List OpX → Bool
  | _, [] => true
  | s, op :: ops => opOK2X s op && envAllX g (stepX g s op) ops

def envOK2X (g : Graph) (ops : List OpX) : Bool := envAllX g (init g) ops

theorem env_stepX (hwf : g.wf = true) (hns : g.noSui = true) {s : State} (hi : RInv g s)
    (hinv : EnvI g s) (op : OpX) (hop : opOK2X s op = true) :
    Steps g Kinds.env (clearOp s) (stepX g s op) := by
  cases op with
  | base op => exact env_step hwf hns hi hinv op hop
  | loopPF fails =>
    show Steps g Kinds.env (clearOp s) (mainLoopPF g (clearOp s) fails)
    have hc := rinv_clearOp hi
    have hP : ∀ a b, RInv g a ∧ EnvI g a → Act g Kinds.env a b → RInv g b ∧ EnvI g b :=
      fun a b h ha => ⟨rinv_act hwf h.1 ha, env_act h.2 ha⟩
    rw [mainLoopPF_eq]
    split
    · exact Steps.refl _
    · obtain ⟨h1, hq1⟩ := steps_preSubmit (K := Kinds.env) hwf rfl hc
      split
      · exact h1.trans (steps_frame rfl rfl rfl rfl)
      · have hp1 := Steps.inv (fun st => RInv g st ∧ EnvI g st) hP h1 ⟨hc, envI_clearOp hinv⟩
        -- the preparation failures
        have h2 : ∀ (l : List (Int × String)) (st : State), RInv g st ∧ EnvI g st →
            Steps g Kinds.env st (l.foldl (prepFail g) st) ∧ (l.foldl (prepFail g) st).queue = st.queue := by
          intro l; induction l with
          | nil => intro st _; exact ⟨Steps.refl st, rfl⟩
          | cons k l ih =>
            intro st hst
            simp only [List.foldl_cons]
            have hk : Steps g Kinds.env st (prepFail g st k) :=
              steps_prepFail hwf (Or.inr hns) (fun _ => rfl) rfl
                (fun x hx => by simp [Kinds.env, prepOnly, hx]) hst.1 k
            obtain ⟨h3, h4⟩ := ih _ (Steps.inv (fun st => RInv g st ∧ EnvI g st) hP hk hst)
            exact ⟨hk.trans h3, by rw [h4, queue_prepFail]⟩
        obtain ⟨h3, hq3⟩ := h2 fails _ hp1
        have hp3 := Steps.inv (fun st => RInv g st ∧ EnvI g st) hP h3 hp1
        have hqs : (fails.foldl (prepFail g) (preSubmit g (clearOp s)).1).queue = s.queue := by
          rw [hq3, hq1]; rfl
        have hopq : ∀ m ∈ s.queue, m.text ≠ "submit-failed" ∧ m.submitNum ≥ 1 := by
          intro m hm
          have := List.all_eq_true.mp hop m hm
          simpa using this
        refine (h1.trans h3).trans (steps_postSubmit hwf (EnvI g) (fun _ _ _ h ha => env_act h ha) (fun _ => rfl) rfl
          (Or.inr hns) hp3.1 hp3.2 ?_ (Or.inr (by rw [hqs]; exact fun m hm => (hopq m hm).1)))
        rw [hqs]
        intro st _ hst m hm
        right
        refine ⟨fun x _ _ hnw => by simpa [Kinds.env] using hnw, ?_⟩
        intro x0 hg hpass hw
        have hpi := hst.pool x0 (get?_some_spec hg).1
        obtain ⟨hp1', hp2'⟩ := hpass
        have hsn : m.submitNum = x0.submitNum := by
          simp only [Bool.not_false, Bool.true_and, beq_self_eq_true, Bool.and_eq_true, bne_iff_ne, ne_eq,
            true_and, Decidable.not_not] at hp1'
          exact hp1'
        have hpos : x0.submitNum > 0 := by have := (hopq m hm).2; omega
        have hr := hpi.2.1 hw hpos
        apply hp2'
        simp only [Bool.not_false, Bool.true_and, hw, beq_self_eq_true, Bool.and_eq_true, decide_eq_true_eq,
          Bool.or_eq_true]
        exact ⟨hpos, hr.symm⟩

/-- under the environment assumption and without suicide triggers the invariant holds in every state of every run
of the extended model -/
theorem env_runX (hwf : g.wf = true) (hns : g.noSui = true) (ops : List OpX) (henv : envOK2X g ops = true) :
    ∀ s ∈ runX g ops, RInv g s ∧ EnvI g s := by
  have hstep : ∀ a b, Steps g Kinds.env a b → (RInv g a ∧ EnvI g a) → (RInv g b ∧ EnvI g b) := by
    intro a b hab hpa
    exact Steps.inv (fun st => RInv g st ∧ EnvI g st)
      (fun s s' h ha => ⟨rinv_act hwf h.1 ha, env_act h.2 ha⟩) hab hpa
  have key : ∀ (ops : List OpX) (s : State), (RInv g s ∧ EnvI g s) → envAllX g s ops = true →
      ∀ s' ∈ traceX g s ops, RInv g s' ∧ EnvI g s' := by
    intro ops; induction ops with
    | nil => intro s hp _ s' hm; simp only [traceX, List.mem_singleton] at hm; subst hm; exact hp
    | cons op ops ih =>
      intro s hp he s' hm
      simp only [envAllX, Bool.and_eq_true] at he
      simp only [traceX, List.mem_cons] at hm
      rcases hm with rfl | hm
      · exact hp
      · exact ih _ (hstep _ _ (env_stepX hwf hns hp.1 hp.2 op he.1) ⟨rinv_clearOp hp.1, envI_clearOp hp.2⟩) he.2 s' hm
  exact key ops (init g)
    (hstep _ _ (steps_init hwf rfl) ⟨rinv_empty, ⟨(by intro x hx; cases hx), (by intro x hx; cases hx)⟩⟩) henv

end CylcModel.Sched
