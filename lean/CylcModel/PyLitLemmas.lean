/-
Helper lemmas for C37: `literalEval (reprToks v)` for nested values (mutual structural induction
over `Val` / `Vals` / `Pairs`), and the restart merge.
-/
import CylcModel.PyLit

namespace CylcModel.PyLit

/-! ## which values can be read back -/

/-- a leaf whose `repr` is a literal: not `Ellipsis`, not `inf` / `nan` -/
def Leaf.rep : Leaf → Bool
  | .ellipsis => false
  | .float _ .inf => false
  | .float _ .nan => false
  | _ => true

mutual
/-- representable: no `Ellipsis`, `inf`, `nan` anywhere inside -/
def rep : Val → Bool
  | .leaf l => l.rep
  | .list xs => repAll xs
  | .tuple xs => repAll xs
  | .set xs => repAll xs
  | .dict ps => repPairs ps
def repAll : Vals → Bool
  | .nil => true
  | .cons v vs => rep v && repAll vs
def repPairs : Pairs → Bool
  | .nil => true
  | .cons k v ps => rep k && rep v && repPairs ps
end

mutual
/-- well-formed (denotes a Python object): set elements and dict keys are hashable, everywhere -/
def wf : Val → Bool
  | .leaf _ => true
  | .list xs => wfAll xs
  | .tuple xs => wfAll xs
  | .set xs => hashableAll xs && wfAll xs
  | .dict ps => keysHashable ps && wfPairs ps
def wfAll : Vals → Bool
  | .nil => true
  | .cons v vs => wf v && wfAll vs
def wfPairs : Pairs → Bool
  | .nil => true
  | .cons k v ps => wf k && wf v && wfPairs ps
end

def kindOf : Val → Kind
  | .leaf (.int i) => if i < 0 then .signed else .num
  | .leaf (.float neg _) => if neg then .signed else .num
  | _ => .other

/-- the items of a display without brackets -/
def itemsToks : Vals → List Tok
  | .nil => []
  | .cons v vs => reprToks v ++ tailToks vs

def pairsToks : Pairs → List Tok
  | .nil => []
  | .cons k v ps => reprToks k ++ (.colon :: (reprToks v ++ tailPairs ps))

theorem tailToks_cons (v : Val) (vs : Vals) : tailToks (.cons v vs) = .comma :: itemsToks (.cons v vs) := by
  simp [tailToks, itemsToks]

theorem tailPairs_cons (k v : Val) (ps : Pairs) : tailPairs (.cons k v ps) = .comma :: pairsToks (.cons k v ps) := by
  simp [tailPairs, pairsToks]

mutual
def need : Val → Nat
  | .leaf _ => 2
  | .list xs => needItems xs + 1
  | .tuple xs => needItems xs + 1
  | .set xs => needItems xs + 1
  | .dict ps => needPairs ps + 1
def needItems : Vals → Nat
  | .nil => 1
  | .cons v vs => max (need v) (needItems vs) + 1
def needPairs : Pairs → Nat
  | .nil => 1
  | .cons k v ps => max (need k) (max (need v) (needPairs ps)) + 1
end

/-- first token of a printed value -/
def StartTok (t : Tok) : Prop :=
  t ≠ .rpar ∧ t ≠ .rbr ∧ t ≠ .rbrace ∧ t ≠ .eof ∧ t ≠ .comma ∧ t ≠ .colon

def headOk : List Tok → Prop
  | [] => False
  | t :: _ => StartTok t

theorem headOk_repr (v : Val) : headOk (reprToks v) := by
  cases v with
  | leaf l =>
    cases l with
    | int i => by_cases h : i < 0 <;> simp [reprToks, leafToks, h, headOk, StartTok]
    | float neg m => cases neg <;> cases m <;> simp [reprToks, leafToks, headOk, StartTok]
    | bool b => cases b <;> simp [reprToks, leafToks, headOk, StartTok]
    | _ => simp [reprToks, leafToks, headOk, StartTok]
  | list xs => cases xs <;> simp [reprToks, headOk, StartTok]
  | tuple xs =>
    cases xs with
    | nil => simp [reprToks, headOk, StartTok]
    | cons v vs => cases vs <;> simp [reprToks, headOk, StartTok]
  | set xs => cases xs <;> simp [reprToks, headOk, StartTok]
  | dict ps => cases ps <;> simp [reprToks, headOk, StartTok]

theorem reprToks_head (v : Val) : ∃ t r, reprToks v = t :: r ∧ StartTok t := by
  have h := headOk_repr v
  cases hr : reprToks v with
  | nil => rw [hr] at h; exact h.elim
  | cons t r => rw [hr] at h; exact ⟨t, r, rfl, h⟩

/-- what may follow a complete value: a closer, a comma, a colon -/
def Follow (rest : List Tok) : Prop :=
  ∃ t r, rest = t :: r ∧ t ≠ .plus ∧ t ≠ .minus

theorem noBin_ok (v : Val) (k : Kind) (rest : List Tok) (h : Follow rest) :
    noBin (.ok (v, k, rest)) = .ok (v, k, rest) := by
  obtain ⟨t, r, rfl, h1, h2⟩ := h
  cases t <;> simp_all [noBin]

/-! ## reading back what `repr` printed -/

theorem leaf_rt (l : Leaf) (n : Nat) (rest : List Tok) (hn : 2 ≤ n) (hr : l.rep = true) :
    pFactor n (leafToks l ++ rest) = .ok (.leaf l, kindOf (.leaf l), rest) := by
  obtain ⟨m, rfl⟩ : ∃ m, n = m + 2 := ⟨n - 2, by omega⟩
  cases l with
  | none => simp [leafToks, pFactor, kindOf]
  | bool b => cases b <;> simp [leafToks, pFactor, kindOf]
  | ellipsis => simp [Leaf.rep] at hr
  | int i =>
    by_cases h : i < 0
    · have : -(i.natAbs : Int) = i := by omega
      simp [leafToks, h, pFactor, kindOf, applySign, this]
    · have : (i.natAbs : Int) = i := by omega
      simp [leafToks, h, pFactor, kindOf, this]
  | float neg m =>
    cases m with
    | fin t => cases neg <;> simp [leafToks, pFactor, kindOf, applySign]
    | inf => simp [Leaf.rep] at hr
    | nan => simp [Leaf.rep] at hr
  | str s => simp [leafToks, pFactor, kindOf]
  | bytes b => simp [leafToks, pFactor, kindOf]

def Closer (c : Tok) : Prop := c = .rpar ∨ c = .rbr ∨ c = .rbrace ∨ c = .eof

theorem follow_closer {c : Tok} (hc : Closer c) (r : List Tok) : Follow (c :: r) := by
  rcases hc with rfl | rfl | rfl | rfl <;> exact ⟨_, _, rfl, by simp, by simp⟩

theorem follow_tail (vs : Vals) (c : Tok) (hc : Closer c) (r : List Tok) : Follow (tailToks vs ++ c :: r) := by
  cases vs with
  | nil => simpa [tailToks] using follow_closer hc r
  | cons v vs => exact ⟨.comma, reprToks v ++ tailToks vs ++ c :: r, by simp [tailToks], by simp, by simp⟩

mutual
theorem factor_rt : (v : Val) → (n : Nat) → (rest : List Tok) → need v ≤ n → wf v = true → rep v = true → Follow rest →
    pFactor n (reprToks v ++ rest) = .ok (v, kindOf v, rest)
  | .leaf l, n, rest, hn, _, hr, _ => by
    simpa [reprToks] using leaf_rt l n rest (by simpa [need] using hn) (by simpa [rep] using hr)
  | .list xs, n, rest, hn, hw, hr, _ => by
    obtain ⟨m, rfl⟩ : ∃ m, n = m + 1 := ⟨n - 1, by simp [need] at hn; omega⟩
    have h := items_rt xs m .rbr rest (by simp [need] at hn; omega) (by simpa [wf] using hw) (by simpa [rep] using hr) (Or.inr (Or.inl rfl))
    cases xs with
    | nil => simp [reprToks, pFactor, itemsToks] at h ⊢; simp [h, kindOf]
    | cons v vs =>
      simp only [reprToks, itemsToks, List.append_assoc, List.cons_append, List.nil_append] at h ⊢
      simp [pFactor, h, kindOf]
  | .tuple .nil, n, rest, hn, _, _, _ => by
    obtain ⟨m, rfl⟩ : ∃ m, n = m + 1 := ⟨n - 1, by simp [need] at hn; omega⟩
    simp [reprToks, pFactor, kindOf]
  | .tuple (.cons v vs), n, rest, hn, hw, hr, _ => by
    obtain ⟨m, rfl⟩ : ∃ m, n = m + 1 := ⟨n - 1, by simp [need] at hn; omega⟩
    simp only [need, needItems] at hn
    simp only [wf, wfAll, Bool.and_eq_true] at hw
    simp only [rep, repAll, Bool.and_eq_true] at hr
    obtain ⟨t, r, ht, hst⟩ := reprToks_head v
    have hne : (t == Tok.rpar) = false := by simp [hst.1]
    cases vs with
    | nil =>
      have hfol : Follow (Tok.comma :: Tok.rpar :: rest) := ⟨_, _, rfl, by simp, by simp⟩
      have hf := factor_rt v m (.comma :: .rpar :: rest) (by omega) hw.1 hr.1 hfol
      have hi : pItems m .rpar (.rpar :: rest) = .ok (.nil, rest) := by
        obtain ⟨m', rfl⟩ : ∃ m', m = m' + 1 := ⟨m - 1, by simp [needItems] at hn; omega⟩
        simp [pItems]
      simp only [reprToks, List.cons_append, List.append_assoc, List.nil_append]
      rw [pFactor]
      simp only [ht, List.cons_append, List.head?_cons, Option.some_beq_some, hne, Bool.false_eq_true, if_false]
      rw [← List.cons_append, ← ht, hf, noBin_ok _ _ _ hfol]
      simp [hi, kindOf]
    | cons w ws =>
      have hfol : Follow (tailToks (.cons w ws) ++ .rpar :: rest) := follow_tail _ _ (Or.inl rfl) rest
      have hf := factor_rt v m _ (by omega) hw.1 hr.1 hfol
      have hi := items_rt (.cons w ws) m .rpar rest (by omega) hw.2 hr.2 (Or.inl rfl)
      simp only [reprToks, List.cons_append, List.append_assoc, List.nil_append]
      rw [pFactor]
      simp only [ht, List.cons_append, List.head?_cons, Option.some_beq_some, hne, Bool.false_eq_true, if_false]
      rw [← List.cons_append, ← ht, hf, noBin_ok _ _ _ hfol]
      simp only [tailToks_cons, List.cons_append]
      simp [hi, kindOf]
  | .set .nil, n, rest, hn, _, _, _ => by
    obtain ⟨m, rfl⟩ : ∃ m, n = m + 1 := ⟨n - 1, by simp [need] at hn; omega⟩
    simp [reprToks, pFactor, kindOf]
  | .set (.cons v vs), n, rest, hn, hw, hr, _ => by
    obtain ⟨m, rfl⟩ : ∃ m, n = m + 1 := ⟨n - 1, by simp [need] at hn; omega⟩
    simp only [need, needItems] at hn
    simp only [wf, wfAll, hashableAll, Bool.and_eq_true] at hw
    simp only [rep, repAll, Bool.and_eq_true] at hr
    obtain ⟨t, r, ht, hst⟩ := reprToks_head v
    have hne : (t == Tok.rbrace) = false := by simp [hst.2.2.1]
    have hfol : Follow (tailToks vs ++ .rbrace :: rest) := follow_tail _ _ (Or.inr (Or.inr (Or.inl rfl))) rest
    have hf := factor_rt v m _ (by omega) hw.2.1 hr.1 hfol
    simp only [reprToks, List.cons_append, List.append_assoc, List.nil_append]
    rw [pFactor]
    simp only [ht, List.cons_append, List.head?_cons, Option.some_beq_some, hne, Bool.false_eq_true, if_false]
    rw [← List.cons_append, ← ht, hf, noBin_ok _ _ _ hfol]
    cases vs with
    | nil => simp [tailToks, hw.1.1, kindOf]
    | cons w ws =>
      have hi := items_rt (.cons w ws) m .rbrace rest (by omega) hw.2.2 hr.2 (Or.inr (Or.inr (Or.inl rfl)))
      simp only [tailToks_cons, List.cons_append]
      simp [hi, hw.1.1, hw.1.2, kindOf]
  | .dict .nil, n, rest, hn, _, _, _ => by
    obtain ⟨m, rfl⟩ : ∃ m, n = m + 1 := ⟨n - 1, by simp [need] at hn; omega⟩
    simp [reprToks, pFactor, kindOf]
  | .dict (.cons k v ps), n, rest, hn, hw, hr, _ => by
    obtain ⟨m, rfl⟩ : ∃ m, n = m + 1 := ⟨n - 1, by simp [need] at hn; omega⟩
    simp only [need, needPairs] at hn
    simp only [wf, wfPairs, keysHashable, Bool.and_eq_true] at hw
    simp only [rep, repPairs, Bool.and_eq_true] at hr
    obtain ⟨t, r, ht, hst⟩ := reprToks_head k
    have hne : (t == Tok.rbrace) = false := by simp [hst.2.2.1]
    have hfolv : Follow (tailPairs ps ++ .rbrace :: rest) := by
      cases ps with
      | nil => exact ⟨.rbrace, rest, by simp [tailPairs], by simp, by simp⟩
      | cons k2 v2 ps2 => exact ⟨.comma, pairsToks (.cons k2 v2 ps2) ++ .rbrace :: rest, by simp [tailPairs_cons], by simp, by simp⟩
    have hfolk : Follow (Tok.colon :: (reprToks v ++ (tailPairs ps ++ .rbrace :: rest))) := ⟨_, _, rfl, by simp, by simp⟩
    have hfk := factor_rt k m _ (by omega) hw.2.1.1 hr.1.1 hfolk
    have hfv := factor_rt v m _ (by omega) hw.2.1.2 hr.1.2 hfolv
    simp only [reprToks, List.cons_append, List.append_assoc, List.nil_append]
    rw [pFactor]
    simp only [ht, List.cons_append, List.head?_cons, Option.some_beq_some, hne, Bool.false_eq_true, if_false]
    rw [← List.cons_append, ← ht, hfk, noBin_ok _ _ _ hfolk]
    simp only [hfv, noBin_ok _ _ _ hfolv]
    cases ps with
    | nil => simp [tailPairs, hw.1.1, kindOf]
    | cons k2 v2 ps2 =>
      have hp := pairs_rt (.cons k2 v2 ps2) m rest (by omega) hw.2.2 hr.2
      simp only [tailPairs_cons, List.cons_append]
      simp [hp, hw.1.1, hw.1.2, kindOf]
theorem items_rt : (vs : Vals) → (n : Nat) → (closer : Tok) → (rest : List Tok) → needItems vs ≤ n → wfAll vs = true → repAll vs = true → Closer closer →
    pItems n closer (itemsToks vs ++ closer :: rest) = .ok (vs, rest)
  | .nil, n, closer, rest, hn, _, _, _ => by
    obtain ⟨m, rfl⟩ : ∃ m, n = m + 1 := ⟨n - 1, by simp [needItems] at hn; omega⟩
    simp [itemsToks, pItems]
  | .cons v vs, n, closer, rest, hn, hw, hr, hc => by
    obtain ⟨m, rfl⟩ : ∃ m, n = m + 1 := ⟨n - 1, by simp [needItems] at hn; omega⟩
    simp only [needItems] at hn
    simp only [wfAll, Bool.and_eq_true] at hw
    simp only [repAll, Bool.and_eq_true] at hr
    obtain ⟨t, r, ht, hst⟩ := reprToks_head v
    have hne : (t == closer) = false := by
      rcases hc with rfl | rfl | rfl | rfl <;> simp [hst.1, hst.2.1, hst.2.2.1, hst.2.2.2.1]
    have hf := factor_rt v m (tailToks vs ++ closer :: rest) (by omega) hw.1 hr.1 (follow_tail vs closer hc rest)
    have hfb := noBin_ok v (kindOf v) _ (follow_tail vs closer hc rest)
    simp only [itemsToks, List.append_assoc]
    rw [ht, List.cons_append, pItems]
    simp only [hne, Bool.false_eq_true, if_false]
    rw [← List.cons_append, ← ht, hf, hfb]
    cases vs with
    | nil =>
      have : closer ≠ .comma := by rcases hc with rfl | rfl | rfl | rfl <;> simp
      simp only [tailToks, List.nil_append]
      cases closer <;> simp_all
    | cons w ws =>
      have hi := items_rt (.cons w ws) m closer rest (by omega) hw.2 hr.2 hc
      simp only [tailToks_cons, List.cons_append]
      simp [hi]
theorem pairs_rt : (ps : Pairs) → (n : Nat) → (rest : List Tok) → needPairs ps ≤ n → wfPairs ps = true → repPairs ps = true →
    pPairs n (pairsToks ps ++ .rbrace :: rest) = .ok (ps, rest)
  | .nil, n, rest, hn, _, _ => by
    obtain ⟨m, rfl⟩ : ∃ m, n = m + 1 := ⟨n - 1, by simp [needPairs] at hn; omega⟩
    simp [pairsToks, pPairs]
  | .cons k v ps, n, rest, hn, hw, hr => by
    obtain ⟨m, rfl⟩ : ∃ m, n = m + 1 := ⟨n - 1, by simp [needPairs] at hn; omega⟩
    simp only [needPairs] at hn
    simp only [wfPairs, Bool.and_eq_true] at hw
    simp only [repPairs, Bool.and_eq_true] at hr
    obtain ⟨t, r, ht, hst⟩ := reprToks_head k
    have hne : (t == Tok.rbrace) = false := by simp [hst.2.2.1]
    have hfolv : Follow (tailPairs ps ++ .rbrace :: rest) := by
      cases ps with
      | nil => exact ⟨.rbrace, rest, by simp [tailPairs], by simp, by simp⟩
      | cons k2 v2 ps2 => exact ⟨.comma, pairsToks (.cons k2 v2 ps2) ++ .rbrace :: rest, by simp [tailPairs_cons], by simp, by simp⟩
    have hfolk : Follow (Tok.colon :: (reprToks v ++ (tailPairs ps ++ .rbrace :: rest))) := ⟨_, _, rfl, by simp, by simp⟩
    have hfk := factor_rt k m _ (by omega) hw.1.1 hr.1.1 hfolk
    have hfv := factor_rt v m _ (by omega) hw.1.2 hr.1.2 hfolv
    simp only [pairsToks, List.cons_append, List.append_assoc]
    rw [ht, List.cons_append, pPairs]
    simp only [hne, Bool.false_eq_true, if_false]
    rw [← List.cons_append, ← ht, hfk, noBin_ok _ _ _ hfolk]
    simp only [hfv, noBin_ok _ _ _ hfolv]
    cases ps with
    | nil => simp [tailPairs]
    | cons k2 v2 ps2 =>
      have hp := pairs_rt (.cons k2 v2 ps2) m rest (by omega) hw.2 hr.2
      simp only [tailPairs_cons, List.cons_append]
      simp [hp]
end


/-! ## fuel and the top level -/

mutual
theorem noImag_repr : (v : Val) → (reprToks v).any isImag = false
  | .leaf l => by
    cases l with
    | int i => by_cases h : i < 0 <;> simp [reprToks, leafToks, h, isImag]
    | float neg m => cases neg <;> cases m <;> simp [reprToks, leafToks, isImag]
    | bool b => cases b <;> simp [reprToks, leafToks, isImag]
    | _ => simp [reprToks, leafToks, isImag]
  | .list .nil => by simp [reprToks, isImag]
  | .list (.cons v vs) => by simp [reprToks, isImag, noImag_repr v, noImag_tail vs]
  | .tuple .nil => by simp [reprToks, isImag]
  | .tuple (.cons v .nil) => by simp [reprToks, isImag, noImag_repr v]
  | .tuple (.cons v (.cons w ws)) => by simp [reprToks, isImag, noImag_repr v, noImag_tail (.cons w ws)]
  | .set .nil => by simp [reprToks, isImag]
  | .set (.cons v vs) => by simp [reprToks, isImag, noImag_repr v, noImag_tail vs]
  | .dict .nil => by simp [reprToks, isImag]
  | .dict (.cons k v ps) => by simp [reprToks, isImag, noImag_repr k, noImag_repr v, noImag_tailPairs ps]
theorem noImag_tail : (vs : Vals) → (tailToks vs).any isImag = false
  | .nil => by simp [tailToks]
  | .cons v vs => by simp [tailToks, isImag, noImag_repr v, noImag_tail vs]
theorem noImag_tailPairs : (ps : Pairs) → (tailPairs ps).any isImag = false
  | .nil => by simp [tailPairs]
  | .cons k v ps => by simp [tailPairs, isImag, noImag_repr k, noImag_repr v, noImag_tailPairs ps]
end

theorem tailToks_length (vs : Vals) :
    (tailToks vs).length = match vs with | .nil => 0 | .cons _ _ => (itemsToks vs).length + 1 := by
  cases vs <;> simp [tailToks, itemsToks]

theorem tailPairs_length (ps : Pairs) :
    (tailPairs ps).length = match ps with | .nil => 0 | .cons _ _ _ => (pairsToks ps).length + 1 := by
  cases ps <;> simp [tailPairs, pairsToks]

mutual
theorem need_le : (v : Val) → 1 ≤ (reprToks v).length ∧ need v ≤ 2 * (reprToks v).length
  | .leaf l => by
    cases l with
    | int i => by_cases h : i < 0 <;> simp [reprToks, leafToks, h, need]
    | float neg m => cases neg <;> cases m <;> simp [reprToks, leafToks, need]
    | bool b => cases b <;> simp [reprToks, leafToks, need]
    | _ => simp [reprToks, leafToks, need]
  | .list .nil => by simp [reprToks, need, needItems]
  | .list (.cons v vs) => by
    have h := needItems_le (.cons v vs)
    simp only [itemsToks, List.length_append] at h
    simp only [reprToks, need, List.length_cons, List.length_append, List.length_nil]
    omega
  | .tuple .nil => by simp [reprToks, need, needItems]
  | .tuple (.cons v .nil) => by
    have h := need_le v
    simp only [reprToks, need, needItems, List.length_cons, List.length_append, List.length_nil]
    omega
  | .tuple (.cons v (.cons w ws)) => by
    have h := needItems_le (.cons v (.cons w ws))
    simp only [itemsToks, List.length_append] at h
    simp only [reprToks, need, List.length_cons, List.length_append, List.length_nil]
    omega
  | .set .nil => by simp [reprToks, need, needItems]
  | .set (.cons v vs) => by
    have h := needItems_le (.cons v vs)
    simp only [itemsToks, List.length_append] at h
    simp only [reprToks, need, List.length_cons, List.length_append, List.length_nil]
    omega
  | .dict .nil => by simp [reprToks, need, needPairs]
  | .dict (.cons k v ps) => by
    have h := needPairs_le (.cons k v ps)
    simp only [pairsToks] at h
    simp only [reprToks, need, List.length_cons, List.length_append, List.length_nil] at h ⊢
    omega
theorem needItems_le : (vs : Vals) → needItems vs ≤ 2 * (itemsToks vs).length + 1
  | .nil => by simp [needItems, itemsToks]
  | .cons v vs => by
    have h1 := need_le v
    have h2 := needItems_le vs
    have h3 := tailToks_length vs
    simp only [needItems, itemsToks, List.length_append]
    cases vs with
    | nil => simp only [needItems] at *; simp only [tailToks, List.length_nil]; omega
    | cons w ws => simp only at h3; omega
theorem needPairs_le : (ps : Pairs) → needPairs ps ≤ 2 * (pairsToks ps).length + 1
  | .nil => by simp [needPairs, pairsToks]
  | .cons k v ps => by
    have h1 := need_le k
    have h2 := need_le v
    have h3 := needPairs_le ps
    have h4 := tailPairs_length ps
    simp only [needPairs, pairsToks, List.length_append, List.length_cons]
    cases ps with
    | nil => simp only [needPairs] at *; simp only [tailPairs, List.length_nil]; omega
    | cons k2 v2 ps2 => simp only at h4; omega
end

/-- **`literal_eval(repr(v)) = v`** for every well-formed value without `Ellipsis` / `inf` / `nan` inside -/
theorem literalEval_repr (v : Val) (hw : wf v = true) (hr : rep v = true) :
    literalEval (reprToks v) = .ok v := by
  unfold literalEval
  have hfol : Follow [Tok.eof] := ⟨_, _, rfl, by simp, by simp⟩
  have hf := factor_rt v (fuelFor (reprToks v)) [.eof] (by have := need_le v; simp only [fuelFor]; omega) hw hr hfol
  simp only [noImag_repr v, Bool.false_eq_true, if_false, hf, noBin_ok _ _ _ hfol]

/-! ## the table and the restart merge -/

def keys {α} (m : List (String × α)) : List String := m.map (·.1)

theorem lookup_nil {α} (k : String) : lookup ([] : List (String × α)) k = none := rfl

theorem lookup_cons {α} (p : String × α) (m : List (String × α)) (k : String) :
    lookup (p :: m) k = if p.1 = k then some p.2 else lookup m k := by
  unfold lookup
  by_cases h : p.1 = k <;> simp [h]

theorem lookup_none_iff {α} (m : List (String × α)) (k : String) : lookup m k = none ↔ k ∉ keys m := by
  induction m with
  | nil => simp [lookup_nil, keys]
  | cons p m ih =>
    rw [lookup_cons]
    by_cases h : p.1 = k
    · simp [h, keys]
    · simp only [h, if_false, ih, keys, List.map_cons, List.mem_cons, not_or]
      exact ⟨fun x => ⟨fun e => h e.symm, x⟩, fun x => x.2⟩

theorem any_key {α} (m : List (String × α)) (k : String) : m.any (fun p => p.1 == k) = true ↔ k ∈ keys m := by
  simp only [keys, List.any_eq_true, List.mem_map, beq_iff_eq]

theorem lookup_append {α} (a b : List (String × α)) (k : String) :
    lookup (a ++ b) k = (lookup a k).orElse (fun _ => lookup b k) := by
  induction a with
  | nil => simp [lookup_nil]
  | cons p a ih =>
    rw [List.cons_append, lookup_cons, lookup_cons]
    by_cases h : p.1 = k <;> simp [h, ih]

theorem lookup_mem {α} (m : List (String × α)) (hnd : (keys m).Nodup) (p : String × α) (hp : p ∈ m) :
    lookup m p.1 = some p.2 := by
  induction m with
  | nil => cases hp
  | cons q m ih =>
    rw [lookup_cons]
    simp only [keys, List.map_cons, List.nodup_cons] at hnd
    rcases List.mem_cons.1 hp with rfl | hp
    · simp
    · have : q.1 ≠ p.1 := fun e => hnd.1 (e ▸ List.mem_map.2 ⟨p, hp, rfl⟩)
      simp [this, ih hnd.2 hp]

theorem mem_of_lookup {α} (m : List (String × α)) (k : String) (v : α) (h : lookup m k = some v) : (k, v) ∈ m := by
  induction m with
  | nil => simp [lookup_nil] at h
  | cons p m ih =>
    rw [lookup_cons] at h
    by_cases hp : p.1 = k
    · simp only [hp, if_true, Option.some.injEq] at h
      exact List.mem_cons.2 (Or.inl (by rw [← hp, ← h]))
    · simp only [hp, if_false] at h
      exact List.mem_cons.2 (Or.inr (ih h))

theorem mem_keys_upsert {α} (m : List (String × α)) (k : String) (v : α) (k' : String) :
    k' ∈ keys (upsert m k v) ↔ k' = k ∨ k' ∈ keys m := by
  induction m with
  | nil => simp [upsert, keys]
  | cons p m ih =>
    unfold upsert
    by_cases hp : p.1 = k
    · simp only [hp, beq_self_eq_true, if_true, keys, List.map_cons, List.mem_cons]
      simp only [keys] at ih
      constructor
      · rintro (h | h)
        · exact Or.inl h
        · exact Or.inr (Or.inr h)
      · rintro (h | h | h)
        · exact Or.inl h
        · exact Or.inl h
        · exact Or.inr h
    · have : (p.1 == k) = false := by simpa using hp
      simp only [this, Bool.false_eq_true, if_false, keys, List.map_cons, List.mem_cons]
      simp only [keys] at ih
      rw [ih]
      constructor
      · rintro (h | h | h)
        · exact Or.inr (Or.inl h)
        · exact Or.inl h
        · exact Or.inr (Or.inr h)
      · rintro (h | h | h)
        · exact Or.inr (Or.inl h)
        · exact Or.inl h
        · exact Or.inr (Or.inr h)

theorem lookup_upsert {α} (m : List (String × α)) (k : String) (v : α) (k' : String) :
    lookup (upsert m k v) k' = if k = k' then some v else lookup m k' := by
  induction m with
  | nil => simp [upsert, lookup_cons, lookup_nil]
  | cons p m ih =>
    unfold upsert
    by_cases hp : p.1 = k
    · simp only [hp, beq_self_eq_true, if_true, lookup_cons]
      by_cases hk : k = k' <;> simp [hk]
    · have : (p.1 == k) = false := by simpa using hp
      simp only [this, Bool.false_eq_true, if_false, lookup_cons, ih]
      by_cases hk : k = k'
      · have : p.1 ≠ k' := fun e => hp (e.trans hk.symm)
        simp [hk, this]
      · simp [hk]

theorem nodup_upsert {α} (m : List (String × α)) (k : String) (v : α) (h : (keys m).Nodup) :
    (keys (upsert m k v)).Nodup := by
  induction m with
  | nil => simp [upsert, keys]
  | cons p m ih =>
    simp only [keys, List.map_cons, List.nodup_cons] at h
    unfold upsert
    by_cases hp : p.1 = k
    · simp only [hp, beq_self_eq_true, if_true, keys, List.map_cons, List.nodup_cons]
      exact ⟨hp ▸ h.1, h.2⟩
    · have : (p.1 == k) = false := by simpa using hp
      simp only [this, Bool.false_eq_true, if_false, keys, List.map_cons, List.nodup_cons]
      refine ⟨?_, ih h.2⟩
      intro hm
      rcases (mem_keys_upsert m k v p.1).1 hm with e | e
      · exact hp e
      · exact h.1 e

/-- a value that can be stored and read back: a Python object (`wf`), nothing without a literal
inside (`rep`), no integer too long for `repr` -/
def Storable (v : Val) : Prop := wf v = true ∧ rep v = true ∧ reprFails v = false

theorem evalVar_repr (reject : Bool) (v : Val) (h : Storable v) : evalVar reject (reprToks v) = .ok v := by
  unfold evalVar
  rw [literalEval_repr v h.1 h.2.1]
  simp [h.2.2, literalEval_repr v h.1 h.2.1, Res.isOk]

theorem foldl_upsert_spec (tv : TV) (db : Db) (hnd : (keys tv).Nodup) :
    (∀ k, lookup (tv.foldl (fun d p => upsert d p.1 (reprToks p.2)) db) k =
      match lookup tv k with
      | some v => some (reprToks v)
      | none => lookup db k) ∧
    (∀ k, k ∈ keys (tv.foldl (fun d p => upsert d p.1 (reprToks p.2)) db) ↔ k ∈ keys db ∨ k ∈ keys tv) ∧
    ((keys db).Nodup → (keys (tv.foldl (fun d p => upsert d p.1 (reprToks p.2)) db)).Nodup) := by
  induction tv generalizing db with
  | nil => simp [lookup_nil, keys]
  | cons p r ih =>
    simp only [keys, List.map_cons, List.nodup_cons] at hnd
    obtain ⟨h1, h2, h3⟩ := ih (upsert db p.1 (reprToks p.2)) hnd.2
    simp only [List.foldl_cons]
    refine ⟨?_, ?_, ?_⟩
    · intro k
      rw [h1 k, lookup_cons, lookup_upsert]
      by_cases hk : p.1 = k
      · have : lookup r k = none := (lookup_none_iff r k).2 (hk ▸ hnd.1)
        simp [hk, this]
      · simp [hk]
    · intro k
      rw [h2 k, mem_keys_upsert]
      simp only [keys, List.map_cons, List.mem_cons]
      constructor
      · rintro ((h | h) | h)
        · exact Or.inr (Or.inl h)
        · exact Or.inl h
        · exact Or.inr (Or.inr h)
      · rintro (h | h | h)
        · exact Or.inl (Or.inr h)
        · exact Or.inl (Or.inl h)
        · exact Or.inr h
    · intro hd
      exact h3 (nodup_upsert db p.1 _ hd)

theorem restore_eq (reject : Bool) (db : Db) (cli : TV) (f : String × List Tok → Val)
    (hnd : (keys db).Nodup) (hev : ∀ row ∈ db, evalVar reject row.2 = .ok (f row)) :
    restore reject db cli
      = .ok (cli ++ (db.filter (fun r => !cli.any (fun p => p.1 == r.1))).map (fun r => (r.1, f r))) := by
  induction db generalizing cli with
  | nil => simp [restore]
  | cons row rows ih =>
    obtain ⟨k, toks⟩ := row
    simp only [keys, List.map_cons, List.nodup_cons] at hnd
    have ihr := fun cli => ih cli hnd.2 (fun r hr => hev r (List.mem_cons.2 (Or.inr hr)))
    unfold restore
    by_cases hk : cli.any (fun p => p.1 == k) = true
    · simp only [hk, if_true]
      rw [ihr cli]
      simp [hk]
    · have hk' : cli.any (fun p => p.1 == k) = false := Bool.eq_false_iff.2 hk
      simp only [hk', Bool.false_eq_true, if_false]
      rw [hev (k, toks) (by simp)]
      simp only
      rw [ihr]
      have hf : rows.filter (fun r => !(cli ++ [(k, f (k, toks))]).any (fun p => p.1 == r.1))
          = rows.filter (fun r => !cli.any (fun p => p.1 == r.1)) := by
        apply List.filter_congr
        intro r hr
        have : k ≠ r.1 := fun e => hnd.1 (e ▸ List.mem_map.2 ⟨r, hr, rfl⟩)
        simp [List.any_append, this]
      rw [hf]
      simp [hk']

theorem lookup_filter_map (cli : TV) (f : String × List Tok → Val) (m : Db) (k : String) :
    lookup ((m.filter (fun r => !cli.any (fun p => p.1 == r.1))).map (fun r => (r.1, f r))) k
      = if cli.any (fun p => p.1 == k) then none else (m.find? (fun r => r.1 == k)).map f := by
  induction m with
  | nil => simp [lookup_nil]
  | cons r m ih =>
    by_cases hr : cli.any (fun p => p.1 == r.1) = true
    · simp only [List.filter_cons, hr, Bool.not_true, Bool.false_eq_true, if_false, ih]
      by_cases hk : r.1 = k
      · subst hk; simp [hr]
      · have : (r.1 == k) = false := by simpa using hk
        simp [this]
    · have hr' : cli.any (fun p => p.1 == r.1) = false := Bool.eq_false_iff.2 hr
      simp only [List.filter_cons, hr', Bool.not_false, if_true, List.map_cons, lookup_cons, ih]
      by_cases hk : r.1 = k
      · subst hk; simp [hr']
      · have : (r.1 == k) = false := by simpa using hk
        simp [hk, this]

/-! ## values that cannot be read back -/

theorem leaf_bad (l : Leaf) (n : Nat) (rest : List Tok) (hr : l.rep = false) :
    pFactor n (leafToks l ++ rest) = .bad := by
  cases n with
  | zero => simp [pFactor]
  | succ m =>
    cases l with
    | ellipsis => simp [leafToks, pFactor]
    | float neg mg =>
      cases mg with
      | fin t => simp [Leaf.rep] at hr
      | inf =>
        cases neg
        · simp [leafToks, pFactor]
        · cases m <;> simp [leafToks, pFactor]
      | nan =>
        cases neg
        · simp [leafToks, pFactor]
        · cases m <;> simp [leafToks, pFactor]
    | _ => simp [Leaf.rep] at hr

theorem repAll_false_cons {v : Val} {vs : Vals} (h : repAll (.cons v vs) = false) (hv : rep v = true) :
    ∃ w ws, vs = .cons w ws ∧ repAll (.cons w ws) = false := by
  cases vs with
  | nil => simp [repAll, hv] at h
  | cons w ws => exact ⟨w, ws, rfl, by simpa [repAll, hv] using h⟩

mutual
theorem factor_bad : (v : Val) → (n : Nat) → (rest : List Tok) → need v ≤ n → wf v = true → rep v = false →
    pFactor n (reprToks v ++ rest) = .bad
  | .leaf l, n, rest, _, _, hr => by
    simpa [reprToks] using leaf_bad l n rest (by simpa [rep] using hr)
  | .list xs, n, rest, hn, hw, hr => by
    obtain ⟨m, rfl⟩ : ∃ m, n = m + 1 := ⟨n - 1, by simp [need] at hn; omega⟩
    have h := items_bad xs m .rbr rest (by simp [need] at hn; omega) (by simpa [wf] using hw) (by simpa [rep] using hr) (Or.inr (Or.inl rfl))
    cases xs with
    | nil => simp [rep, repAll] at hr
    | cons v vs =>
      simp only [reprToks, itemsToks, List.append_assoc, List.cons_append, List.nil_append] at h ⊢
      simp [pFactor, h]
  | .tuple .nil, n, rest, _, _, hr => by simp [rep, repAll] at hr
  | .tuple (.cons v vs), n, rest, hn, hw, hr => by
    obtain ⟨m, rfl⟩ : ∃ m, n = m + 1 := ⟨n - 1, by simp [need] at hn; omega⟩
    simp only [need, needItems] at hn
    simp only [wf, wfAll, Bool.and_eq_true] at hw
    simp only [rep] at hr
    obtain ⟨t, r, ht, hst⟩ := reprToks_head v
    have hne : (t == Tok.rpar) = false := by simp [hst.1]
    by_cases hv : rep v = true
    · obtain ⟨w, ws, rfl, hr'⟩ := repAll_false_cons hr hv
      have hfol : Follow (tailToks (.cons w ws) ++ .rpar :: rest) := follow_tail _ _ (Or.inl rfl) rest
      have hf := factor_rt v m _ (by omega) hw.1 hv hfol
      have hi := items_bad (.cons w ws) m .rpar rest (by omega) hw.2 hr' (Or.inl rfl)
      simp only [reprToks, List.cons_append, List.append_assoc, List.nil_append]
      rw [pFactor]
      simp only [ht, List.cons_append, List.head?_cons, Option.some_beq_some, hne, Bool.false_eq_true, if_false]
      rw [← List.cons_append, ← ht, hf, noBin_ok _ _ _ hfol]
      simp only [tailToks_cons, List.cons_append]
      simp [hi]
    · have hv' : rep v = false := Bool.eq_false_iff.2 hv
      have hb : ∀ tl, pFactor m (reprToks v ++ tl) = .bad := fun tl => factor_bad v m tl (by omega) hw.1 hv'
      cases vs with
      | nil =>
        simp only [reprToks, List.cons_append, List.append_assoc, List.nil_append]
        rw [pFactor]
        simp only [ht, List.cons_append, List.head?_cons, Option.some_beq_some, hne, Bool.false_eq_true, if_false]
        rw [← List.cons_append, ← ht, hb]; rfl
      | cons w ws =>
        simp only [reprToks, List.cons_append, List.append_assoc, List.nil_append]
        rw [pFactor]
        simp only [ht, List.cons_append, List.head?_cons, Option.some_beq_some, hne, Bool.false_eq_true, if_false]
        rw [← List.cons_append, ← ht, hb]; rfl
  | .set .nil, n, rest, _, _, hr => by simp [rep, repAll] at hr
  | .set (.cons v vs), n, rest, hn, hw, hr => by
    obtain ⟨m, rfl⟩ : ∃ m, n = m + 1 := ⟨n - 1, by simp [need] at hn; omega⟩
    simp only [need, needItems] at hn
    simp only [wf, wfAll, hashableAll, Bool.and_eq_true] at hw
    simp only [rep] at hr
    obtain ⟨t, r, ht, hst⟩ := reprToks_head v
    have hne : (t == Tok.rbrace) = false := by simp [hst.2.2.1]
    simp only [reprToks, List.cons_append, List.append_assoc, List.nil_append]
    rw [pFactor]
    simp only [ht, List.cons_append, List.head?_cons, Option.some_beq_some, hne, Bool.false_eq_true, if_false]
    rw [← List.cons_append, ← ht]
    by_cases hv : rep v = true
    · obtain ⟨w, ws, rfl, hr'⟩ := repAll_false_cons hr hv
      have hfol : Follow (tailToks (.cons w ws) ++ .rbrace :: rest) := follow_tail _ _ (Or.inr (Or.inr (Or.inl rfl))) rest
      have hf := factor_rt v m _ (by omega) hw.2.1 hv hfol
      have hi := items_bad (.cons w ws) m .rbrace rest (by omega) hw.2.2 hr' (Or.inr (Or.inr (Or.inl rfl)))
      rw [hf, noBin_ok _ _ _ hfol]
      simp only [tailToks_cons, List.cons_append]
      simp [hi]
    · have hv' : rep v = false := Bool.eq_false_iff.2 hv
      rw [factor_bad v m _ (by omega) hw.2.1 hv']; rfl
  | .dict .nil, n, rest, _, _, hr => by simp [rep, repPairs] at hr
  | .dict (.cons k v ps), n, rest, hn, hw, hr => by
    obtain ⟨m, rfl⟩ : ∃ m, n = m + 1 := ⟨n - 1, by simp [need] at hn; omega⟩
    simp only [need, needPairs] at hn
    simp only [wf, wfPairs, keysHashable, Bool.and_eq_true] at hw
    simp only [rep] at hr
    obtain ⟨t, r, ht, hst⟩ := reprToks_head k
    have hne : (t == Tok.rbrace) = false := by simp [hst.2.2.1]
    have hfolv : Follow (tailPairs ps ++ .rbrace :: rest) := by
      cases ps with
      | nil => exact ⟨.rbrace, rest, by simp [tailPairs], by simp, by simp⟩
      | cons k2 v2 ps2 => exact ⟨.comma, pairsToks (.cons k2 v2 ps2) ++ .rbrace :: rest, by simp [tailPairs_cons], by simp, by simp⟩
    have hfolk : Follow (Tok.colon :: (reprToks v ++ (tailPairs ps ++ .rbrace :: rest))) := ⟨_, _, rfl, by simp, by simp⟩
    simp only [reprToks, List.cons_append, List.append_assoc, List.nil_append]
    rw [pFactor]
    simp only [ht, List.cons_append, List.head?_cons, Option.some_beq_some, hne, Bool.false_eq_true, if_false]
    rw [← List.cons_append, ← ht]
    by_cases hk : rep k = true
    · rw [factor_rt k m _ (by omega) hw.2.1.1 hk hfolk, noBin_ok _ _ _ hfolk]
      by_cases hv : rep v = true
      · have hps : repPairs ps = false := by simpa [repPairs, hk, hv] using hr
        cases ps with
        | nil => simp [repPairs] at hps
        | cons k2 v2 ps2 =>
          have hp := pairs_bad (.cons k2 v2 ps2) m rest (by omega) hw.2.2 hps
          simp only [factor_rt v m _ (by omega) hw.2.1.2 hv hfolv, noBin_ok _ _ _ hfolv]
          simp only [tailPairs_cons, List.cons_append]
          simp [hp]
      · have hv' : rep v = false := Bool.eq_false_iff.2 hv
        simp only [factor_bad v m _ (by omega) hw.2.1.2 hv']; rfl
    · have hk' : rep k = false := Bool.eq_false_iff.2 hk
      rw [factor_bad k m _ (by omega) hw.2.1.1 hk']; rfl
theorem items_bad : (vs : Vals) → (n : Nat) → (closer : Tok) → (rest : List Tok) → needItems vs ≤ n → wfAll vs = true → repAll vs = false → Closer closer →
    pItems n closer (itemsToks vs ++ closer :: rest) = .bad
  | .nil, n, closer, rest, _, _, hr, _ => by simp [repAll] at hr
  | .cons v vs, n, closer, rest, hn, hw, hr, hc => by
    obtain ⟨m, rfl⟩ : ∃ m, n = m + 1 := ⟨n - 1, by simp [needItems] at hn; omega⟩
    simp only [needItems] at hn
    simp only [wfAll, Bool.and_eq_true] at hw
    obtain ⟨t, r, ht, hst⟩ := reprToks_head v
    have hne : (t == closer) = false := by
      rcases hc with rfl | rfl | rfl | rfl <;> simp [hst.1, hst.2.1, hst.2.2.1, hst.2.2.2.1]
    simp only [itemsToks, List.append_assoc]
    rw [ht, List.cons_append, pItems]
    simp only [hne, Bool.false_eq_true, if_false]
    rw [← List.cons_append, ← ht]
    by_cases hv : rep v = true
    · obtain ⟨w, ws, rfl, hr'⟩ := repAll_false_cons hr hv
      have hfol := follow_tail (.cons w ws) closer hc rest
      have hi := items_bad (.cons w ws) m closer rest (by omega) hw.2 hr' hc
      rw [factor_rt v m _ (by omega) hw.1 hv hfol, noBin_ok _ _ _ hfol]
      simp only [tailToks_cons, List.cons_append]
      simp [hi]
    · have hv' : rep v = false := Bool.eq_false_iff.2 hv
      rw [factor_bad v m _ (by omega) hw.1 hv']; rfl
theorem pairs_bad : (ps : Pairs) → (n : Nat) → (rest : List Tok) → needPairs ps ≤ n → wfPairs ps = true → repPairs ps = false →
    pPairs n (pairsToks ps ++ .rbrace :: rest) = .bad
  | .nil, n, rest, _, _, hr => by simp [repPairs] at hr
  | .cons k v ps, n, rest, hn, hw, hr => by
    obtain ⟨m, rfl⟩ : ∃ m, n = m + 1 := ⟨n - 1, by simp [needPairs] at hn; omega⟩
    simp only [needPairs] at hn
    simp only [wfPairs, Bool.and_eq_true] at hw
    obtain ⟨t, r, ht, hst⟩ := reprToks_head k
    have hne : (t == Tok.rbrace) = false := by simp [hst.2.2.1]
    have hfolv : Follow (tailPairs ps ++ .rbrace :: rest) := by
      cases ps with
      | nil => exact ⟨.rbrace, rest, by simp [tailPairs], by simp, by simp⟩
      | cons k2 v2 ps2 => exact ⟨.comma, pairsToks (.cons k2 v2 ps2) ++ .rbrace :: rest, by simp [tailPairs_cons], by simp, by simp⟩
    have hfolk : Follow (Tok.colon :: (reprToks v ++ (tailPairs ps ++ .rbrace :: rest))) := ⟨_, _, rfl, by simp, by simp⟩
    simp only [pairsToks, List.cons_append, List.append_assoc]
    rw [ht, List.cons_append, pPairs]
    simp only [hne, Bool.false_eq_true, if_false]
    rw [← List.cons_append, ← ht]
    by_cases hk : rep k = true
    · rw [factor_rt k m _ (by omega) hw.1.1 hk hfolk, noBin_ok _ _ _ hfolk]
      by_cases hv : rep v = true
      · have hps : repPairs ps = false := by simpa [repPairs, hk, hv] using hr
        cases ps with
        | nil => simp [repPairs] at hps
        | cons k2 v2 ps2 =>
          have hp := pairs_bad (.cons k2 v2 ps2) m rest (by omega) hw.2 hps
          simp only [factor_rt v m _ (by omega) hw.1.2 hv hfolv, noBin_ok _ _ _ hfolv]
          simp only [tailPairs_cons, List.cons_append]
          simp [hp]
      · have hv' : rep v = false := Bool.eq_false_iff.2 hv
        simp only [factor_bad v m _ (by omega) hw.1.2 hv']; rfl
    · have hk' : rep k = false := Bool.eq_false_iff.2 hk
      rw [factor_bad k m _ (by omega) hw.1.1 hk']; rfl
end

/-- `literal_eval(repr(v))` FAILS for every value with `Ellipsis` / `inf` / `nan` somewhere inside -/
theorem literalEval_repr_bad (v : Val) (hw : wf v = true) (hr : rep v = false) :
    literalEval (reprToks v) = .bad := by
  unfold literalEval
  have hf := factor_bad v (fuelFor (reprToks v)) [.eof] (by have := need_le v; simp only [fuelFor]; omega) hw hr
  simp only [noImag_repr v, Bool.false_eq_true, if_false, hf]
  rfl

end CylcModel.PyLit
