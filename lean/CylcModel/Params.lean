/-
Model of `cylc/flow/param_expand.py` (C34): `GraphExpander.expand/_expand_graph`,
`NameExpander.expand/_expand_name`, at *template level*, plus the consumer of the removal
sentinel in `GraphParser.parse_graph` (out-of-range nodes dropped from `&`/`|` expressions,
chain cut at an emptied expression).  Core Lean only.

Template level means: a graph line / runtime heading is given as a structure (literal text and
`<...>` groups of items `p`, `p=v`, `p-k`, `p+k`), parameter templates as parsed `%`-format
segments.  The regexes that find the groups in the text (`REC_P_GROUP`, `REC_P_OFFS`, `REC_P_ALL`,
`REC_NAMES`, `REC_NODE_OUT_OF_RANGE`) are not modelled; the harness renders the structure to
text in all spellings and the correspondence run ties them (trusted: K-C only).

The port keeps the quirks of the code:
* `item_in_iterable`: a numeric specific value is compared as an integer with the members of the
  value list in order; a non-numeric member reached before a match raises (`scanInt = none`);
  the value substituted is `int(v)` (not the member) — `fixedOld`.
* `NameExpander` loops once per *occurrence* of a plain parameter and keeps one `spec_vals` dict.
* the out-of-range regex is applied once, left to right: after `^TOKEN[&|]` has consumed the
  operator of the second node, that node is never dropped — `dropOnce`.
`Quirks` selects between these and the repaired behaviours (`selectMember`, `dropAll`); the driver
takes the flags from `Generated/ParamsTables.lean`, where the harness records which behaviour the
live code shows.
-/
import CylcModel.Generated.ParamsTables
namespace CylcModel.Params

/-- a parameter value: cylc holds integer parameters as `int`, all others as `str` -/
inductive Val where
  | int (i : Int)
  | str (s : String)
  deriving DecidableEq, Repr

/-- conversion of a `%(p)…` template field (the ones cylc generates and documents) -/
inductive Conv where
  | s                               -- `%(p)s`
  | d (plus : Bool) (width : Nat)   -- `%(p)d` `%(p)+d` `%(p)0Wd` `%(p)+0Wd`  (width 0 = none)
  deriving DecidableEq, Repr

inductive TSeg where
  | lit (s : String)
  | field (p : String) (c : Conv)
  deriving DecidableEq, Repr

structure Param where
  name : String
  values : List Val
  tmpl : List TSeg
  deriving Repr

/-- `(param_cfg, param_tmpl_cfg)` as one ordered association list -/
abbrev Cfg := List Param

/-- `param_cfg.get(p)`; undefined and empty are both falsy for the code, both `[]` here -/
def Cfg.values : Cfg → String → List Val
  | [], _ => []
  | x :: r, p => if x.name = p then x.values else Cfg.values r p

/-- `param_tmpl_cfg[p]` -/
def Cfg.tmpl : Cfg → String → List TSeg
  | [], _ => []
  | x :: r, p => if x.name = p then x.tmpl else Cfg.tmpl r p

/-- how an item of a `<...>` group selects a value -/
inductive Sel where
  | plain                 -- `p`
  | fixed (raw : String)  -- `p=raw`
  | offset (k : Int)      -- `p-1`, `p+2`
  deriving DecidableEq, Repr

structure Item where
  name : String
  sel : Sel
  deriving DecidableEq, Repr

inductive Seg where
  | lit (s : String)
  | group (items : List Item)
  deriving Repr

/-- which of the behaviours recorded in `Generated/ParamsTables.lean` the code shows -/
structure Quirks where
  selMemberGraph : Bool
  selMemberName : Bool
  dropAll : Bool
  deriving Repr, DecidableEq

def Quirks.live : Quirks :=
  ⟨Generated.Params.selMemberGraph, Generated.Params.selMemberName, Generated.Params.dropAll⟩

/-! ### Python environment: `int()`, `%`-formatting, dicts -/

def digitVal? (c : Char) : Option Nat :=
  if '0' ≤ c ∧ c ≤ '9' then some (c.toNat - 48) else none

/-- decimal digits with single underscores between digits (PEP 515), as `int()` accepts -/
def pyDigits : List Char → Nat → Bool → Option Nat
  | [], acc, prevDigit => if prevDigit then some acc else none
  | c :: cs, acc, prevDigit =>
    if c = '_' then (if prevDigit then pyDigits cs acc false else none)
    else match digitVal? c with
      | some d => pyDigits cs (acc * 10 + d) true
      | none => none

/-- Python `int(s)` for ASCII text without white space; `none` = `ValueError` -/
def pyInt? (s : String) : Option Int :=
  match s.toList with
  | '+' :: cs => (pyDigits cs 0 false).map Int.ofNat
  | '-' :: cs => (pyDigits cs 0 false).map fun n => - Int.ofNat n
  | cs => (pyDigits cs 0 false).map Int.ofNat

def zeros (n : Nat) : String := String.ofList (List.replicate n '0')

/-- `'%(p)<conv>' % {p: v}`; `none` = `TypeError` (`%d` of a string) -/
def fmtVal : Conv → Val → Option String
  | .s, .int i => some (toString i)
  | .s, .str s => some s
  | .d plus w, .int i =>
    let sign := if i < 0 then "-" else if plus then "+" else ""
    let digits := toString i.natAbs
    some (sign ++ zeros (w - sign.length - digits.length) ++ digits)
  | .d _ _, .str _ => none

/-- an insertion-ordered Python dict `name -> value` -/
abbrev Env := List (String × Val)

def Env.get? : Env → String → Option Val
  | [], _ => none
  | (k, v) :: r, p => if k = p then some v else Env.get? r p

/-- `d[p] = v`: an existing key keeps its position -/
def Env.set : Env → String → Val → Env
  | [], p, v => [(p, v)]
  | (k, w) :: r, p, v => if k = p then (k, v) :: r else (k, w) :: Env.set r p v

/-- `tmpl % env`; `none` = `KeyError` (→ `ParamExpandError`) or `TypeError` -/
def renderT (env : Env) : List TSeg → Option String
  | [] => some ""
  | .lit s :: r => (renderT env r).map (s ++ ·)
  | .field p c :: r =>
    match env.get? p with
    | none => none
    | some v =>
      match fmtVal c v, renderT env r with
      | some a, some b => some (a ++ b)
      | _, _ => none

/-! ### specific values -/

def Val.asInt? : Val → Option Int
  | .int i => some i
  | .str s => pyInt? s

/-- `int(item) in (int(i) for i in itt)`: `none` = a non-numeric member raised `ValueError`
before a match was found -/
def scanInt (n : Int) : List Val → Option Bool
  | [] => some false
  | v :: vs =>
    match v.asInt? with
    | none => none
    | some k => if k = n then some true else scanInt n vs

/-- current code: `nval = int(raw)` if possible else `raw`; accepted iff `item_in_iterable(nval, values)`;
the value substituted is `nval`.  `none` = any exception. -/
def fixedOld (vs : List Val) (raw : String) : Option Val :=
  match pyInt? raw with
  | none => if Val.str raw ∈ vs then some (.str raw) else none
  | some n =>
    if Val.int n ∈ vs then some (.int n)
    else match scanInt n vs with
      | some true => some (.int n)
      | _ => none

/-- repaired code (`findings/C34-fix-1.diff`): the member equal to `raw` as a string, else the
first member equal to it as an integer -/
def selectMember (vs : List Val) (raw : String) : Option Val :=
  if Val.str raw ∈ vs then some (.str raw)
  else match pyInt? raw with
    | none => none
    | some n => vs.find? fun v => v.asInt? = some n

def fixedVal (member : Bool) (vs : List Val) (raw : String) : Option Val :=
  if member then selectMember vs raw else fixedOld vs raw

/-! ### nested loops -/

/-- run `f` over a list, concatenating; an exception anywhere is an exception of the whole -/
def optConcatMap {α β} (f : α → Option (List β)) : List α → Option (List β)
  | [] => some []
  | a :: r =>
    match f a, optConcatMap f r with
    | some x, some y => some (x ++ y)
    | _, _ => none

/-- the recursion of `_expand_graph` / `_expand_name`: one loop level per entry of the parameter
list, the loop variable stored in the shared dict -/
def expandAux {β} (leaf : Env → Option (List β)) : List (String × List Val) → Env → Option (List β)
  | [], env => leaf env
  | (p, vs) :: rest, env => optConcatMap (fun v => expandAux leaf rest (env.set p v)) vs

/-! ### GraphExpander -/

def idxOf (v : Val) : List Val → Option Nat
  | [] => none
  | w :: r => if w = v then some 0 else (idxOf v r).map (· + 1)

def sentinel : Val := .int Generated.Params.removeSentinel

/-- what `_expand_graph` substitutes for `p=raw` (current code: `int(raw)` if possible else `raw`,
the membership having been checked in `expand`; repaired code: the member) -/
def fixedSubst (member : Bool) (vs : List Val) (raw : String) : Option Val :=
  if member then selectMember vs raw
  else some (match pyInt? raw with | some n => .int n | none => .str raw)

/-- the value an item contributes to `param_values` in the inner loop of `_expand_graph` -/
def itemValGraph (q : Quirks) (cfg : Cfg) (env : Env) (it : Item) : Option Val :=
  match it.sel with
  | .plain => env.get? it.name
  | .fixed raw => fixedSubst q.selMemberGraph (cfg.values it.name) raw
  | .offset k =>
    let plist := cfg.values it.name
    match env.get? it.name with
    | none => none
    | some cur =>
      match idxOf cur plist with
      | none => none
      | some i =>
        let j : Int := (i : Int) + k
        if 0 ≤ j ∧ j < plist.length then plist[j.toNat]? else some sentinel

/-- `param_values` of one group; `iv` gives the value an item contributes -/
def groupValsWith (iv : Item → Option Val) : List Item → Env → Option Env
  | [], pv => some pv
  | it :: r, pv =>
    match iv it with
    | none => none
    | some v => groupValsWith iv r (pv.set it.name v)

def groupTmpl (cfg : Cfg) (pv : Env) : List TSeg := pv.flatMap fun kv => cfg.tmpl kv.1

/-- the text that replaces one `<...>` group: the templates of its parameters, in order, filled
with the group's values -/
def renderGroupWith (cfg : Cfg) (iv : Item → Option Val) (items : List Item) : Option String :=
  match groupValsWith iv items [] with
  | none => none
  | some pv => renderT pv (groupTmpl cfg pv)

def renderSegsWith (cfg : Cfg) (iv : Item → Option Val) : List Seg → Option String
  | [] => some ""
  | .lit s :: r => (renderSegsWith cfg iv r).map (s ++ ·)
  | .group items :: r =>
    match renderGroupWith cfg iv items, renderSegsWith cfg iv r with
    | some a, some b => some (a ++ b)
    | _, _ => none

/-- the inner loop of `_expand_graph`: every group replaced, under the loop variables `env` -/
def renderSegs (q : Quirks) (cfg : Cfg) (env : Env) (segs : List Seg) : Option String :=
  renderSegsWith cfg (itemValGraph q cfg env) segs

def groupsOf : List Seg → List (List Item)
  | [] => []
  | .lit _ :: r => groupsOf r
  | .group items :: r => items :: groupsOf r

def itemsOf (line : List Seg) : List Item := (groupsOf line).flatten

def dedup : List String → List String
  | [] => []
  | a :: r => a :: (dedup r).filter (· ≠ a)

/-- `used_pnames` (in order of first appearance; the code iterates a `set` of groups, so its order
varies with the hash seed — the result is a set and does not depend on it) -/
def usedNames (line : List Seg) : List String := dedup ((itemsOf line).map (·.name))

/-- the checks of `GraphExpander.expand` for one item -/
def checkItemGraph (q : Quirks) (cfg : Cfg) (it : Item) : Bool :=
  match cfg.values it.name with
  | [] => false
  | vs =>
    match it.sel with
    | .fixed raw => (fixedVal q.selMemberGraph vs raw).isSome
    | _ => true

def paramList (cfg : Cfg) (names : List String) : List (String × List Val) :=
  names.map fun p => (p, cfg.values p)

def graphLeaf (q : Quirks) (cfg : Cfg) (line : List Seg) (env : Env) : Option (List String) :=
  (renderSegs q cfg env line).map fun s => if s = "" then [] else [s]

/-- `GraphExpander.expand(line)`: the lines in loop order (the code returns them as a set).
`none` = an exception (`ParamExpandError`, or the `ValueError`/`TypeError` quirks). -/
def expandGraph (q : Quirks) (cfg : Cfg) (line : List Seg) : Option (List String) :=
  if (itemsOf line).all (checkItemGraph q cfg) then
    expandAux (graphLeaf q cfg line) (paramList cfg (usedNames line)) []
  else none

/-! ### NameExpander -/

structure NameState where
  tmpl : List TSeg := []
  spec : Env := []
  used : List (String × List Val) := []
  grouped : Bool := false

/-- one item of a heading group -/
def nameItem (q : Quirks) (cfg : Cfg) (st : NameState) (it : Item) : Option NameState :=
  match cfg.values it.name with
  | [] => none
  | vs =>
    match it.sel with
    | .offset _ => none
    | .fixed raw =>
      match fixedVal q.selMemberName vs raw with
      | none => none
      | some v => some { st with spec := st.spec.set it.name v, tmpl := st.tmpl ++ cfg.tmpl it.name }
    | .plain => some { st with used := st.used ++ [(it.name, vs)], tmpl := st.tmpl ++ cfg.tmpl it.name }

def nameItems (q : Quirks) (cfg : Cfg) : NameState → List Item → Option NameState
  | st, [] => some st
  | st, it :: r =>
    match nameItem q cfg st it with
    | none => none
    | some st' => nameItems q cfg st' r

def nameSegs (q : Quirks) (cfg : Cfg) : NameState → List Seg → Option NameState
  | st, [] => some st
  | st, .lit s :: r => nameSegs q cfg { st with tmpl := st.tmpl ++ [.lit s] } r
  | st, .group items :: r =>
    match nameItems q cfg { st with grouped := true } items with
    | none => none
    | some st' => nameSegs q cfg st' r

def litText : List Seg → String
  | [] => ""
  | .lit s :: r => s ++ litText r
  | .group _ :: r => litText r

def nameLeaf (tmpl : List TSeg) (env : Env) : Option (List (String × Env)) :=
  (renderT env tmpl).map fun s => [(s, env)]

/-- one comma-separated name of a heading -/
def expandName (q : Quirks) (cfg : Cfg) (segs : List Seg) : Option (List (String × Env)) :=
  match nameSegs q cfg {} segs with
  | none => none
  | some st =>
    if st.grouped then expandAux (nameLeaf st.tmpl) st.used st.spec
    else some [(litText segs, [])]

/-- `NameExpander.expand(heading)` -/
def expandHeading (q : Quirks) (cfg : Cfg) (names : List (List Seg)) : Option (List (String × Env)) :=
  optConcatMap (expandName q cfg) names

/-! ### the consumer of the sentinel: `GraphParser.parse_graph` -/

/-- a node of an expression with the operator written before it (`""` for the first) -/
structure Term where
  op : String
  segs : List Seg
  deriving Repr

abbrev Expr := List Term
abbrev Chain := List Expr

def exprSegs : Expr → List Seg
  | [] => []
  | t :: r => .lit t.op :: (t.segs ++ exprSegs r)

/-- the text of the whole line: expressions joined by `=>` -/
def chainSegs : Chain → List Seg
  | [] => []
  | [e] => exprSegs e
  | e :: r => exprSegs e ++ .lit "=>" :: chainSegs r

def isPrefix : List Char → List Char → Bool
  | [], _ => true
  | _ :: _, [] => false
  | a :: r, b :: s => a = b && isPrefix r s

/-- `needle` occurs in `cs` followed by at least one more character -/
def needleThenMore (needle : List Char) : List Char → Bool
  | [] => false
  | c :: cs => (isPrefix needle (c :: cs) && needle.length < (c :: cs).length) || needleThenMore needle cs

/-- `_REMOVE_TOKEN` matches the node text: one or more characters, the needle, one or more characters -/
def isRemoveToken (text : String) : Bool :=
  match text.toList with
  | [] => false
  | _ :: cs => needleThenMore Generated.Params.removeNeedle.toList cs

/-- `REC_NODE_OUT_OF_RANGE.sub('', expr)` on the nodes of one expression, as the current regex
does it: one pass, left to right -/
def dropOnce {α} (flag : α → Bool) : List (String × α) → List (String × α)
  | [] => []
  | [t] => if flag t.2 then [] else [t]
  | t1 :: t2 :: rest =>
    if flag t1.2 then ("", t2.2) :: rest.filter (fun t => !flag t.2)
    else t1 :: (t2 :: rest).filter (fun t => !flag t.2)

/-- every flagged node dropped; the first kept node loses its operator -/
def dropAll {α} (flag : α → Bool) (ts : List (String × α)) : List (String × α) :=
  match ts.filter (fun t => !flag t.2) with
  | [] => []
  | t :: r => ("", t.2) :: r

def dropNodes {α} (q : Quirks) (flag : α → Bool) (ts : List (String × α)) : List (String × α) :=
  if q.dropAll then dropAll flag ts else dropOnce flag ts

def joinTerms : List (String × String) → String
  | [] => ""
  | t :: r => t.1 ++ t.2 ++ joinTerms r

/-- render the nodes of an expression -/
def renderTermsWith (cfg : Cfg) (iv : Item → Option Val) : Expr → Option (List (String × String))
  | [] => some []
  | t :: r =>
    match renderSegsWith cfg iv t.segs, renderTermsWith cfg iv r with
    | some a, some b => some ((t.op, a) :: b)
    | _, _ => none

/-- the loop over `line.split('=>')`: stop at the first expression that is emptied -/
def cutChain : List (List (String × String)) → List (List (String × String))
  | [] => []
  | e :: r => if e = [] then [] else e :: cutChain r

def adjacentPairs : List String → List (Option String × String)
  | a :: b :: r => (some a, b) :: adjacentPairs (b :: r)
  | _ => []

/-- the `pairs` of one expanded line: `(None, node)` for the nodes of the first expression,
`(left, right)` for neighbours in the chain -/
def chainPairs (kept : List (List (String × String))) : List (Option String × String) :=
  match kept with
  | [] => []
  | e :: _ => (e.map fun t => (none, t.2)) ++ adjacentPairs (kept.map joinTerms)

/-- the pairs of one instance of the chain -/
def pairsWith (q : Quirks) (cfg : Cfg) (iv : Item → Option Val) (chain : Chain) :
    Option (List (Option String × String)) :=
  match optConcatMap (fun e => (renderTermsWith cfg iv e).map fun ts => [dropNodes q isRemoveToken ts]) chain with
  | none => none
  | some es => some (chainPairs (cutChain es))

def pairsLeaf (q : Quirks) (cfg : Cfg) (chain : Chain) (env : Env) : Option (List (Option String × String)) :=
  pairsWith q cfg (itemValGraph q cfg env) chain

/-- the set of dependency pairs `parse_graph` derives from one parameterised line -/
def expandPairs (q : Quirks) (cfg : Cfg) (chain : Chain) : Option (List (Option String × String)) :=
  let line := chainSegs chain
  if (itemsOf line).all (checkItemGraph q cfg) then
    expandAux (pairsLeaf q cfg chain) (paramList cfg (usedNames line)) []
  else none

end CylcModel.Params
