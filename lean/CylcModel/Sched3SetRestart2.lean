/-
Restart lemmas of the `Sched3Set` model that need no assumption on the database rows (check C11R): from a state
without duplicate keys, a pooled proxy is restored from the committed row of its flows, or - when there is no such
row - dropped; and a restart never invents a task.
-/
import CylcModel.Sched3SetRestart

namespace CylcModel.Sched3Set

theorem find?_key_filterMap_nd (f : Proxy → Option Proxy) (p : Int) (n : String)
    (hf : ∀ x y, f x = some y → y.pt = x.pt ∧ y.name = x.name) :
    ∀ l : List Proxy, (l.map Proxy.key).Nodup →
      (l.filterMap f).find? (fun z => z.pt == p && z.name == n) = (l.find? (fun z => z.pt == p && z.name == n)).bind f := by
  intro l
  induction l with
  | nil => intro _; rfl
  | cons a l ih =>
    intro hn
    simp only [List.map_cons, List.nodup_cons] at hn
    cases hfa : f a with
    | some b =>
      have hk := hf a b hfa
      simp only [List.filterMap_cons, hfa, List.find?_cons, hk.1, hk.2]
      cases hc : (a.pt == p && a.name == n) with
      | true => simp [hfa]
      | false => simp only; exact ih hn.2
    | none =>
      simp only [List.filterMap_cons, hfa, List.find?_cons]
      cases hc : (a.pt == p && a.name == n) with
      | false => simp only; exact ih hn.2
      | true =>
        simp only [Option.bind_some, hfa]
        -- no other element has this key
        rw [ih hn.2]
        have : l.find? (fun z => z.pt == p && z.name == n) = none := by
          apply List.find?_eq_none.mpr
          intro z hz hzk
          simp only [Bool.and_eq_true, beq_iff_eq] at hc hzk
          apply hn.1
          have : a.key = z.key := by unfold Proxy.key; rw [hc.1, hc.2, hzk.1, hzk.2]
          rw [this]
          exact List.mem_map.mpr ⟨z, hz, rfl⟩
        rw [this]; rfl

/-- the pool right after `load_db_task_pool_for_restart`, from a state without duplicate keys -/
theorem get?_reloaded_nd {s : State} (g : Graph) (h : ND s) {x : Proxy} (hx : x ∈ s.pool) :
    (reloaded g (atShutdown s)).get? x.pt x.name = restoreProxy g (atShutdown s).rows x := by
  have hfind := find?_key_filterMap_nd (restoreProxy g (atShutdown s).rows) x.pt x.name
    (fun a b hab => ⟨(restoreProxy_fields g _ a b hab).1, (restoreProxy_fields g _ a b hab).2.1⟩)
    (atShutdown s).pool (by rw [atShutdown_pool]; exact h)
  have hg : (atShutdown s).pool.find? (fun z => z.pt == x.pt && z.name == x.name) = some x := by
    rw [atShutdown_pool]
    exact get?_of_mem h hx
  show (reloaded g (atShutdown s)).pool.find? (fun z => z.pt == x.pt && z.name == x.name) = _
  have : (reloaded g (atShutdown s)).pool = (atShutdown s).pool.filterMap (restoreProxy g (atShutdown s).rows) := rfl
  rw [this, hfind, hg]
  rfl

theorem restoreProxy_none (g : Graph) (rows : List Row) (x : Proxy)
    (h : rows.find? (·.isKey x.pt x.name x.flows) = none) : restoreProxy g rows x = none := by
  unfold restoreProxy
  rw [h]

/-- **Restart, field by field, with no assumption on the rows.**  From a state without duplicate keys, for a pooled
proxy `x`: EITHER the database has a committed row `r` of exactly `x`'s (point, name, flows) at shutdown and the
restarted pool has `y` at `x`'s key, restored as in `restart_reads_row`; OR there is no such row and the restarted
pool has NO task at `x`'s key (the JOIN of `load_db_task_pool_for_restart` drops it). -/
theorem restart_reads_row_or_drops (g : Graph) (s : State) (h : ND s) (x : Proxy) (hx : x ∈ s.pool) :
    (∃ r y, (atShutdown s).rows.find? (·.isKey x.pt x.name x.flows) = some r ∧
      (restart g s).get? x.pt x.name = some y ∧
      y.pt = x.pt ∧ y.name = x.name ∧ y.flows = x.flows ∧ y.pre = x.pre ∧ y.sui = x.sui ∧
      y.status = restoredStatus x.status ∧
      (x.held = true → y.held = true) ∧
      (y.held = true → x.held = true ∨ ∃ hp, s.holdPoint = some hp ∧ hp < x.pt) ∧
      y.flowWait = r.flowWait ∧
      y.submitNum = (if x.status == .preparing then r.submitNum - 1 else r.submitNum) ∧
      y.done = restoredDone g x r) ∨
    ((atShutdown s).rows.find? (·.isKey x.pt x.name x.flows) = none ∧ (restart g s).get? x.pt x.name = none) := by
  have hR := get?_reloaded_nd g h hx
  rw [restart_eq]
  have hhp : (reloaded g (atShutdown s)).holdPoint = s.holdPoint := by
    rw [reloaded_holdPoint, atShutdown_holdPoint]
  cases hrow : (atShutdown s).rows.find? (·.isKey x.pt x.name x.flows) with
  | none =>
    right
    refine ⟨rfl, ?_⟩
    rw [restoreProxy_none g _ x hrow] at hR
    generalize reloaded g (atShutdown s) = R at hR
    show (flushDb _).get? x.pt x.name = none
    rw [get?_of_pool_eq (pool_flushDb _)]
    split
    · exact ((holdStep_setHoldPoint R _) x.pt x.name).2 hR
    · exact hR
  | some r0 =>
    left
    obtain ⟨y0, hres⟩ := restoreProxy_some g _ x r0 hrow
    rw [hres] at hR
    obtain ⟨r, hr, f1, f2, f3, f4, f5, f6, f7, f8, f9, f10⟩ := restoreProxy_spec g _ x y0 hres
    rw [hrow] at hr
    simp only [Option.some.injEq] at hr
    subst hr
    generalize reloaded g (atShutdown s) = R at hR hhp
    cases hh : R.holdPoint with
    | none =>
      refine ⟨r0, y0, rfl, ?_, f1, f2, f3, f5, f6, f7, ?_, ?_, f8, f9, f10⟩
      · show (flushDb R).get? x.pt x.name = some y0
        rw [get?_of_pool_eq (pool_flushDb R)]; exact hR
      · intro hxh; rw [f4]; exact hxh
      · intro hyh; left; rw [← f4]; exact hyh
    | some hp =>
      obtain ⟨y, hy, hrel⟩ := ((holdStep_setHoldPoint R hp) x.pt x.name).1 y0 hR
      have hget : (flushDb (setHoldPoint R hp)).get? x.pt x.name = some y := by
        rw [get?_of_pool_eq (pool_flushDb _)]; exact hy
      rcases hrel with rfl | ⟨hb, rfl⟩
      · refine ⟨r0, y, rfl, hget, f1, f2, f3, f5, f6, f7, ?_, ?_, f8, f9, f10⟩
        · intro hxh; rw [f4]; exact hxh
        · intro hyh; left; rw [← f4]; exact hyh
      · have hst : (y0.reset (held := some true)).status = y0.status := by
          unfold Proxy.reset; simp only [Option.getD_none]; split <;> rfl
        have hfw : (y0.reset (held := some true)).flowWait = y0.flowWait := by
          unfold Proxy.reset; simp only; split <;> rfl
        have hsn : (y0.reset (held := some true)).submitNum = y0.submitNum := by
          unfold Proxy.reset; simp only; split <;> rfl
        have hsui : (y0.reset (held := some true)).sui = y0.sui := by
          unfold Proxy.reset; simp only; split <;> rfl
        have hheld : (y0.reset (held := some true)).held = true := by
          unfold Proxy.reset
          simp only [Option.getD_none, Option.getD_some]
          cases hh0 : y0.held <;> simp [hh0]
        refine ⟨r0, _, rfl, hget, by simp [f1], by simp [f2], by simp [f3], by simp [f5], by rw [hsui, f6],
          by rw [hst, f7], fun _ => hheld, ?_, by rw [hfw, f8], by rw [hsn, f9], by simp [f10]⟩
        intro _
        right
        refine ⟨hp, ?_, ?_⟩
        · rw [← hhp]; exact hh
        · rw [← f1]; exact hb

/-- **A restart invents no task** (any state): the instances of the restarted pool are a sub-list of the
instances pooled before the stop. -/
theorem restart_keys_sublist (g : Graph) (s : State) : (keys (restart g s)).Sublist (keys s) := by
  have hkeys_hold : ∀ (R : State) (hp : Int), keys (setHoldPoint R hp) = keys R := by
    intro R hp
    unfold setHoldPoint
    dsimp only
    have h0 : keys { R with holdPoint := some hp } = keys R := rfl
    apply foldl_inv (fun (st : State) => keys st = keys R)
    · intro st x hst
      split
      · split
        · unfold holdActive
          dsimp only
          split
          · rw [keys_put]; exact hst
          · show keys (st.put _) = keys R
            rw [keys_put]; exact hst
        · exact hst
      · exact hst
    · exact h0
  have hR : (keys (reloaded g (atShutdown s))).Sublist (keys s) := by
    unfold keys
    have : (reloaded g (atShutdown s)).pool = (atShutdown s).pool.filterMap (restoreProxy g (atShutdown s).rows) := rfl
    rw [this, atShutdown_pool]
    exact keys_filterMap_sublist _ (by
      intro a b hab
      have := restoreProxy_fields g _ a b hab
      unfold Proxy.key; rw [this.1, this.2.1]) s.pool
  rw [restart_eq]
  show (keys (match (reloaded g (atShutdown s)).holdPoint with
      | some hp => setHoldPoint (reloaded g (atShutdown s)) hp
      | none => reloaded g (atShutdown s))).Sublist (keys s)
  split
  · rw [hkeys_hold]; exact hR
  · exact hR

end CylcModel.Sched3Set
