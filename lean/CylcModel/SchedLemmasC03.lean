/-
Helper lemmas for C03 (no premature shutdown, no false stall, bounded response):
frame lemmas (which primitives leave `stop` / `launched` / `stalled` alone), the reading of
`checkAutoShutdown` / `isStalled` as propositions over the pool, and the tracking of one ready
proxy through `releaseRunahead`, `sweepQueue` and `releaseAndSubmit`.
-/
import CylcModel.SchedLemmasC07

namespace CylcModel.Sched

/-! ### frame: `stop`, `launched`, `stalled` are untouched by pool surgery and message processing -/

def Fr (s s' : State) : Prop := s'.stop = s.stop ∧ s'.launched = s.launched ∧ s'.stalled = s.stalled

theorem Fr.refl (s : State) : Fr s s := ⟨rfl, rfl, rfl⟩
theorem Fr.trans {a b c : State} (h1 : Fr a b) (h2 : Fr b c) : Fr a c :=
  ⟨h2.1.trans h1.1, h2.2.1.trans h1.2.1, h2.2.2.trans h1.2.2⟩

theorem fr_foldl {α} (f : State → α → State) (h : ∀ s a, Fr s (f s a)) : ∀ (l : List α) (s : State), Fr s (l.foldl f s) := by
  intro l; induction l with
  | nil => intro s; exact Fr.refl s
  | cons a l ih => intro s; exact (h s a).trans (ih _)

theorem fr_put (s : State) (x : Proxy) : Fr s (s.put x) := ⟨rfl, rfl, rfl⟩

theorem fr_add (s : State) (x : Proxy) : Fr s (s.add x) := by
  unfold State.add; split
  · exact Fr.refl s
  · exact ⟨rfl, rfl, rfl⟩

theorem fr_spawnAndAdd (g : Graph) (s : State) (n : String) (p : Int) : Fr s (spawnAndAdd g s n p) := by
  unfold spawnAndAdd
  split
  · exact Fr.refl s
  · split
    · exact fr_add _ _
    · exact Fr.refl s

theorem fr_spawnNextParentless (g : Graph) (s : State) (x : Proxy) : Fr s (spawnNextParentless g s x) := by
  unfold spawnNextParentless
  split
  · exact Fr.refl s
  · split
    · exact fr_spawnAndAdd _ _ _ _
    · exact Fr.refl s

theorem fr_computeRunahead (g : Graph) (s : State) (f : Bool) : Fr s (computeRunahead g s f) := by
  unfold computeRunahead
  simp only
  split
  · exact Fr.refl s
  · split <;> exact ⟨rfl, rfl, rfl⟩

theorem fr_releaseRunahead (g : Graph) (s : State) : Fr s (releaseRunahead g s).1 := by
  unfold releaseRunahead
  split
  · exact Fr.refl s
  · split
    · exact Fr.refl s
    · simp only
      apply fr_foldl
      intro st x
      refine Fr.trans ?_ (fr_spawnNextParentless g _ x)
      split
      · exact fr_put _ _
      · exact Fr.refl st

theorem fr_queueIfReady (s : State) (x : Proxy) : Fr s (queueIfReady s x) := by
  unfold queueIfReady; split
  · exact fr_put _ _
  · exact Fr.refl s

theorem fr_sweepQueue (s : State) : Fr s (sweepQueue s) := by
  unfold sweepQueue
  apply fr_foldl
  intro st x
  split
  · split
    · exact (fr_put st _).trans (fr_queueIfReady _ _)
    · exact Fr.refl st
  · exact Fr.refl st

theorem fr_remove (g : Graph) (s : State) (x : Proxy) : Fr s (remove g s x) := by
  unfold remove
  simp only
  have h1 : Fr s (if (!x.flows.isEmpty && x.runahead) = true then spawnNextParentless g s x else s) := by
    split
    · exact fr_spawnNextParentless _ _ _
    · exact Fr.refl s
  exact ⟨h1.1, h1.2.1, h1.2.2⟩

theorem fr_removeIfComplete (g : Graph) (s : State) (x : Proxy) : Fr s (removeIfComplete g s x) := by
  unfold removeIfComplete
  split
  · exact Fr.refl s
  · split
    · exact Fr.refl s
    · split
      · exact fr_remove _ _ _
      · exact Fr.refl s

theorem fr_spawnChild (g : Graph) (p : Int) (n out : String) (acc : State × List (Int × String)) (c : Child) :
    Fr acc.1 (spawnChild g p n out acc c).1 := by
  obtain ⟨st, sui⟩ := acc
  unfold spawnChild
  simp only
  have h0 : Fr st (if (c.isAbs && !st.absDone.contains ⟨p, n, out⟩) = true then
      { st with absDone := st.absDone ++ [⟨p, n, out⟩] } else st) := by
    split
    · exact ⟨rfl, rfl, rfl⟩
    · exact Fr.refl st
  generalize (if (c.isAbs && !st.absDone.contains ⟨p, n, out⟩) = true then
      { st with absDone := st.absDone ++ [⟨p, n, out⟩] } else st) = st0 at h0 ⊢
  have hfold : ∀ (ks : List (Int × String)) (a : State × List (Int × String)),
      Fr a.1 (ks.foldl (fun (a : State × List (Int × String)) k =>
        match a.1.get? k.1 k.2 with
        | none => a
        | some z =>
          let z := z.satisfyMe ⟨p, n, out⟩
          (a.1.put z, if (z.suicideNow && !a.2.contains k) = true then a.2 ++ [k] else a.2)) a).1 := by
    intro ks; induction ks with
    | nil => intro a; exact Fr.refl _
    | cons k ks ih =>
      intro a
      refine Fr.trans ?_ (ih _)
      simp only
      split
      · exact Fr.refl _
      · exact fr_put _ _
  split
  · exact h0
  · refine h0.trans (Fr.trans ?_ (hfold _ _))
    simp only
    split
    · exact Fr.refl _
    · exact fr_add _ _

theorem fr_spawnOnOutput (g : Graph) (s : State) (p : Int) (n out : String) : Fr s (spawnOnOutput g s p n out) := by
  unfold spawnOnOutput
  split
  · exact Fr.refl s
  · simp only
    have h1 : ∀ (cs : List Child) (acc : State × List (Int × String)),
        Fr acc.1 (cs.foldl (spawnChild g p n out) acc).1 := by
      intro cs; induction cs with
      | nil => intro acc; exact Fr.refl _
      | cons c cs ih => intro acc; exact (fr_spawnChild g p n out acc c).trans (ih _)
    have h2 : ∀ (ks : List (Int × String)) (st : State),
        Fr st (ks.foldl (fun (st : State) k => match st.get? k.1 k.2 with
          | some z => remove g st z
          | none => st) st) := by
      intro ks; induction ks with
      | nil => intro st; exact Fr.refl _
      | cons k ks ih =>
        intro st
        refine Fr.trans ?_ (ih _)
        simp only
        split
        · exact fr_remove _ _ _
        · exact Fr.refl _
    generalize hR : (List.foldl (spawnChild g p n out) (s, []) _) = R
    have hR1 : Fr s R.1 := by rw [← hR]; exact h1 _ (s, [])
    have h3 := hR1.trans (h2 R.2 R.1)
    split
    · exact h3.trans (fr_removeIfComplete _ _ _)
    · exact h3

theorem fr_store (s : State) (x : Proxy) (tr : Bool) : Fr s (store s x tr) := by
  unfold store; split
  · exact ⟨rfl, rfl, rfl⟩
  · exact fr_put _ _

theorem fr_spawnChildren (g : Graph) (s : State) (p : Int) (n out : String) (tr : Bool) :
    Fr s (spawnChildren g s p n out tr) := by
  unfold spawnChildren; split
  · exact Fr.refl s
  · exact fr_spawnOnOutput _ _ _ _ _

theorem fr_processMessage (g : Graph) : ∀ (fuel : Nat) (s : State) (p : Int) (n : String) (flag : Flag)
    (sn : Nat) (msg : String), Fr s (processMessage g fuel s p n flag sn msg).1 := by
  intro fuel
  induction fuel with
  | zero => intro s p n flag sn msg; exact Fr.refl s
  | succ fuel ih =>
    intro s p n flag sn msg
    unfold processMessage
    split
    · exact Fr.refl s
    · rename_i x tr _
      split
      · exact Fr.refl s
      · split
        · exact Fr.refl s
        · simp only
          have himp : ∀ (l : List String) (st : State),
              Fr st (l.foldl (fun st m => (processMessage g fuel st p n .internal sn m).1) st) := by
            intro l; induction l with
            | nil => intro st; exact Fr.refl _
            | cons a l ihl => intro st; exact (ih _ _ _ _ _ _).trans (ihl _)
          generalize hS : (List.foldl (fun st m => (processMessage g fuel st p n Flag.internal sn m).1) _ _) = S
          have hSn : Fr s S := by rw [← hS]; exact (fr_store s _ tr).trans (himp _ _)
          split
          · exact hSn
          · repeat' split
            all_goals first
              | exact hSn
              | exact hSn.trans (fr_store _ _ _)
              | exact hSn.trans ((fr_store _ _ _).trans (fr_spawnChildren _ _ _ _ _ _))
              | exact hSn.trans (fr_spawnChildren _ _ _ _ _ _)

theorem fr_processQueue (g : Graph) (s : State) : Fr s (processQueue g s) := by
  unfold processQueue
  refine Fr.trans (⟨rfl, rfl, rfl⟩ : Fr s { s with queue := [] }) ?_
  apply fr_foldl
  intro st grp
  simp only
  split
  · exact Fr.refl st
  · have : ∀ (l : List Msg) (acc : State × Bool),
        Fr acc.1 (l.foldl (fun (acc : State × Bool) m =>
          let (st', pl) := processMessage g 4 acc.1 grp.1.1 grp.1.2 .received m.submitNum m.text
          (st', acc.2 || pl)) acc).1 := by
      intro l; induction l with
      | nil => intro acc; exact Fr.refl _
      | cons m l ihl =>
        intro acc
        exact (fr_processMessage g 4 _ _ _ _ _ _).trans (ihl _)
    have h2 := this grp.2 (st, false)
    split
    · exact ⟨h2.1, h2.2.1, h2.2.2⟩
    · exact h2

/-! ### `check_auto_shutdown` and `is_stalled` read as propositions over the pool -/

/-- `p` is beyond the stop point in effect (`TaskPool.stop_point`) -/
def beyondB (g : Graph) (p : Int) : Bool := match g.stopPoint with | some sp => p > sp | none => false

/-- no task is preparing, submitted or running -/
def NoActive (s : State) : Prop :=
  ∀ x ∈ s.pool, x.status ≠ .preparing ∧ x.status ≠ .submitted ∧ x.status ≠ .running

/-- no waiting task has been released from the runahead pool -/
def NoReleasedWaiting (s : State) : Prop := ∀ x ∈ s.pool, ¬ (x.status = .waiting ∧ x.runahead = false)

/-- no released waiting task has all its prerequisites satisfied -/
def NoReadyWaiting (s : State) : Prop :=
  ∀ x ∈ s.pool, ¬ (x.status = .waiting ∧ x.runahead = false ∧ x.prereqsSatisfied = true)

/-- finished but incomplete -/
def Incomplete (g : Graph) (x : Proxy) : Prop :=
  x.status.isFinal = true ∧ ∃ t, g.task? x.name = some t ∧ isComplete t x.done = false

/-- within the stop point, with an unsatisfied prerequisite that waits for an output within the stop point -/
def PartiallySatisfied (g : Graph) (x : Proxy) : Prop :=
  beyondB g x.pt = false ∧ ∃ pr ∈ x.pre, pr.isSatisfied = false ∧ ∃ a ∈ pr.atoms, a.2 = false ∧ beyondB g a.1.pt = false

def ShutdownOK (g : Graph) (s : State) : Prop :=
  NoActive s ∧ NoReleasedWaiting s ∧ (∀ x ∈ s.pool, ¬ Incomplete g x) ∧ (∀ x ∈ s.pool, ¬ PartiallySatisfied g x)

def StallSpec (g : Graph) (s : State) : Prop :=
  NoActive s ∧ NoReadyWaiting s ∧ ((∃ x ∈ s.pool, Incomplete g x) ∨ (∃ x ∈ s.pool, PartiallySatisfied g x))

def busyB (x : Proxy) : Bool :=
  x.status.isActive || x.status == .preparing || (x.status == .waiting && !x.runahead && x.prereqsSatisfied)

def incompleteB (g : Graph) (x : Proxy) : Bool :=
  x.status.isFinal && (match g.task? x.name with | some t => !isComplete t x.done | none => false)

def partialB (g : Graph) (x : Proxy) : Bool :=
  !beyondB g x.pt && x.pre.any fun pr => !pr.isSatisfied && pr.atoms.any (fun a => !a.2 && !beyondB g a.1.pt)

def shutB (x : Proxy) : Bool :=
  x.status == .preparing || x.status == .submitted || x.status == .running || (x.status == .waiting && !x.runahead)

theorem isStalled_eq (g : Graph) (s : State) :
    isStalled g s = if s.pool.any busyB then false else (s.pool.any (incompleteB g) || s.pool.any (partialB g)) := rfl

theorem checkAutoShutdown_eq (g : Graph) (s : State) :
    checkAutoShutdown g s =
      if (checkStalled g s).stalled then (checkStalled g s, false)
      else if (checkStalled g s).pool.any shutB then (checkStalled g s, false) else (checkStalled g s, true) := rfl

theorem incompleteB_iff (g : Graph) (x : Proxy) : incompleteB g x = true ↔ Incomplete g x := by
  unfold incompleteB Incomplete
  cases ht : g.task? x.name with
  | none => simp
  | some t => simp

theorem partialB_iff (g : Graph) (x : Proxy) : partialB g x = true ↔ PartiallySatisfied g x := by
  unfold partialB PartiallySatisfied
  simp only [Bool.and_eq_true, Bool.not_eq_true', List.any_eq_true]

theorem busyB_false_iff (x : Proxy) : busyB x = false ↔
    (x.status ≠ .preparing ∧ x.status ≠ .submitted ∧ x.status ≠ .running) ∧
    ¬ (x.status = .waiting ∧ x.runahead = false ∧ x.prereqsSatisfied = true) := by
  unfold busyB
  cases hs : x.status <;> simp [Status.isActive]

theorem shutB_false_iff (x : Proxy) : shutB x = false ↔
    (x.status ≠ .preparing ∧ x.status ≠ .submitted ∧ x.status ≠ .running) ∧
    ¬ (x.status = .waiting ∧ x.runahead = false) := by
  unfold shutB
  cases hs : x.status <;> simp

theorem isStalled_iff (g : Graph) (s : State) : isStalled g s = true ↔ StallSpec g s := by
  rw [isStalled_eq]
  unfold StallSpec NoActive NoReadyWaiting
  constructor
  · intro h
    split at h
    · simp at h
    · rename_i hb
      have hb' : ∀ x ∈ s.pool, busyB x = false := by
        intro x hx
        cases hbx : busyB x with
        | false => rfl
        | true => exact absurd (List.any_eq_true.mpr ⟨x, hx, hbx⟩) hb
      refine ⟨fun x hx => ((busyB_false_iff x).mp (hb' x hx)).1, fun x hx => ((busyB_false_iff x).mp (hb' x hx)).2, ?_⟩
      simp only [Bool.or_eq_true, List.any_eq_true] at h
      rcases h with ⟨x, hx, hi⟩ | ⟨x, hx, hp⟩
      · exact Or.inl ⟨x, hx, (incompleteB_iff g x).mp hi⟩
      · exact Or.inr ⟨x, hx, (partialB_iff g x).mp hp⟩
  · rintro ⟨h1, h2, h3⟩
    have hb : ¬ (s.pool.any busyB = true) := by
      intro hb
      obtain ⟨x, hx, hbx⟩ := List.any_eq_true.mp hb
      have := (busyB_false_iff x).mpr ⟨h1 x hx, h2 x hx⟩
      rw [this] at hbx; exact absurd hbx (by simp)
    rw [if_neg hb]
    simp only [Bool.or_eq_true, List.any_eq_true]
    rcases h3 with ⟨x, hx, hi⟩ | ⟨x, hx, hp⟩
    · exact Or.inl ⟨x, hx, (incompleteB_iff g x).mpr hi⟩
    · exact Or.inr ⟨x, hx, (partialB_iff g x).mpr hp⟩

theorem checkStalled_pool (g : Graph) (s : State) : (checkStalled g s).pool = s.pool := by
  unfold checkStalled; split
  · rfl
  · split <;> rfl

theorem checkStalled_stop (g : Graph) (s : State) : (checkStalled g s).stop = s.stop ∧
    (checkStalled g s).launched = s.launched := by
  unfold checkStalled; split
  · exact ⟨rfl, rfl⟩
  · split <;> exact ⟨rfl, rfl⟩

/-- `checkStalled` raises the flag only when `isStalled` holds -/
theorem checkStalled_stalled (g : Graph) (s : State) :
    (checkStalled g s).stalled = true → s.stalled = true ∨ isStalled g s = true := by
  unfold checkStalled
  split
  · rename_i h; intro _; exact Or.inl h
  · split
    · rename_i h; intro _; exact Or.inr h
    · rename_i h _; intro h'; exact absurd h' h

/-- an automatic shutdown is decided only in a pool satisfying `ShutdownOK`, and the decision does not alter the state -/
theorem autoShutdown_sound (g : Graph) (s : State) (h : (checkAutoShutdown g s).2 = true) :
    ShutdownOK g s ∧ (checkAutoShutdown g s).1.pool = s.pool := by
  rw [checkAutoShutdown_eq] at h ⊢
  split at h
  · simp at h
  · rename_i hst
    split at h
    · simp at h
    · rename_i hsh
      rw [checkStalled_pool] at hsh
      have hsh' : ∀ x ∈ s.pool, shutB x = false := by
        intro x hx
        cases hbx : shutB x with
        | false => rfl
        | true => exact absurd (List.any_eq_true.mpr ⟨x, hx, hbx⟩) hsh
      have hna : NoActive s := fun x hx => ((shutB_false_iff x).mp (hsh' x hx)).1
      have hnr : NoReleasedWaiting s := fun x hx => ((shutB_false_iff x).mp (hsh' x hx)).2
      -- not stalled: the flag is down after the check, so `isStalled` is false
      have hns : isStalled g s = false := by
        cases hi : isStalled g s with
        | false => rfl
        | true =>
          exfalso; apply hst
          unfold checkStalled
          split
          · assumption
          · simp [hi]
      refine ⟨⟨hna, hnr, ?_, ?_⟩, ?_⟩
      · intro x hx hinc
        have : StallSpec g s := ⟨hna, fun y hy hc => hnr y hy ⟨hc.1, hc.2.1⟩, Or.inl ⟨x, hx, hinc⟩⟩
        rw [(isStalled_iff g s).mpr this] at hns; exact absurd hns (by simp)
      · intro x hx hp
        have : StallSpec g s := ⟨hna, fun y hy hc => hnr y hy ⟨hc.1, hc.2.1⟩, Or.inr ⟨x, hx, hp⟩⟩
        rw [(isStalled_iff g s).mpr this] at hns; exact absurd hns (by simp)
      · simp only [if_neg hst]
        split <;> exact checkStalled_pool g s

/-! ### the main loop: where `stop` and `stalled` can change -/

/-- the state at the moment `workflow_shutdown` looks at the pool: after `compute_runahead` and `release_runahead_tasks` -/
def decision (g : Graph) (s : State) : State := (releaseRunahead g (computeRunahead g s)).1

theorem mainLoop_eq (g : Graph) (s : State) (h0 : s.stop = none) :
    mainLoop g s =
      if (checkAutoShutdown g (decision g s)).2 = true then
        { (checkAutoShutdown g (decision g s)).1 with stop := some "AUTOMATIC" }
      else finishLoop g (processQueue g (releaseAndSubmit (sweepQueue (checkAutoShutdown g (decision g s)).1))) := by
  unfold mainLoop decision
  rw [if_neg (by simp [h0])]

theorem fr_decision (g : Graph) (s : State) : Fr s (decision g s) :=
  (fr_computeRunahead g s false).trans (fr_releaseRunahead g _)

theorem isStalled_congr (g : Graph) {s s' : State} (h : s.pool = s'.pool) : isStalled g s = isStalled g s' := by
  rw [isStalled_eq, isStalled_eq, h]

theorem releaseAndSubmit_launched (s : State) :
    (releaseAndSubmit s).launched =
      s.launched ++ (s.pool.filter (·.queued)).map fun x => (x.pt, x.name, x.submitNum + 1) := by
  unfold releaseAndSubmit
  simp only
  split
  · rename_i h
    simp only [List.isEmpty_iff] at h
    rw [h]; simp
  · have key : ∀ (l : List Proxy) (st : State),
        (l.foldl (fun (st : State) x =>
          let y := x.reset (queued := some false)
          let y := { (y.reset (status := some .preparing)) with submitNum := x.submitNum + 1 }
          { (st.put y) with launched := st.launched ++ [(x.pt, x.name, x.submitNum + 1)] }) st).launched =
        st.launched ++ l.map fun x => (x.pt, x.name, x.submitNum + 1) := by
      intro l; induction l with
      | nil => intro st; simp
      | cons a l ih =>
        intro st
        simp only [List.foldl_cons, List.map_cons]
        rw [ih]
        simp [State.put]
    exact key _ _

theorem releaseAndSubmit_frame (s : State) :
    (releaseAndSubmit s).stop = s.stop ∧ (releaseAndSubmit s).stalled = s.stalled := by
  unfold releaseAndSubmit
  simp only
  split
  · exact ⟨rfl, rfl⟩
  · have key : ∀ (l : List Proxy) (st : State),
        (l.foldl (fun (st : State) x =>
          let y := x.reset (queued := some false)
          let y := { (y.reset (status := some .preparing)) with submitNum := x.submitNum + 1 }
          { (st.put y) with launched := st.launched ++ [(x.pt, x.name, x.submitNum + 1)] }) st).stop = st.stop ∧
        (l.foldl (fun (st : State) x =>
          let y := x.reset (queued := some false)
          let y := { (y.reset (status := some .preparing)) with submitNum := x.submitNum + 1 }
          { (st.put y) with launched := st.launched ++ [(x.pt, x.name, x.submitNum + 1)] }) st).stalled = st.stalled := by
      intro l; induction l with
      | nil => intro st; exact ⟨rfl, rfl⟩
      | cons a l ih =>
        intro st
        simp only [List.foldl_cons]
        have := ih ({ (st.put { ((a.reset (queued := some false)).reset (status := some .preparing)) with
          submitNum := a.submitNum + 1 }) with launched := st.launched ++ [(a.pt, a.name, a.submitNum + 1)] })
        exact ⟨this.1, this.2⟩
    exact key _ _

theorem finishLoop_frame (g : Graph) (s : State) :
    (finishLoop g s).stop = s.stop ∧ (finishLoop g s).launched = s.launched := by
  by_cases hu : (s.schedUpd || s.pool.any (·.upd)) = true
  · simp [finishLoop, hu]
  · simp only [finishLoop, hu, Bool.false_eq_true, if_false, Bool.not_false, if_true]
    exact checkStalled_stop g _

/-- the stall flag is up after `finishLoop` only if it was up before or the final pool is stalled -/
theorem finishLoop_stalled (g : Graph) (s : State) (h : (finishLoop g s).stalled = true) :
    s.stalled = true ∨ isStalled g (finishLoop g s) = true := by
  by_cases hu : (s.schedUpd || s.pool.any (·.upd)) = true
  · simp [finishLoop, hu] at h
  · simp only [finishLoop, hu, Bool.false_eq_true, if_false, Bool.not_false, if_true] at h ⊢
    rcases checkStalled_stalled g _ h with h1 | h1
    · exact Or.inl h1
    · right
      rw [← h1]
      apply isStalled_congr
      exact checkStalled_pool g _

/-- **shutdown**: if a main loop sets the stop flag, the decision was taken in a pool satisfying `ShutdownOK`,
and that pool is the pool of the resulting state -/
theorem mainLoop_shutdown (g : Graph) (s : State) (h0 : s.stop = none) (h : (mainLoop g s).stop.isSome = true) :
    ShutdownOK g (decision g s) ∧ (mainLoop g s).pool = (decision g s).pool ∧ (mainLoop g s).stop = some "AUTOMATIC" := by
  rw [mainLoop_eq g s h0] at h ⊢
  split
  · rename_i ha
    have := autoShutdown_sound g _ ha
    exact ⟨this.1, this.2, rfl⟩
  · exfalso
    rename_i ha
    simp only [ha, Bool.false_eq_true, if_false] at h
    have e1 := (finishLoop_frame g (processQueue g (releaseAndSubmit (sweepQueue (checkAutoShutdown g (decision g s)).1)))).1
    have e2 := (fr_processQueue g (releaseAndSubmit (sweepQueue (checkAutoShutdown g (decision g s)).1))).1
    have e3 := (releaseAndSubmit_frame (sweepQueue (checkAutoShutdown g (decision g s)).1)).1
    have e4 := (fr_sweepQueue (checkAutoShutdown g (decision g s)).1).1
    have e5 : (checkAutoShutdown g (decision g s)).1.stop = (decision g s).stop := by
      rw [checkAutoShutdown_eq]
      split
      · exact (checkStalled_stop g _).1
      · split <;> exact (checkStalled_stop g _).1
    have e6 := (fr_decision g s).1
    rw [e1, e2, e3, e4, e5, e6, h0] at h
    simp at h

theorem checkAutoShutdown_stalled (g : Graph) (s : State) (h : (checkAutoShutdown g s).1.stalled = true) :
    s.stalled = true ∨ isStalled g s = true := by
  rw [checkAutoShutdown_eq] at h
  split at h
  · exact checkStalled_stalled g s h
  · split at h <;> exact checkStalled_stalled g s h

/-- **stall**: if the stall flag is up after a main loop and was down before, `isStalled` held either at the
decision point of that loop or in its final state -/
theorem mainLoop_stalled (g : Graph) (s : State) (h0 : s.stop = none) (hs : s.stalled = false)
    (h : (mainLoop g s).stalled = true) :
    isStalled g (decision g s) = true ∨ isStalled g (mainLoop g s) = true := by
  rw [mainLoop_eq g s h0] at h ⊢
  have hd : (decision g s).stalled = false := by rw [(fr_decision g s).2.2]; exact hs
  split
  · rename_i ha
    simp only [ha, if_true] at h
    rcases checkAutoShutdown_stalled g _ h with h1 | h1
    · rw [hd] at h1; exact absurd h1 (by simp)
    · exact Or.inl h1
  · rename_i ha
    simp only [ha, Bool.false_eq_true, if_false] at h
    rcases finishLoop_stalled g _ h with h1 | h1
    · left
      rw [(fr_processQueue g _).2.2, (releaseAndSubmit_frame _).2, (fr_sweepQueue _).2.2] at h1
      rcases checkAutoShutdown_stalled g _ h1 with h2 | h2
      · rw [hd] at h2; exact absurd h2 (by simp)
      · exact h2
    · exact Or.inr h1

/-! ### following one proxy through the pool updates (`get?` algebra) -/

theorem find?_map_put (l : List Proxy) (y : Proxy) (p : Int) (n : String) :
    (l.map fun z => if z.pt == y.pt && z.name == y.name then y else z).find? (fun z => z.pt == p && z.name == n) =
      if y.pt = p ∧ y.name = n then (l.find? (fun z => z.pt == p && z.name == n)).map (fun _ => y)
      else l.find? (fun z => z.pt == p && z.name == n) := by
  induction l with
  | nil => simp
  | cons a l ih =>
    simp only [List.map_cons, List.find?_cons]
    by_cases hk : y.pt = p ∧ y.name = n
    · simp only [hk, and_self, if_true] at ih ⊢
      by_cases ha : (a.pt == p && a.name == n) = true
      · have ha' : (a.pt == y.pt && a.name == y.name) = true := by rw [hk.1, hk.2]; exact ha
        simp [ha, ha', hk.1, hk.2]
      · have ha' : ¬ (a.pt == y.pt && a.name == y.name) = true := by rw [hk.1, hk.2]; exact ha
        simp only [ha, Bool.false_eq_true, if_false]
        exact ih
    · simp only [hk, if_false] at ih ⊢
      by_cases ha' : (a.pt == y.pt && a.name == y.name) = true
      · have hne : ¬ (a.pt == p && a.name == n) = true := by
          intro ha
          simp only [Bool.and_eq_true, beq_iff_eq] at ha ha'
          exact hk ⟨ha'.1 ▸ ha.1, ha'.2 ▸ ha.2⟩
        have hne2 : ¬ (y.pt == p && y.name == n) = true := by
          intro hy; simp only [Bool.and_eq_true, beq_iff_eq] at hy; exact hk hy
        simp only [ha', if_true, hne2, hne, Bool.false_eq_true]
        exact ih
      · simp only [ha', if_false, Bool.false_eq_true]
        by_cases ha : (a.pt == p && a.name == n) = true
        · simp [ha]
        · simp only [ha, Bool.false_eq_true]; exact ih

theorem get?_put (s : State) (y : Proxy) (p : Int) (n : String) :
    (s.put y).get? p n = if y.pt = p ∧ y.name = n then (s.get? p n).map (fun _ => y) else s.get? p n := by
  unfold State.put State.get?
  exact find?_map_put s.pool y p n

theorem get?_put_same {s : State} {y z : Proxy} {p : Int} {n : String} (h : s.get? p n = some z)
    (h1 : y.pt = p) (h2 : y.name = n) : (s.put y).get? p n = some y := by
  rw [get?_put, if_pos ⟨h1, h2⟩, h]; rfl

theorem get?_put_other {s : State} {y : Proxy} {p : Int} {n : String} (h : ¬ (y.pt = p ∧ y.name = n)) :
    (s.put y).get? p n = s.get? p n := by
  rw [get?_put, if_neg h]

theorem get?_add {s : State} {y z : Proxy} {p : Int} {n : String} (h : s.get? p n = some z) :
    (s.add y).get? p n = some z := by
  unfold State.add
  split
  · exact h
  · unfold State.get? at h ⊢
    simp only [List.find?_append, h, Option.some_or]

theorem get?_spawnAndAdd {g : Graph} {s : State} {z : Proxy} {p : Int} {n : String} (h : s.get? p n = some z)
    (m : String) (q : Int) : (spawnAndAdd g s m q).get? p n = some z := by
  unfold spawnAndAdd
  split
  · exact h
  · split
    · exact get?_add h
    · exact h

theorem get?_spawnNextParentless {g : Graph} {s : State} {z : Proxy} {p : Int} {n : String}
    (h : s.get? p n = some z) (x : Proxy) : (spawnNextParentless g s x).get? p n = some z := by
  unfold spawnNextParentless
  split
  · exact h
  · split
    · exact get?_spawnAndAdd h _ _
    · exact h

/-- generic progress lemma for folds: `K` is kept by every step, `K2` is kept once reached, and a `hit` element reaches it -/
theorem fold_progress {α σ} (f : σ → α → σ) (K K2 : σ → Prop) (hit : α → Prop)
    (hK : ∀ st a, K st → K (f st a)) (hK2 : ∀ st a, K st → K2 st → K2 (f st a))
    (hhit : ∀ st a, K st → hit a → K2 (f st a)) :
    ∀ (l : List α) (st : σ), K st → (K2 st ∨ ∃ a ∈ l, hit a) → K (l.foldl f st) ∧ K2 (l.foldl f st) := by
  intro l; induction l with
  | nil =>
    intro st hk h
    rcases h with h | ⟨a, ha, _⟩
    · exact ⟨hk, h⟩
    · simp at ha
  | cons a l ih =>
    intro st hk h
    simp only [List.foldl_cons]
    apply ih _ (hK st a hk)
    rcases h with h | ⟨b, hb, hhb⟩
    · exact Or.inl (hK2 st a hk h)
    · rcases List.mem_cons.mp hb with e | hb'
      · subst e; exact Or.inl (hhit st b hk hhb)
      · exact Or.inr ⟨b, hb', hhb⟩

/-! ### bounded response: a ready proxy is released, queued and launched by the same main loop -/

/-- `z` is the proxy `x` as far as readiness and the submit number are concerned -/
def Core (z x : Proxy) : Prop :=
  z.pt = x.pt ∧ z.name = x.name ∧ z.status = x.status ∧ z.held = x.held ∧ z.pre = x.pre ∧ z.submitNum = x.submitNum

theorem Core.refl (x : Proxy) : Core x x := ⟨rfl, rfl, rfl, rfl, rfl, rfl⟩

theorem core_reset_flags {z x : Proxy} (h : Core z x) (q r : Option Bool) : Core (z.reset none q r) x :=
  ⟨by rw [reset_pt]; exact h.1, by rw [reset_name]; exact h.2.1, by rw [reset_status]; exact h.2.2.1,
   by rw [reset_held]; exact h.2.2.2.1, by rw [reset_pre]; exact h.2.2.2.2.1, by rw [reset_submitNum]; exact h.2.2.2.2.2⟩

theorem release_step {g : Graph} {x : Proxy} {p : Int} {n : String} (hxp : x.pt = p) (hxn : x.name = n)
    (st : State) (r z : Proxy) (hz : st.get? p n = some z) (hc : Core z x) :
    ∃ z', (spawnNextParentless g (match st.get? r.pt r.name with
        | some y => st.put (y.reset (runahead := some false))
        | none => st) r).get? p n = some z' ∧ Core z' x ∧
      ((z.runahead = false ∨ (r.pt = p ∧ r.name = n)) → z'.runahead = false) := by
  by_cases hk : r.pt = p ∧ r.name = n
  · rw [hk.1, hk.2, hz]
    simp only
    have hzk : z.pt = p ∧ z.name = n := by rw [hc.1, hc.2.1]; exact ⟨hxp, hxn⟩
    refine ⟨z.reset (runahead := some false), ?_, core_reset_flags hc _ _, ?_⟩
    · apply get?_spawnNextParentless
      exact get?_put_same hz (by rw [reset_pt]; exact hzk.1) (by rw [reset_name]; exact hzk.2)
    · intro _; rw [reset_runahead]; rfl
  · refine ⟨z, ?_, hc, ?_⟩
    · apply get?_spawnNextParentless
      split
      · rename_i y hy
        rw [get?_put_other]
        · exact hz
        · have := (get?_mem hy).2
          rw [reset_pt, reset_name, this.1, this.2]; exact hk
      · exact hz
    · intro h; exact h.resolve_right hk

theorem release_tracks (g : Graph) (s : State) (p : Int) (n : String) (x : Proxy) (hx : s.get? p n = some x)
    (hr : x.runahead = false ∨ ∃ lim, s.rhLimit = some lim ∧ x.pt ≤ lim) :
    ∃ z, (releaseRunahead g s).1.get? p n = some z ∧ Core z x ∧ z.runahead = false := by
  have hxm := get?_mem hx
  unfold releaseRunahead
  split
  · rename_i hnone
    rcases hr with h | ⟨lim, hl, _⟩
    · exact ⟨x, hx, Core.refl x, h⟩
    · rw [hnone] at hl; exact absurd hl (by simp)
  · rename_i lim hlim
    split
    · rename_i he
      simp only [List.isEmpty_iff] at he
      rw [he] at hxm; exact absurd hxm.1 (by simp)
    · simp only
      have := fold_progress
        (fun (st : State) (r : Proxy) => spawnNextParentless g (match st.get? r.pt r.name with
          | some y => st.put (y.reset (runahead := some false))
          | none => st) r)
        (fun st => ∃ z, st.get? p n = some z ∧ Core z x)
        (fun st => ∃ z, st.get? p n = some z ∧ Core z x ∧ z.runahead = false)
        (fun r => r.pt = p ∧ r.name = n)
        (by
          rintro st r ⟨z, hz, hc⟩
          obtain ⟨z', h1, h2, _⟩ := release_step (g := g) hxm.2.1 hxm.2.2 st r z hz hc
          exact ⟨z', h1, h2⟩)
        (by
          rintro st r _ ⟨z, hz, hc, hrz⟩
          obtain ⟨z', h1, h2, h3⟩ := release_step (g := g) hxm.2.1 hxm.2.2 st r z hz hc
          exact ⟨z', h1, h2, h3 (Or.inl hrz)⟩)
        (by
          rintro st r ⟨z, hz, hc⟩ hit
          obtain ⟨z', h1, h2, h3⟩ := release_step (g := g) hxm.2.1 hxm.2.2 st r z hz hc
          exact ⟨z', h1, h2, h3 (Or.inr hit)⟩)
        (s.pool.filter fun y => y.pt ≤ lim && y.runahead) s ⟨x, hx, Core.refl x⟩
        (by
          rcases hr with h | ⟨lim', hl, hle⟩
          · exact Or.inl ⟨x, hx, Core.refl x, h⟩
          · by_cases hxr : x.runahead = false
            · exact Or.inl ⟨x, hx, Core.refl x, hxr⟩
            · right
              refine ⟨x, ?_, hxm.2⟩
              rw [hlim] at hl
              simp only [Option.some.injEq] at hl
              subst hl
              apply List.mem_filter.mpr
              refine ⟨hxm.1, ?_⟩
              simp only [Bool.and_eq_true, decide_eq_true_eq]
              exact ⟨hle, by simpa using hxr⟩)
      exact this.2

/-- readiness as `queue_if_ready` sees it (retry timers apart) -/
def Ready (w : Proxy) : Prop :=
  w.status = .waiting ∧ w.held = false ∧ w.prereqsSatisfied = true ∧ w.runahead = false

theorem prereqs_reset (w : Proxy) (st : Option Status) (q r : Option Bool) :
    (w.reset st q r).prereqsSatisfied = w.prereqsSatisfied := by
  unfold Proxy.prereqsSatisfied; rw [reset_pre]

theorem sweep_step {p : Int} {n : String} (sn : Nat) (st : State) (e w : Proxy) (hw : st.get? p n = some w)
    (hwk : w.pt = p ∧ w.name = n) (hr : Ready w) (hsn : w.submitNum = sn) :
    ∃ w', (match st.get? e.pt e.name with
        | some y =>
          if y.status == Status.waiting && !y.queued && !y.runahead then
            let y := { y with retryWait := false }
            queueIfReady (st.put y) y
          else st
        | none => st).get? p n = some w' ∧ (w'.pt = p ∧ w'.name = n) ∧ Ready w' ∧ w'.submitNum = sn ∧
      ((w.queued = true ∨ (e.pt = p ∧ e.name = n)) → w'.queued = true) := by
  by_cases hk : e.pt = p ∧ e.name = n
  · rw [hk.1, hk.2, hw]
    simp only
    by_cases hq : w.queued = true
    · have : (w.status == Status.waiting && !w.queued && !w.runahead) = false := by simp [hq]
      rw [this]
      exact ⟨w, hw, hwk, hr, hsn, fun _ => hq⟩
    · have hq' : w.queued = false := by simpa using hq
      have : (w.status == Status.waiting && !w.queued && !w.runahead) = true := by
        simp [hr.1, hq', hr.2.2.2]
      rw [this]
      simp only [if_true]
      have h1 : (st.put { w with retryWait := false }).get? p n = some { w with retryWait := false } :=
        get?_put_same hw hwk.1 hwk.2
      unfold queueIfReady
      have hc : (!({ w with retryWait := false } : Proxy).queued && !({ w with retryWait := false } : Proxy).runahead &&
          ({ w with retryWait := false } : Proxy).isReadyToRun) = true := by
        show (!w.queued && !w.runahead &&
          (!w.held && (w.status == Status.waiting) && w.prereqsSatisfied && !false)) = true
        rw [hq', hr.2.2.2, hr.2.1, hr.1, hr.2.2.1]; rfl
      rw [if_pos hc]
      refine ⟨({ w with retryWait := false } : Proxy).reset (queued := some true), ?_, ?_, ?_, ?_, ?_⟩
      · exact get?_put_same h1 (by rw [reset_pt]; exact hwk.1) (by rw [reset_name]; exact hwk.2)
      · exact ⟨by rw [reset_pt]; exact hwk.1, by rw [reset_name]; exact hwk.2⟩
      · refine ⟨by rw [reset_status]; exact hr.1, by rw [reset_held]; exact hr.2.1, ?_, by rw [reset_runahead]; exact hr.2.2.2⟩
        rw [prereqs_reset]; exact hr.2.2.1
      · rw [reset_submitNum]; exact hsn
      · intro _; rw [reset_queued]; rfl
  · refine ⟨w, ?_, hwk, hr, hsn, fun h => h.resolve_right hk⟩
    split
    · rename_i y hy
      have hyk := (get?_mem hy).2
      split
      · unfold queueIfReady
        have hne : ¬ (({ y with retryWait := false } : Proxy).pt = p ∧ ({ y with retryWait := false } : Proxy).name = n) := by
          show ¬ (y.pt = p ∧ y.name = n)
          rw [hyk.1, hyk.2]; exact hk
        dsimp only
        split
        · rw [get?_put_other, get?_put_other hne]
          · exact hw
          · rw [reset_pt, reset_name]; exact hne
        · rw [get?_put_other hne]; exact hw
      · exact hw
    · exact hw

theorem sweep_tracks (s : State) (p : Int) (n : String) (z : Proxy) (hz : s.get? p n = some z) (hr : Ready z) :
    ∃ w, (sweepQueue s).get? p n = some w ∧ w.queued = true ∧ w.submitNum = z.submitNum := by
  have hzm := get?_mem hz
  unfold sweepQueue
  have := fold_progress
    (fun (st : State) (e : Proxy) => match st.get? e.pt e.name with
      | some y =>
        if y.status == Status.waiting && !y.queued && !y.runahead then
          let y := { y with retryWait := false }
          queueIfReady (st.put y) y
        else st
      | none => st)
    (fun st => ∃ w, st.get? p n = some w ∧ (w.pt = p ∧ w.name = n) ∧ Ready w ∧ w.submitNum = z.submitNum)
    (fun st => ∃ w, st.get? p n = some w ∧ (w.pt = p ∧ w.name = n) ∧ Ready w ∧ w.submitNum = z.submitNum ∧ w.queued = true)
    (fun e => e.pt = p ∧ e.name = n)
    (by
      rintro st e ⟨w, hw, hwk, hrw, hsn⟩
      obtain ⟨w', h1, h2, h3, h4, _⟩ := sweep_step z.submitNum st e w hw hwk hrw hsn
      exact ⟨w', h1, h2, h3, h4⟩)
    (by
      rintro st e _ ⟨w, hw, hwk, hrw, hsn, hq⟩
      obtain ⟨w', h1, h2, h3, h4, h5⟩ := sweep_step z.submitNum st e w hw hwk hrw hsn
      exact ⟨w', h1, h2, h3, h4, h5 (Or.inl hq)⟩)
    (by
      rintro st e ⟨w, hw, hwk, hrw, hsn⟩ hit
      obtain ⟨w', h1, h2, h3, h4, h5⟩ := sweep_step z.submitNum st e w hw hwk hrw hsn
      exact ⟨w', h1, h2, h3, h4, h5 (Or.inr hit)⟩)
    s.pool s ⟨z, hz, hzm.2, hr, rfl⟩ (Or.inr ⟨z, hzm.1, hzm.2⟩)
  obtain ⟨w, h1, _, _, h4, h5⟩ := this.2
  exact ⟨w, h1, h5, h4⟩

theorem checkAutoShutdown_pool (g : Graph) (s : State) : (checkAutoShutdown g s).1.pool = s.pool := by
  rw [checkAutoShutdown_eq]
  split
  · exact checkStalled_pool g s
  · split <;> exact checkStalled_pool g s

theorem checkAutoShutdown_false_of_waiting (g : Graph) (s : State) (z : Proxy) (hz : z ∈ s.pool)
    (hw : z.status = .waiting) (hr : z.runahead = false) : (checkAutoShutdown g s).2 = false := by
  rw [checkAutoShutdown_eq]
  split
  · rfl
  · have : (checkStalled g s).pool.any shutB = true := by
      rw [checkStalled_pool]
      apply List.any_eq_true.mpr
      refine ⟨z, hz, ?_⟩
      unfold shutB; simp [hw, hr]
    rw [if_pos this]

/-- **bounded response** -/
theorem mainLoop_bounded_response (g : Graph) (s : State) (h0 : s.stop = none) (p : Int) (n : String) (x : Proxy)
    (hx : s.get? p n = some x) (hw : x.status = .waiting) (hh : x.held = false) (hp : x.prereqsSatisfied = true)
    (hr : x.runahead = false ∨ ∃ lim, (computeRunahead g s).rhLimit = some lim ∧ x.pt ≤ lim) :
    (p, n, x.submitNum + 1) ∈ (mainLoop g s).launched := by
  have hx0 : (computeRunahead g s).get? p n = some x := by
    unfold State.get? at hx ⊢; rw [pool_computeRunahead]; exact hx
  obtain ⟨z, hz, hc, hzr⟩ := release_tracks g (computeRunahead g s) p n x hx0 hr
  have hzd : (decision g s).get? p n = some z := hz
  have hzm := get?_mem hzd
  have hready : Ready z := by
    refine ⟨by rw [hc.2.2.1]; exact hw, by rw [hc.2.2.2.1]; exact hh, ?_, hzr⟩
    unfold Proxy.prereqsSatisfied at hp ⊢; rw [hc.2.2.2.2.1]; exact hp
  have hauto := checkAutoShutdown_false_of_waiting g (decision g s) z hzm.1 hready.1 hzr
  rw [mainLoop_eq g s h0, hauto]
  simp only [Bool.false_eq_true, if_false]
  have hz1 : (checkAutoShutdown g (decision g s)).1.get? p n = some z := by
    unfold State.get? at hzd ⊢; rw [checkAutoShutdown_pool]; exact hzd
  obtain ⟨w, hw1, hwq, hwsn⟩ := sweep_tracks _ p n z hz1 hready
  have hwm := get?_mem hw1
  rw [(finishLoop_frame g _).2, (fr_processQueue g _).2.1, releaseAndSubmit_launched]
  apply List.mem_append_right
  apply List.mem_map.mpr
  refine ⟨w, List.mem_filter.mpr ⟨hwm.1, hwq⟩, ?_⟩
  rw [hwm.2.1, hwm.2.2, hwsn, hc.2.2.2.2.2]

end CylcModel.Sched
