/-
Helper lemmas for C03 (no premature shutdown, no false stall, bounded response):
frame lemmas (which primitives leave `stop` / `launched` / `stalled` alone), the reading of
`checkAutoShutdown` / `isStalled` as propositions over the pool, and the tracking of one ready
proxy through `releaseRunahead`, `sweepQueue` and `releaseAndSubmit`.
-/
import CylcModel.SchedLemmasC07

namespace CylcModel.Sched

/-! ### frame: `stop`, `launched`, `stalled` are untouched by pool surgery and message processing -/

def Fr (s s' : State) : Prop := s'.stop = s.stop ∧ s'.launched = s.launched ∧ s'.stalled = s.stalled

theorem Fr.refl (s : State) : Fr s s := ⟨rfl, rfl, rfl⟩
theorem Fr.trans {a b c : State} (h1 : Fr a b) (h2 : Fr b c) : Fr a c :=
  ⟨h2.1.trans h1.1, h2.2.1.trans h1.2.1, h2.2.2.trans h1.2.2⟩

theorem fr_foldl {α} (f : State → α → State) (h : ∀ s a, Fr s (f s a)) : ∀ (l : List α) (s : State), Fr s (l.foldl f s) := by
  intro l; induction l with
  | nil => intro s; exact Fr.refl s
  | cons a l ih => intro s; exact (h s a).trans (ih _)

theorem fr_put (s : State) (x : Proxy) : Fr s (s.put x) := ⟨rfl, rfl, rfl⟩

theorem fr_add (s : State) (x : Proxy) : Fr s (s.add x) := by
  unfold State.add; split
  · exact Fr.refl s
  · exact ⟨rfl, rfl, rfl⟩

theorem fr_spawnAndAdd (g : Graph) (s : State) (n : String) (p : Int) : Fr s (spawnAndAdd g s n p) := by
  unfold spawnAndAdd
  split
  · exact Fr.refl s
  · split
    · exact fr_add _ _
    · exact Fr.refl s

theorem fr_spawnNextParentless (g : Graph) (s : State) (x : Proxy) : Fr s (spawnNextParentless g s x) := by
  unfold spawnNextParentless
  split
  · exact Fr.refl s
  · split
    · exact fr_spawnAndAdd _ _ _ _
    · exact Fr.refl s

theorem fr_computeRunahead (g : Graph) (s : State) (f : Bool) : Fr s (computeRunahead g s f) := by
  unfold computeRunahead
  simp only
  split
  · exact Fr.refl s
  · split <;> exact ⟨rfl, rfl, rfl⟩

theorem fr_releaseRunahead (g : Graph) (s : State) : Fr s (releaseRunahead g s).1 := by
  unfold releaseRunahead
  split
  · exact Fr.refl s
  · split
    · exact Fr.refl s
    · simp only
      apply fr_foldl
      intro st x
      refine Fr.trans ?_ (fr_spawnNextParentless g _ x)
      split
      · exact fr_put _ _
      · exact Fr.refl st

theorem fr_queueIfReady (s : State) (x : Proxy) : Fr s (queueIfReady s x) := by
  unfold queueIfReady; split
  · exact fr_put _ _
  · exact Fr.refl s

theorem fr_sweepQueue (s : State) : Fr s (sweepQueue s) := by
  unfold sweepQueue
  apply fr_foldl
  intro st x
  split
  · split
    · exact (fr_put st _).trans (fr_queueIfReady _ _)
    · exact Fr.refl st
  · exact Fr.refl st

theorem fr_remove (g : Graph) (s : State) (x : Proxy) : Fr s (remove g s x) := by
  unfold remove
  simp only
  have h1 : Fr s (if (!x.flows.isEmpty && x.runahead) = true then spawnNextParentless g s x else s) := by
    split
    · exact fr_spawnNextParentless _ _ _
    · exact Fr.refl s
  exact ⟨h1.1, h1.2.1, h1.2.2⟩

theorem fr_removeIfComplete (g : Graph) (s : State) (x : Proxy) : Fr s (removeIfComplete g s x) := by
  unfold removeIfComplete
  split
  · exact Fr.refl s
  · split
    · exact Fr.refl s
    · split
      · exact fr_remove _ _ _
      · exact Fr.refl s

theorem fr_spawnChild (g : Graph) (p : Int) (n out : String) (acc : State × List (Int × String)) (c : Child) :
    Fr acc.1 (spawnChild g p n out acc c).1 := by
  obtain ⟨st, sui⟩ := acc
  unfold spawnChild
  simp only
  have h0 : Fr st (if (c.isAbs && !st.absDone.contains ⟨p, n, out⟩) = true then
      { st with absDone := st.absDone ++ [⟨p, n, out⟩] } else st) := by
    split
    · exact ⟨rfl, rfl, rfl⟩
    · exact Fr.refl st
  generalize (if (c.isAbs && !st.absDone.contains ⟨p, n, out⟩) = true then
      { st with absDone := st.absDone ++ [⟨p, n, out⟩] } else st) = st0 at h0 ⊢
  have hfold : ∀ (ks : List (Int × String)) (a : State × List (Int × String)),
      Fr a.1 (ks.foldl (fun (a : State × List (Int × String)) k =>
        match a.1.get? k.1 k.2 with
        | none => a
        | some z =>
          let z := z.satisfyMe ⟨p, n, out⟩
          (a.1.put z, if (z.suicideNow && !a.2.contains k) = true then a.2 ++ [k] else a.2)) a).1 := by
    intro ks; induction ks with
    | nil => intro a; exact Fr.refl _
    | cons k ks ih =>
      intro a
      refine Fr.trans ?_ (ih _)
      simp only
      split
      · exact Fr.refl _
      · exact fr_put _ _
  split
  · exact h0
  · refine h0.trans (Fr.trans ?_ (hfold _ _))
    simp only
    split
    · exact Fr.refl _
    · exact fr_add _ _

theorem fr_spawnOnOutput (g : Graph) (s : State) (p : Int) (n out : String) : Fr s (spawnOnOutput g s p n out) := by
  unfold spawnOnOutput
  split
  · exact Fr.refl s
  · simp only
    have h1 : ∀ (cs : List Child) (acc : State × List (Int × String)),
        Fr acc.1 (cs.foldl (spawnChild g p n out) acc).1 := by
      intro cs; induction cs with
      | nil => intro acc; exact Fr.refl _
      | cons c cs ih => intro acc; exact (fr_spawnChild g p n out acc c).trans (ih _)
    have h2 : ∀ (ks : List (Int × String)) (st : State),
        Fr st (ks.foldl (fun (st : State) k => match st.get? k.1 k.2 with
          | some z => remove g st z
          | none => st) st) := by
      intro ks; induction ks with
      | nil => intro st; exact Fr.refl _
      | cons k ks ih =>
        intro st
        refine Fr.trans ?_ (ih _)
        simp only
        split
        · exact fr_remove _ _ _
        · exact Fr.refl _
    generalize hR : (List.foldl (spawnChild g p n out) (s, []) _) = R
    have hR1 : Fr s R.1 := by rw [← hR]; exact h1 _ (s, [])
    have h3 := hR1.trans (h2 R.2 R.1)
    split
    · exact h3.trans (fr_removeIfComplete _ _ _)
    · exact h3

theorem fr_store (s : State) (x : Proxy) (tr : Bool) : Fr s (store s x tr) := by
  unfold store; split
  · exact ⟨rfl, rfl, rfl⟩
  · exact fr_put _ _

theorem fr_spawnChildren (g : Graph) (s : State) (p : Int) (n out : String) (tr : Bool) :
    Fr s (spawnChildren g s p n out tr) := by
  unfold spawnChildren; split
  · exact Fr.refl s
  · exact fr_spawnOnOutput _ _ _ _ _

theorem fr_processMessage (g : Graph) : ∀ (fuel : Nat) (s : State) (p : Int) (n : String) (flag : Flag)
    (sn : Nat) (msg : String), Fr s (processMessage g fuel s p n flag sn msg).1 := by
  intro fuel
  induction fuel with
  | zero => intro s p n flag sn msg; exact Fr.refl s
  | succ fuel ih =>
    intro s p n flag sn msg
    unfold processMessage
    split
    · exact Fr.refl s
    · rename_i x tr _
      split
      · exact Fr.refl s
      · split
        · exact Fr.refl s
        · simp only
          have himp : ∀ (l : List String) (st : State),
              Fr st (l.foldl (fun st m => (processMessage g fuel st p n .internal sn m).1) st) := by
            intro l; induction l with
            | nil => intro st; exact Fr.refl _
            | cons a l ihl => intro st; exact (ih _ _ _ _ _ _).trans (ihl _)
          generalize hS : (List.foldl (fun st m => (processMessage g fuel st p n Flag.internal sn m).1) _ _) = S
          have hSn : Fr s S := by rw [← hS]; exact (fr_store s _ tr).trans (himp _ _)
          split
          · exact hSn
          · repeat' split
            all_goals first
              | exact hSn
              | exact hSn.trans (fr_store _ _ _)
              | exact hSn.trans ((fr_store _ _ _).trans (fr_spawnChildren _ _ _ _ _ _))
              | exact hSn.trans (fr_spawnChildren _ _ _ _ _ _)

theorem fr_processQueue (g : Graph) (s : State) : Fr s (processQueue g s) := by
  unfold processQueue
  refine Fr.trans (⟨rfl, rfl, rfl⟩ : Fr s { s with queue := [] }) ?_
  apply fr_foldl
  intro st grp
  simp only
  split
  · exact Fr.refl st
  · have : ∀ (l : List Msg) (acc : State × Bool),
        Fr acc.1 (l.foldl (fun (acc : State × Bool) m =>
          let (st', pl) := processMessage g 4 acc.1 grp.1.1 grp.1.2 .received m.submitNum m.text
          (st', acc.2 || pl)) acc).1 := by
      intro l; induction l with
      | nil => intro acc; exact Fr.refl _
      | cons m l ihl =>
        intro acc
        exact (fr_processMessage g 4 _ _ _ _ _ _).trans (ihl _)
    have h2 := this grp.2 (st, false)
    split
    · exact ⟨h2.1, h2.2.1, h2.2.2⟩
    · exact h2

/-! ### `check_auto_shutdown` and `is_stalled` read as propositions over the pool -/

/-- `p` is beyond the stop point in effect (`TaskPool.stop_point`) -/
def beyondB (g : Graph) (p : Int) : Bool := match g.stopPoint with | some sp => p > sp | none => false

/-- no task is preparing, submitted or running -/
def NoActive (s : State) : Prop :=
  ∀ x ∈ s.pool, x.status ≠ .preparing ∧ x.status ≠ .submitted ∧ x.status ≠ .running

/-- no waiting task has been released from the runahead pool -/
def NoReleasedWaiting (s : State) : Prop := ∀ x ∈ s.pool, ¬ (x.status = .waiting ∧ x.runahead = false)

/-- no released waiting task has all its prerequisites satisfied -/
def NoReadyWaiting (s : State) : Prop :=
  ∀ x ∈ s.pool, ¬ (x.status = .waiting ∧ x.runahead = false ∧ x.prereqsSatisfied = true)

/-- finished but incomplete -/
def Incomplete (g : Graph) (x : Proxy) : Prop :=
  x.status.isFinal = true ∧ ∃ t, g.task? x.name = some t ∧ isComplete t x.done = false

/-- within the stop point, with an unsatisfied prerequisite that waits for an output within the stop point -/
def PartiallySatisfied (g : Graph) (x : Proxy) : Prop :=
  beyondB g x.pt = false ∧ ∃ pr ∈ x.pre, pr.isSatisfied = false ∧ ∃ a ∈ pr.atoms, a.2 = false ∧ beyondB g a.1.pt = false

def ShutdownOK (g : Graph) (s : State) : Prop :=
  NoActive s ∧ NoReleasedWaiting s ∧ (∀ x ∈ s.pool, ¬ Incomplete g x) ∧ (∀ x ∈ s.pool, ¬ PartiallySatisfied g x)

def StallSpec (g : Graph) (s : State) : Prop :=
  NoActive s ∧ NoReadyWaiting s ∧ ((∃ x ∈ s.pool, Incomplete g x) ∨ (∃ x ∈ s.pool, PartiallySatisfied g x))

def busyB (x : Proxy) : Bool :=
  x.status.isActive || x.status == .preparing || (x.status == .waiting && !x.runahead && x.prereqsSatisfied)

def incompleteB (g : Graph) (x : Proxy) : Bool :=
  x.status.isFinal && (match g.task? x.name with | some t => !isComplete t x.done | none => false)

def partialB (g : Graph) (x : Proxy) : Bool :=
  !beyondB g x.pt && x.pre.any fun pr => !pr.isSatisfied && pr.atoms.any (fun a => !a.2 && !beyondB g a.1.pt)

def shutB (x : Proxy) : Bool :=
  x.status == .preparing || x.status == .submitted || x.status == .running || (x.status == .waiting && !x.runahead)

theorem isStalled_eq (g : Graph) (s : State) :
    isStalled g s = if s.pool.any busyB then false else (s.pool.any (incompleteB g) || s.pool.any (partialB g)) := rfl

theorem checkAutoShutdown_eq (g : Graph) (s : State) :
    checkAutoShutdown g s =
      if (checkStalled g s).stalled then (checkStalled g s, false)
      else if (checkStalled g s).pool.any shutB then (checkStalled g s, false) else (checkStalled g s, true) := rfl

theorem incompleteB_iff (g : Graph) (x : Proxy) : incompleteB g x = true ↔ Incomplete g x := by
  unfold incompleteB Incomplete
  cases ht : g.task? x.name with
  | none => simp
  | some t => simp

theorem partialB_iff (g : Graph) (x : Proxy) : partialB g x = true ↔ PartiallySatisfied g x := by
  unfold partialB PartiallySatisfied
  simp only [Bool.and_eq_true, Bool.not_eq_true', List.any_eq_true]
  constructor
  · rintro ⟨h1, pr, hpr, h2, a, ha, h3, h4⟩
    exact ⟨h1, pr, hpr, h2, a, ha, h3, h4⟩
  · rintro ⟨h1, pr, hpr, h2, a, ha, h3, h4⟩
    exact ⟨h1, pr, hpr, h2, a, ha, h3, h4⟩

theorem busyB_false_iff (x : Proxy) : busyB x = false ↔
    (x.status ≠ .preparing ∧ x.status ≠ .submitted ∧ x.status ≠ .running) ∧
    ¬ (x.status = .waiting ∧ x.runahead = false ∧ x.prereqsSatisfied = true) := by
  unfold busyB
  cases hs : x.status <;> simp [Status.isActive]

theorem shutB_false_iff (x : Proxy) : shutB x = false ↔
    (x.status ≠ .preparing ∧ x.status ≠ .submitted ∧ x.status ≠ .running) ∧
    ¬ (x.status = .waiting ∧ x.runahead = false) := by
  unfold shutB
  cases hs : x.status <;> simp

theorem isStalled_iff (g : Graph) (s : State) : isStalled g s = true ↔ StallSpec g s := by
  rw [isStalled_eq]
  unfold StallSpec NoActive NoReadyWaiting
  constructor
  · intro h
    split at h
    · simp at h
    · rename_i hb
      have hb' : ∀ x ∈ s.pool, busyB x = false := by
        intro x hx
        cases hbx : busyB x with
        | false => rfl
        | true => exact absurd (List.any_eq_true.mpr ⟨x, hx, hbx⟩) hb
      refine ⟨fun x hx => ((busyB_false_iff x).mp (hb' x hx)).1, fun x hx => ((busyB_false_iff x).mp (hb' x hx)).2, ?_⟩
      simp only [Bool.or_eq_true, List.any_eq_true] at h
      rcases h with ⟨x, hx, hi⟩ | ⟨x, hx, hp⟩
      · exact Or.inl ⟨x, hx, (incompleteB_iff g x).mp hi⟩
      · exact Or.inr ⟨x, hx, (partialB_iff g x).mp hp⟩
  · rintro ⟨h1, h2, h3⟩
    have hb : ¬ (s.pool.any busyB = true) := by
      intro hb
      obtain ⟨x, hx, hbx⟩ := List.any_eq_true.mp hb
      have := (busyB_false_iff x).mpr ⟨h1 x hx, h2 x hx⟩
      rw [this] at hbx; exact absurd hbx (by simp)
    rw [if_neg hb]
    simp only [Bool.or_eq_true, List.any_eq_true]
    rcases h3 with ⟨x, hx, hi⟩ | ⟨x, hx, hp⟩
    · exact Or.inl ⟨x, hx, (incompleteB_iff g x).mpr hi⟩
    · exact Or.inr ⟨x, hx, (partialB_iff g x).mpr hp⟩

theorem checkStalled_pool (g : Graph) (s : State) : (checkStalled g s).pool = s.pool := by
  unfold checkStalled; split
  · rfl
  · split <;> rfl

theorem checkStalled_stop (g : Graph) (s : State) : (checkStalled g s).stop = s.stop ∧
    (checkStalled g s).launched = s.launched := by
  unfold checkStalled; split
  · exact ⟨rfl, rfl⟩
  · split <;> exact ⟨rfl, rfl⟩

/-- `checkStalled` raises the flag only when `isStalled` holds -/
theorem checkStalled_stalled (g : Graph) (s : State) :
    (checkStalled g s).stalled = true → s.stalled = true ∨ isStalled g s = true := by
  unfold checkStalled
  split
  · rename_i h; intro _; exact Or.inl h
  · split
    · rename_i h; intro _; exact Or.inr h
    · rename_i h _; intro h'; exact absurd h' h

/-- an automatic shutdown is decided only in a pool satisfying `ShutdownOK`, and the decision does not alter the state -/
theorem autoShutdown_sound (g : Graph) (s : State) (h : (checkAutoShutdown g s).2 = true) :
    ShutdownOK g s ∧ (checkAutoShutdown g s).1.pool = s.pool := by
  rw [checkAutoShutdown_eq] at h ⊢
  split at h
  · simp at h
  · rename_i hst
    split at h
    · simp at h
    · rename_i hsh
      rw [checkStalled_pool] at hsh
      have hsh' : ∀ x ∈ s.pool, shutB x = false := by
        intro x hx
        cases hbx : shutB x with
        | false => rfl
        | true => exact absurd (List.any_eq_true.mpr ⟨x, hx, hbx⟩) hsh
      have hna : NoActive s := fun x hx => ((shutB_false_iff x).mp (hsh' x hx)).1
      have hnr : NoReleasedWaiting s := fun x hx => ((shutB_false_iff x).mp (hsh' x hx)).2
      -- not stalled: the flag is down after the check, so `isStalled` is false
      have hns : isStalled g s = false := by
        cases hi : isStalled g s with
        | false => rfl
        | true =>
          exfalso; apply hst
          unfold checkStalled
          split
          · assumption
          · simp [hi]
      refine ⟨⟨hna, hnr, ?_, ?_⟩, ?_⟩
      · intro x hx hinc
        have : StallSpec g s := ⟨hna, fun y hy hc => hnr y hy ⟨hc.1, hc.2.1⟩, Or.inl ⟨x, hx, hinc⟩⟩
        rw [(isStalled_iff g s).mpr this] at hns; exact absurd hns (by simp)
      · intro x hx hp
        have : StallSpec g s := ⟨hna, fun y hy hc => hnr y hy ⟨hc.1, hc.2.1⟩, Or.inr ⟨x, hx, hp⟩⟩
        rw [(isStalled_iff g s).mpr this] at hns; exact absurd hns (by simp)
      · simp only [if_neg hst]
        split <;> exact checkStalled_pool g s

end CylcModel.Sched
