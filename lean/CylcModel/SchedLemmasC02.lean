/-
C02: submit numbers of one instance are consecutive (no double submission); retry counters are bounded; the
failed / submit-failed output is completed only when no retry remains.  Invariants of the atomic-action
system of `SchedActC01`, lifted to all runs of the `Sched` model.
-/
import CylcModel.SchedInvC01

namespace CylcModel.Sched

/-! ### The submit number on record for an instance -/

/-- the submit number of the pooled proxy, else of the latest history record, else 0 -/
def snOf (s : State) (p : Int) (n : String) : Nat :=
  match s.get? p n with
  | some x => x.submitNum
  | none => match lastHist s n p with
    | some h => h.submitNum
    | none => 0

theorem upd_submitNum {g : Graph} {K : Kinds} {s : State} {x y : Proxy} (h : Upd g K s x y) :
    y.submitNum = x.submitNum := by
  cases h with
  | refl => rfl
  | setc msg => exact (setComplete_fields g x msg).2.2.2.2.1
  | failedFinal =>
    split
    · have := (setComplete_fields g (x.reset (status := some .failed)) "failed").2.2.2.2.1
      simpa using this
    · simp
  | subFailedFinal =>
    split
    · have := (setComplete_fields g (x.reset (status := some .submitFailed)) "submit-failed").2.2.2.2.1
      simpa using this
    · simp
  | satisfy => rfl
  | unwait => rfl
  | _ => simp

theorem snOf_congr {s s' : State} (hp : s'.pool = s.pool) (hh : s'.hist = s.hist) (p : Int) (n : String) :
    snOf s' p n = snOf s p n := by
  unfold snOf lastHist State.get?
  rw [hp, hh]

/-- how one atomic action changes the submit number on record and the launch log -/
theorem snOf_act {g : Graph} {K : Kinds} {s s' : State} (ha : Act g K s s') :
    (s'.launched = s.launched ∧ ∀ p n, snOf s' p n = snOf s p n) ∨
    (∃ p n, s'.launched = s.launched ++ [(p, n, snOf s p n + 1)] ∧ snOf s' p n = snOf s p n + 1 ∧
      ∀ q m, ¬ (q = p ∧ m = n) → snOf s' q m = snOf s q m) := by
  cases ha with
  | frame hp hs => exact Or.inl ⟨hs.2.2, snOf_congr hp hs.1⟩
  | absAdd a hc hp hh ha' hl => exact Or.inl ⟨hl, snOf_congr hp hh⟩
  | upd x y hg hu hp hs =>
    refine Or.inl ⟨hs.2.2, ?_⟩
    intro p n
    rw [snOf_congr (s := s.put y) hp (by rw [hs.1]; rfl)]
    by_cases hk : y.pt = p ∧ y.name = n
    · unfold snOf
      rw [← hk.1, ← hk.2, get?_put_same hg, hg]
      exact upd_submitNum hu
    · unfold snOf lastHist
      rw [get?_put_other hk]
      rfl
  | launch x hg hq hp hh ha' hl =>
    refine Or.inr ⟨x.pt, x.name, ?_, ?_, ?_⟩
    · rw [hl]; unfold snOf; rw [hg]
    · rw [snOf_congr (s := s.put (launchOf x)) hp (by rw [hh]; rfl)]
      unfold snOf
      have := get?_put_same (s := s) (y := launchOf x) (x := x) (by simpa using hg)
      simp only [launchOf_pt, launchOf_name] at this
      rw [this, hg]
      simp
    · intro q m hk
      rw [snOf_congr (s := s.put (launchOf x)) hp (by rw [hh]; rfl)]
      unfold snOf lastHist
      rw [get?_put_other (by
        intro h
        simp only [launchOf_pt, launchOf_name] at h
        exact hk ⟨h.1.symm, h.2.symm⟩)]
      rfl
  | spawn y0 y hg hsp hy hw hp hs =>
    refine Or.inl ⟨hs.2.2, ?_⟩
    intro p n
    rw [snOf_congr (s := { s with pool := s.pool ++ [y] }) hp (by rw [hs.1])]
    cases hgp : s.get? p n with
    | some z =>
      unfold snOf
      rw [get?_append_of_some _ hgp, hgp]
    | none =>
      unfold snOf
      rw [get?_append_of_none y hgp, hgp]
      by_cases hk : (y.pt == p && y.name == n) = true
      · simp only [hk, if_true]
        simp only [Bool.and_eq_true, beq_iff_eq] at hk
        obtain ⟨x0, hm, hc⟩ := spawned_spec hsp hy
        obtain ⟨t, d, _, _, _, _, hx0⟩ := mkProxy_spec hm
        rw [← hk.1, ← hk.2]
        rcases hc with ⟨hl, _, hc⟩ | ⟨hr, hl, _, hc⟩
        · simp only [Proxy.core, Prod.mk.injEq] at hc
          rw [hl, hc.2.2.2.2.2.2.2.1, hx0]
        · simp only [Proxy.core, Prod.mk.injEq] at hc
          rw [hl, hc.2.2.2.2.2.2.2.1]
      · simp only [hk, Bool.false_eq_true, if_false]
        rfl
  | remove x hg hp hh ha' hl =>
    refine Or.inl ⟨hl, ?_⟩
    intro p n
    by_cases hk : p = x.pt ∧ n = x.name
    · rw [hk.1, hk.2]
      unfold snOf
      have h2 := lastHist_append_self (h := ⟨x.pt, x.name, x.status, x.submitNum, x.done⟩) hh
      simp only at h2
      rw [get?_filter_self hp, h2, hg]
    · unfold snOf
      have h2 := lastHist_append_other (h := ⟨x.pt, x.name, x.status, x.submitNum, x.done⟩) hh (p := p) (n := n)
        (by intro h; exact hk ⟨h.1.symm, h.2.symm⟩)
      rw [get?_filter_other hp hk, h2]
  | clearUpd hp hs =>
    refine Or.inl ⟨hs.2.2, ?_⟩
    intro p n
    unfold snOf lastHist State.get?
    rw [hp, hs.1, List.find?_map]
    have : ((fun x : Proxy => x.pt == p && x.name == n) ∘ fun x : Proxy => { x with upd := false }) =
        (fun x : Proxy => x.pt == p && x.name == n) := by funext x; rfl
    rw [this]
    cases List.find? (fun x : Proxy => x.pt == p && x.name == n) s.pool <;> rfl


/-! ### The launch log -/

def keyEq (p : Int) (n : String) (l : Int × String × Nat) : Bool := l.1 == p && l.2.1 == n

/-- the submit numbers of the launches of instance `(p, n)` in a launch list, in order -/
def snsOf (L : List (Int × String × Nat)) (p : Int) (n : String) : List Nat := (L.filter (keyEq p n)).map (·.2.2)

theorem snsOf_append (L1 L2 : List (Int × String × Nat)) (p : Int) (n : String) :
    snsOf (L1 ++ L2) p n = snsOf L1 p n ++ snsOf L2 p n := by
  unfold snsOf; rw [List.filter_append, List.map_append]

/-- since `s0`, instance by instance: the launches logged are exactly the submit numbers between the number on
record in `s0` and the number on record now -/
def LogRel (s0 s : State) : Prop :=
  ∀ p n, snOf s0 p n ≤ snOf s p n ∧
    snsOf s.launched p n = snsOf s0.launched p n ++ List.range' (snOf s0 p n + 1) (snOf s p n - snOf s0 p n)

theorem logRel_refl (s : State) : LogRel s s := by
  intro p n
  refine ⟨Nat.le_refl _, ?_⟩
  simp

theorem logRel_act {g : Graph} {K : Kinds} {s0 s s' : State} (h : LogRel s0 s)
    (ha : Act g K s s') : LogRel s0 s' := by
  intro p n
  obtain ⟨h1, h2⟩ := h p n
  rcases snOf_act ha with ⟨hl, hsn⟩ | ⟨q, m, hl, hsn, hoth⟩
  · rw [hl, hsn]; exact ⟨h1, h2⟩
  · by_cases hk : p = q ∧ n = m
    · obtain ⟨rfl, rfl⟩ := hk
      rw [hsn, hl, snsOf_append, h2]
      refine ⟨Nat.le_succ_of_le h1, ?_⟩
      have : snsOf [(p, n, snOf s p n + 1)] p n = [snOf s p n + 1] := by
        unfold snsOf keyEq; simp
      rw [this, List.append_assoc]
      congr 1
      have e1 : snOf s p n + 1 - snOf s0 p n = (snOf s p n - snOf s0 p n) + 1 := by omega
      rw [e1, List.range'_concat]
      congr 2
      omega
    · rw [hoth p n hk, hl, snsOf_append, h2]
      refine ⟨h1, ?_⟩
      have : snsOf [(q, m, snOf s q m + 1)] p n = [] := by
        unfold snsOf keyEq
        simp only [List.filter_cons, List.filter_nil]
        split
        · rename_i hb
          simp only [Bool.and_eq_true, beq_iff_eq] at hb
          exact absurd ⟨hb.1.symm, hb.2.symm⟩ hk
        · rfl
      rw [this, List.append_nil]

theorem logRel_steps {g : Graph} {K : Kinds} {s0 s : State} (h : Steps g K s0 s) : LogRel s0 s :=
  Steps.inv (LogRel s0) (fun _ _ hl ha => logRel_act hl ha) h (logRel_refl s0)

/-- the state after all operations -/
def lastState (g : Graph) (s : State) (ops : List Op) : State := ops.foldl (step g) s

theorem launches_trace {g : Graph} (hwf : g.wf = true) : ∀ (ops : List Op) (s : State), RInv g s → ∀ p n,
    snOf s p n ≤ snOf (lastState g s ops) p n ∧
    snsOf ((trace g s ops).tail.flatMap (·.launched)) p n =
      List.range' (snOf s p n + 1) (snOf (lastState g s ops) p n - snOf s p n) := by
  intro ops; induction ops with
  | nil => intro s _ p n; simp [trace, lastState, snsOf]
  | cons op ops ih =>
    intro s hi p n
    have hst : Steps g Kinds.all (clearOp s) (step g s op) :=
      steps_step hwf rfl (fun _ => rfl) (fun _ => rfl) rfl rfl hi op (Or.inl (fun _ => rfl))
    have hi' := rinv_steps hwf hst (rinv_clearOp hi)
    obtain ⟨h1, h2⟩ := logRel_steps hst p n
    have hsn : snOf (clearOp s) p n = snOf s p n := snOf_congr rfl rfl p n
    have hcl : snsOf (clearOp s).launched p n = [] := rfl
    rw [hsn] at h1 h2
    rw [hcl, List.nil_append] at h2
    obtain ⟨h3, h4⟩ := ih (step g s op) hi' p n
    have hlast : lastState g s (op :: ops) = lastState g (step g s op) ops := rfl
    rw [hlast]
    refine ⟨Nat.le_trans h1 h3, ?_⟩
    show snsOf ((trace g (step g s op) ops).flatMap (·.launched)) p n = _
    rw [trace_ne_nil, List.flatMap_cons, snsOf_append, h2, h4]
    have e1 : snOf (step g s op) p n + 1 = snOf s p n + 1 + (snOf (step g s op) p n - snOf s p n) := by omega
    rw [e1, List.range'_append_1]
    congr 1
    omega

/-- **No double submission**: in every run, the submit numbers of the launches of one instance, in order of
occurrence, are exactly 1, 2, …, k (k the submit number on record at the end). -/
theorem submit_numbers_consecutive {g : Graph} (hwf : g.wf = true) (ops : List Op) (p : Int) (n : String) :
    snsOf ((run g ops).flatMap (·.launched)) p n = List.range' 1 (snOf (lastState g (init g) ops) p n) := by
  have h0 : Steps g Kinds.all ({} : State) (init g) := steps_init hwf rfl
  have hi0 := rinv_steps hwf h0 rinv_empty
  obtain ⟨h1, h2⟩ := logRel_steps h0 p n
  have hz : snOf ({} : State) p n = 0 := rfl
  have hzl : snsOf ({} : State).launched p n = [] := rfl
  rw [hz] at h1 h2
  rw [hzl, List.nil_append] at h2
  obtain ⟨h3, h4⟩ := launches_trace hwf ops (init g) hi0 p n
  rw [run_eq_trace, trace_ne_nil, List.flatMap_cons, snsOf_append, h2, h4]
  simp only [Nat.zero_add, Nat.sub_zero]
  have e1 : snOf (init g) p n + 1 = 1 + snOf (init g) p n := by omega
  rw [e1, List.range'_append_1]
  congr 1
  omega


/-! ### Retry counters -/

/-- the retry counters never exceed the configured numbers of retry delays -/
def TriesOK (g : Graph) (s : State) : Prop :=
  ∀ x ∈ s.pool, x.execTry ≤ maxExec g x.name ∧ x.subTry ≤ maxSub g x.name

theorem upd_tries {g : Graph} {K : Kinds} {s : State} {x y : Proxy} (h : Upd g K s x y)
    (hx : x.execTry ≤ maxExec g x.name ∧ x.subTry ≤ maxSub g x.name) :
    y.execTry ≤ maxExec g y.name ∧ y.subTry ≤ maxSub g y.name := by
  have hk := upd_key h
  rw [hk.2]
  cases h with
  | refl => exact hx
  | setc msg => have := setComplete_fields g x msg; rw [this.2.2.2.2.2.1, this.2.2.2.2.2.2]; exact hx
  | failedFinal =>
    split
    · have := setComplete_fields g (x.reset (status := some .failed)) "failed"
      rw [this.2.2.2.2.2.1, this.2.2.2.2.2.2]; simpa using hx
    · simpa using hx
  | subFailedFinal =>
    split
    · have := setComplete_fields g (x.reset (status := some .submitFailed)) "submit-failed"
      rw [this.2.2.2.2.2.1, this.2.2.2.2.2.2]; simpa using hx
    · simpa using hx
  | satisfy => exact hx
  | unwait => exact hx
  | running => simp only [reset_execTry]; exact ⟨hx.1, Nat.zero_le _⟩
  | execRetry hr => simp only [reset_subTry]; exact ⟨hr.2, hx.2⟩
  | subRetry _ hr => simp only [reset_execTry]; exact ⟨hx.1, hr.2⟩
  | succeeded => simpa using hx
  | submitted => simpa using hx
  | release => simpa using hx
  | queue => simpa using hx

theorem tries_act {g : Graph} {K : Kinds} {s s' : State} (hinv : TriesOK g s)
    (ha : Act g K s s') : TriesOK g s' := by
  cases ha with
  | frame hp hs => intro x hx; rw [hp] at hx; exact hinv x hx
  | absAdd a hc hp hh ha' hl => intro x hx; rw [hp] at hx; exact hinv x hx
  | upd x y hg hu hp hs =>
    intro z hz
    rw [hp] at hz
    rcases mem_put hz with rfl | hz
    · exact upd_tries hu (hinv x (get?_some_spec hg).1)
    · exact hinv z hz
  | launch x hg hq hp hh ha' hl =>
    intro z hz
    rw [hp] at hz
    rcases mem_put hz with rfl | hz
    · simpa using hinv x (get?_some_spec hg).1
    · exact hinv z hz
  | spawn y0 y hg hsp hy hw hp hs =>
    intro z hz
    rw [hp] at hz
    rcases List.mem_append.mp hz with hz | hz
    · exact hinv z hz
    · simp only [List.mem_singleton] at hz
      subst hz
      obtain ⟨x0, hm, hc⟩ := spawned_spec hsp hy
      obtain ⟨t, d, _, _, _, _, hx0⟩ := mkProxy_spec hm
      rcases hc with ⟨_, _, hc⟩ | ⟨hr, _, _, hc⟩ <;>
      · simp only [Proxy.core, Prod.mk.injEq] at hc
        rw [hc.2.2.2.2.2.2.2.2.2.1, hc.2.2.2.2.2.2.2.2.2.2.1, hx0]
        exact ⟨Nat.zero_le _, Nat.zero_le _⟩
  | remove x hg hp hh ha' hl => intro z hz; rw [hp] at hz; exact hinv z (List.mem_filter.mp hz).1
  | clearUpd hp hs =>
    intro z hz
    rw [hp] at hz
    obtain ⟨w, hw, rfl⟩ := List.mem_map.mp hz
    exact hinv w hw

theorem tries_run {g : Graph} (hwf : g.wf = true) (ops : List Op) : ∀ s ∈ run g ops, TriesOK g s := by
  intro s hs
  exact (run_inv_act hwf Kinds.all rfl (fun _ => rfl) (fun _ => rfl) rfl rfl noEnv (fun _ _ _ => Or.inl (fun _ => rfl)) (TriesOK g)
    (by intro x hx; cases hx) (fun _ _ _ hp ha => tries_act hp ha) (fun _ h => h) ops (envAll_noEnv g ops _) s hs).2

/-! ### The failed output is completed only when no retry remains -/

/-- output `o` is complete on the pooled proxy of `(p, n)` -/
def poolHas (s : State) (p : Int) (n : String) (o : String) : Prop :=
  ∃ x, s.get? p n = some x ∧ o ∈ x.done

theorem setComplete_done_other (g : Graph) (x : Proxy) (m o : String) (hne : o ≠ m)
    (h : o ∈ (setComplete g x m).1.done) : o ∈ x.done := by
  rcases setComplete_spec g x m with hs | hs
  · rw [hs.1] at h; exact h
  · rw [hs.2.2.1] at h
    simp only [List.mem_append, List.mem_singleton] at h
    rcases h with h | h
    · exact h
    · exact absurd h hne

/-- **C02(c)**, per atomic action: when the `failed` output of the pooled proxy of an instance becomes complete,
then no execution retry remained for that proxy (`¬ (submitNum > 0 ∧ execTry < N)`), or the proxy was just
revived from a history record on which the output was complete already. Likewise for `submit-failed`. -/
theorem final_output_when_exhausted {g : Graph} {K : Kinds} {s s' : State} (ha : Act g K s s')
    (p : Int) (n : String) :
    (¬ poolHas s p n "failed" → poolHas s' p n "failed" →
      (∃ x, s.get? p n = some x ∧ ¬ (x.submitNum > 0 ∧ x.execTry < maxExec g n)) ∨
      (s.get? p n = none ∧ ∃ h, lastHist s n p = some h ∧ "failed" ∈ h.done)) ∧
    (¬ poolHas s p n "submit-failed" → poolHas s' p n "submit-failed" →
      (∃ x, s.get? p n = some x ∧ ¬ (x.submitNum > 0 ∧ x.subTry < maxSub g n)) ∨
      (s.get? p n = none ∧ ∃ h, lastHist s n p = some h ∧ "submit-failed" ∈ h.done)) := by
  -- an action that leaves the `done` list of the looked-up proxy alone cannot complete anything
  have hsame : ∀ o, (∀ y, s'.get? p n = some y → ∃ x, s.get? p n = some x ∧ (o ∈ y.done → o ∈ x.done)) →
      ¬ poolHas s p n o → poolHas s' p n o → False := by
    intro o h hn hp
    obtain ⟨y, hy, ho⟩ := hp
    obtain ⟨x, hx, hxo⟩ := h y hy
    exact hn ⟨x, hx, hxo ho⟩
  cases ha with
  | frame hp hs =>
    have hg : ∀ y, s'.get? p n = some y → ∃ x, s.get? p n = some x ∧ ∀ o, o ∈ y.done → o ∈ x.done :=
      fun y hy => ⟨y, by rw [← get?_of_pool_eq hp]; exact hy, fun _ h => h⟩
    exact ⟨fun h1 h2 => (hsame _ (fun y hy => let ⟨x, hx, h⟩ := hg y hy; ⟨x, hx, h _⟩) h1 h2).elim,
           fun h1 h2 => (hsame _ (fun y hy => let ⟨x, hx, h⟩ := hg y hy; ⟨x, hx, h _⟩) h1 h2).elim⟩
  | absAdd a hc hp hh ha' hl =>
    have hg : ∀ y, s'.get? p n = some y → ∃ x, s.get? p n = some x ∧ ∀ o, o ∈ y.done → o ∈ x.done :=
      fun y hy => ⟨y, by rw [← get?_of_pool_eq hp]; exact hy, fun _ h => h⟩
    exact ⟨fun h1 h2 => (hsame _ (fun y hy => let ⟨x, hx, h⟩ := hg y hy; ⟨x, hx, h _⟩) h1 h2).elim,
           fun h1 h2 => (hsame _ (fun y hy => let ⟨x, hx, h⟩ := hg y hy; ⟨x, hx, h _⟩) h1 h2).elim⟩
  | clearUpd hp hs =>
    have hg : ∀ y, s'.get? p n = some y → ∃ x, s.get? p n = some x ∧ ∀ o, o ∈ y.done → o ∈ x.done := by
      intro y hy
      unfold State.get? at hy ⊢
      rw [hp, List.find?_map] at hy
      have : ((fun x : Proxy => x.pt == p && x.name == n) ∘ fun x : Proxy => { x with upd := false }) =
          (fun x : Proxy => x.pt == p && x.name == n) := by funext x; rfl
      rw [this] at hy
      cases hf : List.find? (fun x : Proxy => x.pt == p && x.name == n) s.pool with
      | none => rw [hf] at hy; cases hy
      | some x =>
        rw [hf] at hy
        simp only [Option.map_some, Option.some.injEq] at hy
        exact ⟨x, rfl, by rw [← hy]; exact fun _ h => h⟩
    exact ⟨fun h1 h2 => (hsame _ (fun y hy => let ⟨x, hx, h⟩ := hg y hy; ⟨x, hx, h _⟩) h1 h2).elim,
           fun h1 h2 => (hsame _ (fun y hy => let ⟨x, hx, h⟩ := hg y hy; ⟨x, hx, h _⟩) h1 h2).elim⟩
  | launch x hg hq hp hh ha' hl =>
    have hg' : ∀ y, s'.get? p n = some y → ∃ x, s.get? p n = some x ∧ ∀ o, o ∈ y.done → o ∈ x.done := by
      intro y hy
      rw [get?_of_pool_eq hp] at hy
      by_cases hk : (launchOf x).pt = p ∧ (launchOf x).name = n
      · have := get?_put_same (s := s) (y := launchOf x) (x := x) (by simpa using hg)
        rw [hk.1, hk.2, hy] at this
        simp only [launchOf_pt, launchOf_name] at hk
        refine ⟨x, by rw [← hk.1, ← hk.2]; exact hg, ?_⟩
        rw [Option.some.inj this]
        intro o ho; simpa using ho
      · rw [get?_put_other hk] at hy
        exact ⟨y, hy, fun _ h => h⟩
    exact ⟨fun h1 h2 => (hsame _ (fun y hy => let ⟨x, hx, h⟩ := hg' y hy; ⟨x, hx, h _⟩) h1 h2).elim,
           fun h1 h2 => (hsame _ (fun y hy => let ⟨x, hx, h⟩ := hg' y hy; ⟨x, hx, h _⟩) h1 h2).elim⟩
  | remove x hg hp hh ha' hl =>
    have hg' : ∀ y, s'.get? p n = some y → ∃ x, s.get? p n = some x ∧ ∀ o, o ∈ y.done → o ∈ x.done := by
      intro y hy
      by_cases hk : p = x.pt ∧ n = x.name
      · rw [hk.1, hk.2, get?_filter_self hp] at hy; cases hy
      · rw [get?_filter_other hp hk] at hy
        exact ⟨y, hy, fun _ h => h⟩
    exact ⟨fun h1 h2 => (hsame _ (fun y hy => let ⟨x, hx, h⟩ := hg' y hy; ⟨x, hx, h _⟩) h1 h2).elim,
           fun h1 h2 => (hsame _ (fun y hy => let ⟨x, hx, h⟩ := hg' y hy; ⟨x, hx, h _⟩) h1 h2).elim⟩
  | spawn y0 y hg hsp hy hw hp hs =>
    have key : ∀ o, ¬ poolHas s p n o → poolHas s' p n o →
        (s.get? p n = none ∧ ∃ h, lastHist s n p = some h ∧ o ∈ h.done) := by
      intro o hn hpo
      obtain ⟨z, hz, hzo⟩ := hpo
      rw [get?_of_pool_eq (s := { s with pool := s.pool ++ [y] }) hp] at hz
      cases hgp : s.get? p n with
      | some w =>
        rw [get?_append_of_some _ hgp] at hz
        exact absurd (show poolHas s p n o from ⟨w, hgp, by rw [Option.some.inj hz]; exact hzo⟩) hn
      | none =>
        refine ⟨rfl, ?_⟩
        rw [get?_append_of_none y hgp] at hz
        by_cases hk : (y.pt == p && y.name == n) = true
        · simp only [hk, if_true, Option.some.injEq] at hz
          subst hz
          simp only [Bool.and_eq_true, beq_iff_eq] at hk
          obtain ⟨x0, hm, hc⟩ := spawned_spec hsp hy
          obtain ⟨t, d, _, _, _, _, hx0⟩ := mkProxy_spec hm
          rw [hk.1, hk.2] at hc
          rcases hc with ⟨_, _, hc⟩ | ⟨hr, hl, _, hc⟩
          · simp only [Proxy.core, Prod.mk.injEq] at hc
            rw [hc.2.2.2.2.2.2.2.2.1, hx0] at hzo
            cases hzo
          · simp only [Proxy.core, Prod.mk.injEq] at hc
            rw [hc.2.2.2.2.2.2.2.2.1] at hzo
            exact ⟨hr, hl, hzo⟩
        · simp only [hk, Bool.false_eq_true, if_false] at hz
          cases hz
    exact ⟨fun h1 h2 => Or.inr (key _ h1 h2), fun h1 h2 => Or.inr (key _ h1 h2)⟩
  | upd x y hg hu hp hs =>
    have hk := upd_key hu
    by_cases hkey : y.pt = p ∧ y.name = n
    · have hgx : s.get? p n = some x := by rw [← hkey.1, ← hkey.2]; exact hg
      have hgy : s'.get? p n = some y := by
        rw [get?_of_pool_eq hp, ← hkey.1, ← hkey.2]; exact get?_put_same hg
      have hxn : x.name = n := by rw [← hk.2]; exact hkey.2
      -- what the update may add to `done`
      have hadd : ("failed" ∈ y.done → "failed" ∈ x.done ∨ ¬ (x.submitNum > 0 ∧ x.execTry < maxExec g n)) ∧
          ("submit-failed" ∈ y.done → "submit-failed" ∈ x.done ∨ ¬ (x.submitNum > 0 ∧ x.subTry < maxSub g n)) := by
        rw [← hxn]
        cases hu with
        | refl => exact ⟨Or.inl, Or.inl⟩
        | setc msg h1 h2 =>
          exact ⟨fun h => Or.inl (setComplete_done_other g x msg _ (Ne.symm h1) h),
                 fun h => Or.inl (setComplete_done_other g x msg _ (Ne.symm h2) h)⟩
        | failedFinal hr =>
          refine ⟨fun _ => Or.inr hr, fun h => Or.inl ?_⟩
          split at h
          · have := setComplete_done_other g _ "failed" "submit-failed" (by decide) h
            simpa using this
          · simpa using h
        | subFailedFinal _ hr =>
          refine ⟨fun h => Or.inl ?_, fun _ => Or.inr hr⟩
          split at h
          · have := setComplete_done_other g _ "submit-failed" "failed" (by decide) h
            simpa using this
          · simpa using h
        | satisfy => exact ⟨Or.inl, Or.inl⟩
        | unwait => exact ⟨Or.inl, Or.inl⟩
        | running => exact ⟨fun h => Or.inl (by simpa using h), fun h => Or.inl (by simpa using h)⟩
        | succeeded => exact ⟨fun h => Or.inl (by simpa using h), fun h => Or.inl (by simpa using h)⟩
        | execRetry => exact ⟨fun h => Or.inl (by simpa using h), fun h => Or.inl (by simpa using h)⟩
        | subRetry => exact ⟨fun h => Or.inl (by simpa using h), fun h => Or.inl (by simpa using h)⟩
        | submitted => exact ⟨fun h => Or.inl (by simpa using h), fun h => Or.inl (by simpa using h)⟩
        | release => exact ⟨fun h => Or.inl (by simpa using h), fun h => Or.inl (by simpa using h)⟩
        | queue => exact ⟨fun h => Or.inl (by simpa using h), fun h => Or.inl (by simpa using h)⟩
      constructor
      · intro hn hpo
        obtain ⟨z, hz, hzo⟩ := hpo
        rw [hgy] at hz
        rw [← Option.some.inj hz] at hzo
        rcases hadd.1 hzo with h | h
        · exact absurd ⟨x, hgx, h⟩ hn
        · exact Or.inl ⟨x, hgx, h⟩
      · intro hn hpo
        obtain ⟨z, hz, hzo⟩ := hpo
        rw [hgy] at hz
        rw [← Option.some.inj hz] at hzo
        rcases hadd.2 hzo with h | h
        · exact absurd ⟨x, hgx, h⟩ hn
        · exact Or.inl ⟨x, hgx, h⟩
    · have hg' : ∀ z, s'.get? p n = some z → ∃ x, s.get? p n = some x ∧ ∀ o, o ∈ z.done → o ∈ x.done := by
        intro z hz
        rw [get?_of_pool_eq hp, get?_put_other hkey] at hz
        exact ⟨z, hz, fun _ h => h⟩
      exact ⟨fun h1 h2 => (hsame _ (fun y hy => let ⟨x, hx, h⟩ := hg' y hy; ⟨x, hx, h _⟩) h1 h2).elim,
             fun h1 h2 => (hsame _ (fun y hy => let ⟨x, hx, h⟩ := hg' y hy; ⟨x, hx, h _⟩) h1 h2).elim⟩

end CylcModel.Sched
