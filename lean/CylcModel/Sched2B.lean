/-
`Sched2B` (check C19) — the frozen `Sched2` scheduler model paired with the broadcast store and its
`broadcast_states` persistence (`Bcast`, the component model of check C22).  `Sched2.lean` is not touched:
a state is a pair, every scheduler op runs `Sched2.step` on the first component, and

* `bcast put / clear / expire` — a broadcast request as the server receives it (`resolvers.broadcast` calls the
  `BroadcastMgr` directly, between main loops): the store changes, the database writes are *queued*;
* `loop` — after `Sched2.mainLoop`: unless the scheduler is down or this very iteration shut it down (the
  stop check precedes everything else), and unless the workflow is paused, the automatic expiry
  `expire_broadcast(oldest pooled cycle − longest cycling interval)` (the pool as it is after the runahead release,
  where the main loop reads it), then the database queue is written (`process_workflow_db_queue`);
* `restart` — shutdown writes the queue, the new scheduler loads the store from the table
  (`load_db_broadcast_states`); nothing is expired by the restart itself (the first main loop does that).

Settings hold one item each (`Bcast.step true`: every item of a setting is recorded — the two behaviours of
`get_broadcast_change_iter` coincide on single-item settings; the driver checks that on every case).
Core Lean only.
-/
import CylcModel.Sched2
import CylcModel.Bcast

namespace CylcModel.Sched2B

structure Cfg where
  known : List String          -- the namespaces a broadcast may address (`linearized_ancestors`)
  longest : Int                -- `config.interval_of_longest_sequence`
  deriving Repr

structure State where
  s : Sched2.State := {}
  b : Bcast.State := {}

inductive Op where
  | sched (op : Sched2.Op)
  | bcast (op : Bcast.Op)      -- `put` / `clear` / `expire` (the driver never sends `flush` / `restart` here)

/-- the cutoff of the automatic expiry of one main loop, `none`: no expiry in this iteration -/
def autoCutoff (cfg : Cfg) (g : Sched2.Graph) (s0 s1 : Sched2.State) : Option Nat :=
  if s0.stop.isSome || s1.stop.isSome || s0.paused then none
  else
    match Sched2.minOf ((Sched2.releaseRunahead g (Sched2.computeRunahead g (Sched2.clearOp s0))).1.pool.map (·.pt)) with
    | none => none
    | some m => some (m - cfg.longest).toNat

/-- the broadcast side of one main loop: `s0` the scheduler before, `s1` after -/
def loopBcast (cfg : Cfg) (g : Sched2.Graph) (s0 s1 : Sched2.State) (b : Bcast.State) : Bcast.State :=
  if s0.stop.isSome || s1.stop.isSome then b
  else
    let b := match autoCutoff cfg g s0 s1 with
      | some c => Bcast.step true cfg.known b (.expire (some c))
      | none => b
    Bcast.step true cfg.known b .flush

def step (cfg : Cfg) (g : Sched2.Graph) (y : State) : Op → State
  | .bcast op => { s := Sched2.clearOp y.s, b := Bcast.step true cfg.known y.b op }   -- (per-op records reset)
  | .sched .loop =>
    let s1 := Sched2.step g y.s .loop
    { s := s1, b := loopBcast cfg g y.s s1 y.b }
  | .sched .restart => { s := Sched2.step g y.s .restart, b := Bcast.step true cfg.known y.b .restart }
  | .sched op => { y with s := Sched2.step g y.s op }

def init (g : Sched2.Graph) : State := { s := Sched2.init g }

/-- all states of a run: after start-up, then after each op -/
def run (cfg : Cfg) (g : Sched2.Graph) (ops : List Op) : List State :=
  (ops.foldl (fun (acc : List State × State) op =>
    let y' := step cfg g acc.2 op
    (acc.1 ++ [y'], y')) ([init g], init g)).1

end CylcModel.Sched2B
