/-
Component `Db` (property C21): queued database writes, private/public DAO, retry, recovery.

Executable model (core Lean only) of
  * `CylcWorkflowDAOTable.add_delete_item / add_insert_item / add_update_item`
    (statement templates as keys of the delete/update dictionaries, so queued items coalesce
    exactly as in the code),
  * `CylcWorkflowDAO.execute_queued_items / _execute_stmt` (cylc/flow/rundb.py): statement order
    (tables sorted by name; per table deletes, insert, updates), one transaction, what happens to
    the queues and to `n_tries` on failure and on success, the `finally: close()`,
  * `WorkflowDatabaseManager.process_queued_ops / recover_pub_from_pri / copy_pri_to_pub /
    on_workflow_start(is_restart)` (cylc/flow/workflow_db_mgr.py).

SQLite is environment (assumed, validated by the correspondence on real sqlite files): a file
with one connection whose uncommitted view is discarded by rollback/close and published by
commit; `DELETE .. WHERE c==?`, `INSERT OR REPLACE` (primary-key conflicts, NULLs distinct),
`UPDATE .. SET .. WHERE` (syntax error for an empty SET list, UNIQUE failure).

Generated from the live source on every run (`CylcModel/Generated/DbSchema.lean`): the table
schemas with primary keys (`TABLES_ATTRS`), `MAX_TRIES`, and two probed behaviours of the code:
`retryKeepsOrder` (are the statements of a failed write re-executed in their original order, or
merged into the per-table queues with later batches?) and `recoverClearsQueue` (does
`recover_pub_from_pri` discard what is still queued for the public database?).
-/
import CylcModel.Generated.DbSchema

namespace CylcModel.Db

/-- A value bound to a statement / stored in a column: `None`, an `int`, a `str`. -/
inductive Val where
  | null
  | int (i : Int)
  | str (s : String)
  deriving DecidableEq, Repr, Inhabited

abbrev Row := List Val
abbrev Table := List Row
/-- Content of a database file: table name ↦ rows. -/
abbrev Db := String → Table

structure Schema where
  name : String
  cols : List String
  /-- indices of the primary-key columns (empty: no primary key) -/
  pk : List Nat
  deriving Repr

def pkIdx : List (String × Bool) → Nat → List Nat
  | [], _ => []
  | (_, true) :: r, i => i :: pkIdx r (i + 1)
  | (_, false) :: r, i => pkIdx r (i + 1)

/-- `CylcWorkflowDAO.tables` in iteration order (`sorted(TABLES_ATTRS.items())`). -/
def schemas : List Schema :=
  Generated.DbSchema.tables.map fun (n, cs) => ⟨n, cs.map (·.1), pkIdx cs 0⟩

def emptyDb : Db := fun _ => []

def Db.set (db : Db) (t : String) (rows : Table) : Db := fun n => if n = t then rows else db n

/-! ## Statements -/

/-- Statement template = the SQL text with `?` placeholders (it is a function of the table name
and of the ordered column lists, so these stand for the text). -/
inductive Tmpl where
  | del (whereCols : List Nat)                 -- DELETE FROM t [WHERE c==? AND ...]
  | ins                                        -- INSERT OR REPLACE INTO t VALUES(?, ...)
  | upd (setCols whereCols : List Nat)         -- UPDATE t SET c=?, ... [WHERE c==? AND ...]
  deriving DecidableEq, Repr

/-- One entry of `sql_queue`: a statement and the argument lists for `executemany`. -/
structure SqlStmt where
  table : String
  tmpl : Tmpl
  args : List Row
  deriving DecidableEq, Repr

/-- One statement execution (template + one argument list). -/
inductive RowOp where
  | del (w : List (Nat × Val))
  | ins (r : Row)
  | upd (s w : List (Nat × Val))
  deriving DecidableEq, Repr

def rowGet (r : Row) (c : Nat) : Val := r.getD c .null

/-- `c1==? AND c2==? ...` : SQL equality, never true for NULL. -/
def rowMatches (w : List (Nat × Val)) (r : Row) : Bool :=
  w.all fun (c, v) => v != .null && rowGet r c == v

/-- `INSERT OR REPLACE` conflict on the primary key: every key column non-NULL and equal. -/
def pkConflict (pk : List Nat) (new old : Row) : Bool :=
  !pk.isEmpty && pk.all fun c => rowGet new c != .null && rowGet old c == rowGet new c

def rowSet (s : List (Nat × Val)) (r : Row) : Row :=
  s.foldl (fun acc (c, v) => acc.set c v) r

/-- some pair of distinct rows with conflicting primary keys -/
def hasDupPk (pk : List Nat) : Table → Bool
  | [] => false
  | r :: rest => rest.any (pkConflict pk r) || hasDupPk pk rest

/-- Execute one statement once. `none` = sqlite raised (UNIQUE constraint). -/
def applyRowOp (pk : List Nat) (t : Table) : RowOp → Option Table
  | .del w => some (t.filter fun r => !rowMatches w r)
  | .ins r => some ((t.filter fun old => !pkConflict pk r old) ++ [r])
  | .upd s w =>
    let t' := t.map fun r => if rowMatches w r then rowSet s r else r
    if (s.any fun (c, _) => pk.contains c) && hasDupPk pk t' then none else some t'

/-- `_execute_stmt` drops every argument list starting with `'CYLC_TEMPLATE_VARS'`
(when the first argument list is non-empty). -/
def filterArgs (args : List Row) : List Row :=
  match args with
  | (_ :: _) :: _ => args.filter fun r => r.head? != some (.str "CYLC_TEMPLATE_VARS")
  | _ => args

def SqlStmt.rowOps (st : SqlStmt) : List RowOp :=
  (filterArgs st.args).map fun a =>
    match st.tmpl with
    | .del wc => .del (wc.zip a)
    | .ins => .ins a
    | .upd sc wc => .upd (sc.zip (a.take sc.length)) (wc.zip (a.drop sc.length))

/-- the statement does not compile (`UPDATE t SET  WHERE ...`) -/
def SqlStmt.syntaxError (st : SqlStmt) : Bool :=
  match st.tmpl with
  | .upd [] _ => true
  | _ => false

def pkOf (ss : List Schema) (t : String) : List Nat :=
  match ss.find? (·.name == t) with
  | some s => s.pk
  | none => []

def colsOf (ss : List Schema) (t : String) : List String :=
  match ss.find? (·.name == t) with
  | some s => s.cols
  | none => []

/-- why a statement raised: the fault injected by the harness, or sqlite itself -/
inductive Err where
  | injected
  | natural
  deriving DecidableEq, Repr

/-- run the row operations of one `executemany`, stopping with an error before row `failAt` -/
def runRowOps (pk : List Nat) : Table → List RowOp → Option Nat → Except Err Table
  | t, [], none => .ok t
  | _, [], some _ => .error .injected            -- injected fault after the last row
  | _, _ :: _, some 0 => .error .injected
  | t, op :: rest, f =>
    match applyRowOp pk t op with
    | none => .error .natural
    | some t' => runRowOps pk t' rest (f.map (· - 1))

/-- `conn.executemany(stmt, args)` on the uncommitted view `w`. `failAt = some j`: an error is
raised after `min j (number of rows)` rows. -/
def executemany (ss : List Schema) (w : Db) (st : SqlStmt) (failAt : Option Nat) : Except Err Db :=
  if st.syntaxError then .error .natural
  else match runRowOps (pkOf ss st.table) (w st.table) st.rowOps failAt with
    | .error e => .error e
    | .ok t' => .ok (w.set st.table t')

/-! ## Queues of a DAO table -/

/-- `delete_queues`, `insert_queue`, `update_queues` of one `CylcWorkflowDAOTable`
(dictionaries keyed by statement text, in insertion order). -/
structure TQ where
  dels : List (List Nat × List Row) := []
  inss : List Row := []
  upds : List ((List Nat × List Nat) × List Row) := []
  deriving DecidableEq, Repr

def TQ.isEmpty (q : TQ) : Bool := q.dels.isEmpty && q.inss.isEmpty && q.upds.isEmpty

/-- `dict.setdefault(k, []).append(v)` on an insertion-ordered dictionary -/
def dictAppend {κ} [DecidableEq κ] (d : List (κ × List Row)) (k : κ) (v : Row) : List (κ × List Row) :=
  match d with
  | [] => [(k, [v])]
  | (k', vs) :: rest => if k' = k then (k', vs ++ [v]) :: rest else (k', vs) :: dictAppend rest k v

/-- the columns of the table that are keys of the dictionary, in column order, with the values -/
def selectCols (cols : List String) (d : List (String × Val)) (i : Nat := 0) : List (Nat × Val) :=
  match cols with
  | [] => []
  | c :: rest =>
    match d.lookup c with
    | some v => (i, v) :: selectCols rest d (i + 1)
    | none => selectCols rest d (i + 1)

/-- A queued operation as handed to `WorkflowDatabaseManager.db_*_map`. -/
inductive Op where
  | del (t : String) (wher : List (String × Val))
  | insList (t : String) (row : List Val)
  | insDict (t : String) (row : List (String × Val))
  | upd (t : String) (set wher : List (String × Val))
  deriving DecidableEq, Repr

def Op.table : Op → String
  | .del t _ | .insList t _ | .insDict t _ | .upd t _ _ => t

/-- `add_insert_item`: pad with None / truncate to the number of columns -/
def fitRow (n : Nat) (r : Row) : Row := (r ++ List.replicate (n - r.length) Val.null).take n

/-- `add_delete_item` / `add_insert_item` / `add_update_item` -/
def TQ.add (cols : List String) (q : TQ) : Op → TQ
  | .del _ w =>
    let sel := selectCols cols w
    { q with dels := dictAppend q.dels (sel.map (·.1)) (sel.map (·.2)) }
  | .insList _ r => { q with inss := q.inss ++ [fitRow cols.length r] }
  | .insDict _ d => { q with inss := q.inss ++ [cols.map fun c => (d.lookup c).getD .null] }
  | .upd _ s w =>
    let ss := selectCols cols s
    let ws := selectCols cols w
    { q with upds := dictAppend q.upds (ss.map (·.1), ws.map (·.1)) (ss.map (·.2) ++ ws.map (·.2)) }

/-- the part of `sql_queue` contributed by one table: deletes, insert, updates -/
def TQ.lower (t : String) (q : TQ) : List SqlStmt :=
  q.dels.map (fun (wc, a) => ⟨t, .del wc, a⟩)
  ++ (if q.inss.isEmpty then [] else [⟨t, .ins, q.inss⟩])
  ++ q.upds.map (fun ((sc, wc), a) => ⟨t, .upd sc wc, a⟩)

/-! ## The DAO -/

/-- Behaviour switches read from the live code (see the header). -/
structure Cfg where
  retryKeepsOrder : Bool
  recoverClearsQueue : Bool
  maxTries : Nat
  deriving Repr, DecidableEq

def liveCfg : Cfg :=
  ⟨Generated.DbSchema.retryKeepsOrder, Generated.DbSchema.recoverClearsQueue, Generated.DbSchema.maxTries⟩

/-- A sqlite file and the DAO's connection to it. -/
structure Store where
  /-- committed content -/
  file : Db
  /-- `some w`: connection open, its (uncommitted) view is `w` -/
  conn : Option Db := none

def Store.connect (s : Store) : Store :=
  match s.conn with
  | some _ => s
  | none => { s with conn := some s.file }

def Store.commit (s : Store) : Store :=
  match s.conn with
  | some w => { file := w, conn := some w }
  | none => s

def Store.rollback (s : Store) : Store :=
  match s.conn with
  | some _ => { s with conn := some s.file }
  | none => s

def Store.close (s : Store) : Store := { s with conn := none }

structure Dao where
  isPublic : Bool
  store : Store
  queues : String → TQ := fun _ => {}
  /-- statements of failed attempts kept in execution order (only when `retryKeepsOrder`) -/
  pending : List SqlStmt := []
  nTries : Nat := 0

/-- an injected fault of one `execute_queued_items` call -/
inductive Fault where
  | none
  /-- an error at `executemany` call `k` after `j` rows; `k` = number of calls: at `commit` -/
  | at (k j : Nat)
  /-- another connection holds the write lock: the first statement execution fails -/
  | lock
  deriving DecidableEq, Repr

def Dao.sqlQueue (ss : List Schema) (d : Dao) : List SqlStmt :=
  d.pending ++ ss.flatMap fun s => (d.queues s.name).lower s.name

/-- (repaired code only) `stage_queued_items`: the table queues are appended, as one batch, to the
statements kept for the next attempt -/
def Dao.stage (ss : List Schema) (d : Dao) : Dao :=
  { d with pending := d.sqlQueue ss, queues := fun _ => {} }

def Dao.enqueue (ss : List Schema) (d : Dao) (op : Op) : Dao :=
  { d with queues := fun n =>
      if n = op.table then (d.queues n).add (colsOf ss n) op else d.queues n }

/-- the fault seen by `executemany` call number `k` -/
def Fault.rowFault (f : Fault) (k : Nat) (st : SqlStmt) : Option Nat × Fault :=
  match f with
  | .none => (Option.none, .none)
  | .at k' j => if k' = k then (some j, f) else (Option.none, f)
  | .lock => if st.rowOps.isEmpty then (Option.none, .lock) else (some 0, .lock)

/-- the injected fault fires at `self.conn.commit()` (after `k` executemany calls) -/
def Fault.atCommit (f : Fault) (k : Nat) : Bool :=
  match f with
  | .at k' _ => k' == k
  | _ => false

/-- The `for stmt, stmt_args in sql_queue: self._execute_stmt(...)` loop followed by
`self.conn.commit()`. Result: the store, and the `sqlite3.Error` raised, if any. -/
def execLoop (ss : List Schema) (s : Store) (f : Fault) : Nat → List SqlStmt → Store × Option Err
  | k, [] => if f.atCommit k then (s, some .injected) else (s.commit, Option.none)
  | k, st :: rest =>
    let s := s.connect
    let (rf, f') := f.rowFault k st
    match executemany ss (s.conn.getD s.file) st rf with
    | .error e => (s, some e)
    | .ok w => execLoop ss { s with conn := some w } f' (k + 1) rest

inductive ExecResult where
  | noop        -- nothing queued: no connection made
  | committed
  | failed (e : Err)     -- an sqlite3.Error; re-raised by the private DAO
  deriving DecidableEq, Repr

def ExecResult.isFailed : ExecResult → Bool
  | .failed _ => true
  | _ => false

/-- `CylcWorkflowDAO.execute_queued_items` -/
def Dao.exec (cfg : Cfg) (ss : List Schema) (d : Dao) (f : Fault) : Dao × ExecResult :=
  let q := d.sqlQueue ss
  if q.isEmpty then (d, .noop)           -- `if self.conn is None: return` (the `else:` clause is skipped)
  else
    match execLoop ss d.store f 0 q with
    | (s, some e) =>
      -- except sqlite3.Error
      let d1 : Dao := if cfg.retryKeepsOrder then d.stage ss else d
      if !d.isPublic then
        -- private: re-raise; `finally: self.close()` discards the uncommitted view
        ({ d1 with store := s.close }, .failed e)
      else
        ({ d1 with store := s.rollback.close, nTries := d.nTries + 1 }, .failed e)
    | (s, Option.none) =>
      ({ d with store := s.close, queues := fun _ => {}, pending := [], nTries := 0 }, .committed)

/-! ## Reference meaning of a batch (used by the property statements) -/

/-- what the connection sees: its uncommitted view, or the file -/
def Store.view (s : Store) : Db := s.conn.getD s.file

/-- the statements executed one after the other, completely, on `db` (`none`: sqlite raises) -/
def runAll (ss : List Schema) : Db → List SqlStmt → Option Db
  | db, [] => some db
  | db, st :: rest =>
    match executemany ss db st Option.none with
    | .ok db' => runAll ss db' rest
    | .error _ => Option.none

/-! ## The manager -/

structure Mgr where
  pri : Dao
  pub : Dao

/-- `on_workflow_start`: fresh DAOs, `copy_pri_to_pub` -/
def Mgr.start (priFile : Db) : Mgr :=
  { pri := { isPublic := false, store := { file := priFile } },
    pub := { isPublic := true, store := { file := priFile } } }

structure ProcessResult where
  pri : ExecResult
  /-- `none`: not attempted because the private write raised -/
  pub : Option ExecResult
  deriving DecidableEq, Repr

/-- `process_queued_ops` with the operations found in the `db_*_map`s -/
def Mgr.process (cfg : Cfg) (ss : List Schema) (m : Mgr) (ops : List Op) (pf uf : Fault) :
    Mgr × ProcessResult :=
  let pri := ops.foldl (Dao.enqueue ss) m.pri
  let pub := ops.foldl (Dao.enqueue ss) m.pub
  let (pri', r) := pri.exec cfg ss pf
  if r.isFailed then
    -- the exception propagates: the public write is not attempted
    ({ pri := pri', pub := if cfg.retryKeepsOrder then pub.stage ss else pub }, ⟨r, none⟩)
  else
    let (pub', r') := pub.exec cfg ss uf
    ({ pri := pri', pub := pub' }, ⟨r, some r'⟩)

/-- `recover_pub_from_pri` (the scheduler's `database_health_check`) -/
def Mgr.recover (cfg : Cfg) (m : Mgr) : Mgr × Bool :=
  if m.pub.nTries ≥ cfg.maxTries then
    let pub : Dao := { m.pub with store := { file := m.pri.store.file }, nTries := 0 }
    let pub := if cfg.recoverClearsQueue then { pub with queues := fun _ => {}, pending := [] } else pub
    ({ m with pub := pub }, true)
  else (m, false)

/-- scheduler killed and restarted: queues are lost, `on_workflow_start(is_restart=True)` -/
def Mgr.restart (m : Mgr) : Mgr := Mgr.start m.pri.store.file

/-- what happens to a running scheduler, as far as its databases are concerned -/
inductive Ev where
  /-- one main-loop iteration: `process_queued_ops` with the given faults in the private / public
  write, then `database_health_check` -/
  | round (ops : List Op) (pf uf : Fault)
  /-- the scheduler dies (crash, kill: possibly in the middle of the write of the preceding round,
  which is then a `round` whose fault is the point of death) and is restarted -/
  | restart

def Mgr.step (cfg : Cfg) (ss : List Schema) (m : Mgr) : Ev → Mgr
  | .round ops pf uf => ((m.process cfg ss ops pf uf).1.recover cfg).1
  | .restart => m.restart

def Mgr.run (cfg : Cfg) (ss : List Schema) (m : Mgr) (evs : List Ev) : Mgr :=
  evs.foldl (Mgr.step cfg ss) m

end CylcModel.Db
