/-
Component `Like` (property C40): workflow-state queries.

Executable model (core Lean only) of
  * `CylcWorkflowDBChecker.workflow_state_query` and `_selector_in_outputs`
    (cylc/flow/dbstatecheck.py),
  * the SQLite pattern operators the query relies on (`LIKE` with `%`, `_` and ASCII case
    folding; `GLOB` with `*`, `?`, `[...]` sets) -- environment, assumed, validated by the
    correspondence runs on real sqlite databases,
  * `repr_flow_nums` (cylc/flow/flow_mgr.py) for the flow column of a result row.

What the live source does with a pattern (operator + character translation) and the status /
output constants are *generated* from the code on every run into
`CylcModel/Generated/LikeCfg.lean`; the model consumes them.

The specification side (`starMatch`, `Spec.*`) is written from the property text only: `*` matches
any sequence of characters, every other character matches exactly itself.
-/
import CylcModel.Generated.LikeCfg

namespace CylcModel.Like

abbrev Str := List Char

/-! ## Specification: the `*` wildcard of a Cylc ID -/

/-- `f` holds of some suffix of the string (the part left over after `*` swallowed a prefix). -/
def anySuffix (f : Str → Bool) : Str → Bool
  | [] => f []
  | c :: s => f (c :: s) || anySuffix f s

/-- Property C40's matching relation: `*` = any sequence (including empty), any other
character = exactly that character (case-sensitive). -/
def starMatch : Str → Str → Bool
  | [], s => s.isEmpty
  | p :: ps, s =>
    if p = '*' then anySuffix (starMatch ps) s
    else match s with
      | [] => false
      | c :: cs => p == c && starMatch ps cs

/-! ## SQLite pattern matching (`patternCompare` in sqlite3's func.c), on a token list -/

inductive SetItem where
  | ch (c : Char)
  | range (lo hi : Char)
  deriving Repr, DecidableEq

inductive Tok where
  | lit (c : Char)
  | star                      -- `%` (LIKE) / `*` (GLOB)
  | one                       -- `_` (LIKE) / `?` (GLOB)
  | set (inv : Bool) (items : List SetItem)   -- GLOB `[...]` / `[^...]`
  | bad                       -- unterminated `[`: never matches
  deriving Repr, DecidableEq

def asciiLower (c : Char) : Char :=
  if 'A' ≤ c ∧ c ≤ 'Z' then Char.ofNat (c.toNat + 32) else c

/-- character comparison: LIKE folds ASCII case only; GLOB is exact -/
def chEq (noCase : Bool) (a b : Char) : Bool :=
  if noCase then asciiLower a == asciiLower b else a == b

def SetItem.has (c : Char) : SetItem → Bool
  | .ch x => c == x
  | .range lo hi => decide (lo ≤ c) && decide (c ≤ hi)

/-- does a one-character token accept `c` -/
def Tok.accepts (noCase : Bool) (c : Char) : Tok → Bool
  | .lit x => chEq noCase x c
  | .one => true
  | .set inv items => (items.any (·.has c)) != inv
  | .star => false
  | .bad => false

def matchToks (noCase : Bool) : List Tok → Str → Bool
  | [], s => s.isEmpty
  | t :: ts, s =>
    if t = Tok.star then anySuffix (matchToks noCase ts) s
    else match s with
      | [] => false
      | c :: cs => t.accepts noCase c && matchToks noCase ts cs

/-- LIKE pattern (no ESCAPE clause): `%` any sequence, `_` any one character -/
def tokLike : Str → List Tok
  | [] => []
  | c :: p => (if c = '%' then Tok.star else if c = '_' then Tok.one else Tok.lit c) :: tokLike p

/-- scanner state of the GLOB pattern reader -/
inductive St where
  | out
  | opened                       -- just after `[`
  | afterCaret                   -- after `[^`
  | loop (inv : Bool) (prior : Option Char) (acc : List SetItem)
  | dash (inv : Bool) (p : Char) (acc : List SetItem)   -- `-` seen after `p`, next char decides
  deriving Repr

def loopStep (inv : Bool) (prior : Option Char) (acc : List SetItem) (c : Char) : List Tok × St :=
  if c = ']' then ([Tok.set inv acc.reverse], .out)
  else if c = '-' then
    match prior with
    | some p => ([], .dash inv p acc)
    | none => ([], .loop inv (some c) (.ch c :: acc))
  else ([], .loop inv (some c) (.ch c :: acc))

def step : St → Char → List Tok × St
  | .out, c =>
    if c = '*' then ([Tok.star], .out)
    else if c = '?' then ([Tok.one], .out)
    else if c = '[' then ([], .opened)
    else ([Tok.lit c], .out)
  | .opened, c =>
    if c = '^' then ([], .afterCaret)
    else if c = ']' then ([], .loop false none [.ch ']'])
    else loopStep false none [] c
  | .afterCaret, c =>
    if c = ']' then ([], .loop true none [.ch ']'])
    else loopStep true none [] c
  | .loop inv prior acc, c => loopStep inv prior acc c
  | .dash inv p acc, c =>
    if c = ']' then ([Tok.set inv (SetItem.ch '-' :: acc).reverse], .out)
    else ([], .loop inv none (.range p c :: acc))

def tokGlobGo : St → Str → List Tok
  | .out, [] => []
  | _, [] => [Tok.bad]
  | st, c :: p => (step st c).1 ++ tokGlobGo (step st c).2 p

def tokGlob (p : Str) : List Tok := tokGlobGo .out p

def likeMatch (pat s : Str) : Bool := matchToks true (tokLike pat) s
def globMatch (pat s : Str) : Bool := matchToks false (tokGlob pat) s

/-! ## The query as the code runs it (configuration generated from the live source) -/

open CylcModel.Generated in
/-- how one pattern character is rewritten before it is handed to SQLite -/
def transChar (c : Char) : Str :=
  if c = '*' then LikeCfg.starTo else (LikeCfg.escapes.lookup c).getD [c]

def translate (p : Str) : Str := p.flatMap transChar

open CylcModel.Generated in
def sqlMatch (pat s : Str) : Bool :=
  if LikeCfg.opIsGlob then globMatch pat s else likeMatch pat s

/-- the `name`/`cycle` condition of the WHERE clause: pattern operator iff the text contains `*` -/
def fieldFilter (pat s : Str) : Bool :=
  if pat.contains '*' then sqlMatch (translate pat) s else pat == s

/-- `if task:` -- `None` and the empty string add no condition -/
def optFilter (pat : Option Str) (s : Str) : Bool :=
  match pat with
  | none => true
  | some [] => true
  | some p => fieldFilter p s

inductive Outputs where
  | dict (kv : List (String × String))     -- 8.3.0+: {trigger: message}
  | msgs (l : List String)                 -- pre-8.3.0: [message]
  deriving Repr, DecidableEq

structure StateRow where
  name : Str
  cycle : Str
  flows : List Int
  submitNum : Int
  status : Option String
  deriving Repr

structure OutRow where
  name : Str
  cycle : Str
  flows : List Int
  outputs : Outputs
  deriving Repr

inductive Mode where
  | status | trigger | message
  deriving Repr, DecidableEq

structure Query where
  task : Option Str
  cycle : Option Str
  selector : Option String
  mode : Mode
  flow : Option Int
  deriving Repr

inductive Cell where
  | status (s : String)
  | outputs (o : Outputs)
  deriving Repr, DecidableEq

structure ResRow where
  name : Str
  cycle : Str
  cell : Cell
  flow : Option String
  deriving Repr, DecidableEq

inductive Result where
  | inputError
  | rows (l : List ResRow)
  deriving Repr, DecidableEq

/-- `repr_flow_nums` (flows arrive sorted, as `serialise_set` stores them) -/
def flowRepr (fl : List Int) : Option String :=
  if fl == [1] then none
  else some ("(flows=" ++ (if fl.isEmpty then "none" else ",".intercalate (fl.map toString)) ++ ")")

def flowOk (want : Option Int) (fl : List Int) : Bool :=
  match want with
  | none => true
  | some n => fl.contains n

open CylcModel.Generated in
/-- `check_polling_config`: a status selector must be a pollable final status -/
def pollingError (q : Query) : Bool :=
  match q.mode, q.selector with
  | .status, some s => s != "" && !(LikeCfg.pollableStatuses.contains s)
  | _, _ => false

open CylcModel.Generated in
/-- `_selector_in_outputs` -/
def selectorInOutputs (sel : String) (names : List String) : Bool :=
  names.contains sel ||
    (LikeCfg.finishAliases.contains sel &&
      (names.contains LikeCfg.succeededName || names.contains LikeCfg.failedName))

def Outputs.triggers : Outputs → List String
  | .dict kv => kv.map (·.1)
  | .msgs l => l

def Outputs.messages : Outputs → List String
  | .dict kv => kv.map (·.2)
  | .msgs l => l

def outputsOk (q : Query) (o : Outputs) : Bool :=
  match q.selector with
  | none => true
  | some sel =>
    match q.mode with
    | .message => o.messages.contains sel
    | .trigger => selectorInOutputs sel o.triggers
    | .status => true

def stateRowOk (q : Query) (r : StateRow) : Bool :=
  optFilter q.task r.name && optFilter q.cycle r.cycle &&
  (match q.selector with | none => true | some s => r.status == some s) &&
  r.status.isSome && flowOk q.flow r.flows

def outRowOk (q : Query) (r : OutRow) : Bool :=
  optFilter q.task r.name && optFilter q.cycle r.cycle &&
  flowOk q.flow r.flows && outputsOk q r.outputs

structure Db where
  states : List StateRow
  outputs : List OutRow
  deriving Repr

/-- `workflow_state_query` (result rows as a list whose order is not part of the behaviour) -/
def query (db : Db) (q : Query) : Result :=
  if pollingError q then .inputError
  else match q.mode with
    | .status =>
      .rows ((db.states.filter (stateRowOk q)).map fun r =>
        ⟨r.name, r.cycle, .status (r.status.getD ""), flowRepr r.flows⟩)
    | _ =>
      .rows ((db.outputs.filter (outRowOk q)).map fun r =>
        ⟨r.name, r.cycle, .outputs r.outputs, flowRepr r.flows⟩)

/-! ## Specification of the query (from the property text; uses no generated constant) -/

namespace Spec

def optStar (pat : Option Str) (s : Str) : Bool :=
  match pat with
  | none => true
  | some [] => true          -- no task / cycle given
  | some p => starMatch p s

/-- an output selector matches the recorded outputs; `finished` = succeeded or failed -/
def outputsOk (q : Query) (o : Outputs) : Bool :=
  match q.selector with
  | none => true
  | some sel =>
    match q.mode with
    | .message => o.messages.contains sel
    | .trigger =>
      o.triggers.contains sel ||
        ((sel == "finished" || sel == "finish") &&
          (o.triggers.contains "succeeded" || o.triggers.contains "failed"))
    | .status => true

def stateRowOk (q : Query) (r : StateRow) : Bool :=
  optStar q.task r.name && optStar q.cycle r.cycle &&
  (match q.selector with | none => true | some s => r.status == some s) &&
  r.status.isSome && flowOk q.flow r.flows

def outRowOk (q : Query) (r : OutRow) : Bool :=
  optStar q.task r.name && optStar q.cycle r.cycle &&
  flowOk q.flow r.flows && outputsOk q r.outputs

/-- the rows a query must return -/
def rows (db : Db) (q : Query) : List ResRow :=
  match q.mode with
  | .status =>
    (db.states.filter (stateRowOk q)).map fun r =>
      ⟨r.name, r.cycle, .status (r.status.getD ""), flowRepr r.flows⟩
  | _ =>
    (db.outputs.filter (outRowOk q)).map fun r =>
      ⟨r.name, r.cycle, .outputs r.outputs, flowRepr r.flows⟩

end Spec

end CylcModel.Like
