/-
`TaskPool.active_tasks` bookkeeping (C26): cycle buckets, the `active_tasks_changed` flag and the
cached flat list of `get_tasks()`.  Anchors: task_pool.py add_to_pool / remove / _swap_out / get_tasks.
Proxies are abstract values; a bucket maps task identities to proxies in insertion order.
-/
namespace CylcModel.PoolCache

structure St (α : Type) where
  buckets : List (Int × List (String × α)) := []   -- dict point -> (dict id -> proxy), insertion order
  changed : Bool := false                           -- active_tasks_changed
  cached : List α := []                             -- _active_tasks_list

variable {α : Type}

def flatten (b : List (Int × List (String × α))) : List α := b.flatMap fun e => e.2.map (·.2)

def hasKey (b : List (Int × List (String × α))) (p : Int) (k : String) : Bool :=
  b.any fun e => e.1 == p && e.2.any (·.1 == k)

/-- `add_to_pool`: `setdefault(point, {})`, no-op when the identity is present -/
def add (s : St α) (p : Int) (k : String) (x : α) : St α :=
  if hasKey s.buckets p k then
    -- setdefault ran, but the bucket exists (the key is in it)
    s
  else
    let b := if s.buckets.any (·.1 == p) then
        s.buckets.map fun e => if e.1 == p then (e.1, e.2 ++ [(k, x)]) else e
      else s.buckets ++ [(p, [(k, x)])]
    { s with buckets := b, changed := true }

/-- `remove`: delete the identity; drop the bucket when it becomes empty -/
def remove (s : St α) (p : Int) (k : String) : St α :=
  if hasKey s.buckets p k then
    let b := s.buckets.map fun e => if e.1 == p then (e.1, e.2.filter (·.1 != k)) else e
    { s with buckets := b.filter (fun e => !e.2.isEmpty), changed := true }
  else s

/-- `_swap_out` (reload): replace the proxy under an existing identity -/
def swap (s : St α) (p : Int) (k : String) (x : α) : St α :=
  if hasKey s.buckets p k then
    { s with buckets := s.buckets.map (fun e => if e.1 == p then
        (e.1, e.2.map fun kv => if kv.1 == k then (k, x) else kv) else e), changed := true }
  else s

/-- `get_tasks` -/
def getTasks (s : St α) : St α × List α :=
  if s.changed then
    let l := flatten s.buckets
    ({ s with changed := false, cached := l }, l)
  else (s, s.cached)

inductive Op (α : Type) where
  | add (p : Int) (k : String) (x : α)
  | remove (p : Int) (k : String)
  | swap (p : Int) (k : String) (x : α)
  | get

def step (s : St α) : Op α → St α
  | .add p k x => add s p k x
  | .remove p k => remove s p k
  | .swap p k x => swap s p k x
  | .get => (getTasks s).1

/-- the cache is valid whenever the flag is down; no bucket is empty -/
def Inv (s : St α) : Prop :=
  (s.changed = false → s.cached = flatten s.buckets) ∧ ∀ e ∈ s.buckets, e.2 ≠ []

end CylcModel.PoolCache
