/-
Helper lemmas for C13 (`CylcModel/Props/C13.lean`): the `re.sub` model acts atom-wise on an
expression text, lexing/parsing of the rewritten text, cache soundness.
-/
import CylcModel.Prereq
namespace CylcModel.Prereq
open CylcModel.Generated.PrereqTemplates

/-! ## 1. `sub` on texts split at separator characters -/

def isCloser (c : Char) : Bool := c == '&' || c == '|' || c == ')'
def isOpener (c : Char) : Bool := c == '&' || c == '|' || c == '('

theorem isSep_of_closer {c : Char} (h : isCloser c = true) : isSep c = true := by
  simp [isCloser, isSep] at *; rcases h with (h | h) | h <;> simp [h]

theorem isSep_of_opener {c : Char} (h : isOpener c = true) : isSep c = true := by
  simp [isOpener, isSep] at *; rcases h with (h | h) | h <;> simp [h]

/-- what `sub` needs from a pattern to act piecewise on texts cut at separators -/
structure Pat.Regular (P : Pat) : Prop where
  ne : P.lit ≠ []
  sepFree : ∀ c ∈ P.lit, isSep c = false
  okR_close : ∀ c, isCloser c = true → P.okR (some c) = P.okR none
  okL_open : ∀ c, isOpener c = true → P.okL (some c) = P.okL none

def lastOr (p : Option Char) (A : Str) : Option Char :=
  match A.getLast? with
  | some c => some c
  | none => p

@[simp] theorem lastOr_nil (p : Option Char) : lastOr p [] = p := rfl

theorem lastOr_cons (p : Option Char) (c : Char) (A : Str) : lastOr p (c :: A) = lastOr (some c) A := by
  cases A with
  | nil => simp [lastOr]
  | cons d A' =>
    simp only [lastOr, List.getLast?_cons_cons]
    cases h : (d :: A').getLast? with
    | none => simp at h
    | some x => rfl

theorem isPrefixOf_cons_sep {P : Pat} (hP : P.Regular) {c : Char} (hc : isSep c = true) (B : Str) :
    P.lit.isPrefixOf (c :: B) = false := by
  have hne := hP.ne
  cases hl : P.lit with
  | nil => exact absurd hl hne
  | cons a l =>
    have ha : isSep a = false := hP.sepFree a (by simp [hl])
    have : a ≠ c := by intro h; subst h; simp [ha] at hc
    simp [List.isPrefixOf, this]

/-- S1: a separator character is copied -/
theorem sub_cons_sep {P : Pat} (hP : P.Regular) (r : Str) (prev : Option Char) {c : Char}
    (hc : isSep c = true) (B : Str) :
    sub P r prev (c :: B) 0 = c :: sub P r (some c) B 0 := by
  simp [sub, Pat.matchAt, isPrefixOf_cons_sep hP hc]

/-- S3: only the condition on the previous character matters -/
theorem sub_prev_congr (P : Pat) (r : Str) {p q : Option Char} (h : P.okL p = P.okL q) (s : Str) :
    sub P r p s 0 = sub P r q s 0 := by
  cases s with
  | nil => simp [sub]
  | cons c rest => simp [sub, Pat.matchAt, h]

theorem isPrefixOf_append_sep {P : Pat} (hP : P.Regular) (A B : Str)
    (hB : B = [] ∨ ∃ c B', B = c :: B' ∧ isSep c = true) :
    P.lit.isPrefixOf (A ++ B) = P.lit.isPrefixOf A ∧
    (P.lit.isPrefixOf A = true → P.lit.length ≤ A.length) := by
  have key : ∀ (l : Str), (∀ c ∈ l, isSep c = false) → ∀ A : Str,
      l.isPrefixOf (A ++ B) = l.isPrefixOf A := by
    intro l
    induction l with
    | nil => intro _ A; simp
    | cons a l ih =>
      intro hl A
      cases A with
      | nil =>
        rcases hB with hB | ⟨c, B', hB, hc⟩
        · subst hB; simp
        · subst hB
          have ha : isSep a = false := hl a (by simp)
          have : a ≠ c := by intro h; subst h; simp [ha] at hc
          simp [List.isPrefixOf, this]
      | cons x A' =>
        simp only [List.cons_append, List.isPrefixOf]
        rw [ih (fun c hc => hl c (by simp [hc])) A']
  refine ⟨key P.lit hP.sepFree A, ?_⟩
  intro h
  have := List.isPrefixOf_iff_prefix.mp h
  exact this.length_le

/-- S2: a text followed by nothing or by a closing separator is rewritten on its own -/
theorem sub_append {P : Pat} (hP : P.Regular) (r : Str) (B : Str)
    (hB : B = [] ∨ ∃ c B', B = c :: B' ∧ isCloser c = true) :
    ∀ (A : Str) (prev : Option Char) (k : Nat), k ≤ A.length →
      sub P r prev (A ++ B) k = sub P r prev A k ++ sub P r (lastOr prev A) B 0 := by
  have hB' : B = [] ∨ ∃ c B', B = c :: B' ∧ isSep c = true := by
    rcases hB with h | ⟨c, B', h, hc⟩
    · exact Or.inl h
    · exact Or.inr ⟨c, B', h, isSep_of_closer hc⟩
  intro A
  induction A with
  | nil =>
    intro prev k hk
    have : k = 0 := by simpa using hk
    subst this
    simp [sub]
  | cons c A' ih =>
    intro prev k hk
    cases k with
    | succ k' =>
      have hk' : k' ≤ A'.length := by simpa using hk
      simp only [List.cons_append, sub, lastOr_cons]
      exact ih (some c) k' hk'
    | zero =>
      simp only [List.cons_append, sub, lastOr_cons]
      -- the occurrence test is the same in context and alone
      have hpre := isPrefixOf_append_sep hP (c :: A') B hB'
      have hm : P.matchAt prev (c :: (A' ++ B)) = P.matchAt prev (c :: A') := by
        unfold Pat.matchAt
        have h1 : P.lit.isPrefixOf (c :: (A' ++ B)) = P.lit.isPrefixOf (c :: A') := by
          simpa using hpre.1
        rw [h1]
        by_cases hp : P.lit.isPrefixOf (c :: A') = true
        · have hlen := hpre.2 hp
          have hR : P.okR ((c :: (A' ++ B)).drop P.lit.length).head? = P.okR ((c :: A').drop P.lit.length).head? := by
            by_cases hlt : P.lit.length < (c :: A').length
            · have : ((c :: A') ++ B).drop P.lit.length = (c :: A').drop P.lit.length ++ B := by
                rw [List.drop_append_of_le_length (Nat.le_of_lt hlt)]
              have hne : (c :: A').drop P.lit.length ≠ [] := by
                intro h
                have := List.drop_eq_nil_iff.mp h
                omega
              rw [← List.cons_append, this]
              cases hd : (c :: A').drop P.lit.length with
              | nil => exact absurd hd hne
              | cons x xs => simp
            · have heq : P.lit.length = (c :: A').length := by omega
              have e1 : ((c :: A') ++ B).drop P.lit.length = B := by
                rw [heq]; simp
              have e2 : (c :: A').drop P.lit.length = [] := by
                rw [heq]; simp
              rw [← List.cons_append, e1, e2]
              rcases hB with h | ⟨d, B'', h, hd⟩
              · subst h; rfl
              · subst h; simpa using hP.okR_close d hd
          rw [hR]
        · simp [hp]
      rw [hm]
      by_cases hmm : P.matchAt prev (c :: A') = true
      · simp only [hmm, if_true]
        have hp : P.lit.isPrefixOf (c :: A') = true := by
          unfold Pat.matchAt at hmm
          simp only [Bool.and_eq_true] at hmm
          exact hmm.1.2
        have hlen := hpre.2 hp
        have hk1 : P.lit.length - 1 ≤ A'.length := by
          simp at hlen; omega
        rw [ih (some c) _ hk1, List.append_assoc]
      · simp only [hmm]
        rw [ih (some c) 0 (Nat.zero_le _)]
        simp

/-! ## 2. Token lists -/

def Tok.isAtom : Tok → Bool
  | .atom _ => true
  | _ => false

/-- an atom may follow this token -/
def Tok.opens : Tok → Bool
  | .amp | .bar | .lp => true
  | _ => false

/-- an atom may precede this token -/
def Tok.closes : Tok → Bool
  | .amp | .bar | .rp => true
  | _ => false

/-- atoms only at the start or after `& | (`, and only before the end or `& | )` -/
def wfAux : Bool → List Tok → Bool
  | _, [] => true
  | po, .atom _ :: rest =>
    po && (match rest with | [] => true | t :: _ => t.closes) && wfAux false rest
  | _, t :: rest => wfAux t.opens rest

def WF (toks : List Tok) : Bool := wfAux true toks

theorem exprText_cons (f : Nat → Str) (t : Tok) (ts : List Tok) :
    exprText f (t :: ts) = t.text f ++ exprText f ts := by
  simp [exprText]

theorem exprText_head_closer (f : Nat → Str) (t : Tok) (ts : List Tok) (h : t.closes = true) :
    ∃ c B', exprText f (t :: ts) = c :: B' ∧ isCloser c = true := by
  cases t <;> simp [Tok.closes] at h <;> simp [exprText_cons, Tok.text, isCloser]

/-- T1: one `re.sub` pass acts on every atom text separately -/
theorem sub_exprText {P : Pat} (hP : P.Regular) (r : Str) (f : Nat → Str) :
    ∀ (toks : List Tok) (prev : Option Char) (po : Bool), wfAux po toks = true →
      (po = true → P.okL prev = P.okL none) →
      sub P r prev (exprText f toks) 0 = exprText (fun i => sub P r none (f i) 0) toks := by
  intro toks
  induction toks with
  | nil => intro prev po _ _; simp [exprText, sub]
  | cons t ts ih =>
    intro prev po hwf hprev
    cases t with
    | atom i =>
      simp only [wfAux, Bool.and_eq_true] at hwf
      obtain ⟨⟨hpo, hnext⟩, hrest⟩ := hwf
      rw [exprText_cons, exprText_cons]
      simp only [Tok.text]
      have hB : exprText f ts = [] ∨ ∃ c B', exprText f ts = c :: B' ∧ isCloser c = true := by
        cases ts with
        | nil => left; simp [exprText]
        | cons t' ts' => right; exact exprText_head_closer f t' ts' hnext
      rw [sub_append hP r _ hB (f i) prev 0 (Nat.zero_le _)]
      rw [sub_prev_congr P r (hprev hpo) (f i)]
      congr 1
      exact ih _ false hrest (by intro h; cases h)
    | amp =>
      simp only [wfAux] at hwf
      rw [exprText_cons, exprText_cons]
      simp only [Tok.text, List.singleton_append]
      rw [sub_cons_sep hP r prev (by decide)]
      congr 1
      exact ih _ _ hwf (fun _ => hP.okL_open '&' (by decide))
    | bar =>
      simp only [wfAux] at hwf
      rw [exprText_cons, exprText_cons]
      simp only [Tok.text, List.singleton_append]
      rw [sub_cons_sep hP r prev (by decide)]
      congr 1
      exact ih _ _ hwf (fun _ => hP.okL_open '|' (by decide))
    | lp =>
      simp only [wfAux] at hwf
      rw [exprText_cons, exprText_cons]
      simp only [Tok.text, List.singleton_append]
      rw [sub_cons_sep hP r prev (by decide)]
      congr 1
      exact ih _ _ hwf (fun _ => hP.okL_open '(' (by decide))
    | rp =>
      simp only [wfAux] at hwf
      rw [exprText_cons, exprText_cons]
      simp only [Tok.text, List.singleton_append]
      rw [sub_cons_sep hP r prev (by decide)]
      congr 1
      exact ih _ _ hwf (by intro h; simp [Tok.opens] at h)

/-! ## 3. All passes -/

theorem isWord_of_sep {c : Char} (h : isSep c = true) : isWord c = false := by
  simp [isSep] at h
  rcases h with ((h | h) | h) | h <;> subst h <;> decide

/-- facts about the regenerated templates (re-checked whenever the source changes them) -/
theorem msgSep1_ne_nil : msgSep1 ≠ [] := by decide
theorem satHead_cons : satHead = 'b' :: satHead.drop 1 := by decide

theorem Key.msg_ne_nil (k : Key) : k.msg ≠ [] := by
  have := msgSep1_ne_nil
  simp [Key.msg, this]

theorem patOf_regular (msg : Str) (hne : msg ≠ []) (hs : ∀ c ∈ msg, isSep c = false) :
    (patOf msg).Regular := by
  unfold patOf
  split
  · -- operands anchored between operators
    refine ⟨hne, hs, ?_, ?_⟩
    · intro c hc
      simp only [isCloser, Bool.or_eq_true, beq_iff_eq] at hc
      rcases hc with (h | h) | h <;> subst h <;> rfl
    · intro c hc
      simp only [isOpener, Bool.or_eq_true, beq_iff_eq] at hc
      rcases hc with (h | h) | h <;> subst h <;> rfl
  · split
    · next rest =>
      refine ⟨by simp, hs, ?_, ?_⟩
      · intro c hc
        simp [isWordO, isWord_of_sep (isSep_of_closer hc)]
      · intro c _; rfl
    · refine ⟨hne, hs, ?_, ?_⟩
      · intro c hc
        simp [isWordO, isWord_of_sep (isSep_of_closer hc)]
      · intro c hc
        simp [isWordO, isWord_of_sep (isSep_of_opener hc)]

def Key.SepFree (k : Key) : Prop := ∀ c ∈ k.msg, isSep c = false

instance (k : Key) : Decidable k.SepFree := by unfold Key.SepFree; infer_instance

theorem subKey_exprText (k : Key) (hk : k.SepFree) (f : Nat → Str) (toks : List Tok)
    (hwf : WF toks = true) :
    subKey k (exprText f toks) = exprText (fun i => subKey k (f i)) toks := by
  unfold subKey
  exact sub_exprText (patOf_regular k.msg k.msg_ne_nil hk) k.tmpl f toks none true hwf (fun _ => rfl)

/-- T2: the whole rewrite acts on every atom text separately -/
theorem rewriteText_exprText (keys : List Key) (hk : ∀ k ∈ keys, k.SepFree) (toks : List Tok)
    (hwf : WF toks = true) :
    ∀ f : Nat → Str,
      rewriteText keys (exprText f toks) = exprText (fun i => rewriteText keys (f i)) toks := by
  induction keys with
  | nil => intro f; simp [rewriteText]
  | cons k ks ih =>
    intro f
    have hk0 : k.SepFree := hk k (by simp)
    have hks : ∀ k' ∈ ks, k'.SepFree := fun k' h => hk k' (by simp [h])
    have : rewriteText (k :: ks) (exprText f toks) = rewriteText ks (subKey k (exprText f toks)) := by
      simp [rewriteText]
    rw [this, subKey_exprText k hk0 f toks hwf, ih hks]
    simp [rewriteText]

theorem exprText_congr (f g : Nat → Str) (toks : List Tok)
    (h : ∀ i, Tok.atom i ∈ toks → f i = g i) : exprText f toks = exprText g toks := by
  induction toks with
  | nil => rfl
  | cons t ts ih =>
    rw [exprText_cons, exprText_cons, ih (fun i hi => h i (by simp [hi]))]
    cases t with
    | atom i => simp [Tok.text, h i (by simp)]
    | _ => rfl

/-! ## 4. Lexing the rewritten text -/

theorem dropPrefix?_append (a b : Str) : dropPrefix? a (a ++ b) = some b := by
  induction a with
  | nil => simp [dropPrefix?]
  | cons x xs ih => simp [dropPrefix?, ih]

/-- characters that would end or escape a key component inside the Python expression -/
def badQuote (c : Char) : Bool := c == '"' || (reprKeys && (c == '\'' || c == '\\'))

def cleanStr (s : Str) : Prop := ∀ c ∈ s, badQuote c = false

instance (s : Str) : Decidable (cleanStr s) := by unfold cleanStr; infer_instance

/-- the quote character the source puts around a key component -/
def qChar : Char := if reprKeys then '\'' else '"'

theorem badQuote_qChar : badQuote qChar = true := by
  unfold badQuote qChar; cases reprKeys <;> simp

theorem flatMap_escRepr_clean (hr : reprKeys = true) (l : Str) (hl : cleanStr l) :
    l.flatMap escRepr = l := by
  induction l with
  | nil => rfl
  | cons x xs ih =>
    have hx := hl x (by simp)
    simp only [badQuote, hr, Bool.true_and, Bool.or_eq_false_iff] at hx
    have e1 : (x == '\\') = false := hx.2.2
    have e2 : (x == '\'') = false := hx.2.1
    have hxs : cleanStr xs := fun c hc => hl c (by simp [hc])
    simp only [List.flatMap_cons, escRepr, e1, e2, Bool.false_eq_true, if_false, List.singleton_append,
      ih hxs]

theorem quoteKey_clean (s : Str) (h : cleanStr s) : quoteKey s = qChar :: s ++ [qChar] := by
  unfold quoteKey qChar
  cases hr : reprKeys with
  | false => simp
  | true =>
    have h1 : s.contains '\'' = false := by
      cases hc : s.contains '\'' with
      | false => rfl
      | true =>
        have := h '\'' (by simpa using hc)
        simp [badQuote, hr] at this
    simp only [if_true, pyRepr, h1, Bool.false_and, Bool.false_eq_true, if_false,
      flatMap_escRepr_clean hr s h]

theorem readStrBody_clean (s rest : Str) (h : cleanStr s) :
    readStrBody qChar false (s ++ qChar :: rest) = some (s, rest) := by
  induction s with
  | nil =>
    unfold readStrBody
    simp
  | cons x xs ih =>
    have hx := h x (by simp)
    have hq : (x == qChar) = false := by
      cases hxq : x == qChar with
      | false => rfl
      | true =>
        have : x = qChar := by simpa using hxq
        rw [this, badQuote_qChar] at hx; cases hx
    have hb : (reprKeys && x == '\\') = false := by
      cases hr : reprKeys with
      | false => rfl
      | true =>
        simp only [badQuote, hr, Bool.true_and, Bool.or_eq_false_iff] at hx
        simpa using hx.2.2
    have hxs : cleanStr xs := fun c hc => h c (by simp [hc])
    rw [List.cons_append]
    unfold readStrBody
    simp only [hq, hb, Bool.false_eq_true, if_false, ih hxs]

theorem readStr_clean (s rest : Str) (h : cleanStr s) :
    readStr (qChar :: s ++ qChar :: rest) = some (s, rest) := by
  have hq : (qChar == '"' || (reprKeys && qChar == '\'')) = true := by
    unfold qChar; cases reprKeys <;> simp
  simp only [List.cons_append, readStr, hq, if_true]
  exact readStrBody_clean s rest h

def Key.NoQuote (k : Key) : Prop := cleanStr k.point ∧ cleanStr k.task ∧ cleanStr k.out

instance (k : Key) : Decidable k.NoQuote := by unfold Key.NoQuote; infer_instance

theorem readRef_tmpl (k : Key) (h : k.NoQuote) (rest : Str) :
    readRef (k.tmpl ++ rest) = some (k, rest) := by
  obtain ⟨h1, h2, h3⟩ := h
  have e : k.tmpl ++ rest = satHead ++ (qChar :: k.point ++ qChar :: (satSep1 ++ (qChar :: k.task ++ qChar ::
      (satSep2 ++ (qChar :: k.out ++ qChar :: (satTail ++ rest)))))) := by
    simp only [Key.tmpl, quoteKey_clean _ h1, quoteKey_clean _ h2, quoteKey_clean _ h3,
      List.append_assoc, List.cons_append, List.nil_append]
  rw [e]
  simp only [readRef, dropPrefix?_append, readStr_clean _ _ h1, readStr_clean _ _ h2,
    readStr_clean _ _ h3]

def toP (key : Nat → Key) : Tok → PTok
  | .atom i => .ref (key i)
  | .amp => .amp
  | .bar => .bar
  | .lp => .lp
  | .rp => .rp

theorem tmpl_cons (k : Key) : ∃ tl, k.tmpl = 'b' :: tl := by
  refine ⟨satHead.drop 1 ++ quoteKey k.point ++ satSep1 ++ quoteKey k.task ++ satSep2 ++ quoteKey k.out ++ satTail, ?_⟩
  simp only [Key.tmpl]
  conv => lhs; rw [satHead_cons]
  simp only [List.cons_append]

theorem lex_exprText (key : Nat → Key) :
    ∀ (toks : List Tok), (∀ i, Tok.atom i ∈ toks → (key i).NoQuote) →
    ∀ fuel, (exprText (fun i => (key i).tmpl) toks).length ≤ fuel →
      lex fuel (exprText (fun i => (key i).tmpl) toks) = some (toks.map (toP key)) := by
  intro toks
  induction toks with
  | nil => intro _ fuel _; cases fuel <;> simp [exprText, lex]
  | cons t ts ih =>
    intro hq fuel hfuel
    have hq' : ∀ i, Tok.atom i ∈ ts → (key i).NoQuote := fun i hi => hq i (by simp [hi])
    rw [exprText_cons] at hfuel ⊢
    cases t with
    | atom i =>
      simp only [Tok.text] at hfuel ⊢
      obtain ⟨tl, htl⟩ := tmpl_cons (key i)
      have hlen : (key i).tmpl.length = tl.length + 1 := by rw [htl]; simp
      cases fuel with
      | zero => simp [hlen] at hfuel
      | succ fuel =>
        have hr := readRef_tmpl (key i) (hq i (by simp)) (exprText (fun i => (key i).tmpl) ts)
        have hstep : lex (fuel + 1) ((key i).tmpl ++ exprText (fun i => (key i).tmpl) ts)
            = (lex fuel (exprText (fun i => (key i).tmpl) ts)).map (PTok.ref (key i) :: ·) := by
          rw [htl] at hr ⊢
          simp only [List.cons_append] at hr ⊢
          rw [lex]
          simp only [show ('b' == '&') = false by decide, show ('b' == '|') = false by decide,
            show ('b' == '(') = false by decide, show ('b' == ')') = false by decide,
            show ('b' == '-') = false by decide, hr]
          simp
        rw [hstep, ih hq' fuel (by simp [List.length_append, hlen] at hfuel; omega)]
        simp [toP]
    | amp =>
      cases fuel with
      | zero => simp [Tok.text] at hfuel
      | succ fuel =>
        simp only [Tok.text, List.singleton_append, List.length_cons] at hfuel ⊢
        rw [lex]
        simp [ih hq' fuel (by omega), toP]
    | bar =>
      cases fuel with
      | zero => simp [Tok.text] at hfuel
      | succ fuel =>
        simp only [Tok.text, List.singleton_append, List.length_cons] at hfuel ⊢
        rw [lex]
        simp [ih hq' fuel (by omega), toP]
    | lp =>
      cases fuel with
      | zero => simp [Tok.text] at hfuel
      | succ fuel =>
        simp only [Tok.text, List.singleton_append, List.length_cons] at hfuel ⊢
        rw [lex]
        simp [ih hq' fuel (by omega), toP]
    | rp =>
      cases fuel with
      | zero => simp [Tok.text] at hfuel
      | succ fuel =>
        simp only [Tok.text, List.singleton_append, List.length_cons] at hfuel ⊢
        rw [lex]
        simp [ih hq' fuel (by omega), toP]


/-! ## 5. Parsing the tokens of a rendered expression -/

theorem V3.or_ofBool (a b : Bool) : V3.or (V3.ofBool a) (V3.ofBool b) = V3.ofBool (a || b) := by
  cases a <;> cases b <;> rfl

theorem V3.and_ofBool (a b : Bool) : V3.and (V3.ofBool a) (V3.ofBool b) = V3.ofBool (a && b) := by
  cases a <;> cases b <;> rfl

theorem V3.or_assoc (a b c : V3) : V3.or (V3.or a b) c = V3.or a (V3.or b c) := by
  cases a <;> cases b <;> cases c <;> rfl

theorem V3.and_assoc (a b c : V3) : V3.and (V3.and a b) c = V3.and a (V3.and b c) := by
  cases a <;> cases b <;> cases c <;> rfl

theorem V3.truthy_ofBool (b : Bool) : (V3.ofBool b).truthy = b := by cases b <;> rfl

section parse
variable (look : Key → Option Bool) (key : Nat → Key) (v : Nat → Bool)

/-- "for every fuel from `n` on" -/
def Ev (n lvl : Nat) (ts : List PTok) (res : V3 × List PTok) : Prop :=
  ∀ f, n ≤ f → parse look f lvl ts = some res

theorem Ev.mono {look : Key → Option Bool} {n m lvl : Nat} {ts res} (h : Ev look n lvl ts res) (hnm : n ≤ m) :
    Ev look m lvl ts res := fun f hf => h f (Nat.le_trans hnm hf)

def R (e : BExpr) : List PTok := e.render.map (toP key)
def W (e : BExpr) : List PTok := if e.isOr then .lp :: R key e ++ [.rp] else R key e
def Vl (e : BExpr) : V3 := V3.ofBool (e.eval v)

theorem parse_or_step (f : Nat) (ts : List PTok) :
    parse look (f + 1) 0 ts =
      match parse look f 1 ts with
      | some (a, .bar :: r) =>
        (match parse look f 0 r with
         | some (b, r') => some (V3.or a b, r')
         | none => none)
      | res => res := by
  rw [parse]; rfl

theorem parse_and_step (f : Nat) (ts : List PTok) :
    parse look (f + 1) 1 ts =
      match parse look f 2 ts with
      | some (a, .amp :: r) =>
        (match parse look f 1 r with
         | some (b, r') => some (V3.and a b, r')
         | none => none)
      | res => res := by
  rw [parse]; rfl

theorem parse_lp_step (f : Nat) (r : List PTok) :
    parse look (f + 1) 2 (.lp :: r) =
      match parse look f 0 r with
      | some (a, .rp :: r') => some (a, r')
      | _ => none := by
  rw [parse]; rfl

/-- and-level facts from the unary-level fact -/
theorem A_of_U (ts : List PTok) (val : V3) (c : Nat)
    (hU : ∀ rest, Ev look c 2 (ts ++ rest) (val, rest)) :
    (∀ rest, rest.head? ≠ some .amp → Ev look (c + 1) 1 (ts ++ rest) (val, rest)) ∧
    (∀ X n w r, Ev look n 1 X (w, r) → Ev look (n + c + 1) 1 (ts ++ .amp :: X) (V3.and val w, r)) := by
  constructor
  · intro rest hrest f hf
    obtain ⟨f', rfl⟩ : ∃ f', f = f' + 1 := ⟨f - 1, by omega⟩
    rw [parse_and_step, hU rest f' (by omega)]
    cases rest with
    | nil => rfl
    | cons t rest' =>
      cases t <;> first | rfl | (exfalso; exact hrest rfl)
  · intro X n w r hX f hf
    obtain ⟨f', rfl⟩ : ∃ f', f = f' + 1 := ⟨f - 1, by omega⟩
    rw [parse_and_step, hU (.amp :: X) f' (by omega)]
    simp only []
    rw [hX f' (by omega)]

/-- or-level facts from the and-level facts -/
theorem O_of_A (ts : List PTok) (val : V3) (c : Nat)
    (hA : ∀ rest, rest.head? ≠ some .amp → Ev look c 1 (ts ++ rest) (val, rest)) :
    (∀ rest, rest.head? ≠ some .amp → rest.head? ≠ some .bar → Ev look (c + 1) 0 (ts ++ rest) (val, rest)) ∧
    (∀ X n w r, Ev look n 0 X (w, r) → Ev look (n + c + 1) 0 (ts ++ .bar :: X) (V3.or val w, r)) := by
  constructor
  · intro rest h1 h2 f hf
    obtain ⟨f', rfl⟩ : ∃ f', f = f' + 1 := ⟨f - 1, by omega⟩
    rw [parse_or_step, hA rest h1 f' (by omega)]
    cases rest with
    | nil => rfl
    | cons t rest' =>
      cases t <;> first | rfl | (exfalso; exact h2 rfl)
  · intro X n w r hX f hf
    obtain ⟨f', rfl⟩ : ∃ f', f = f' + 1 := ⟨f - 1, by omega⟩
    rw [parse_or_step, hA (.bar :: X) (by simp) f' (by omega)]
    simp only []
    rw [hX f' (by omega)]

/-- unary-level fact for a parenthesised token list from its or-level fact -/
theorem U_of_O (ts : List PTok) (val : V3) (c : Nat)
    (hO : ∀ rest, rest.head? ≠ some .amp → rest.head? ≠ some .bar → Ev look c 0 (ts ++ rest) (val, rest)) :
    ∀ rest, Ev look (c + 1) 2 (.lp :: ts ++ [.rp] ++ rest) (val, rest) := by
  intro rest f hf
  obtain ⟨f', rfl⟩ : ∃ f', f = f' + 1 := ⟨f - 1, by omega⟩
  have := hO (.rp :: rest) (by simp) (by simp) f' (by omega)
  simp only [List.cons_append, List.append_assoc, List.nil_append]
  rw [parse_lp_step, this]

/-- the four facts carried through the induction -/
structure Parses (e : BExpr) : Prop where
  o1 : ∀ rest, rest.head? ≠ some .amp → rest.head? ≠ some .bar →
    Ev look (3 * (R key e).length + 2) 0 (R key e ++ rest) (Vl v e, rest)
  o2 : ∀ X n w r, Ev look n 0 X (w, r) →
    Ev look (n + 3 * (R key e).length + 2) 0 (R key e ++ .bar :: X) (V3.or (Vl v e) w, r)
  a1 : ∀ rest, rest.head? ≠ some .amp →
    Ev look (3 * (W key e).length + 1) 1 (W key e ++ rest) (Vl v e, rest)
  a2 : ∀ X n w r, Ev look n 1 X (w, r) →
    Ev look (n + 3 * (W key e).length + 1) 1 (W key e ++ .amp :: X) (V3.and (Vl v e) w, r)

theorem parses_of_U (e : BExpr) (hor : e.isOr = false)
    (hU : ∀ rest, Ev look (3 * (R key e).length) 2 (R key e ++ rest) (Vl v e, rest)) :
    Parses look key v e := by
  have hW : W key e = R key e := by simp [W, hor]
  have hA := A_of_U look (R key e) (Vl v e) _ hU
  have hO := O_of_A look (R key e) (Vl v e) _ hA.1
  refine ⟨?_, ?_, ?_, ?_⟩
  · intro rest h1 h2; exact (hO.1 rest h1 h2).mono (by omega)
  · intro X n w r hX; exact (hO.2 X n w r hX).mono (by omega)
  · rw [hW]; exact hA.1
  · rw [hW]; intro X n w r hX; exact (hA.2 X n w r hX).mono (by omega)

theorem parses : ∀ e : BExpr, (∀ i ∈ e.atoms, look (key i) = some (v i)) → Parses look key v e := by
  intro e
  induction e with
  | atom i =>
    intro hv
    have hv := fun i => hv i
    simp only [BExpr.atoms, List.mem_singleton, forall_eq] at hv
    have hv : ∀ j, j = i → look (key j) = some (v j) := fun j hj => hj ▸ hv
    have hv := fun (_ : Nat) => hv i rfl
    apply parses_of_U look key v _ rfl
    intro rest f hf
    obtain ⟨f', rfl⟩ : ∃ f', f = f' + 1 := ⟨f - 1, by simp [R, BExpr.render] at hf; omega⟩
    simp [R, BExpr.render, toP, parse, hv i, Vl, BExpr.eval]
  | paren a iha =>
    intro hv
    have iha := iha (fun i hi => hv i (by simpa [BExpr.atoms] using hi))
    apply parses_of_U look key v _ rfl
    intro rest
    have := U_of_O look (R key a) (Vl v a) _ iha.o1 rest
    have e1 : R key (.paren a) = .lp :: R key a ++ [.rp] := by simp [R, BExpr.render, toP]
    rw [e1]
    have e2 : Vl v (.paren a) = Vl v a := rfl
    rw [e2]
    exact this.mono (by simp; omega)
  | and a b iha ihb =>
    intro hv
    have iha := iha (fun i hi => hv i (by simp [BExpr.atoms, hi]))
    have ihb := ihb (fun i hi => hv i (by simp [BExpr.atoms, hi]))
    have eR : R key (.and a b) = W key a ++ .amp :: W key b := by
      simp only [R, BExpr.render, W]
      split <;> split <;> simp [toP]
    have eW : W key (.and a b) = R key (.and a b) := by simp [W, BExpr.isOr]
    have eV : Vl v (.and a b) = V3.and (Vl v a) (Vl v b) := by
      simp [Vl, BExpr.eval, V3.and_ofBool]
    have hlen : (R key (.and a b)).length = (W key a).length + 1 + (W key b).length := by
      rw [eR]; simp; omega
    have hA1 : ∀ rest, rest.head? ≠ some .amp →
        Ev look (3 * (R key (.and a b)).length + 1) 1 (R key (.and a b) ++ rest) (Vl v (.and a b), rest) := by
      intro rest hrest
      have h1 := ihb.a1 rest hrest
      have h2 := iha.a2 (W key b ++ rest) _ _ _ h1
      rw [eR, eV]
      simp only [List.append_assoc, List.cons_append]
      exact h2.mono (by simp only [List.length_append, List.length_cons]; omega)
    have hA2 : ∀ X n w r, Ev look n 1 X (w, r) →
        Ev look (n + 3 * (R key (.and a b)).length + 1) 1 (R key (.and a b) ++ .amp :: X)
          (V3.and (Vl v (.and a b)) w, r) := by
      intro X n w r hX
      have h1 := ihb.a2 X n w r hX
      have h2 := iha.a2 (W key b ++ .amp :: X) _ _ _ h1
      rw [eR, eV, V3.and_assoc]
      simp only [List.append_assoc, List.cons_append]
      exact h2.mono (by simp only [List.length_append, List.length_cons]; omega)
    have hO := O_of_A look (R key (.and a b)) (Vl v (.and a b)) _ hA1
    refine ⟨?_, ?_, ?_, ?_⟩
    · intro rest h1 h2; exact (hO.1 rest h1 h2).mono (by omega)
    · intro X n w r hX; exact (hO.2 X n w r hX).mono (by omega)
    · rw [eW]; exact hA1
    · rw [eW]; exact hA2
  | or a b iha ihb =>
    intro hv
    have iha := iha (fun i hi => hv i (by simp [BExpr.atoms, hi]))
    have ihb := ihb (fun i hi => hv i (by simp [BExpr.atoms, hi]))
    have eR : R key (.or a b) = R key a ++ .bar :: R key b := by
      simp [R, BExpr.render, toP]
    have eW : W key (.or a b) = .lp :: R key (.or a b) ++ [.rp] := by simp [W, BExpr.isOr]
    have eV : Vl v (.or a b) = V3.or (Vl v a) (Vl v b) := by
      simp [Vl, BExpr.eval, V3.or_ofBool]
    have hlen : (R key (.or a b)).length = (R key a).length + 1 + (R key b).length := by
      rw [eR]; simp; omega
    have hO1 : ∀ rest, rest.head? ≠ some .amp → rest.head? ≠ some .bar →
        Ev look (3 * (R key (.or a b)).length + 2) 0 (R key (.or a b) ++ rest) (Vl v (.or a b), rest) := by
      intro rest h1 h2
      have hb := ihb.o1 rest h1 h2
      have ha := iha.o2 (R key b ++ rest) _ _ _ hb
      rw [eR, eV]
      simp only [List.append_assoc, List.cons_append]
      exact ha.mono (by simp only [List.length_append, List.length_cons]; omega)
    have hO2 : ∀ X n w r, Ev look n 0 X (w, r) →
        Ev look (n + 3 * (R key (.or a b)).length + 2) 0 (R key (.or a b) ++ .bar :: X)
          (V3.or (Vl v (.or a b)) w, r) := by
      intro X n w r hX
      have hb := ihb.o2 X n w r hX
      have ha := iha.o2 (R key b ++ .bar :: X) _ _ _ hb
      rw [eR, eV, V3.or_assoc]
      simp only [List.append_assoc, List.cons_append]
      exact ha.mono (by simp only [List.length_append, List.length_cons]; omega)
    have hU := U_of_O look (R key (.or a b)) (Vl v (.or a b)) _ hO1
    have hU' : ∀ rest, Ev look (3 * (R key (.or a b)).length + 3) 2 (W key (.or a b) ++ rest)
        (Vl v (.or a b), rest) := by
      intro rest; rw [eW]; exact hU rest
    have hA := A_of_U look (W key (.or a b)) (Vl v (.or a b)) _ hU'
    have hWlen : (W key (.or a b)).length = (R key (.or a b)).length + 2 := by rw [eW]; simp
    refine ⟨hO1, hO2, ?_, ?_⟩
    · intro rest hrest; exact (hA.1 rest hrest).mono (by rw [hWlen]; omega)
    · intro X n w r hX; exact (hA.2 X n w r hX).mono (by rw [hWlen]; omega)

/-- the parser evaluates a rendered expression to its truth value -/
theorem parse_render (e : BExpr) (hv : ∀ i ∈ e.atoms, look (key i) = some (v i)) :
    parse look (3 * (e.render.map (toP key)).length + 3) 0 (e.render.map (toP key))
      = some (V3.ofBool (e.eval v), []) := by
  have := (parses look key v e hv).o1 [] (by simp) (by simp) (3 * (R key e).length + 3) (by omega)
  simpa [R, Vl] using this

end parse

/-! ## 6. The `_satisfied` dict -/

def keysOf (s : List (Key × SatVal)) : List Key := s.map (·.1)

theorem lookupKey_assign (k k' : Key) (v : SatVal) (s : List (Key × SatVal)) :
    lookupKey k' (assign k v s) = if k' = k then some v else lookupKey k' s := by
  induction s with
  | nil =>
    by_cases h : k' = k
    · subst h; simp [assign, lookupKey]
    · have : ¬ k = k' := fun e => h e.symm
      simp [assign, lookupKey, h, this]
  | cons kv rest ih =>
    obtain ⟨k0, v0⟩ := kv
    by_cases h0 : k0 = k
    · subst h0
      by_cases h : k' = k0
      · subst h; simp [assign, lookupKey]
      · have : ¬ k0 = k' := fun e => h e.symm
        simp [assign, lookupKey, h, this]
    · by_cases h : k0 = k'
      · subst h
        simp [assign, lookupKey, h0]
      · simp [assign, lookupKey, h0, h, ih]

theorem keysOf_assign (k : Key) (v : SatVal) (s : List (Key × SatVal)) :
    keysOf (assign k v s) = if k ∈ keysOf s then keysOf s else keysOf s ++ [k] := by
  induction s with
  | nil => simp [assign, keysOf]
  | cons kv rest ih =>
    obtain ⟨k0, v0⟩ := kv
    by_cases h0 : k0 = k
    · subst h0; simp [assign, keysOf]
    · have h0' : ¬ k = k0 := fun e => h0 e.symm
      simp only [assign, h0, if_false, keysOf, List.map_cons, List.mem_cons, h0', false_or]
      simp only [keysOf] at ih
      by_cases hm : k ∈ List.map (fun x => x.fst) rest
      · simp [hm] at ih ⊢; exact ih
      · simp [hm] at ih ⊢; exact ih

theorem mem_keysOf_iff (k : Key) (s : List (Key × SatVal)) :
    k ∈ keysOf s ↔ (lookupKey k s).isSome = true := by
  induction s with
  | nil => simp [keysOf, lookupKey]
  | cons kv rest ih =>
    obtain ⟨k0, v0⟩ := kv
    by_cases h : k0 = k
    · subst h; simp [keysOf, lookupKey]
    · have h' : ¬ k = k0 := fun e => h e.symm
      simp only [keysOf, List.map_cons, List.mem_cons, h', false_or, lookupKey, h, if_false]
      simpa [keysOf] using ih

theorem keysOf_assign_mem {k : Key} {s : List (Key × SatVal)} (h : k ∈ keysOf s) (v : SatVal) :
    keysOf (assign k v s) = keysOf s := by
  rw [keysOf_assign]; simp [h]

theorem lookupKey_mem {k : Key} {v : SatVal} {s : List (Key × SatVal)} (h : lookupKey k s = some v) :
    (k, v) ∈ s := by
  induction s with
  | nil => simp [lookupKey] at h
  | cons kv rest ih =>
    obtain ⟨k0, v0⟩ := kv
    by_cases h0 : k0 = k
    · subst h0; simp [lookupKey] at h; simp [h]
    · simp [lookupKey, h0] at h; simp [ih h]

theorem lookupKey_of_mem_nodup {k : Key} {v : SatVal} {s : List (Key × SatVal)}
    (hn : (keysOf s).Nodup) (h : (k, v) ∈ s) : lookupKey k s = some v := by
  induction s with
  | nil => simp at h
  | cons kv rest ih =>
    obtain ⟨k0, v0⟩ := kv
    simp only [keysOf, List.map_cons, List.nodup_cons] at hn
    rcases List.mem_cons.mp h with h | h
    · cases h; simp [lookupKey]
    · have hk : k ∈ keysOf rest := by
        simp only [keysOf, List.mem_map]; exact ⟨(k, v), h, rfl⟩
      have h0 : ¬ k0 = k := by
        intro e; subst e; exact hn.1 (by simpa [keysOf] using hk)
      simp only [lookupKey, h0, if_false]
      exact ih (by simpa [keysOf] using hn.2) h

theorem lookupKey_map_val (g : Key × SatVal → SatVal) (k : Key) (s : List (Key × SatVal)) :
    lookupKey k (s.map fun kv => (kv.1, g kv)) = (lookupKey k s).map (fun v => g (k, v)) := by
  induction s with
  | nil => simp [lookupKey]
  | cons kv rest ih =>
    obtain ⟨k0, v0⟩ := kv
    by_cases h0 : k0 = k
    · subst h0; simp [lookupKey]
    · simp [lookupKey, h0, ih]

theorem keysOf_map_val (g : Key × SatVal → SatVal) (s : List (Key × SatVal)) :
    keysOf (s.map fun kv => (kv.1, g kv)) = keysOf s := by
  simp [keysOf, Function.comp_def]

/-! ### the dict made by `get_prerequisite` -/

theorem buildSat_foldl_keys (c : Ctx) (trigs : List Trig) :
    ∀ s : List (Key × SatVal), (keysOf s).Nodup →
      (keysOf (trigs.foldl (fun s t => assign (t.key c) (initVal (t.initSat c)) s) s)).Nodup ∧
      ∀ k, k ∈ keysOf (trigs.foldl (fun s t => assign (t.key c) (initVal (t.initSat c)) s) s) ↔
        (k ∈ keysOf s ∨ ∃ t ∈ trigs, t.key c = k) := by
  induction trigs with
  | nil => intro s hn; simp [hn]
  | cons t ts ih =>
    intro s hn
    have hn' : (keysOf (assign (t.key c) (initVal (t.initSat c)) s)).Nodup := by
      rw [keysOf_assign]
      split
      · exact hn
      · next h => exact List.nodup_append.mpr ⟨hn, by simp, by
          intro a ha b hb; simp at hb; subst hb; intro e; subst e; exact h ha⟩
    have := ih _ hn'
    refine ⟨this.1, ?_⟩
    intro k
    simp only [List.foldl_cons]
    rw [this.2 k, keysOf_assign]
    constructor
    · rintro (h | ⟨t', ht', hk⟩)
      · split at h
        · exact Or.inl h
        · rcases List.mem_append.mp h with h | h
          · exact Or.inl h
          · simp at h; exact Or.inr ⟨t, by simp, h.symm⟩
      · exact Or.inr ⟨t', by simp [ht'], hk⟩
    · rintro (h | ⟨t', ht', hk⟩)
      · left; split
        · exact h
        · exact List.mem_append.mpr (Or.inl h)
      · rcases List.mem_cons.mp ht' with e | ht'
        · subst e; left; split
          · next h => rw [← hk]; exact h
          · rw [← hk]; simp
        · exact Or.inr ⟨t', ht', hk⟩

theorem buildSat_nodup (c : Ctx) (trigs : List Trig) : (keysOf (buildSat c trigs)).Nodup :=
  (buildSat_foldl_keys c trigs [] (by simp [keysOf])).1

theorem mem_keysOf_buildSat (c : Ctx) (trigs : List Trig) (k : Key) :
    k ∈ keysOf (buildSat c trigs) ↔ ∃ t ∈ trigs, t.key c = k := by
  have := (buildSat_foldl_keys c trigs [] (by simp [keysOf])).2 k
  simpa [buildSat, keysOf] using this

/-- initial state of an upstream output: that of the last trigger with this key -/
def initFn (c : Ctx) (trigs : List Trig) (k : Key) : Option SatVal :=
  (trigs.reverse.find? fun t => decide (t.key c = k)).map fun t => initVal (t.initSat c)

theorem lookupKey_buildSat_foldl (c : Ctx) (trigs : List Trig) (k : Key) :
    ∀ s : List (Key × SatVal),
      lookupKey k (trigs.foldl (fun s t => assign (t.key c) (initVal (t.initSat c)) s) s) =
        match initFn c trigs k with
        | some v => some v
        | none => lookupKey k s := by
  induction trigs with
  | nil => intro s; simp [initFn]
  | cons t ts ih =>
    intro s
    simp only [List.foldl_cons]
    rw [ih]
    simp only [initFn, List.reverse_cons, List.find?_append]
    cases h : (ts.reverse.find? fun t => decide (t.key c = k)) with
    | some t' => simp
    | none =>
      simp only [Option.map_none, Option.none_or, List.find?_cons, List.find?_nil]
      rw [lookupKey_assign]
      by_cases hk : t.key c = k
      · simp [hk]
      · have : ¬ k = t.key c := fun e => hk e.symm
        simp [hk, this]

theorem lookupKey_buildSat (c : Ctx) (trigs : List Trig) (k : Key) :
    lookupKey k (buildSat c trigs) = initFn c trigs k := by
  have := lookupKey_buildSat_foldl c trigs k []
  simp only [buildSat]
  rw [this]
  cases initFn c trigs k <;> simp [lookupKey]

theorem build_fold (c : Ctx) (trigs : List Trig) :
    ∀ (s : List (Key × SatVal)) (cond : Option Str),
      (trigs.foldl (fun (pr : Prereq) t => pr.setItem (t.key c) (initVal (t.initSat c)))
        { sat := s, cond := cond, cached := none }) =
      { sat := trigs.foldl (fun s t => assign (t.key c) (initVal (t.initSat c)) s) s,
        cond := cond, cached := none } := by
  induction trigs with
  | nil => intro s cond; rfl
  | cons t ts ih =>
    intro s cond
    simp only [List.foldl_cons]
    have : (Prereq.setItem { sat := s, cond := cond, cached := none } (t.key c) (initVal (t.initSat c)))
        = { sat := assign (t.key c) (initVal (t.initSat c)) s, cond := cond, cached := none } := by
      simp [Prereq.setItem]
    rw [this, ih]


/-! ## 7. Rendered expressions -/

def BExpr.hasOr : BExpr → Bool
  | .atom _ => false
  | .and a b => a.hasOr || b.hasOr
  | .or _ _ => true
  | .paren a => a.hasOr

def wrapT (e : BExpr) : List Tok := if e.isOr then .lp :: e.render ++ [.rp] else e.render

theorem render_and (a b : BExpr) : (BExpr.and a b).render = wrapT a ++ .amp :: wrapT b := by
  simp [BExpr.render, wrapT]

def nextCloses (rest : List Tok) : Bool :=
  match rest with
  | [] => true
  | t :: _ => t.closes

theorem wfAux_render : ∀ (e : BExpr) (rest : List Tok), nextCloses rest = true →
    wfAux true (e.render ++ rest) = wfAux false rest ∧
    wfAux true (wrapT e ++ rest) = wfAux false rest := by
  intro e
  induction e with
  | atom i =>
    intro rest h
    have : wfAux true (Tok.atom i :: rest) = wfAux false rest := by
      cases rest with
      | nil => simp [wfAux]
      | cons t ts => simp [wfAux, nextCloses] at h ⊢; simp [h]
    simp [BExpr.render, wrapT, BExpr.isOr, this]
  | paren a iha =>
    intro rest _
    have h1 := (iha (.rp :: rest) (by simp [nextCloses, Tok.closes])).1
    have : wfAux true ((BExpr.paren a).render ++ rest) = wfAux false rest := by
      simp only [BExpr.render, List.cons_append, List.append_assoc, wfAux, Tok.opens]
      simp only [List.singleton_append, List.nil_append] at h1 ⊢
      rw [h1]; simp [wfAux, Tok.opens]
    simp [wrapT, BExpr.isOr, this]
  | or a b iha ihb =>
    intro rest h
    have hb := (ihb rest h).1
    have ha := (iha (.bar :: (b.render ++ rest)) (by simp [nextCloses, Tok.closes])).1
    have h1 : wfAux true ((BExpr.or a b).render ++ rest) = wfAux false rest := by
      simp only [BExpr.render, List.append_assoc, List.cons_append]
      rw [ha]; simp only [wfAux, Tok.opens]; exact hb
    refine ⟨h1, ?_⟩
    have hb' := (ihb (.rp :: rest) (by simp [nextCloses, Tok.closes])).1
    have ha' := (iha (.bar :: (b.render ++ .rp :: rest)) (by simp [nextCloses, Tok.closes])).1
    simp only [wrapT, BExpr.isOr, if_true, BExpr.render, List.cons_append, List.append_assoc,
      List.singleton_append, List.nil_append, wfAux, Tok.opens]
    rw [ha']; simp only [wfAux, Tok.opens]; rw [hb']; simp [wfAux, Tok.opens]
  | and a b iha ihb =>
    intro rest h
    have hb := (ihb rest h).2
    have ha := (iha (.amp :: (wrapT b ++ rest)) (by simp [nextCloses, Tok.closes])).2
    have h1 : wfAux true ((BExpr.and a b).render ++ rest) = wfAux false rest := by
      rw [render_and]
      simp only [List.append_assoc, List.cons_append]
      rw [ha]; simp only [wfAux, Tok.opens]; exact hb
    exact ⟨h1, by simpa [wrapT, BExpr.isOr] using h1⟩

theorem WF_render (e : BExpr) : WF e.render = true := by
  have := (wfAux_render e [] rfl).1
  simpa [WF, wfAux] using this

theorem mem_render_atom (e : BExpr) (i : Nat) : Tok.atom i ∈ e.render ↔ i ∈ e.atoms := by
  induction e with
  | atom j => simp [BExpr.render, BExpr.atoms]
  | paren a ih => simp [BExpr.render, BExpr.atoms, ih]
  | or a b iha ihb => simp [BExpr.render, BExpr.atoms, iha, ihb]
  | and a b iha ihb =>
    simp only [BExpr.render, BExpr.atoms]
    split <;> split <;> simp [iha, ihb]

theorem mem_render_bar (e : BExpr) : Tok.bar ∈ e.render ↔ e.hasOr = true := by
  induction e with
  | atom j => simp [BExpr.render, BExpr.hasOr]
  | paren a ih => simp [BExpr.render, BExpr.hasOr, ih]
  | or a b iha ihb => simp [BExpr.render, BExpr.hasOr]
  | and a b iha ihb =>
    simp only [BExpr.render, BExpr.hasOr]
    split <;> split <;> simp [iha, ihb]

theorem render_ne_nil (e : BExpr) : e.render ≠ [] := by
  cases e <;> simp [BExpr.render]

theorem eval_noOr (v : Nat → Bool) (e : BExpr) (h : e.hasOr = false) : e.eval v = e.atoms.all v := by
  induction e with
  | atom j => simp [BExpr.eval, BExpr.atoms]
  | paren a ih => simpa [BExpr.eval, BExpr.atoms] using ih (by simpa [BExpr.hasOr] using h)
  | or a b _ _ => simp [BExpr.hasOr] at h
  | and a b iha ihb =>
    simp only [BExpr.hasOr, Bool.or_eq_false_iff] at h
    simp [BExpr.eval, BExpr.atoms, iha h.1, ihb h.2]

theorem eval_mono (v w : Nat → Bool) (hvw : ∀ i, v i = true → w i = true) (e : BExpr) :
    e.eval v = true → e.eval w = true := by
  induction e with
  | atom j => exact hvw j
  | paren a ih => exact ih
  | or a b iha ihb =>
    simp only [BExpr.eval, Bool.or_eq_true]
    rintro (h | h)
    · exact Or.inl (iha h)
    · exact Or.inr (ihb h)
  | and a b iha ihb =>
    simp only [BExpr.eval, Bool.and_eq_true]
    rintro ⟨h1, h2⟩
    exact ⟨iha h1, ihb h2⟩

theorem containsBar_of_bar (f : Nat → Str) (toks : List Tok) (h : Tok.bar ∈ toks) :
    containsBar (exprText f toks) = true := by
  induction toks with
  | nil => simp at h
  | cons t ts ih =>
    rw [exprText_cons]
    simp only [containsBar, List.contains_eq_mem, List.mem_append, decide_eq_true_eq] at ih ⊢
    rcases List.mem_cons.mp h with h | h
    · subst h; left; simp [Tok.text]
    · right; exact ih h

theorem containsBar_of_no_bar (f : Nat → Str) (toks : List Tok) (h : Tok.bar ∉ toks)
    (hf : ∀ i, Tok.atom i ∈ toks → '|' ∉ f i) : containsBar (exprText f toks) = false := by
  induction toks with
  | nil => simp [containsBar, exprText]
  | cons t ts ih =>
    rw [exprText_cons]
    have ih' := ih (fun hm => h (by simp [hm])) (fun i hi => hf i (by simp [hi]))
    simp only [containsBar, List.contains_eq_mem, List.mem_append, decide_eq_false_iff_not,
      not_or] at ih' ⊢
    refine ⟨?_, ih'⟩
    cases t with
    | atom i => simpa [Tok.text] using hf i (by simp)
    | bar => exact absurd (by simp) h
    | _ => simp [Tok.text]


/-! ## 8. What the built prerequisite evaluates -/

def keyAt (c : Ctx) (trigs : List Trig) (i : Nat) : Key :=
  match trigs[i]? with
  | some t => t.key c
  | none => ⟨[], [], []⟩

/-- truth of the expression when the state of every upstream output is given by `σ` -/
def truthOf (c : Ctx) (trigs : List Trig) (e : BExpr) (σ : Key → Option SatVal) : Bool :=
  e.eval fun i => ((σ (keyAt c trigs i)).map SatVal.truthy).getD false

/-- side conditions on a dependency -/
structure Hyp (c : Ctx) (trigs : List Trig) (e : BExpr) : Prop where
  idx : ∀ i ∈ e.atoms, i < trigs.length
  cov : ∀ j, j < trigs.length → j ∈ e.atoms
  sep : ∀ t ∈ trigs, (t.key c).SepFree
  quote : ∀ t ∈ trigs, (t.key c).NoQuote

theorem keyAt_mem {c : Ctx} {trigs : List Trig} {i : Nat} (h : i < trigs.length) :
    ∃ t ∈ trigs, t.key c = keyAt c trigs i := by
  refine ⟨trigs[i], List.getElem_mem h, ?_⟩
  simp [keyAt, List.getElem?_eq_getElem h]

theorem atomMsg_eq {c : Ctx} {trigs : List Trig} {i : Nat} (h : i < trigs.length) :
    atomMsg c trigs i = (keyAt c trigs i).msg := by
  simp [atomMsg, keyAt, List.getElem?_eq_getElem h]

theorem keyAt_in_K {c : Ctx} {trigs : List Trig} {i : Nat} (h : i < trigs.length) :
    keyAt c trigs i ∈ keysOf (buildSat c trigs) :=
  (mem_keysOf_buildSat c trigs _).mpr (keyAt_mem h)

theorem noBar_of_sepFree {k : Key} (h : k.SepFree) : '|' ∉ k.msg := by
  intro hm
  have := h '|' hm
  simp [isSep] at this

/-- the state `get_prerequisite` returns -/
theorem build_eq (c : Ctx) (trigs : List Trig) (toks : List Tok) :
    build c trigs toks =
      if containsBar (exprText (atomMsg c trigs) toks) then
        { sat := buildSat c trigs,
          cond := some (rewriteText (keysOf (buildSat c trigs)) (exprText (atomMsg c trigs) toks)),
          cached := none }
      else { sat := buildSat c trigs, cond := none, cached := none } := by
  unfold build
  have := build_fold c trigs [] none
  rw [show ({} : Prereq) = { sat := [], cond := none, cached := none } from rfl, this]
  simp only [Prereq.setConditionalExpr, buildSat, keysOf]

theorem cond_text {c : Ctx} {trigs : List Trig} {e : BExpr} (h : Hyp c trigs e)
    (hnc : NoCollision (keysOf (buildSat c trigs)) = true) :
    rewriteText (keysOf (buildSat c trigs)) (exprText (atomMsg c trigs) e.render) =
      exprText (fun i => (keyAt c trigs i).tmpl) e.render := by
  have hK : ∀ k ∈ keysOf (buildSat c trigs), k.SepFree := by
    intro k hk
    obtain ⟨t, ht, rfl⟩ := (mem_keysOf_buildSat c trigs k).mp hk
    exact h.sep t ht
  rw [rewriteText_exprText _ hK _ (WF_render e)]
  apply exprText_congr
  intro i hi
  have hi' : i < trigs.length := h.idx i ((mem_render_atom e i).mp hi)
  rw [atomMsg_eq hi']
  have := List.all_eq_true.mp hnc (keyAt c trigs i) (keyAt_in_K hi')
  simpa using this

theorem exprText_ne_nil (f : Nat → Str) (toks : List Tok) (hne : toks ≠ [])
    (hf : ∀ i, Tok.atom i ∈ toks → f i ≠ []) : exprText f toks ≠ [] := by
  cases toks with
  | nil => exact absurd rfl hne
  | cons t ts =>
    rw [exprText_cons]
    cases t with
    | atom i =>
      have := hf i (by simp)
      simp [Tok.text, this]
    | _ => simp [Tok.text]

theorem tmpl_ne_nil (k : Key) : k.tmpl ≠ [] := by
  obtain ⟨tl, h⟩ := tmpl_cons k
  simp [h]

/-- evaluation of the built condition on any dict with the same keys -/
theorem evalSatisfied_built {c : Ctx} {trigs : List Trig} {e : BExpr} (h : Hyp c trigs e)
    (hnc : NoCollision (keysOf (buildSat c trigs)) = true)
    (sat : List (Key × SatVal)) (hkeys : keysOf sat = keysOf (buildSat c trigs)) (cached : Option Bool) :
    Prereq.evalSatisfied { sat := sat, cond := (build c trigs e.render).cond, cached := cached } =
      some (truthOf c trigs e (fun k => lookupKey k sat)) := by
  have hlook : ∀ i ∈ e.atoms, ∃ s, lookupKey (keyAt c trigs i) sat = some s := by
    intro i hi
    have : keyAt c trigs i ∈ keysOf sat := by rw [hkeys]; exact keyAt_in_K (h.idx i hi)
    have := (mem_keysOf_iff _ _).mp this
    exact Option.isSome_iff_exists.mp this
  rw [build_eq]
  by_cases hbar : containsBar (exprText (atomMsg c trigs) e.render) = true
  · -- the rewritten text is evaluated
    simp only [hbar, if_true]
    rw [cond_text h hnc]
    have hne : exprText (fun i => (keyAt c trigs i).tmpl) e.render ≠ [] :=
      exprText_ne_nil _ _ (render_ne_nil e) (fun i _ => tmpl_ne_nil _)
    have hq : ∀ i, Tok.atom i ∈ e.render → (keyAt c trigs i).NoQuote := by
      intro i hi
      obtain ⟨t, ht, hk⟩ := keyAt_mem (h.idx i ((mem_render_atom e i).mp hi))
      rw [← hk]; exact h.quote t ht
    have hlex := lex_exprText (keyAt c trigs) e.render hq
      ((exprText (fun i => (keyAt c trigs i).tmpl) e.render).length + 1) (by omega)
    have hparse := parse_render (Prereq.look sat) (keyAt c trigs)
      (fun i => ((lookupKey (keyAt c trigs i) sat).map SatVal.truthy).getD false) e (by
        intro i hi
        obtain ⟨s, hs⟩ := hlook i hi
        simp [Prereq.look, hs])
    cases htxt : exprText (fun i => (keyAt c trigs i).tmpl) e.render with
    | nil => exact absurd htxt hne
    | cons x xs =>
      simp only [Prereq.evalSatisfied]
      rw [← htxt]
      simp only [pyEval, hlex, hparse, V3.truthy_ofBool, truthOf]
  · -- no `|`: all(values)
    simp only [hbar]
    simp only [Prereq.evalSatisfied, Bool.false_eq_true, if_false]
    have hnoOr : e.hasOr = false := by
      cases ho : e.hasOr with
      | false => rfl
      | true =>
        exact absurd (containsBar_of_bar _ _ ((mem_render_bar e).mpr ho)) hbar
    congr 1
    rw [truthOf, eval_noOr _ e hnoOr, Bool.eq_iff_iff]
    simp only [List.all_eq_true]
    have hnd : (keysOf sat).Nodup := by rw [hkeys]; exact buildSat_nodup c trigs
    constructor
    · intro hall i hi
      obtain ⟨s, hs⟩ := hlook i hi
      have := hall _ (lookupKey_mem hs)
      simp [hs, this]
    · intro hall kv hkv
      obtain ⟨k, s⟩ := kv
      have hk : k ∈ keysOf (buildSat c trigs) := by
        rw [← hkeys]; simp only [keysOf, List.mem_map]; exact ⟨(k, s), hkv, rfl⟩
      obtain ⟨t, ht, hkt⟩ := (mem_keysOf_buildSat c trigs k).mp hk
      obtain ⟨j, hj, hjt⟩ := List.getElem_of_mem ht
      have := hall j (h.cov j hj)
      have hkj : keyAt c trigs j = k := by
        simp [keyAt, List.getElem?_eq_getElem hj, hjt, hkt]
      rw [hkj, lookupKey_of_mem_nodup hnd hkv] at this
      simpa using this


/-! ## 9. Reachable states: the cache is never stale -/

abbrev SatFn := Key → Option SatVal

def lookFn (sat : List (Key × SatVal)) : SatFn := fun k => lookupKey k sat

/-- `satisfy_me` on the state of the upstream outputs -/
def specSat (outs : List Key) (v : SatVal) (σ : SatFn) : SatFn := fun k =>
  match σ k with
  | some .unsat => if k ∈ outs then some v else some .unsat
  | x => x

/-- `unset_naturally_satisfied` on the state of the upstream outputs -/
def specUnset (id : Str) (σ : SatFn) : SatFn := fun k =>
  (σ k).map fun s => if unsetHits id (k, s) then .unsat else s

/-- `set_satisfied` on the state of the upstream outputs -/
def specSetAll (σ : SatFn) : SatFn := fun k =>
  (σ k).map fun s => if s.truthy then s else .forced

def specStep (σ : SatFn) : Op → SatFn
  | .sat outs v => specSat outs v σ
  | .unset id => specUnset id σ
  | .setAll => specSetAll σ

/-- the states of the upstream outputs before the first and after every operation -/
def specTrace (σ : SatFn) : List Op → List SatFn
  | [] => [σ]
  | op :: ops => σ :: specTrace (specStep σ op) ops

structure Inv (c : Ctx) (trigs : List Trig) (e : BExpr) (pr : Prereq) : Prop where
  keys : keysOf pr.sat = keysOf (buildSat c trigs)
  cond : pr.cond = (build c trigs e.render).cond
  cache : pr.cached = none ∨ pr.cached = some (truthOf c trigs e (lookFn pr.sat))

theorem build_sat (c : Ctx) (trigs : List Trig) (toks : List Tok) :
    (build c trigs toks).sat = buildSat c trigs ∧ (build c trigs toks).cached = none := by
  rw [build_eq]; split <;> simp

theorem inv_build (c : Ctx) (trigs : List Trig) (e : BExpr) : Inv c trigs e (build c trigs e.render) :=
  ⟨by rw [(build_sat c trigs e.render).1], rfl, Or.inl (build_sat c trigs e.render).2⟩

theorem truthOf_mono (c : Ctx) (trigs : List Trig) (e : BExpr) (σ τ : SatFn)
    (h : ∀ k, ((σ k).map SatVal.truthy).getD false = true → ((τ k).map SatVal.truthy).getD false = true) :
    truthOf c trigs e σ = true → truthOf c trigs e τ = true :=
  eval_mono _ _ (fun i => h (keyAt c trigs i)) e

theorem inv_setItem {c : Ctx} {trigs : List Trig} {e : BExpr} {pr : Prereq} (hi : Inv c trigs e pr)
    {k : Key} (hk : k ∈ keysOf pr.sat) (v : SatVal) : Inv c trigs e (pr.setItem k v) := by
  refine ⟨?_, hi.cond, ?_⟩
  · simp only [Prereq.setItem]; rw [keysOf_assign_mem hk]; exact hi.keys
  · simp only [Prereq.setItem]
    by_cases hc : (pr.cached == some true && v.truthy) = true
    · simp only [hc, if_true]
      simp only [Bool.and_eq_true, beq_iff_eq] at hc
      right
      rcases hi.cache with h0 | h0
      · rw [h0] at hc; exact absurd hc.1 (by simp)
      · rw [hc.1] at h0 ⊢
        have ht : truthOf c trigs e (lookFn pr.sat) = true := by
          simpa using h0.symm
        have := truthOf_mono c trigs e (lookFn pr.sat) (lookFn (assign k v pr.sat)) (by
          intro k' hk'
          simp only [lookFn, lookupKey_assign] at hk' ⊢
          by_cases hkk : k' = k
          · simp [hkk, hc.2]
          · simpa [hkk] using hk') ht
        rw [this]
    · simp [hc]

theorem atoms_ne_nil (e : BExpr) : e.atoms ≠ [] := by
  induction e with
  | atom i => simp [BExpr.atoms]
  | paren a ih => simpa [BExpr.atoms] using ih
  | and a b iha _ => simp [BExpr.atoms, iha]
  | or a b iha _ => simp [BExpr.atoms, iha]

theorem buildSat_ne_nil {c : Ctx} {trigs : List Trig} {e : BExpr} (h : Hyp c trigs e) :
    keysOf (buildSat c trigs) ≠ [] := by
  obtain ⟨i, hi⟩ := List.exists_mem_of_ne_nil _ (atoms_ne_nil e)
  exact List.ne_nil_of_mem (keyAt_in_K (h.idx i hi))

theorem inv_isSatisfied {c : Ctx} {trigs : List Trig} {e : BExpr} (h : Hyp c trigs e)
    (hnc : NoCollision (keysOf (buildSat c trigs)) = true) {pr : Prereq} (hi : Inv c trigs e pr) :
    pr.isSatisfied.1 = some (truthOf c trigs e (lookFn pr.sat)) ∧
    Inv c trigs e pr.isSatisfied.2 ∧ pr.isSatisfied.2.sat = pr.sat := by
  unfold Prereq.isSatisfied
  cases hc : pr.cached with
  | some b =>
    rcases hi.cache with h0 | h0
    · rw [hc] at h0; cases h0
    · rw [hc] at h0; cases h0
      exact ⟨rfl, hi, rfl⟩
  | none =>
    have hne : pr.sat.isEmpty = false := by
      cases hs : pr.sat with
      | nil =>
        have := hi.keys
        rw [hs] at this
        exact absurd this.symm (buildSat_ne_nil h)
      | cons _ _ => rfl
    simp only [hne, Bool.false_eq_true, if_false]
    have hev := evalSatisfied_built h hnc pr.sat hi.keys pr.cached
    have hpr : pr = { sat := pr.sat, cond := (build c trigs e.render).cond, cached := pr.cached } := by
      cases pr; simp only [Prereq.mk.injEq, true_and, and_true]; exact hi.cond
    rw [← hpr] at hev
    rw [hev]
    exact ⟨rfl, ⟨hi.keys, hi.cond, Or.inr rfl⟩, rfl⟩

/-! ### the operations -/

theorem specSat_cons (k : Key) (outs : List Key) (v : SatVal) (σ : SatFn) :
    specSat outs v (specSat [k] v σ) = specSat (k :: outs) v σ := by
  funext k'
  simp only [specSat]
  cases hσ : σ k' with
  | none => rfl
  | some s =>
    cases s with
    | unsat =>
      by_cases hk : k' = k
      · subst hk
        cases v <;> simp
      · simp [hk]
    | _ => rfl

theorem satisfyMe_step {c : Ctx} {trigs : List Trig} {e : BExpr} {pr : Prereq} (hi : Inv c trigs e pr)
    (k : Key) (v : SatVal) :
    let pr' := (match lookupKey k pr.sat with
      | some .unsat => pr.setItem k v
      | _ => pr)
    Inv c trigs e pr' ∧ lookFn pr'.sat = specSat [k] v (lookFn pr.sat) := by
  intro pr'
  cases hl : lookupKey k pr.sat with
  | none =>
    have : pr' = pr := by simp [pr', hl]
    rw [this]
    refine ⟨hi, ?_⟩
    funext k'
    simp only [specSat, lookFn]
    cases hl' : lookupKey k' pr.sat with
    | none => rfl
    | some s =>
      cases s with
      | unsat =>
        have : k' ≠ k := by intro e; subst e; rw [hl] at hl'; cases hl'
        simp [this]
      | _ => rfl
  | some s =>
    cases s with
    | unsat =>
      have : pr' = pr.setItem k v := by simp [pr', hl]
      rw [this]
      have hk : k ∈ keysOf pr.sat := (mem_keysOf_iff _ _).mpr (by simp [hl])
      refine ⟨inv_setItem hi hk v, ?_⟩
      funext k'
      simp only [specSat, lookFn, Prereq.setItem, lookupKey_assign]
      by_cases hkk : k' = k
      · subst hkk; simp [hl]
      · simp only [hkk, if_false]
        cases hl' : lookupKey k' pr.sat with
        | none => rfl
        | some s => cases s <;> simp [hkk]
    | natural | skip | forced =>
      have : pr' = pr := by simp [pr', hl]
      rw [this]
      refine ⟨hi, ?_⟩
      funext k'
      simp only [specSat, lookFn]
      cases hl' : lookupKey k' pr.sat with
      | none => rfl
      | some s' =>
        cases s' with
        | unsat =>
          have : k' ≠ k := by intro e; subst e; rw [hl] at hl'; cases hl'
          simp [this]
        | _ => rfl

theorem inv_satisfyMe {c : Ctx} {trigs : List Trig} {e : BExpr} (outs : List Key) (v : SatVal) :
    ∀ {pr : Prereq}, Inv c trigs e pr →
      Inv c trigs e (pr.satisfyMe outs v) ∧
      lookFn (pr.satisfyMe outs v).sat = specSat outs v (lookFn pr.sat) := by
  induction outs with
  | nil =>
    intro pr hi
    refine ⟨hi, ?_⟩
    funext k
    simp only [Prereq.satisfyMe, List.foldl_nil, specSat]
    cases lookFn pr.sat k with
    | none => rfl
    | some s => cases s <;> simp
  | cons k outs ih =>
    intro pr hi
    have hstep := satisfyMe_step hi k v
    simp only [] at hstep
    have hfold : pr.satisfyMe (k :: outs) v =
        Prereq.satisfyMe (match lookupKey k pr.sat with
          | some .unsat => pr.setItem k v
          | _ => pr) outs v := rfl
    rw [hfold]
    have := ih hstep.1
    refine ⟨this.1, ?_⟩
    rw [this.2, hstep.2, specSat_cons]

theorem map_hits_eq (id : Str) (sat : List (Key × SatVal)) :
    (sat.map fun (kv : Key × SatVal) => if unsetHits id kv then (kv.1, SatVal.unsat) else kv) =
      sat.map fun kv => (kv.1, if unsetHits id kv then SatVal.unsat else kv.2) := by
  apply List.map_congr_left
  intro kv _
  split <;> rfl

theorem inv_unset {c : Ctx} {trigs : List Trig} {e : BExpr} {pr : Prereq} (hi : Inv c trigs e pr)
    (id : Str) :
    Inv c trigs e (pr.unsetNaturally id) ∧
    lookFn (pr.unsetNaturally id).sat = specUnset id (lookFn pr.sat) := by
  have hlook : lookFn (pr.unsetNaturally id).sat = specUnset id (lookFn pr.sat) := by
    funext k
    simp only [Prereq.unsetNaturally, lookFn, specUnset]
    rw [map_hits_eq, lookupKey_map_val]
  refine ⟨⟨?_, hi.cond, ?_⟩, hlook⟩
  · simp only [Prereq.unsetNaturally]
    rw [map_hits_eq, keysOf_map_val]; exact hi.keys
  · by_cases hany : pr.sat.any (unsetHits id) = true
    · left; simp [Prereq.unsetNaturally, hany]
    · have hsame : (pr.unsetNaturally id).sat = pr.sat := by
        simp only [Prereq.unsetNaturally]
        conv => rhs; rw [← List.map_id pr.sat]
        apply List.map_congr_left
        intro kv hkv
        have : unsetHits id kv = false := by
          cases hh : unsetHits id kv with
          | false => rfl
          | true => exact absurd (List.any_eq_true.mpr ⟨kv, hkv, hh⟩) hany
        simp [this]
      have hcached : (pr.unsetNaturally id).cached = pr.cached := by
        simp [Prereq.unsetNaturally, hany]
      rw [hcached, hsame]
      exact hi.cache

theorem forceAll_eq (sat : List (Key × SatVal)) :
    forceAll sat = sat.map fun kv => (kv.1, if kv.2.truthy then kv.2 else SatVal.forced) := by
  unfold forceAll
  apply List.map_congr_left
  intro kv _
  split <;> rfl

theorem inv_setSatisfied {c : Ctx} {trigs : List Trig} {e : BExpr} (h : Hyp c trigs e)
    (hnc : NoCollision (keysOf (buildSat c trigs)) = true) {pr : Prereq} (hi : Inv c trigs e pr) :
    Inv c trigs e pr.setSatisfied ∧ lookFn pr.setSatisfied.sat = specSetAll (lookFn pr.sat) := by
  have hkeys1 : keysOf (forceAll pr.sat) = keysOf (buildSat c trigs) := by
    rw [forceAll_eq, keysOf_map_val]; exact hi.keys
  have hlook1 : lookFn (forceAll pr.sat) = specSetAll (lookFn pr.sat) := by
    funext k
    simp only [lookFn, specSetAll]
    rw [forceAll_eq, lookupKey_map_val]
  have hev := evalSatisfied_built h hnc (forceAll pr.sat) hkeys1 pr.cached
  rw [← hi.cond] at hev
  have hall : ((forceAll pr.sat).all fun (kv : Key × SatVal) => kv.2.truthy) = true := by
    simp only [forceAll, List.all_map, List.all_eq_true]
    intro kv _
    simp only [Function.comp]
    split
    · assumption
    · rfl
  have hsc : pr.setSatisfied.sat = forceAll pr.sat ∧ pr.setSatisfied.cond = pr.cond := by
    simp only [Prereq.setSatisfied]
    split
    · exact ⟨rfl, rfl⟩
    · exact ⟨rfl, rfl⟩
    · split <;> exact ⟨rfl, rfl⟩
  refine ⟨⟨by rw [hsc.1]; exact hkeys1, by rw [hsc.2]; exact hi.cond, ?_⟩, by rw [hsc.1]; exact hlook1⟩
  right
  rw [hsc.1]
  simp only [Prereq.setSatisfied]
  cases hc : pr.cond with
  | none =>
    rw [hc] at hev
    simp only [Prereq.evalSatisfied, hall, Option.some.injEq] at hev
    simp only [Option.some.injEq]
    exact hev
  | some t =>
    cases t with
    | nil =>
      rw [hc] at hev
      simp only [Prereq.evalSatisfied, hall, Option.some.injEq] at hev
      simp only [Option.some.injEq]
      exact hev
    | cons x xs =>
      rw [hc] at hev
      simp only [hev]
      rfl

theorem inv_apply {c : Ctx} {trigs : List Trig} {e : BExpr} (h : Hyp c trigs e)
    (hnc : NoCollision (keysOf (buildSat c trigs)) = true) {pr : Prereq} (hi : Inv c trigs e pr) (op : Op) :
    Inv c trigs e (pr.apply op) ∧ lookFn (pr.apply op).sat = specStep (lookFn pr.sat) op := by
  cases op with
  | sat outs v => exact inv_satisfyMe outs v hi
  | unset id => exact inv_unset hi id
  | setAll => exact inv_setSatisfied h hnc hi

theorem observe_inv {c : Ctx} {trigs : List Trig} {e : BExpr} (h : Hyp c trigs e)
    (hnc : NoCollision (keysOf (buildSat c trigs)) = true) :
    ∀ (ops : List Op) (pr : Prereq), Inv c trigs e pr →
      observe pr ops = (specTrace (lookFn pr.sat) ops).map fun σ => some (truthOf c trigs e σ) := by
  intro ops
  induction ops with
  | nil =>
    intro pr hi
    simp [observe, specTrace, (inv_isSatisfied h hnc hi).1]
  | cons op ops ih =>
    intro pr hi
    obtain ⟨h1, h2, h3⟩ := inv_isSatisfied h hnc hi
    have ha := inv_apply h hnc h2 op
    simp only [observe, specTrace, List.map_cons]
    rw [h1, ih _ ha.1, ha.2, h3]


/-! ## 10. Anchored patterns (the source after findings/C13-fix-1.diff): no collisions -/

/-- operands are matched only between operators / parentheses / the ends -/
structure Pat.Anchored (P : Pat) : Prop where
  ne : P.lit ≠ []
  sepFree : ∀ c ∈ P.lit, isSep c = false
  okL : P.okL = isOpenerO
  okR : P.okR = isCloserO

theorem isOpenerO_nonsep {c : Char} (h : isSep c = false) : isOpenerO (some c) = false := by
  simp only [isSep, Bool.or_eq_false_iff, beq_eq_false_iff_ne] at h
  simp [isOpenerO, h.1.1.1, h.1.1.2, h.1.2]

theorem isCloserO_nonsep {c : Char} (h : isSep c = false) : isCloserO (some c) = false := by
  simp only [isSep, Bool.or_eq_false_iff, beq_eq_false_iff_ne] at h
  simp [isCloserO, h.1.1.1, h.1.1.2, h.2]

theorem Pat.Anchored.regular {P : Pat} (h : P.Anchored) : P.Regular := by
  refine ⟨h.ne, h.sepFree, ?_, ?_⟩
  · intro c hc
    rw [h.okR]
    simp only [isCloser, Bool.or_eq_true, beq_iff_eq] at hc
    rcases hc with (e | e) | e <;> subst e <;> rfl
  · intro c hc
    rw [h.okL]
    simp only [isOpener, Bool.or_eq_true, beq_iff_eq] at hc
    rcases hc with (e | e) | e <;> subst e <;> rfl

/-- inside an occurrence: the next `|A|` characters are dropped -/
theorem sub_skip (P : Pat) (r : Str) (B : Str) :
    ∀ (A : Str) (prev : Option Char), sub P r prev (A ++ B) A.length = sub P r (lastOr prev A) B 0 := by
  intro A
  induction A with
  | nil => intro prev; simp
  | cons c A' ih =>
    intro prev
    simp only [List.cons_append, List.length_cons, sub, lastOr_cons]
    exact ih (some c)

/-- after a character that is not an opener nothing can start inside a separator-free text -/
theorem sub_copy_run {P : Pat} (hP : P.Anchored) (r : Str) (rest : Str) :
    ∀ (A : Str) (prev : Option Char), (∀ c ∈ A, isSep c = false) → isOpenerO prev = false →
      sub P r prev (A ++ rest) 0 = A ++ sub P r (lastOr prev A) rest 0 := by
  intro A
  induction A with
  | nil => intro prev _ _; simp
  | cons c A' ih =>
    intro prev hA hprev
    have hm : P.matchAt prev (c :: (A' ++ rest)) = false := by
      simp [Pat.matchAt, hP.okL, hprev]
    simp only [List.cons_append, sub, hm, Bool.false_eq_true, if_false, lastOr_cons]
    rw [ih (some c) (fun x hx => hA x (by simp [hx])) (isOpenerO_nonsep (hA c (by simp)))]

/-- a separator-free run followed by nothing or by a separator: replaced iff it is the whole
literal standing between an opener and a closer -/
theorem sub_run {P : Pat} (hP : P.Anchored) (r : Str) (R rest : Str) (prev : Option Char)
    (hR : ∀ c ∈ R, isSep c = false)
    (hrest : rest = [] ∨ ∃ c B', rest = c :: B' ∧ isSep c = true) :
    sub P r prev (R ++ rest) 0 =
      (if isOpenerO prev = true ∧ R = P.lit ∧ isCloserO rest.head? = true then r else R) ++
        sub P r (lastOr prev R) rest 0 := by
  cases R with
  | nil =>
    have : ¬ ([] = P.lit) := fun e => hP.ne e.symm
    simp [this]
  | cons c R' =>
    have hpre := isPrefixOf_append_sep hP.regular (c :: R') rest hrest
    -- the occurrence test at the first position
    have hm : P.matchAt prev (c :: R' ++ rest) =
        decide (isOpenerO prev = true ∧ (c :: R') = P.lit ∧ isCloserO rest.head? = true) := by
      unfold Pat.matchAt
      rw [hP.okL, hP.okR, hpre.1]
      by_cases hp : P.lit.isPrefixOf (c :: R') = true
      · have hle := hpre.2 hp
        have hpfx := List.isPrefixOf_iff_prefix.mp hp
        by_cases hlt : P.lit.length < (c :: R').length
        · -- the character after the occurrence belongs to the run: not a closer
          have hdrop : ((c :: R') ++ rest).drop P.lit.length = (c :: R').drop P.lit.length ++ rest := by
            rw [List.drop_append_of_le_length (Nat.le_of_lt hlt)]
          cases hd : (c :: R').drop P.lit.length with
          | nil =>
            have := List.drop_eq_nil_iff.mp hd
            omega
          | cons x xs =>
            have hx : x ∈ c :: R' := List.mem_of_mem_drop (by rw [hd]; simp)
            have hne : ¬ (c :: R') = P.lit := by
              intro e; rw [← e] at hlt; exact Nat.lt_irrefl _ hlt
            rw [hdrop, hd]
            simp [hp, isCloserO_nonsep (hR x hx), hne]
        · have heq : P.lit.length = (c :: R').length := by omega
          have hRl : (c :: R') = P.lit := (List.IsPrefix.eq_of_length hpfx heq).symm
          have hdrop : ((c :: R') ++ rest).drop P.lit.length = rest := by rw [heq]; simp
          rw [hdrop, hp]
          simp [hRl]
      · have hne : ¬ (c :: R') = P.lit := by
          intro e; rw [e] at hp; exact hp (List.isPrefixOf_iff_prefix.mpr (List.prefix_refl _))
        simp [hp, hne]
    by_cases hc : isOpenerO prev = true ∧ (c :: R') = P.lit ∧ isCloserO rest.head? = true
    · have hmt : P.matchAt prev (c :: (R' ++ rest)) = true := by
        rw [← List.cons_append, hm]; simpa using hc
      rw [if_pos hc]
      simp only [List.cons_append, sub, hmt, if_true]
      have hlen : P.lit.length - 1 = R'.length := by rw [← hc.2.1]; simp
      rw [hlen, sub_skip, lastOr_cons]
    · have hmf : P.matchAt prev (c :: (R' ++ rest)) = false := by
        rw [← List.cons_append, hm]; simpa using hc
      rw [if_neg hc]
      simp only [List.cons_append, sub, hmf, Bool.false_eq_true, if_false, lastOr_cons]
      rw [sub_copy_run hP r rest R' (some c) (fun x hx => hR x (by simp [hx]))
        (isOpenerO_nonsep (hR c (by simp)))]

/-- no maximal separator-free run of the text (after the run `cur` read so far) is the literal -/
def noRunEq (lit : Str) : Str → Str → Bool
  | cur, [] => cur != lit
  | cur, c :: rest => if isSep c then cur != lit && noRunEq lit [] rest else noRunEq lit (cur ++ [c]) rest

theorem sub_id_of_noRunEq {P : Pat} (hP : P.Anchored) (r : Str) :
    ∀ (S cur : Str) (prev : Option Char), (∀ c ∈ cur, isSep c = false) →
      noRunEq P.lit cur S = true → sub P r prev (cur ++ S) 0 = cur ++ S := by
  intro S
  induction S with
  | nil =>
    intro cur prev hcur h
    have hne : ¬ cur = P.lit := by simpa [noRunEq] using h
    have := sub_run hP r cur [] prev hcur (Or.inl rfl)
    simp only [List.append_nil] at this ⊢
    rw [this]; simp [hne, sub]
  | cons c S' ih =>
    intro cur prev hcur h
    by_cases hc : isSep c = true
    · simp only [noRunEq, hc, if_true, Bool.and_eq_true] at h
      have hne : ¬ cur = P.lit := by simpa using h.1
      rw [sub_run hP r cur (c :: S') prev hcur (Or.inr ⟨c, S', rfl, hc⟩)]
      simp only [hne, false_and, and_false, if_false]
      rw [sub_cons_sep hP.regular r _ hc]
      have := ih [] (some c) (by simp) h.2
      simp only [List.nil_append] at this
      rw [this]
    · have hc' : isSep c = false := by simpa using hc
      simp only [noRunEq, hc', Bool.false_eq_true, if_false] at h
      have := ih (cur ++ [c]) prev (by
        intro x hx
        rcases List.mem_append.mp hx with hx | hx
        · exact hcur x hx
        · simp at hx; subst hx; exact hc') h
      simpa [List.append_assoc] using this

theorem noRunEq_append_sepFree (lit : Str) (A : Str) (hA : ∀ c ∈ A, isSep c = false) :
    ∀ (cur S : Str), noRunEq lit cur (A ++ S) = noRunEq lit (cur ++ A) S := by
  induction A with
  | nil => intro cur S; simp
  | cons a A' ih =>
    intro cur S
    have ha : isSep a = false := hA a (by simp)
    simp only [List.cons_append, noRunEq, ha, Bool.false_eq_true, if_false]
    rw [ih (fun c hc => hA c (by simp [hc]))]
    simp [List.append_assoc]


theorem patOf_anchored (hA : anchoredRewrite = true) (msg : Str) (hne : msg ≠ [])
    (hs : ∀ c ∈ msg, isSep c = false) : (patOf msg).Anchored ∧ (patOf msg).lit = msg := by
  unfold patOf
  simp only [hA, if_true]
  exact ⟨⟨hne, hs, rfl, rfl⟩, trivial⟩

/-- a character of every message text that the fixed parts of the Python expression lack -/
def dch : Char := msgSep1.headD ' '

theorem dch_mem_msg (k : Key) : dch ∈ k.msg := by
  have : dch ∈ msgSep1 := by decide
  simp [Key.msg, this]

/-- facts about the regenerated pieces of the Python expression -/
theorem satHead_split : ∃ A s, satHead = A ++ [s] ∧ isSep s = true ∧ dch ∉ A :=
  ⟨satHead.dropLast, '(', by decide⟩
theorem satTail_split : ∃ s T, satTail = s :: T ∧ isSep s = true ∧ dch ∉ T :=
  ⟨')', satTail.drop 1, by decide⟩
theorem satSep_sepFree : (∀ c ∈ satSep1, isSep c = false) ∧ (∀ c ∈ satSep2, isSep c = false) := by decide
theorem msgHead_nil : msgHead = [] := by decide
theorem qChar_facts : isSep qChar = false ∧ qChar ≠ dch := by
  unfold qChar; cases reprKeys <;> decide

theorem noRunEq_nochar (lit : Str) (d : Char) (hd : d ∈ lit) :
    ∀ (T cur : Str), d ∉ cur → d ∉ T → noRunEq lit cur T = true := by
  intro T
  induction T with
  | nil =>
    intro cur hc _
    have : cur ≠ lit := by intro e; rw [e] at hc; exact hc hd
    simp [noRunEq, this]
  | cons a T' ih =>
    intro cur hc hT
    have ha : a ≠ d := by intro e; subst e; simp at hT
    have hT' : d ∉ T' := fun h => hT (by simp [h])
    have hne : cur ≠ lit := by intro e; rw [e] at hc; exact hc hd
    by_cases hs : isSep a = true
    · simp [noRunEq, hs, hne, ih [] (by simp) hT']
    · have hs' : isSep a = false := by simpa using hs
      simp only [noRunEq, hs', Bool.false_eq_true, if_false]
      exact ih (cur ++ [a]) (by
        intro h; rcases List.mem_append.mp h with h | h
        · exact hc h
        · simp at h; exact ha h.symm) hT'

theorem noRunEq_prefix_nochar (lit : Str) (d : Char) (hd : d ∈ lit) (s : Char) (hs : isSep s = true)
    (Y : Str) :
    ∀ (A cur : Str), d ∉ cur → d ∉ A → noRunEq lit cur (A ++ s :: Y) = noRunEq lit [] Y := by
  intro A
  induction A with
  | nil =>
    intro cur hc _
    have : cur ≠ lit := by intro e; rw [e] at hc; exact hc hd
    simp [noRunEq, hs, this]
  | cons a A' ih =>
    intro cur hc hA
    have ha : a ≠ d := by intro e; subst e; simp at hA
    have hA' : d ∉ A' := fun h => hA (by simp [h])
    have hne : cur ≠ lit := by intro e; rw [e] at hc; exact hc hd
    by_cases hsa : isSep a = true
    · simp only [List.cons_append, noRunEq, hsa, if_true]
      rw [ih [] (by simp) hA']; simp [hne]
    · have hsa' : isSep a = false := by simpa using hsa
      simp only [List.cons_append, noRunEq, hsa', Bool.false_eq_true, if_false]
      exact ih (cur ++ [a]) (by
        intro h; rcases List.mem_append.mp h with h | h
        · exact hc h
        · simp at h; exact ha h.symm) hA'

theorem sepFree_parts {k : Key} (h : k.SepFree) :
    (∀ c ∈ k.point, isSep c = false) ∧ (∀ c ∈ k.task, isSep c = false) ∧ (∀ c ∈ k.out, isSep c = false) := by
  refine ⟨fun c hc => h c ?_, fun c hc => h c ?_, fun c hc => h c ?_⟩ <;> simp [Key.msg, hc]

/-- the Python expression of one key is not touched by the pass of any key (anchored patterns) -/
theorem noRunEq_tmpl (k k' : Key) (hk : k.SepFree) (hq : k.NoQuote) (hq' : k'.NoQuote) :
    noRunEq k'.msg [] k.tmpl = true := by
  obtain ⟨A, s, hH, hs, hdA⟩ := satHead_split
  obtain ⟨s2, T, hT, hs2, hdT⟩ := satTail_split
  obtain ⟨hp, ht, ho⟩ := sepFree_parts hk
  obtain ⟨hq1, hq2, hq3⟩ := hq
  have hd := dch_mem_msg k'
  -- the part between the fixed head and tail is one separator-free run starting with a quote
  let L : List Str := [[qChar], k.point, [qChar], satSep1, [qChar], k.task, [qChar], satSep2, [qChar], k.out, [qChar]]
  let X : Str := L.flatten
  have hX : ∀ c ∈ X, isSep c = false := by
    intro c hc
    obtain ⟨l, hl, hcl⟩ := List.mem_flatten.mp hc
    have hqc : ∀ c ∈ [qChar], isSep c = false := by
      intro c hc; simp at hc; subst hc; exact qChar_facts.1
    simp only [L, List.mem_cons, List.mem_singleton, List.not_mem_nil, or_false] at hl
    rcases hl with rfl | rfl | rfl | rfl | rfl | rfl | rfl | rfl | rfl | rfl | rfl
    · exact hqc c hcl
    · exact hp c hcl
    · exact hqc c hcl
    · exact satSep_sepFree.1 c hcl
    · exact hqc c hcl
    · exact ht c hcl
    · exact hqc c hcl
    · exact satSep_sepFree.2 c hcl
    · exact hqc c hcl
    · exact ho c hcl
    · exact hqc c hcl
  have htm : k.tmpl = A ++ s :: (X ++ s2 :: T) := by
    simp only [Key.tmpl, quoteKey_clean _ hq1, quoteKey_clean _ hq2, quoteKey_clean _ hq3, hH, hT, X, L,
      List.flatten_cons, List.flatten_nil, List.append_assoc, List.cons_append, List.nil_append,
      List.singleton_append, List.append_nil]
  rw [htm, noRunEq_prefix_nochar _ dch hd s hs _ A [] (by simp) hdA,
    noRunEq_append_sepFree _ X hX]
  simp only [List.nil_append, noRunEq, hs2, if_true, Bool.and_eq_true]
  refine ⟨?_, noRunEq_nochar _ dch hd T [] (by simp) hdT⟩
  -- a message never starts with the quote character
  have hhead : k'.msg.head? ≠ some qChar := by
    simp only [Key.msg, msgHead_nil, List.nil_append]
    cases hpp : k'.point with
    | nil =>
      have : msgSep1.head? = some dch := by decide
      simp only [List.nil_append, List.append_assoc]
      cases hm : msgSep1 with
      | nil => exact absurd hm msgSep1_ne_nil
      | cons m ms =>
        rw [hm] at this
        simp only [List.head?_cons, Option.some.injEq] at this
        simp only [List.cons_append, List.head?_cons, ne_eq, Option.some.injEq, this]
        exact fun e => qChar_facts.2 e.symm
    | cons x xs =>
      simp only [List.cons_append, List.head?_cons, ne_eq, Option.some.injEq]
      intro e
      have := hq'.1 x (by simp [hpp])
      rw [e, badQuote_qChar] at this
      cases this
  simp only [bne_iff_ne, ne_eq]
  intro e
  apply hhead
  rw [← e]
  simp [X, L]

theorem rewriteText_id_tmpl (hA : anchoredRewrite = true) (k : Key) (hk : k.SepFree) (hq : k.NoQuote) :
    ∀ (keys : List Key), (∀ k' ∈ keys, k'.SepFree ∧ k'.NoQuote) → rewriteText keys k.tmpl = k.tmpl := by
  intro keys
  induction keys with
  | nil => intro _; rfl
  | cons k' ks ih =>
    intro h
    have h' := h k' (by simp)
    obtain ⟨hP, hlit⟩ := patOf_anchored hA k'.msg k'.msg_ne_nil h'.1
    have h1 : subKey k' k.tmpl = k.tmpl := by
      unfold subKey
      have := sub_id_of_noRunEq hP k'.tmpl k.tmpl [] none (by simp) (by
        rw [hlit]; exact noRunEq_tmpl k k' hk hq h'.2)
      simpa using this
    have : rewriteText (k' :: ks) k.tmpl = rewriteText ks (subKey k' k.tmpl) := by simp [rewriteText]
    rw [this, h1]
    exact ih (fun x hx => h x (by simp [hx]))

theorem subKey_msg (hA : anchoredRewrite = true) (k k' : Key) (hk : k.SepFree) (hk' : k'.SepFree) :
    subKey k' k.msg = if k.msg = k'.msg then k'.tmpl else k.msg := by
  obtain ⟨hP, hlit⟩ := patOf_anchored hA k'.msg k'.msg_ne_nil hk'
  unfold subKey
  have := sub_run hP k'.tmpl k.msg [] none hk (Or.inl rfl)
  simp only [List.append_nil, hlit, isOpenerO, List.head?_nil, isCloserO, true_and, and_true, lastOr,
    sub] at this
  rw [this]

/-- anchored patterns: distinct, separator-free, quote-free messages never collide -/
theorem noCollision_anchored (hA : anchoredRewrite = true) :
    ∀ (keys : List Key), (∀ k ∈ keys, k.SepFree ∧ k.NoQuote) → (keys.map Key.msg).Nodup →
      ∀ (pre : List Key), (∀ k ∈ keys, ∀ k' ∈ pre, k'.SepFree ∧ k.msg ≠ k'.msg) →
        ∀ k ∈ keys, rewriteText (pre ++ keys) k.msg = k.tmpl := by
  intro keys
  induction keys with
  | nil => intro _ _ _ _ k hk; simp at hk
  | cons k0 ks ih =>
    intro hks hnd pre hpre k hk
    simp only [List.map_cons, List.nodup_cons] at hnd
    -- the passes of `pre` leave every later message alone
    have hpre_id : ∀ (pre : List Key) (k : Key), k.SepFree → (∀ k' ∈ pre, k'.SepFree ∧ k.msg ≠ k'.msg) →
        rewriteText pre k.msg = k.msg := by
      intro pre
      induction pre with
      | nil => intro _ _ _; rfl
      | cons p ps ihp =>
        intro k hk hps
        have hp := hps p (by simp)
        have : rewriteText (p :: ps) k.msg = rewriteText ps (subKey p k.msg) := by simp [rewriteText]
        rw [this, subKey_msg hA k p hk hp.1, if_neg hp.2]
        exact ihp k hk (fun x hx => hps x (by simp [hx]))
    rcases List.mem_cons.mp hk with rfl | hk'
    · -- its own pass, then the later passes do not touch the Python expression
      have hk0 := hks k (by simp)
      have : rewriteText (pre ++ k :: ks) k.msg = rewriteText ks (subKey k (rewriteText pre k.msg)) := by
        simp [rewriteText, List.foldl_append]
      rw [this, hpre_id pre k hk0.1 (fun k' hk' => hpre k (by simp) k' hk'),
        subKey_msg hA k k hk0.1 hk0.1, if_pos rfl]
      exact rewriteText_id_tmpl hA k hk0.1 hk0.2 ks (fun x hx => hks x (by simp [hx]))
    · have hk0 := hks k0 (by simp)
      have hne : k.msg ≠ k0.msg := by
        intro e
        exact hnd.1 (by rw [← e]; exact List.mem_map.mpr ⟨k, hk', rfl⟩)
      have := ih (fun x hx => hks x (by simp [hx])) hnd.2 (pre ++ [k0]) (by
        intro x hx k' hk''
        rcases List.mem_append.mp hk'' with h | h
        · exact hpre x (by simp [hx]) k' h
        · simp at h; subst h
          refine ⟨hk0.1, ?_⟩
          intro e
          exact hnd.1 (by rw [← e]; exact List.mem_map.mpr ⟨x, hx, rfl⟩)) k hk'
      simpa [List.append_assoc] using this

theorem noCollision_of_anchored (hA : anchoredRewrite = true) (keys : List Key)
    (hk : ∀ k ∈ keys, k.SepFree ∧ k.NoQuote) (hnd : (keys.map Key.msg).Nodup) :
    NoCollision keys = true := by
  simp only [NoCollision, List.all_eq_true, beq_iff_eq]
  intro k hkm
  have := noCollision_anchored hA keys hk hnd [] (by simp) k hkm
  simpa using this


end CylcModel.Prereq
