/-
Helper lemmas for property C39 (component `Path`): `posixpath.normpath` as a stack machine.

Key facts: `..` entries only ever sit at the bottom of the relative stack (`BottomDD`) and are never
removed (`dotdot_persists`), so a normalised relative name that does not start with `.` was produced
without a single underflow; and a walk without underflow does the same thing above any base
directory (`normGo_sim`).
-/
import CylcModel.PathName
namespace CylcModel.PathName

/-- a proper path component: a real directory-entry name -/
def Proper (c : Str) : Prop := c ≠ [] ∧ c ≠ dot ∧ c ≠ dotdot ∧ '/' ∉ c

instance (c : Str) : Decidable (Proper c) := by unfold Proper; exact inferInstance

theorem splitSlash_ne_nil (s : Str) : splitSlash s ≠ [] := by
  cases s with
  | nil => simp [splitSlash]
  | cons c s =>
    simp only [splitSlash]
    split
    · simp
    · split <;> simp

theorem splitSlash_noSlash (s : Str) : ∀ c ∈ splitSlash s, '/' ∉ c := by
  induction s with
  | nil => simp [splitSlash]
  | cons x s ih =>
    simp only [splitSlash]
    split
    · intro c hc
      simp at hc
      rcases hc with rfl | hc
      · simp
      · exact ih c hc
    · next hx =>
      split
      · intro c hc; simp at hc; subst hc; simp; exact fun h => hx h.symm
      · next w ws heq =>
        intro c hc
        simp at hc
        rcases hc with rfl | hc
        · have := ih w (by rw [heq]; simp)
          simp; exact ⟨fun h => hx h.symm, this⟩
        · exact ih c (by rw [heq]; simp [hc])

/-- everything on the final stack was on the initial stack or is a component that is pushed -/
theorem normGo_mem (abs : Bool) (xs st : List Str) :
    ∀ c ∈ normGo abs st xs, c ∈ st ∨ (c ∈ xs ∧ c ≠ [] ∧ c ≠ dot) := by
  induction xs generalizing st with
  | nil => intro c hc; simp [normGo] at hc; exact .inl hc
  | cons x xs ih =>
    intro c hc
    unfold normGo at hc
    split at hc
    · rcases ih st c hc with h | h
      · exact .inl h
      · exact .inr ⟨by simp [h.1], h.2⟩
    · next hskip =>
      have hx1 : x ≠ [] := fun e => hskip (.inl e)
      have hx2 : x ≠ dot := fun e => hskip (.inr e)
      split at hc
      · rcases ih (x :: st) c hc with h | h
        · simp at h
          rcases h with rfl | h
          · exact .inr ⟨by simp, hx1, hx2⟩
          · exact .inl h
        · exact .inr ⟨by simp [h.1], h.2⟩
      · split at hc
        · split at hc
          · rcases ih [] c hc with h | h
            · simp at h
            · exact .inr ⟨by simp [h.1], h.2⟩
          · rcases ih [dotdot] c hc with h | h
            · simp at h; subst h
              exact .inr ⟨by simp_all, by decide, by decide⟩
            · exact .inr ⟨by simp [h.1], h.2⟩
        · next top below =>
          split at hc
          · rcases ih (dotdot :: top :: below) c hc with h | h
            · simp at h
              rcases h with rfl | h
              · exact .inr ⟨by simp_all, by decide, by decide⟩
              · exact .inl (by simpa using h)
            · exact .inr ⟨by simp [h.1], h.2⟩
          · rcases ih below c hc with h | h
            · exact .inl (by simp [h])
            · exact .inr ⟨by simp [h.1], h.2⟩
/-- `..` entries sit at the bottom of the stack -/
def BottomDD (st : List Str) : Prop := dotdot ∈ st → st.getLast? = some dotdot

theorem bottomDD_normGo (xs st : List Str) (h : BottomDD st) : BottomDD (normGo false st xs) := by
  induction xs generalizing st with
  | nil => simpa [normGo] using h
  | cons x xs ih =>
    unfold normGo
    split
    · exact ih st h
    · split
      · next hne =>
        apply ih
        intro hm
        simp at hm
        rcases hm with e | hm
        · exact absurd e.symm hne
        · have := h hm
          cases st with
          | nil => simp at hm
          | cons a as => simpa [List.getLast?_cons_cons] using this
      · split
        · simp only [Bool.false_eq_true, if_false]
          apply ih; intro _; simp
        · next top below =>
          split
          · apply ih; intro _
            have := h (by simp_all)
            simpa [List.getLast?_cons_cons] using this
          · next htop =>
            apply ih; intro hm
            have := h (by simp [hm])
            cases below with
            | nil => simp at hm
            | cons a as => simpa [List.getLast?_cons_cons] using this

theorem dotdot_persists (xs st : List Str) (h : dotdot ∈ st) : dotdot ∈ normGo false st xs := by
  induction xs generalizing st with
  | nil => simpa [normGo] using h
  | cons x xs ih =>
    unfold normGo
    split
    · exact ih st h
    · split
      · exact ih _ (by simp [h])
      · split
        · simp at h
        · next top below =>
          split
          · exact ih _ (by simp)
          · next htop =>
            apply ih
            simp at h
            rcases h with e | h
            · exact absurd e.symm htop
            · exact h

/-- from a stack that never underflows, the absolute walk above any base `b` does the same thing -/
theorem normGo_sim (xs st b : List Str) (hst : dotdot ∉ st) (hres : dotdot ∉ normGo false st xs) :
    normGo true (st ++ b) xs = normGo false st xs ++ b := by
  induction xs generalizing st with
  | nil => simp [normGo]
  | cons x xs ih =>
    unfold normGo at hres ⊢
    split
    · next hskip => simp only [hskip, if_true] at hres; exact ih st hst hres
    · next hskip =>
      simp only [hskip, if_false] at hres
      split
      · next hne =>
        rw [if_pos hne] at hres
        have := ih (x :: st) (by simp; exact ⟨fun e => hne e.symm, hst⟩) hres
        simpa using this
      · next hne =>
        rw [if_neg hne] at hres
        cases st with
        | nil =>
          simp only [Bool.false_eq_true, if_false] at hres
          exact absurd (dotdot_persists xs [dotdot] (by simp)) hres
        | cons top below =>
          have htop : top ≠ dotdot := by
            intro e; apply hst; simp [e]
          simp only [htop, if_false] at hres
          simp only [List.cons_append, htop, if_false]
          exact ih below (by intro hm; apply hst; simp [hm]) hres


theorem split_noslash (w : Str) (h : '/' ∉ w) : splitSlash w = [w] := by
  induction w with
  | nil => rfl
  | cons c w ih =>
    simp at h
    have hc : c ≠ '/' := fun e => h.1 e.symm
    simp [splitSlash, hc, ih h.2]

theorem split_append (w rest : Str) (h : '/' ∉ w) : splitSlash (w ++ '/' :: rest) = w :: splitSlash rest := by
  induction w with
  | nil => simp [splitSlash]
  | cons c w ih =>
    simp at h
    have hc : c ≠ '/' := fun e => h.1 e.symm
    simp [splitSlash, hc, ih h.2]

theorem split_join (cs : List Str) (hne : cs ≠ []) (h : ∀ c ∈ cs, '/' ∉ c) : splitSlash (joinSlash cs) = cs := by
  induction cs with
  | nil => exact absurd rfl hne
  | cons c cs ih =>
    cases cs with
    | nil => simpa [joinSlash] using split_noslash c (h c (by simp))
    | cons d ds =>
      simp only [joinSlash]
      rw [split_append c _ (h c (by simp))]
      rw [ih (by simp) (fun x hx => h x (by simp [hx]))]

theorem join_head (c : Str) (cs : List Str) (hc : c ≠ []) : (joinSlash (c :: cs)).head? = c.head? := by
  cases cs with
  | nil => simp [joinSlash]
  | cons d ds =>
    cases c with
    | nil => exact absurd rfl hc
    | cons x xs => simp [joinSlash]

theorem initialSlashes_rel (name : Str) (h : isAbs name = false) : initialSlashes name = 0 := by
  cases name with
  | nil => rfl
  | cons c s =>
    by_cases hc : c = '/'
    · subst hc; simp [isAbs] at h
    · unfold initialSlashes
      split <;> simp_all

/-- what acceptance tells us about the relative walk of the name -/
theorem accepted_core (cls : CharCls) (name : Str) (chk : Bool) (h : validate cls name chk = .ok) :
    normGo false [] (splitSlash name) ≠ [] ∧ dotdot ∉ normGo false [] (splitSlash name) ∧
    normpath name = joinSlash (normGo false [] (splitSlash name)).reverse ∧
    (chk = true → reservedOk cls (normpath name) = true) := by
  unfold validate at h
  split at h
  · cases h
  · next hrules =>
    split at h
    · cases h
    · next habs =>
      simp only [] at h
      split at h
      · cases h
      · next hhead =>
        have hres : chk = true → reservedOk cls (normpath name) = true := by
          intro hc
          subst hc
          split at h
          · cases h
          · next hr => simpa using hr
        have hne : name ≠ [] := by
          intro e; subst e
          simp [rulesOk, ruleFirst] at hrules
        have habs' : isAbs name = false := by simpa using habs
        have hnp : normpath name =
            (if joinSlash (normGo false [] (splitSlash name)).reverse = [] then dot
             else joinSlash (normGo false [] (splitSlash name)).reverse) := by
          simp [normpath, hne, initialSlashes_rel name habs']
        generalize hr : normGo false [] (splitSlash name) = r at hnp
        have hmem : ∀ c ∈ r, c ≠ [] := by
          intro c hc
          have := normGo_mem false (splitSlash name) [] c (by rw [hr]; exact hc)
          simp at this
          exact this.2.1
        have hbd : BottomDD r := by
          rw [← hr]; exact bottomDD_normGo _ [] (by intro hm; simp at hm)
        -- the reversed stack, first component first
        have key : r ≠ [] ∧ dotdot ∉ r := by
          constructor
          · intro e
            subst e
            apply hhead
            rw [hnp]; simp [joinSlash, dot]
          · intro hdd
            have hl := hbd hdd
            apply hhead
            rw [hnp]
            have : ∃ t, r.reverse = dotdot :: t := by
              cases hrev : r.reverse with
              | nil => simp at hrev; subst hrev; simp at hdd
              | cons a t =>
                have : r.reverse.head? = some dotdot := by rw [List.head?_reverse]; exact hl
                rw [hrev] at this
                simp at this
                exact ⟨t, by rw [this]⟩
            obtain ⟨t, ht⟩ := this
            rw [ht]
            have hj := join_head dotdot t (by decide)
            have hnn : joinSlash (dotdot :: t) ≠ [] := by
              intro e; rw [e] at hj; simp [dotdot] at hj
            rw [if_neg hnn, hj]; rfl
        refine ⟨key.1, key.2, ?_, hres⟩
        rw [hnp]
        have : joinSlash r.reverse ≠ [] := by
          cases hrev : r.reverse with
          | nil => simp at hrev; exact absurd hrev key.1
          | cons a t =>
            have ha : a ≠ [] := hmem a (by
              have : a ∈ r.reverse := by rw [hrev]; simp
              simpa using this)
            have hj := join_head a t ha
            intro e; rw [e] at hj
            cases a with
            | nil => exact ha rfl
            | cons x xs => simp at hj
        simp [this]


theorem normGo_push (abs : Bool) (ys xs st : List Str) (h : ∀ c ∈ ys, Proper c) :
    normGo abs st (ys ++ xs) = normGo abs (ys.reverse ++ st) xs := by
  induction ys generalizing st with
  | nil => simp
  | cons y ys ih =>
    have hy := h y (by simp)
    have h1 : ¬ (y = [] ∨ y = dot) := by
      intro e; rcases e with e | e
      · exact hy.1 e
      · exact hy.2.1 e
    simp only [List.cons_append, normGo, h1, if_false, hy.2.2.1, ne_eq, not_false_eq_true, if_true]
    rw [ih (y :: st) (fun c hc => h c (by simp [hc]))]
    simp

theorem split_join_append (cs : List Str) (rest : Str) (hne : cs ≠ []) (h : ∀ c ∈ cs, '/' ∉ c) :
    splitSlash (joinSlash cs ++ '/' :: rest) = cs ++ splitSlash rest := by
  induction cs with
  | nil => exact absurd rfl hne
  | cons c cs ih =>
    cases cs with
    | nil => simpa [joinSlash] using split_append c rest (h c (by simp))
    | cons d ds =>
      simp only [joinSlash, List.append_assoc, List.cons_append]
      rw [split_append c _ (h c (by simp))]
      have := ih (by simp) (fun x hx => h x (by simp [hx]))
      rw [this]
      simp

/-- the relative walk of an accepted name: non-empty, proper components only -/
theorem accepted_proper (cls : CharCls) (name : Str) (chk : Bool) (h : validate cls name chk = .ok) :
    ∀ c ∈ (normGo false [] (splitSlash name)).reverse, Proper c := by
  obtain ⟨_, hdd, _, _⟩ := accepted_core cls name chk h
  intro c hc
  have hc' : c ∈ normGo false [] (splitSlash name) := by simpa using hc
  have := normGo_mem false (splitSlash name) [] c hc'
  simp at this
  exact ⟨this.2.1, this.2.2, fun e => hdd (e ▸ hc'), splitSlash_noSlash name c this.1⟩

end CylcModel.PathName
