/-
Model of `cylc/flow/util.py` : `restricted_evaluator` / `RestrictedNodeVisitor` (C24).

* `PyExpr` is a Python AST as `ast.NodeVisitor.generic_visit` walks it: the class name of a
  node, a payload (`Name.id`; unused otherwise) and the AST-valued fields in `_fields` order
  (so `BoolOp` = op :: values, `BinOp` = [left, op, right], `Name` = [ctx], ...).
* `allowed` is `isinstance(node, whitelist)`: some class among the ancestors of the node's
  class (table `Generated.REval.astClasses`, regenerated from the running Python) is
  whitelisted.
* `check` is `RestrictedNodeVisitor.visit` + `generic_visit`: pre-order, the first node
  that is not allowed raises.
* `run` is `_eval`: parse (absent tree = `SyntaxError`), check, and only then evaluate.
* `eval` models CPython on the fragment that the `CompletionEvaluator` whitelist lets through
  (`Expression`, `BoolOp` with `And`/`Or`, `Name` in `Load` context): short-circuit
  evaluation returning one of the operands, name resolution locals → globals → builtins of
  `eval(code, globals, locals)` with the globals/locals shape read from the source
  (`Generated.REval.evalGlobalsKeys`, `evalBuiltinsKeys`), and the record of which supplied
  variables were truth-tested.  Anything else that a wider whitelist accepts is `unmodelled`.

Core Lean only.
-/
import CylcModel.Generated.REvalTables

namespace CylcModel.REval

open CylcModel.Generated.REval

inductive PyExpr where
  | node (kind : String) (tag : String) (children : List PyExpr)
  deriving Repr

def PyExpr.kind : PyExpr → String
  | .node k _ _ => k

def PyExpr.tag : PyExpr → String
  | .node _ t _ => t

def PyExpr.children : PyExpr → List PyExpr
  | .node _ _ cs => cs

/-! ### the whitelist check -/

/-- ancestors of a node class inside the `ast` hierarchy (itself first); a class that is not in
the table has only itself -/
def ancestorsIn (classes : List (String × List String)) (k : String) : List String :=
  (classes.lookup k).getD [k]

/-- `isinstance(node, whitelist)` for a node of class `k` -/
def allowedIn (classes : List (String × List String)) (wl : List String) (k : String) : Bool :=
  (ancestorsIn classes k).any fun a => wl.contains a

def allowed (wl : List String) (k : String) : Bool := allowedIn astClasses wl k

mutual
/-- `RestrictedNodeVisitor.visit`: `some k` = `_RestrictedEvalError` raised at the first
(pre-order) node whose class `k` is not whitelisted; `none` = the whole tree was visited. -/
def check (wl : List String) : PyExpr → Option String
  | .node k _ cs => if allowed wl k then checkList wl cs else some k
/-- `generic_visit` over the AST-valued fields, in order -/
def checkList (wl : List String) : List PyExpr → Option String
  | [] => none
  | c :: cs =>
    match check wl c with
    | some k => some k
    | none => checkList wl cs
end

mutual
/-- all nodes of a tree, pre-order -/
def nodes : PyExpr → List PyExpr
  | .node k t cs => .node k t cs :: nodesList cs
def nodesList : List PyExpr → List PyExpr
  | [] => []
  | c :: cs => nodes c ++ nodesList cs
end

/-! ### evaluation of the accepted fragment -/

/-- what a name can evaluate to -/
inductive Val where
  | var (name : String)          -- the object supplied for variable `name`
  | globalEntry (name : String)  -- the value bound to a key of the globals dict handed to `eval`
  | builtin (name : String)      -- an object found in the builtins namespace
  | debugConst                   -- `__debug__`: compiled to the constant `True`, never looked up
  deriving Repr, DecidableEq

/-- the `eval(code, globals, locals)` call as far as name resolution is concerned -/
structure EvalCfg where
  globalsKeys : List String
  builtinsKeys : Option (List String)   -- `none`: `__builtins__` not supplied, Python inserts the real module
  realBuiltins : List String
  deriving Repr

/-- the call in `restricted_evaluator._eval`, read from the source -/
def liveCfg : EvalCfg := ⟨evalGlobalsKeys, evalBuiltinsKeys, realBuiltins⟩

def EvalCfg.builtinsNamespace (c : EvalCfg) : List String :=
  match c.builtinsKeys with
  | some ks => ks
  | none => c.realBuiltins

def EvalCfg.globalsNamespace (c : EvalCfg) : List String :=
  match c.builtinsKeys with
  | some _ => c.globalsKeys
  | none => if c.globalsKeys.contains "__builtins__" then c.globalsKeys else "__builtins__" :: c.globalsKeys

/-- supplied variables: name and truthiness of the supplied object -/
abbrev Vars := List (String × Bool)

def hasVar (vars : Vars) (x : String) : Bool := vars.any fun v => v.1 == x

/-- `LOAD_NAME`: locals (the supplied variables), then globals, then builtins; `none` = `NameError` -/
def resolve (cfg : EvalCfg) (vars : Vars) (x : String) : Option Val :=
  if x == "__debug__" then some .debugConst
  else if hasVar vars x then some (.var x)
  else if cfg.globalsNamespace.contains x then some (.globalEntry x)
  else if cfg.builtinsNamespace.contains x then some (.builtin x)
  else none

/-- truth value of an operand (`__bool__` of a supplied object; the `__builtins__` dict is true
iff non-empty; builtin objects and `__debug__` are true) -/
def truth (cfg : EvalCfg) (vars : Vars) : Val → Bool
  | .var x => ((vars.find? fun v => v.1 == x).map (·.2)).getD true
  | .globalEntry _ => !cfg.builtinsNamespace.isEmpty
  | .builtin _ => true
  | .debugConst => true

/-- supplied variables whose truth value is requested when `v` is truth-tested -/
def touchOf : Val → List String
  | .var x => [x]
  | _ => []

inductive Outcome where
  | value (v : Val) (touched : List String)
  | nameError (name : String) (touched : List String)
  | unmodelled
  deriving Repr, DecidableEq

def Outcome.prepend (t : List String) : Outcome → Outcome
  | .value v t' => .value v (t ++ t')
  | .nameError x t' => .nameError x (t ++ t')
  | .unmodelled => .unmodelled

mutual
def eval (cfg : EvalCfg) (vars : Vars) : PyExpr → Outcome
  | .node k tag cs =>
    if k == "Expression" then
      match cs with
      | [b] => eval cfg vars b
      | _ => .unmodelled
    else if k == "Name" then
      match cs with
      | [ctx] =>
        if ctx.kind == "Load" then
          match resolve cfg vars tag with
          | some v => .value v []
          | none => .nameError tag []
        else .unmodelled
      | _ => .unmodelled
    else if k == "BoolOp" then
      match cs with
      | op :: vs =>
        if op.kind == "And" then evalBool cfg vars true vs
        else if op.kind == "Or" then evalBool cfg vars false vs
        else .unmodelled
      | [] => .unmodelled
    else .unmodelled
/-- `a and b and ...` (`isAnd`) / `a or b or ...`: every operand but the last is truth-tested;
the first one that decides the result is returned as it is -/
def evalBool (cfg : EvalCfg) (vars : Vars) (isAnd : Bool) : List PyExpr → Outcome
  | [] => .unmodelled
  | [v] => eval cfg vars v
  | v :: w :: rest =>
    match eval cfg vars v with
    | .value x t =>
      if truth cfg vars x == isAnd then
        (evalBool cfg vars isAnd (w :: rest)).prepend (t ++ touchOf x)
      else .value x (t ++ touchOf x)
    | other => other
end

/-! ### `_eval`: parse, check, evaluate -/

inductive Result where
  | syntaxError                    -- `ast.parse` failed: `error_class` raised, nothing visited
  | rejected (kind : String)       -- non-whitelisted node: `error_class` raised, nothing evaluated
  | evaluated (o : Outcome)
  deriving Repr, DecidableEq

/-- the node classes `eval` models -/
def modelledKinds : List String := ["Expression", "Name", "Load", "BoolOp", "And", "Or"]

/-- `compile()` sees the whole tree before anything runs (and may refuse it, e.g. `await` outside a
function), so only trees that lie entirely inside the modelled fragment are predicted -/
def inFragment (e : PyExpr) : Bool := (nodes e).all fun n => modelledKinds.contains n.kind

def run (wl : List String) (cfg : EvalCfg) (tree : Option PyExpr) (vars : Vars) : Result :=
  match tree with
  | none => .syntaxError
  | some e =>
    match check wl e with
    | some k => .rejected k
    | none => .evaluated (if inFragment e then eval cfg vars e else .unmodelled)

/-- supplied variables that were truth-tested while producing the result -/
def Result.touched : Result → List String
  | .evaluated (.value _ t) => t
  | .evaluated (.nameError _ t) => t
  | _ => []

/-! ### histories: several calls in one process -/

/-- one call `evaluator(text, **variables)`: the whitelist of the evaluator called, the parsed
text and the supplied variables -/
structure Call where
  wl : List String
  tree : Option PyExpr
  vars : Vars

def runCall (cfg : EvalCfg) (c : Call) : Result := run c.wl cfg c.tree c.vars

/-- a history of calls made one after the other in the same process: `restricted_evaluator`
keeps no state, every call is answered on its own -/
def runSeq (cfg : EvalCfg) (calls : List Call) : List Result := calls.map (runCall cfg)

end CylcModel.REval
