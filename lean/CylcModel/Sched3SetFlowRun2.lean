/-
The flow invariant holds in every state of every run of the `Sched3Set` model.
-/
import CylcModel.Sched3SetFlowRun

namespace CylcModel.Sched3Set

theorem pok_mono {D D' : Flows} {s : State} (hs : ∀ f ∈ D, f ∈ D') (h : POK D s) : POK D' s :=
  ⟨fun y hy f hf => hs f (h.1 y hy f hf), fun y hy f hf => hs f (h.2 y hy f hf)⟩

theorem flowInv_useFlow (s : State) (n : Nat) (h : FlowInv s) :
    FlowInv (useFlow s n) ∧ n ∈ (useFlow s n).flowsDb ∧ ∀ f ∈ s.flowsDb, f ∈ (useFlow s n).flowsDb := by
  unfold useFlow
  split
  · rename_i hc
    have hm : n ∈ s.flowsKnown := by simpa using hc
    exact ⟨h, h.2.1 n hm, fun _ hf => hf⟩
  · refine ⟨?_, (mem_fInsert _ _ _).mpr (Or.inl rfl), fun f hf => (mem_fInsert _ _ _).mpr (Or.inr hf)⟩
    refine ⟨?_, ?_, ?_, ?_⟩
    · exact pok_of_eq (s := s) rfl rfl (pok_mono (fun f hf => (mem_fInsert _ _ _).mpr (Or.inr hf)) h.1)
    · intro f hf
      simp only at hf ⊢
      rcases (mem_fInsert _ _ _).mp hf with h1 | h1
      · exact (mem_fInsert _ _ _).mpr (Or.inl h1)
      · exact (mem_fInsert _ _ _).mpr (Or.inr (h.2.1 f h1))
    · intro f hf
      simp only at hf ⊢
      rcases (mem_fInsert _ _ _).mp hf with h1 | h1
      · exact Or.inr ((mem_fInsert _ _ _).mpr (Or.inl h1))
      · rcases h.2.2.1 f h1 with h2 | h2
        · exact Or.inl h2
        · exact Or.inr ((mem_fInsert _ _ _).mpr (Or.inr h2))
    · exact (mem_fInsert _ _ _).mpr (Or.inr h.2.2.2)

theorem flowInv_newFlow (s : State) (h : FlowInv s) :
    FlowInv (newFlow s).1 ∧ (newFlow s).2 ∈ (newFlow s).1.flowsDb ∧ ∀ f ∈ s.flowsDb, f ∈ (newFlow s).1.flowsDb := by
  have hgt := (newFlow_spec s).1
  unfold newFlow at hgt ⊢
  simp only at hgt ⊢
  generalize skipKnown s.flowsKnown (s.flowsKnown.length + 1) (s.flowCounter + 1) = c at hgt
  have h1 : FlowInv { s with flowCounter := c } := by
    refine ⟨pok_of_eq (s := s) rfl rfl h.1, h.2.1, ?_, h.2.2.2⟩
    intro f hf
    rcases h.2.2.1 f hf with h2 | h2
    · left; show f ≤ c; omega
    · exact Or.inr h2
  exact flowInv_useFlow _ c h1

theorem mem_foldl_fUnion (pool : List Proxy) : ∀ (init : Flows) (a : Nat),
    a ∈ pool.foldl (fun acc x => fUnion acc x.flows) init → a ∈ init ∨ ∃ x ∈ pool, a ∈ x.flows := by
  induction pool with
  | nil => intro init a h; exact Or.inl h
  | cons x pool ih =>
    intro init a h
    simp only [List.foldl_cons] at h
    rcases ih _ a h with h1 | ⟨y, hy, hya⟩
    · rcases (mem_fUnion _ _ _).mp h1 with h2 | h2
      · exact Or.inl h2
      · exact Or.inr ⟨x, List.mem_cons_self, h2⟩
    · exact Or.inr ⟨y, List.mem_cons_of_mem _ hy, hya⟩

theorem activeFlows_ok (s : State) (h : FlowInv s) : ∀ a ∈ activeFlows s, a ∈ s.flowsDb := by
  unfold activeFlows
  dsimp only
  split
  · intro a ha
    have : a = 1 := by simpa using ha
    rw [this]; exact h.2.2.2
  · intro a ha
    rcases mem_foldl_fUnion s.pool [] a ha with h1 | ⟨x, hx, hxa⟩
    · cases h1
    · exact h.1.1 x hx a hxa

theorem flowInv_foldl_useFlow (ns : List Nat) : ∀ (s : State), FlowInv s →
    FlowInv (ns.foldl useFlow s) ∧ (∀ n ∈ ns, n ∈ (ns.foldl useFlow s).flowsDb) ∧
    (∀ f ∈ s.flowsDb, f ∈ (ns.foldl useFlow s).flowsDb) := by
  induction ns with
  | nil => intro s h; exact ⟨h, (fun n hn => by cases hn), fun _ hf => hf⟩
  | cons n ns ih =>
    intro s h
    simp only [List.foldl_cons]
    obtain ⟨h1, h2, h3⟩ := flowInv_useFlow s n h
    obtain ⟨i1, i2, i3⟩ := ih (useFlow s n) h1
    refine ⟨i1, ?_, fun f hf => i3 f (h3 f hf)⟩
    intro m hm
    rcases List.mem_cons.mp hm with rfl | hm'
    · exact i3 _ h2
    · exact i2 m hm'

theorem mem_foldl_fInsert (ns : List Nat) : ∀ (init : Flows) (a : Nat),
    a ∈ ns.foldl (fun acc n => fInsert n acc) init → a ∈ init ∨ a ∈ ns := by
  induction ns with
  | nil => intro init a h; exact Or.inl h
  | cons n ns ih =>
    intro init a h
    simp only [List.foldl_cons] at h
    rcases ih _ a h with h1 | h1
    · rcases (mem_fInsert _ _ _).mp h1 with h2 | h2
      · exact Or.inr (by rw [h2]; exact List.mem_cons_self)
      · exact Or.inl h2
    · exact Or.inr (List.mem_cons_of_mem _ h1)

/-- `cli_to_flow_nums`: the flows of the command are registered -/
theorem flowInv_cliFlows (s : State) (fl : FlowSpec) (h : FlowInv s) :
    FlowInv (cliFlows s fl).1 ∧ ∀ a ∈ (cliFlows s fl).2, a ∈ (cliFlows s fl).1.flowsDb := by
  unfold cliFlows
  cases fl with
  | default => exact ⟨h, activeFlows_ok s h⟩
  | none => exact ⟨h, fun a ha => by cases ha⟩
  | new =>
    obtain ⟨h1, h2, _⟩ := flowInv_newFlow s h
    refine ⟨h1, ?_⟩
    intro a ha
    have : a = (newFlow s).2 := by simpa using ha
    rw [this]; exact h2
  | nums ns =>
    obtain ⟨h1, h2, _⟩ := flowInv_foldl_useFlow ns s h
    simp only
    split
    · exact ⟨h1, activeFlows_ok _ h1⟩
    · refine ⟨h1, ?_⟩
      intro a ha
      rcases mem_foldl_fInsert ns [] a ha with h3 | h3
      · cases h3
      · exact h2 a h3

/-! ### `cylc set` -/

theorem fm_setPrePooled (g : Graph) (s : State) (x : Proxy) (F : Flows) (v : List Atom) (a : Bool) :
    fm (setPrePooled g s x F v a) = fm s := by
  unfold setPrePooled
  split
  · rfl
  · dsimp only
    split
    · rw [fm_put, fm_mergeFlows]
    · rw [fm_mergeFlows]

theorem fm_setPreInactive (g : Graph) (s : State) (p : Int) (n : String) (F : Flows) (w : Bool) (v : List Atom) (a : Bool) :
    fm (setPreInactive g s p n F w v a) = fm s := by
  unfold setPreInactive
  split
  · rfl
  · dsimp only
    have := fm_spawnTask g spawnFuel s n p F w
    split
    · rw [fm_add, fm_dbInsert, this]
    · exact this

theorem fm_setOutPooled (g : Graph) (s : State) (x : Proxy) (F : Flows) (outs : List String) :
    fm (setOutPooled g s x F outs) = fm s := by
  unfold setOutPooled
  rw [fm_setOutputsItask, fm_mergeFlows]

theorem fm_setOutInactive (g : Graph) (s : State) (p : Int) (n : String) (F : Flows) (w : Bool) (outs : List String) :
    fm (setOutInactive g s p n F w outs) = fm s := by
  unfold setOutInactive
  split
  · rfl
  · rename_i x0 _
    dsimp only
    rw [fm_setOutputsItask]
    exact fm_loadHistoricalOutputs g s { x0 with flows := F, flowWait := w }

theorem flowInv_setCmd (g : Graph) (s : State) (id : Int × String) (outs : List String) (pre : PreSpec)
    (flow : FlowSpec) (wait : Bool) (h : FlowInv s) : FlowInv (setCmd g s id outs pre flow wait) := by
  unfold setCmd
  split
  · exact h
  · dsimp only
    obtain ⟨hC, hF⟩ := flowInv_cliFlows s flow h
    generalize cliFlows s flow = C at hC hF
    split
    · rename_i x hx
      have hxf : FOK C.1.flowsDb x := fok_of_get? hC.1 hx
      split
      · exact hC
      · split
        · exact flowInv_of_fm (fm_setPrePooled g C.1 x C.2 _ _) (pok_setPrePooled g C.1 x C.2 _ _ hC.1 hxf hF) hC
        · exact flowInv_of_fm (fm_setOutPooled g C.1 x C.2 outs) (pok_setOutPooled g C.1 x C.2 outs hC.1 hxf hF) hC
    · split
      · exact hC
      · split
        · exact flowInv_of_fm (fm_setPreInactive g C.1 id.1 id.2 C.2 wait _ _)
            (pok_setPreInactive g C.1 id.1 id.2 C.2 wait _ _ hC.1 hF) hC
        · exact flowInv_of_fm (fm_setOutInactive g C.1 id.1 id.2 C.2 wait outs)
            (pok_setOutInactive g C.1 id.1 id.2 C.2 wait outs hC.1 hF) hC

/-! ### restart, start-up -/

theorem le_maxFlow (l : Flows) (f : Nat) (h : f ∈ l) : f ≤ maxFlow l := by
  unfold maxFlow
  have key : ∀ (l : Flows) (init : Nat), init ≤ l.foldl max init ∧ ∀ f ∈ l, f ≤ l.foldl max init := by
    intro l
    induction l with
    | nil => intro init; exact ⟨Nat.le_refl _, fun f hf => by cases hf⟩
    | cons a l ih =>
      intro init
      simp only [List.foldl_cons]
      obtain ⟨h1, h2⟩ := ih (max init a)
      refine ⟨Nat.le_trans (Nat.le_max_left init a) h1, ?_⟩
      intro f hf
      rcases List.mem_cons.mp hf with rfl | hf'
      · exact Nat.le_trans (Nat.le_max_right init f) h1
      · exact h2 f hf'
  exact (key l 0).2 f h

theorem flowInv_reloaded (g : Graph) (s1 : State) (D : Flows) (h1 : POK D s1) (hdb : s1.flowsDb = D) (h1in : 1 ∈ D) :
    FlowInv (reloaded g s1) := by
  have hpool : ∀ y ∈ s1.pool.filterMap (restoreProxy g s1.rows), FOK D y := by
    intro y hy
    obtain ⟨x, hx, hxy⟩ := List.mem_filterMap.mp hy
    exact fok_of_flows_eq (restoreProxy_flows g s1.rows x y hxy) (h1.1 x hx)
  unfold reloaded
  dsimp only
  refine ⟨⟨?_, ?_⟩, ?_, ?_, ?_⟩
  · intro y hy; rw [hdb]; exact hpool y hy
  · intro y hy; cases hy
  · intro f hf; exact (List.mem_filter.mp hf).1
  · intro f hf; exact Or.inl (le_maxFlow _ f hf)
  · show 1 ∈ s1.flowsDb
    rw [hdb]; exact h1in

theorem flowInv_restart (g : Graph) (s : State) (h : FlowInv s) : FlowInv (restart g s) := by
  unfold restart
  dsimp only
  have h1 : POK s.flowsDb (flushDb (putTaskPool s)) := pok_flushDb (pok_putTaskPool s h.1)
  have hfm1 : fm (flushDb (putTaskPool s)) = fm s := by rw [fm_flushDb, fm_putTaskPool]
  have hdb : (flushDb (putTaskPool s)).flowsDb = s.flowsDb := by
    have : (fm (flushDb (putTaskPool s))).db = (fm s).db := by rw [hfm1]
    exact this
  have hI := flowInv_reloaded g (flushDb (putTaskPool s)) s.flowsDb h1 hdb h.2.2.2
  generalize reloaded g (flushDb (putTaskPool s)) = s' at hI
  have h2 : FlowInv (match s'.holdPoint with | some hp => setHoldPoint s' hp | none => s') := by
    split
    · exact flowInv_of_fm (fm_setHoldPoint s' _) (pok_setHoldPoint s' _ hI.1) hI
    · exact hI
  exact flowInv_of_fm (fm_flushDb _) (pok_flushDb h2.1) h2

theorem flowInv_init (g : Graph) : FlowInv (init g) := by
  unfold init loadFromPoint
  dsimp only
  have h0 : FlowInv (newFlow { stopPoint := g.stopPoint }).1 ∧ (newFlow { stopPoint := g.stopPoint }).2 = 1 := by
    refine ⟨⟨⟨?_, ?_⟩, ?_, ?_, ?_⟩, rfl⟩
    · intro y hy; simp at hy
    · intro y hy
      have : (newFlow { stopPoint := g.stopPoint }).1.ghosts = [] := rfl
      rw [this] at hy; cases hy
    · intro f hf
      have e : (newFlow { stopPoint := g.stopPoint }).1.flowsKnown = [1] := rfl
      have e2 : (newFlow { stopPoint := g.stopPoint }).1.flowsDb = [1] := rfl
      rw [e] at hf; rw [e2]; exact hf
    · intro f hf
      have e2 : (newFlow { stopPoint := g.stopPoint }).1.flowsDb = [1] := rfl
      have e3 : (newFlow { stopPoint := g.stopPoint }).1.flowCounter = 1 := rfl
      rw [e2] at hf
      have : f = 1 := by simpa using hf
      rw [e3, this]; exact Or.inl (Nat.le_refl 1)
    · have e2 : (newFlow { stopPoint := g.stopPoint }).1.flowsDb = [1] := rfl
      rw [e2]; exact List.mem_cons_self
  obtain ⟨hN, hN2⟩ := h0
  generalize newFlow { stopPoint := g.stopPoint } = N at hN hN2
  -- parentless spawning in the original flow
  have h1 : FlowInv (g.tasks.foldl (fun st t =>
      match t.firstParentless with
      | some p => spawnAndAdd g st t.name p [N.2]
      | none => st) N.1) := by
    apply foldl_inv FlowInv
    · intro st t hst
      split
      · apply flowInv_of_fm (fm_spawnAndAdd g st _ _ _) _ hst
        apply pok_spawnAndAdd g st _ _ _ hst.1
        intro a ha
        have : a = 1 := by rw [hN2] at ha; simpa using ha
        rw [this]; exact hst.2.2.2
      · exact hst
    · exact hN
  generalize (g.tasks.foldl (fun st t =>
      match t.firstParentless with
      | some p => spawnAndAdd g st t.name p [N.2]
      | none => st) N.1) = s1 at h1
  have h2 : FlowInv (releaseRunaheadN g 10 (computeRunahead g s1)) := by
    apply flowInv_of_fm (s := s1) (by rw [fm_releaseRunaheadN, fm_computeRunahead]) _ h1
    exact pok_releaseRunaheadN g 10 _ (pok_computeRunahead g s1 false h1.1)
  generalize releaseRunaheadN g 10 (computeRunahead g s1) = s2 at h2
  have h3 : FlowInv (s2.pool.foldl (fun st x => match st.get? x.pt x.name with
      | some y => queueIfReady st y | none => st) s2) := by
    apply foldl_inv FlowInv
    · intro st x hst
      split
      · rename_i y hy
        exact flowInv_of_fm (fm_queueIfReady st y) (pok_queueIfReady st y hst.1 (fok_of_get? hst.1 hy)) hst
      · exact hst
    · exact h2
  exact flowInv_of_fm (fm_flushDb _) (pok_flushDb h3.1) h3

theorem flowInv_step (g : Graph) (s : State) (op : Op) (h : FlowInv s) : FlowInv (step g s op) := by
  unfold step
  dsimp only
  have hc : FlowInv (clearOp s) := by
    refine ⟨⟨h.1.1, ?_⟩, h.2.1, h.2.2.1, h.2.2.2⟩
    intro y hy
    have : (clearOp s).ghosts = [] := rfl
    rw [this] at hy; cases hy
  generalize clearOp s = c at hc
  cases op with
  | loop => exact flowInv_of_fm (fm_mainLoop g c) (pok_mainLoop g c hc.1) hc
  | subres p n ok sn =>
    exact flowInv_of_fm (fm_processMessage g 4 c p n _ sn _ false) (pok_processMessage g 4 c p n _ sn _ false hc.1) hc
  | msg p n sn text => exact flowInv_of_fm (s := c) rfl (pok_of_eq rfl rfl hc.1) hc
  | hold ids => exact flowInv_of_fm (fm_holdTasks c ids) (pok_holdTasks c ids hc.1) hc
  | release ids => exact flowInv_of_fm (fm_releaseTasks c ids) (pok_releaseTasks c ids hc.1) hc
  | setHoldPoint p => exact flowInv_of_fm (fm_setHoldPoint c p) (pok_setHoldPoint c p hc.1) hc
  | releaseHoldPoint => exact flowInv_of_fm (fm_releaseHoldPoint c) (pok_releaseHoldPoint c hc.1) hc
  | stop mode => exact flowInv_of_fm (s := c) rfl (pok_of_eq rfl rfl hc.1) hc
  | stopPoint p => exact flowInv_of_fm (fm_setStopPoint c p) (pok_setStopPoint c p hc.1) hc
  | stopTask p n => exact flowInv_of_fm (s := c) rfl (pok_of_eq rfl rfl hc.1) hc
  | pause => exact flowInv_of_fm (s := c) rfl (pok_of_eq rfl rfl hc.1) hc
  | resume => exact flowInv_of_fm (s := c) rfl (pok_of_eq rfl rfl hc.1) hc
  | restart => exact flowInv_restart g c hc
  | set ids outs pre flow wait =>
    dsimp only
    split
    · exact flowInv_setCmd g c _ outs pre flow wait hc
    · exact hc

/-- **the flow invariant holds in every state of every run** (any instance graph, any list of main loops, submit
results, job messages, hold / stop / pause commands, `cylc set` commands and restarts) -/
theorem flowInv_run (g : Graph) (ops : List Op) : ∀ s ∈ run g ops, FlowInv s :=
  run_inv FlowInv g (flowInv_init g) (flowInv_step g) ops

end CylcModel.Sched3Set
