/-
C16 — Integer recurrences denote the clipped arithmetic progression.

Property statements only; the proofs are one-liners over `CylcModel/IntSeqLemmas.lean`.
`build f ex icp fcp` is the model of `IntegerSequence(text, icp, fcp)` for the
recurrence form `f` with exclusion list `ex`; all integers are unbounded.
-/
import CylcModel.IntSeqLemmas
namespace CylcModel.C16
open CylcModel.IntSeq

/-- The full-strength statement (membership = progression ∩ [icp,fcp], exclusions apart). -/
def points_spec_full : Prop :=
  ∀ (f : Form) (icp : Int) (fcp : Option Int) (s : Seq) (x : Int),
    build f [] icp fcp = .ok s → s.isValid x = f.specMem icp fcp x

/-- `points_spec_full` is false on the current code: `R1/0` from initial point 1 reports 0 valid
(known finding `oneoff-outside-context`). -/
theorem oneoff_outside_counterexample : ¬ points_spec_full := by
  intro h
  have := h (.r1Start (.abs 0)) 1 none ⟨⟨0, some 0, none⟩, false, [], []⟩ 0 (by rfl)
  revert this
  decide

/-- **Membership, exact reading of the code.** For every recurrence form, every exclusion list and every
context, a point is valid iff it is in the progression the form denotes, inside `[icp, fcp]`
(stepped forms; a one-off point is not checked against the context), and not excluded — where an
exclusion recurrence is read in the context `[start, stop]` of the outer sequence. -/
theorem points_spec_partial (f : Form) (ex : List ExclItem) (icp : Int) (fcp : Option Int) (s : Seq) (x : Int)
    (h : build f ex icp fcp = .ok s) :
    s.isValid x = (f.codeMem icp fcp x && !(exclCode ex s.core.start s.core.stop x)) :=
  seq_valid_spec f ex icp fcp s x h

/-- **Membership = the specification** whenever the progression is stepped, or is a single point
inside the context. -/
theorem points_spec_stepped (f : Form) (ex : List ExclItem) (icp : Int) (fcp : Option Int) (s : Seq) (x : Int)
    (h : build f ex icp fcp = .ok s)
    (hin : ∀ g, f.prog icp fcp = some g → g.step.isSome = true ∨ inContext icp fcp g.base = true) :
    s.isValid x = (f.specMem icp fcp x && !(exclCode ex s.core.start s.core.stop x)) := by
  rw [seq_valid_spec f ex icp fcp s x h]
  congr 1
  unfold Form.codeMem Form.specMem
  cases hp : f.prog icp fcp with
  | none => rfl
  | some g =>
    simp only
    rcases hin g hp with h1 | h1
    · cases hs : g.step with
      | none => rw [hs] at h1; cases h1
      | some k => simp
    · cases hs : g.step with
      | some k => simp
      | none =>
        simp only [Option.isNone_none, Bool.true_or, Bool.and_true]
        by_cases hm : g.mem x = true
        · have : x = g.base := by
            unfold Prog.mem at hm; rw [hs] at hm; simpa using hm
          rw [hm, this, h1]; rfl
        · have : g.mem x = false := by simpa using hm
          rw [this]; rfl

example : ∃ s, build (.startIntv (.abs 0) 3) [.pt 6, .seq (.intv 4)] 2 (some 20) = .ok s ∧
    s.isValid 9 = true ∧ s.isValid 6 = false ∧ s.isValid 4 = false := ⟨_, rfl, by decide⟩

/-- the stop point of a built stepped sequence lies on the sequence, and the interval is positive -/
theorem built_wellformed (f : Form) (icp : Int) (fcp : Option Int) (s : Seq)
    (h : build f [] icp fcp = .ok s) :
    s.hasExcl = false ∧ s.core.Aligned ∧ ∀ k, s.core.step = some k → 0 < k := by
  simp only [build, bind, Except.bind, List.isEmpty_nil, if_true, pure, Except.pure] at h
  split at h
  · cases h
  · rename_i c hc
    injection h with h; subst h
    exact ⟨rfl, build_aligned f icp fcp c hc, build_step_pos f icp fcp c hc⟩

/-- **next**: for an exclusion-free stepped sequence and `p ≥ start - step`, `get_next_point p` is the
least member greater than `p`, or `None` when there is none. -/
theorem next_spec (f : Form) (icp : Int) (fcp : Option Int) (s : Seq) (k : Int) (fuel : Nat) (p : Int)
    (h : build f [] icp fcp = .ok s) (hs : s.core.step = some k) (hp : s.core.start - k ≤ p) :
    ∃ r, s.nextPoint (fuel + 1) p = some r ∧
      (match r with
       | some q => s.isValid q = true ∧ p < q ∧ ∀ y, p < y → y < q → s.isValid y = false
       | none => ∀ y, p < y → s.isValid y = false) := by
  obtain ⟨hx, -, hk⟩ := built_wellformed f icp fcp s h
  exact next_spec_core s k hx hs (hk k hs) fuel p hp

/-- **previous**: for `p ≤ stop + step`, `get_prev_point p` is the greatest member less than `p`, or `None`. -/
theorem prev_spec (f : Form) (icp : Int) (fcp : Option Int) (s : Seq) (k : Int) (fuel : Nat) (p : Int)
    (h : build f [] icp fcp = .ok s) (hs : s.core.step = some k)
    (hp : ∀ e, s.core.stop = some e → p ≤ e + k) :
    ∃ r, s.prevPoint (fuel + 1) p = some r ∧
      (match r with
       | some q => s.isValid q = true ∧ q < p ∧ ∀ y, q < y → y < p → s.isValid y = false
       | none => ∀ y, y < p → s.isValid y = false) := by
  obtain ⟨hx, hal, hk⟩ := built_wellformed f icp fcp s h
  exact prev_spec_core s k hx hs (hk k hs) hal fuel p hp

/-- **first**: `get_first_point p` is the least member `≥ p`, or `None` (any `p`). -/
theorem first_spec (f : Form) (icp : Int) (fcp : Option Int) (s : Seq) (k : Int) (fuel : Nat) (p : Int)
    (h : build f [] icp fcp = .ok s) (hs : s.core.step = some k) :
    ∃ r, s.firstPoint (fuel + 1) p = some r ∧
      (match r with
       | some q => s.isValid q = true ∧ p ≤ q ∧ ∀ y, p ≤ y → y < q → s.isValid y = false
       | none => ∀ y, p ≤ y → s.isValid y = false) := by
  obtain ⟨hx, -, hk⟩ := built_wellformed f icp fcp s h
  exact first_spec_core s k hx hs (hk k hs) fuel p

/-- **start / stop**: of a non-empty stepped sequence are its least and greatest members
(`stop = None` exactly when the model's stop is `none`, i.e. the sequence is unbounded). -/
theorem start_stop_spec (f : Form) (icp : Int) (fcp : Option Int) (s : Seq) (k : Int) (fuel : Nat)
    (h : build f [] icp fcp = .ok s) (hs : s.core.step = some k) (hne : ∃ y, s.isValid y = true) :
    s.startPoint fuel = some (some s.core.start) ∧ s.isValid s.core.start = true ∧
      (∀ y, s.isValid y = true → s.core.start ≤ y) ∧
      s.stopPoint fuel = some s.core.stop ∧
      (∀ e, s.core.stop = some e → s.isValid e = true ∧ ∀ y, s.isValid y = true → y ≤ e) := by
  obtain ⟨hx, hal, hk⟩ := built_wellformed f icp fcp s h
  exact start_stop_spec_core s k hx hs (hk k hs) hal fuel hne

-- the hypotheses are satisfiable: `0/P3` from 2 to 20 is built, stepped, non-empty
example : ∃ s, build (.startIntv (.abs 0) 3) [] 2 (some 20) = .ok s ∧ s.core.step = some 3 ∧
    s.core.start = 3 ∧ s.core.stop = some 18 ∧ s.isValid 9 = true ∧
    s.nextPoint 1 4 = some (some 6) ∧ s.prevPoint 1 21 = some (some 18) := ⟨_, rfl, by decide⟩

end CylcModel.C16
