/-
C16 — Integer recurrences denote the clipped arithmetic progression.
Property statements only; helper lemmas live in `CylcModel/IntSeqLemmas.lean`.
-/
import CylcModel.IntSeq
namespace CylcModel.C16
open CylcModel.IntSeq

/-- The full-strength statement (membership = progression ∩ [icp,fcp], exclusions apart). -/
def points_spec_full : Prop :=
  ∀ (f : Form) (icp : Int) (fcp : Option Int) (s : Seq) (x : Int),
    build f [] icp fcp = .ok s → s.isValid x = f.specMem icp fcp x

/-- `points_spec_full` is false on the current code: `R1/0` from initial point 1 reports 0 valid. -/
theorem oneoff_outside_counterexample : ¬ points_spec_full := by
  intro h
  have := h (.r1Start (.abs 0)) 1 none ⟨⟨0, some 0, none⟩, false, [], []⟩ 0 (by rfl)
  revert this
  decide

end CylcModel.C16
