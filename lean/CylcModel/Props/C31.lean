/-
C31 — Sequential tasks never overlap and run in cycle order.
Property theorems only (proofs in `SchedLemmasC31`, from C01's `submit_sound` and the shape of the instance graph
of a sequential task, which is an explicit decidable hypothesis checked by the driver on every real graph).
-/
import CylcModel.SchedLemmasC31
import CylcModel.SchedEnvC02
namespace CylcModel.C31
open CylcModel.Sched

/-- **seq_order.** For a task `n` whose instance graph has the sequential shape (`g.seqShape n`: every instance
with an earlier instance carries the single-atom prerequisite `prev/n:succeeded`, initially satisfied only if
`prev` is before the start point), in every state of every run every launch of an instance `(p, n)` comes with
the `succeeded` output of the nearest previous instance recorded complete — unless that instance lies before
the start point. -/
theorem seq_order (g : Graph) (hwf : g.wf = true) (n : String) (hshape : g.seqShape n = true) (ops : List Op) :
    ∀ s ∈ run g ops, ∀ l ∈ s.launched, l.2.1 = n →
      ∀ t q, g.task? n = some t → prevInst t l.1 = some q →
        q < g.start ∨ completedB s ⟨q, n, "succeeded"⟩ = true :=
  seq_launch_after_prev hwf hshape ops

/-- **seq_no_overlap, full statement — NOT proved**: under the environment assumption (`envOK`: a failed
job-submission is reported only for an instance that is still preparing; jobs never send "submit-failed") and
for job messages carrying the submit number of a real launch, no two instances of a sequential task are
preparing, submitted or running in the same state.  It needs the status-regression guards of message
processing (C09/C10: a `succeeded` instance is not made active again) and the pairing of "output complete" with
"status succeeded" inside one message, which the atomic actions do not carry.
The judge checks it on every observation of every real run. -/
def seq_no_overlap_full : Prop :=
  ∀ (g : Graph) (n : String) (ops : List Op), g.wf = true → g.noSui = true → g.seqShape n = true →
    envOK2 g ops = true →
    ∀ s ∈ run g ops, ∀ x ∈ s.pool, ∀ y ∈ s.pool, x.name = n → y.name = n →
      (x.status = .preparing ∨ x.status.isActive = true) → (y.status = .preparing ∨ y.status.isActive = true) →
      x.pt = y.pt

/-- partial: a *queued* or launched instance of a sequential task has its previous-instance prerequisite
satisfied, in every state of every run — the next instance is not even queued before the previous one has
succeeded (invariant form of `seq_order`, from `C01.queued_only_when_satisfied`) -/
theorem seq_queued_after_prev (g : Graph) (hwf : g.wf = true) (ops : List Op) :
    ∀ s ∈ run g ops, ∀ x ∈ s.pool, x.queued = true → x.prereqsSatisfied = true ∧ Valid g (completedB s) x :=
  fun s hs x hx hq => ⟨((c01_run hwf ops s hs).2.queued x hx hq).1, (c01_run hwf ops s hs).2.valid x hx⟩

/-! ### non-vacuity -/

def stdOuts : List OutDef := [⟨"submitted", "submitted"⟩, ⟨"started", "started"⟩, ⟨"succeeded", "succeeded"⟩,
  ⟨"failed", "failed"⟩, ⟨"submit-failed", "submit-failed"⟩]

/-- one sequential task on points 1, 2, 3 (warm start at 2): instance 2 waits for 1 (before the start point),
instance 3 waits for 2 -/
def exGraph : Graph :=
  { icp := 1, fcp := 3, start := 2, runahead := 3, seqs := [[1, 2, 3]], stopPoint := some 3,
    tasks := [
      { name := "a",
        insts := [
          (1, { pre := [], sui := [], children := [("succeeded", [⟨"a", 2, false⟩])], nextParentless := some 2 }),
          (2, { pre := [{ atoms := [(⟨1, "a", "succeeded"⟩, true)], expr := none }], sui := [],
                children := [("succeeded", [⟨"a", 3, false⟩])], nextParentless := some 3 }),
          (3, { pre := [{ atoms := [(⟨2, "a", "succeeded"⟩, false)], expr := none }], sui := [],
                children := [], nextParentless := none })],
        firstParentless := some 2, completion := CE.var "succeeded", outputs := stdOuts }] }

-- the hypotheses hold for the example; instance 2 is launched (its predecessor is before the start point),
-- instance 3 is in the pool but not launched while 2 has not succeeded
example : exGraph.wf = true ∧ exGraph.seqShape "a" = true ∧
    (exGraph.task? "a").bind (fun t => prevInst t 3) = some 2 ∧
    (run exGraph [.loop, .loop]).map (·.launched) = [[], [(2, "a", 1)], []] ∧
    ((run exGraph [.loop, .loop]).map fun s => s.pool.map fun x => (x.pt, x.status, x.prereqsSatisfied)) =
      [[(2, .waiting, true), (3, .waiting, false)], [(2, .preparing, true), (3, .waiting, false)],
       [(2, .preparing, true), (3, .waiting, false)]] := by decide

end CylcModel.C31
