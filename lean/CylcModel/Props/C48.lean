/-
C48 — Installed run directories are numbered and runN tracks the latest.

"Successive installs of a workflow create run1, run2, ... without reusing a number, runN always
points to the most recent run, and an install never overwrites an existing run directory."

Statements are for **all** histories (any length) of install / install --run-name / install
--no-run-name / clean <run> / clean <workflow> / clean runN / reinstall / "user removes runN" /
"user points runN at another existing run" of the model `CylcModel/Install.lean`.

Reading of "without reusing a number": an install never takes the number of an existing run
directory, and (while the user has not re-pointed runN) takes one more than the highest existing
number; so numbers strictly increase as long as nothing is cleaned.  The stricter reading "a number
is never issued twice in a history" is false for the code (clean the latest run, install again) and
is kept as `never_reissued_full` with its counterexample.
-/
import CylcModel.InstallLemmas
namespace CylcModel.C48
open CylcModel.Install

def isInstall : Op → Bool
  | .install | .installNamed _ | .installFlat => true
  | _ => false

def isRelink : Op → Bool
  | .relink _ => true
  | _ => false

def isClean : Op → Bool
  | .clean _ | .cleanAll | .cleanRunN => true
  | _ => false

/-- **no_overwrite.** In every state (no invariant needed, so also after any user fiddling with
runN), an install of any kind leaves every existing run directory exactly as it was: either nothing
changes, or one new directory — whose name was not in use — is appended holding this install's
files; a workflow directory that is itself a run directory is never rewritten. -/
theorem no_overwrite (st : St) (stamp : Nat) (op : Op) (hop : isInstall op = true) :
    ((step st stamp op).1.runs = st.runs ∨
      ∃ id, id ∉ ids st ∧ (step st stamp op).1.runs = st.runs ++ [(id, stamp)] ∧ (step st stamp op).2 = .ok (some id)) ∧
    (∀ x, st.flat = some x → (step st stamp op).1.flat = some x) := by
  cases op with
  | install =>
    simp only [step]
    split
    · exact ⟨Or.inl rfl, fun x h => h⟩
    · split
      · exact ⟨Or.inl rfl, fun x h => h⟩
      · split
        · exact ⟨Or.inl rfl, fun x h => h⟩
        · rename_i h
          refine ⟨Or.inr ⟨.num (nextNum st), ?_, rfl, rfl⟩, fun x h => h⟩
          simpa using h
  | installNamed s =>
    simp only [step]
    split
    · exact ⟨Or.inl rfl, fun x h => h⟩
    · split
      · exact ⟨Or.inl rfl, fun x h => h⟩
      · split
        · exact ⟨Or.inl rfl, fun x h => h⟩
        · split
          · exact ⟨Or.inl rfl, fun x h => h⟩
          · rename_i h
            refine ⟨Or.inr ⟨.named s, ?_, rfl, rfl⟩, fun x h => h⟩
            simpa using h
  | installFlat =>
    simp only [step]
    split
    · exact ⟨Or.inl rfl, fun x h => h⟩
    · rename_i h
      refine ⟨Or.inl rfl, fun x hx => ?_⟩
      simp [baseExists, hx] at h
  | clean r => cases hop
  | cleanAll => cases hop
  | cleanRunN => cases hop
  | reinstall r => cases hop
  | reinstallFlat => cases hop
  | rmRunN => cases hop
  | relink k => cases hop

/-- one step keeps the invariant, unless the user re-points runN -/
theorem inv_step {st : St} (inv : Inv st) (stamp : Nat) (op : Op) (hop : isRelink op = false) :
    Inv (step st stamp op).1 := by
  cases op with
  | relink k => cases hop
  | install =>
    simp only [step]
    split
    · exact inv
    · have hno : Inv { st with runN := none } := ⟨inv.nodup, (by intro k hk; cases hk), fun hf => ⟨(inv.flat hf).1, rfl⟩⟩
      split
      · exact hno
      · split
        · exact hno
        · rename_i hflat hnew
          have hnew' : RunId.num (nextNum st) ∉ ids st := by simpa using hnew
          refine ⟨?_, ?_, ?_⟩
          · simp only [ids, List.map_append, List.map_cons, List.map_nil]
            exact List.nodup_append.2 ⟨inv.nodup, by simp, by
              intro a ha b hb; simp only [List.mem_cons, List.not_mem_nil, or_false] at hb
              subst hb; intro h; subst h; exact hnew' ha⟩
          · intro k hk
            simp only [Option.some.injEq] at hk
            subst hk
            refine ⟨by simp [ids], ?_⟩
            intro m hm
            rw [mem_nums] at hm
            simp only [ids, List.map_append, List.map_cons, List.map_nil, List.mem_append, List.mem_cons,
              List.not_mem_nil, or_false, RunId.num.injEq] at hm
            rcases hm with hm | hm
            · have := (nextNum_spec inv).1 m (mem_nums.2 hm); omega
            · omega
          · intro hf; simp only at hf; rw [Option.isSome_iff_ne_none] at hf
            exact absurd (by simpa using hflat) hf
  | installNamed s =>
    simp only [step]
    split
    · exact inv
    · split
      · exact inv
      · split
        · exact inv
        · split
          · exact inv
          · rename_i hnum hflat hnew
            have hnew' : RunId.named s ∉ ids st := by simpa using hnew
            have hnums : nums st = [] := hasNumbered_false (by simpa using hnum)
            refine ⟨?_, ?_, ?_⟩
            · simp only [ids, List.map_append, List.map_cons, List.map_nil]
              exact List.nodup_append.2 ⟨inv.nodup, by simp, by
                intro a ha b hb; simp only [List.mem_cons, List.not_mem_nil, or_false] at hb
                subst hb; intro h; subst h; exact hnew' ha⟩
            · intro k hk
              have := (inv.latest k hk).1
              have hk' : k ∈ nums st := mem_nums.2 this
              rw [hnums] at hk'; cases hk'
            · intro hf; simp only at hf; rw [Option.isSome_iff_ne_none] at hf
              exact absurd (by simpa using hflat) hf
  | installFlat =>
    simp only [step]
    split
    · exact inv
    · rename_i h
      have hb : st.runs = [] ∧ st.flat = none := by
        simp only [baseExists, Bool.or_eq_true, Bool.not_eq_true', Option.isSome_iff_ne_none, not_or] at h
        refine ⟨by simpa using h.1, by simpa using h.2⟩
      have hN : st.runN = none := by
        cases hk : st.runN with
        | none => rfl
        | some k => have := (inv.latest k hk).1; simp [ids, hb.1] at this
      exact ⟨inv.nodup, (by intro k hk; simp only at hk; rw [hN] at hk; cases hk), fun _ => ⟨hb.1, hN⟩⟩
  | clean r => exact inv_cleanRun inv r
  | cleanAll =>
    simp only [step]
    split
    · exact inv_init
    · exact inv
  | cleanRunN =>
    simp only [step]
    split
    · exact inv_cleanRun inv _
    · exact inv
  | reinstall r =>
    simp only [step]
    split
    · have hids : ids { st with runs := st.runs.map fun x => if x.1 == r then (r, stamp) else x } = ids st :=
        ids_reinstall st r stamp
      refine ⟨by rw [hids]; exact inv.nodup, ?_, ?_⟩
      · intro k hk
        rcases inv.latest k hk with ⟨h1, h2⟩
        refine ⟨by rw [hids]; exact h1, fun m hm => h2 m ?_⟩
        rw [mem_nums] at hm ⊢; rw [hids] at hm; exact hm
      · intro hf
        have := inv.flat hf
        exact ⟨by simp [this.1], this.2⟩
    · exact inv
  | reinstallFlat =>
    simp only [step]
    split
    · rename_i x hx
      have := inv.flat (by rw [hx]; rfl)
      exact ⟨inv.nodup, inv.latest, fun _ => this⟩
    · exact inv
  | rmRunN =>
    simp only [step]
    exact ⟨inv.nodup, (by intro k hk; cases hk), fun hf => ⟨(inv.flat hf).1, rfl⟩⟩

/-- **inv_preserved.** Along every history in which the user does not re-point runN, starting from
nothing installed, the invariant holds after every prefix: run directories are distinct, and runN —
whenever it exists — points to an existing numbered run that is the highest-numbered (most recently
created) one. -/
theorem inv_preserved (ops : List Op) (hops : ∀ op ∈ ops, isRelink op = false) :
    ∀ (st : St) (i0 : Nat), Inv st → Inv (finalFrom st i0 ops) := by
  induction ops with
  | nil => intro st i0 h; exact h
  | cons op ops ih =>
    intro st i0 h
    simp only [finalFrom]
    exact ih (fun o ho => hops o (by simp [ho])) _ _ (inv_step h _ op (hops op (by simp)))

/-- **runN_latest.** After any relink-free history from nothing installed: if runN exists it points
to an existing run and no existing run has a higher number. -/
theorem runN_latest (ops : List Op) (hops : ∀ op ∈ ops, isRelink op = false) (k : Nat)
    (hk : (finalFrom init 0 ops).runN = some k) :
    RunId.num k ∈ ids (finalFrom init 0 ops) ∧ ∀ m ∈ nums (finalFrom init 0 ops), m ≤ k :=
  (inv_preserved ops hops init 0 inv_init).latest k hk

/-- **fresh_number.** In a state satisfying the invariant, a successful numbered install creates
`run n` where `n` is above every existing run number — exactly one more than the highest (1 when
there is none) —, `run n` did not exist, and afterwards runN points to it. -/
theorem fresh_number (st st' : St) (stamp n : Nat) (inv : Inv st)
    (h : step st stamp .install = (st', .ok (some (.num n)))) :
    (∀ m ∈ nums st, m < n) ∧ n = maxList (nums st) + 1 ∧ RunId.num n ∉ ids st ∧
    st'.runN = some n ∧ st'.runs = st.runs ++ [(.num n, stamp)] := by
  simp only [step] at h
  split at h
  · cases h
  · split at h
    · cases h
    · split at h
      · cases h
      · rename_i hnew
        simp only [Prod.mk.injEq, Res.ok.injEq, Option.some.injEq, RunId.num.injEq] at h
        rcases h with ⟨h1, h2⟩
        subst h2; subst h1
        exact ⟨(nextNum_spec inv).1, (nextNum_spec inv).2, by simpa using hnew, rfl, rfl⟩

/-- **runN_survives_other_ops.** Cleaning (or reinstalling) never disturbs a runN link whose target is
still there: in every state, after `clean <run>`, `clean runN`, a reinstall — anything but an install,
`clean <workflow>` or the user touching the link — if runN pointed to `run k` and `run k` still exists
afterwards, runN still points to `run k`. -/
theorem runN_survives_other_ops (st : St) (stamp k : Nat) (op : Op)
    (hop : isInstall op = false ∧ isRelink op = false ∧ op ≠ .rmRunN)
    (hk : st.runN = some k) (hstill : RunId.num k ∈ ids (step st stamp op).1) :
    (step st stamp op).1.runN = some k := by
  have hclean : ∀ r, RunId.num k ∈ ids (cleanRun st r) → (cleanRun st r).runN = some k := by
    intro r h
    unfold cleanRun at h ⊢
    by_cases hc : (ids st).contains r = true
    · simp only [hc, if_true] at h ⊢
      rw [hk]
      by_cases hr : (r == RunId.num k) = true
      · exfalso
        have hr' : r = RunId.num k := by simpa using hr
        subst hr'
        have hf := ids_filter st (fun x => x != RunId.num k)
        simp only [ids] at h hf
        rw [hf] at h
        simp at h
      · simp [hr]
    · simp only [hc, Bool.false_eq_true, if_false]; exact hk
  cases op with
  | install => simp [isInstall] at hop
  | installNamed s => simp [isInstall] at hop
  | installFlat => simp [isInstall] at hop
  | relink j => simp [isRelink] at hop
  | rmRunN => simp at hop
  | clean r => exact hclean r hstill
  | cleanAll =>
    simp only [step] at hstill ⊢
    split
    · rename_i hb; simp [hb, ids, init] at hstill
    · exact hk
  | cleanRunN =>
    simp only [step, hk] at hstill ⊢
    exact hclean _ hstill
  | reinstall r => simp only [step]; split <;> exact hk
  | reinstallFlat => simp only [step]; split <;> exact hk

/-- the state after `j` plain installs -/
def afterInstalls (j : Nat) : St :=
  ⟨(List.range j).map fun i => (.num (i + 1), i + 1), if j = 0 then none else some j, none⟩

theorem nums_afterInstalls (j : Nat) : nums (afterInstalls j) = (List.range j).map (· + 1) := by
  simp [nums, ids, afterInstalls, List.filterMap_map, Function.comp_def, numOf]

theorem step_afterInstalls (j : Nat) :
    step (afterInstalls j) (j + 1) .install = (afterInstalls (j + 1), .ok (some (.num (j + 1)))) := by
  have hnamed : hasNamed (afterInstalls j) = false := by
    simp [hasNamed, ids, afterInstalls, numOf]
  have hnext : nextNum (afterInstalls j) = j + 1 := by
    unfold nextNum
    by_cases hj : j = 0
    · subst hj; simp [afterInstalls, nums, ids, maxList]
    · simp [afterInstalls, hj]
  have hnew : (ids (afterInstalls j)).contains (.num (j + 1)) = false := by
    simp [ids, afterInstalls]
  simp only [step, hnamed, hnext, hnew]
  simp [afterInstalls, List.range_succ]

/-- **successive_installs.** `n` successive installs of a workflow, starting from nothing, create
exactly run1, run2, ..., run n (each holding its own install's files) and leave runN → run n. -/
theorem successive_installs (n : Nat) :
    finalFrom init 0 (List.replicate n .install) = afterInstalls n := by
  have gen : ∀ m j, finalFrom (afterInstalls j) j (List.replicate m .install) = afterInstalls (j + m) := by
    intro m
    induction m with
    | zero => intro j; rfl
    | succ m ih =>
      intro j
      simp only [List.replicate_succ, finalFrom, step_afterInstalls]
      rw [ih (j + 1)]
      congr 1; omega
  have := gen n 0
  simpa [afterInstalls, init] using this

/-- **numbers_increase_without_clean.** Along every history without clean operations and without
re-pointing of runN (installs of every kind, reinstalls, removal of the runN link — in any order and
number), the numbers issued to successive numbered installs strictly increase: no number is ever
used twice. -/
theorem numbers_increase_without_clean (ops : List Op)
    (hops : ∀ op ∈ ops, isRelink op = false ∧ isClean op = false) :
    (issuedFrom init 0 ops).Pairwise (· < ·) := by
  have gen : ∀ (ops : List Op), (∀ op ∈ ops, isRelink op = false ∧ isClean op = false) →
      ∀ (st : St) (i0 : Nat), Inv st →
      (issuedFrom st i0 ops).Pairwise (· < ·) ∧ ∀ n ∈ issuedFrom st i0 ops, ∀ m ∈ nums st, m < n := by
    intro ops
    induction ops with
    | nil => intro _ st i0 _; simp [issuedFrom]
    | cons op ops ih =>
      intro hops st i0 inv
      have hop := hops op (by simp)
      have inv' := inv_step inv (i0 + 1) op hop.1
      have ih' := ih (fun o ho => hops o (by simp [ho])) (step st (i0 + 1) op).1 (i0 + 1) inv'
      -- existing numbers are kept by every operation that is not a clean
      have hmono : ∀ m ∈ nums st, m ∈ nums (step st (i0 + 1) op).1 := by
        intro m hm
        rw [mem_nums] at hm ⊢
        cases op with
        | install =>
          simp only [step]
          split
          · exact hm
          · split
            · exact hm
            · split
              · exact hm
              · simp [ids] at hm ⊢; first | exact hm | exact Or.inl hm
        | installNamed s =>
          simp only [step]
          split
          · exact hm
          · split
            · exact hm
            · split
              · exact hm
              · split
                · exact hm
                · simp [ids] at hm ⊢; first | exact hm | exact Or.inl hm
        | installFlat => simp only [step]; split <;> exact hm
        | reinstall r =>
          simp only [step]
          split
          · have := ids_reinstall st r (i0 + 1); simp only [ids] at this hm ⊢; rw [this]; exact hm
          · exact hm
        | reinstallFlat => simp only [step]; split <;> exact hm
        | rmRunN => exact hm
        | clean r => simp [isClean] at hop
        | cleanAll => simp [isClean] at hop
        | cleanRunN => simp [isClean] at hop
        | relink k => simp [isRelink] at hop
      simp only [issuedFrom]
      split
      · -- a successful numbered install
        rename_i k hres
        have hstep : step st (i0 + 1) .install = ((step st (i0 + 1) .install).1, .ok (some (.num k))) := by
          rw [← hres]
        rcases fresh_number st _ (i0 + 1) k inv hstep with ⟨hgt, _, _, _, hruns⟩
        have hk : k ∈ nums (step st (i0 + 1) .install).1 := by
          rw [mem_nums]; simp [ids, hruns]
        refine ⟨List.pairwise_cons.2 ⟨fun n hn => ih'.2 n hn k hk, ih'.1⟩, ?_⟩
        intro n hn m hm
        rcases List.mem_cons.1 hn with hn | hn
        · subst hn; exact hgt m hm
        · exact ih'.2 n hn m (hmono m hm)
      · exact ⟨ih'.1, fun n hn m hm => ih'.2 n hn m (hmono m hm)⟩
  exact (gen ops hops init 0 inv_init).1

/-- The strict reading: over a whole history no run number is issued twice. -/
def never_reissued_full : Prop :=
  ∀ ops : List Op, (∀ op ∈ ops, isRelink op = false) → (issuedFrom init 0 ops).Nodup

/-- It fails on the code as it is: install (run1), clean run1, install — run1 again.  The same
happens whenever the highest-numbered run is cleaned (`clean` removes a runN link that pointed to it
and the next number is then taken from the remaining directories). -/
theorem never_reissued_counterexample : ¬ never_reissued_full := by
  intro h
  have := h [.install, .clean (.num 1), .install] (by decide)
  revert this
  decide

/-! ### non-vacuity -/

/-- a history with a cleaned middle run, a removed link and a reinstall satisfies the hypotheses of
`inv_preserved` / `runN_latest`, and ends with runN → run4, the highest run -/
example : (finalFrom init 0 [.install, .install, .install, .clean (.num 2), .rmRunN, .reinstall (.num 1), .install]).runN = some 4 := by decide
example : ∀ op ∈ [Op.install, .install, .install, .clean (.num 2), .rmRunN, .reinstall (.num 1), .install], isRelink op = false := by decide
example : nums (finalFrom init 0 [.install, .install, .install, .clean (.num 2), .rmRunN, .reinstall (.num 1), .install]) = [1, 3, 4] := by decide

/-- `fresh_number` applies: a state with run1 and run3 (run2 cleaned) gives run4 -/
example : step ⟨[(.num 1, 1), (.num 3, 3)], some 3, none⟩ 9 .install
    = (⟨[(.num 1, 1), (.num 3, 3), (.num 4, 9)], some 4, none⟩, .ok (some (.num 4))) := by decide
example : Inv ⟨[(.num 1, 1), (.num 3, 3)], some 3, none⟩ :=
  ⟨by decide, by
    intro k hk
    simp only [Option.some.injEq] at hk
    subst hk
    exact ⟨by decide, by decide⟩, by simp⟩

/-- `no_overwrite` is not about refusals only: a successful install appends, and a refused one (runN
re-pointed at run1 while run2 exists) changes no directory -/
example : (step ⟨[(.num 1, 1), (.num 2, 2)], some 1, none⟩ 5 .install)
    = (⟨[(.num 1, 1), (.num 2, 2)], none, none⟩, .err) := by decide
example : isInstall (.installNamed "a") = true := rfl

/-- `runN_survives_other_ops` applies: run1 of run1..run3 is cleaned, runN keeps pointing to run3 -/
example : (step ⟨[(.num 1, 1), (.num 2, 2), (.num 3, 3)], some 3, none⟩ 4 (.clean (.num 1))).1
    = ⟨[(.num 2, 2), (.num 3, 3)], some 3, none⟩ := by decide

/-- `numbers_increase_without_clean` on a mixed history -/
example : issuedFrom init 0 [.install, .installNamed "a", .rmRunN, .install, .reinstall (.num 1), .install] = [1, 2, 3] := by decide
example : ∀ op ∈ [Op.install, .installNamed "a", .rmRunN, .install, .reinstall (.num 1), .install],
    isRelink op = false ∧ isClean op = false := by decide

example : finalFrom init 0 (List.replicate 3 .install) = ⟨[(.num 1, 1), (.num 2, 2), (.num 3, 3)], some 3, none⟩ := by decide

end CylcModel.C48
