/-
C10 — Stale, duplicate and out-of-order job messages cannot corrupt state.

Statements only; proofs by reference to `SchedLemmasC10` (per-task message step function `Msg.step`) and to
the simulation `pm_sim` of `SchedLemmasC09` (`Sched.processMessage` acts on the addressed proxy as `Msg.step`).

What the text claims and what is proved:
* stale: proved in full for received messages (`stale_ignored`, also for the whole `Sched` state) and for
  poll results (`stale_poll_ignored`: jobs-poll output is dispatched by the current submit number; the message
  step function alone would not do, `stale_poll_counterexample`).
* backward: proved (`backward_polls`), with "backwards" read off the lifecycle of the property text.
* convergence: proved in the form "any interleaving (duplicates, stale messages, earlier poll results)
  followed by the poll result of the job's actual outcome ends in that outcome", for the outcomes
  succeeded, failed (retry registered exactly once) and submission failed.  The text's reading without the
  final truthful poll result is false (`late_poll_counterexample`, finding late-poll).
-/
import CylcModel.SchedLemmasC10
namespace CylcModel.C10
open CylcModel.Sched CylcModel.Msg

def exT : TaskDefn :=
  { name := "a",
    insts := [(1, { pre := [], sui := [], children := [], nextParentless := none })],
    firstParentless := some 1,
    completion := CE.and (CE.var "succeeded") (CE.var "x"),
    outputs := [⟨"submitted", "submitted"⟩, ⟨"started", "started"⟩, ⟨"succeeded", "succeeded"⟩,
                ⟨"failed", "failed"⟩, ⟨"submit-failed", "submit-failed"⟩, ⟨"x", "xx"⟩],
    execRetries := 1 }

def exGraph : Graph :=
  { icp := 1, fcp := 1, start := 1, runahead := 1, seqs := [[1]], stopPoint := some 1, tasks := [exT] }

/-- a proxy of the example task in its `sn`-th job -/
def exP (st : Status) (done : List String) (sn : Nat) (execTry : Nat := 0) : PS :=
  { x := { pt := 1, name := "a", status := st, submitNum := sn, done := done, runahead := false, execTry := execTry },
    tr := false }

theorem exT_std : StdOut (some exT) := by unfold StdOut; decide

/-! ### stale messages -/

/-- **a message received from a job with another (in particular an older) submit number changes nothing**:
status, outputs, try counters, no poll — for every message text and fuel. -/
theorem stale_ignored (ot : Option TaskDefn) (fuel : Nat) (ps : PS) (sn : Nat) (msg : String)
    (htr : ps.tr = false) (hsn : sn ≠ ps.x.submitNum) : step ot fuel ps .received sn msg = (ps, false) :=
  stale_step ot fuel ps sn msg htr hsn

/-- … and at the scheduler level the whole state (pool, DB history, everything) is unchanged, for every
instance graph and state -/
theorem stale_ignored_sched (g : Graph) (fuel : Nat) (s : State) (p : Int) (n : String) (x : Proxy) (sn : Nat)
    (msg : String) (h : s.get? p n = some x) (hsn : sn ≠ x.submitNum) :
    processMessage g fuel s p n .received sn msg = (s, false) :=
  pm_stale g fuel s p n x sn msg h hsn

example : step (some exT) 4 (exP .running ["submitted", "started"] 2) .received 1 "failed" =
    (exP .running ["submitted", "started"] 2, false) := stale_ignored _ _ _ _ _ rfl (by decide)

/-- the message step function alone does not protect against information of an older job: a POLLED message
is processed whatever submit number accompanies it (`process_message` checks submit numbers only for
received messages) … -/
def stale_full : Prop :=
  ∀ (ot : Option TaskDefn) (ps : PS) (flag : Flag) (sn : Nat) (msg : String), ps.tr = false → flag ≠ .internal →
    sn < ps.x.submitNum → (step ot 4 ps flag sn msg).1.x.status = ps.x.status

theorem stale_poll_counterexample : ¬ stale_full := by
  intro h
  have := h (some exT) (exP .preparing ["submitted", "started"] 2 1) .polled 1 "started" rfl (by decide) (by decide)
  revert this; decide

/-- … the protection for poll results is the dispatch of jobs-poll output by point / name / current submit
number (`Msg.stepX`, `TaskJobManager._manip_task_jobs_callback`): **the result of a poll of an older job
(or of any job other than the current one) changes nothing** -/
theorem stale_poll_ignored (g : Graph) (s : State) (p : Int) (n : String) (x : Proxy) (sn : Nat) (text : String)
    (h : s.get? p n = some x) (hsn : sn ≠ x.submitNum) : stepX g s (.poll p n sn text) = clearOp s := by
  show (if pollMatches s p n sn then _ else clearOp s) = clearOp s
  have : pollMatches s p n sn = false := by
    unfold pollMatches; rw [h]
    simp only [Bool.and_eq_false_iff, beq_eq_false_iff_ne]
    left; exact fun e => hsn e.symm
  rw [this]; rfl

/-! ### backward messages -/

/-- **a received message of the current job that announces a status behind the current one (lifecycle
position `Msg.phase`) requests a poll and leaves the status unchanged** -/
theorem backward_polls (ot : Option TaskDefn) (hs : StdOut ot) (f : Nat) (ps : PS) (sn : Nat) (msg : String) (k : Nat)
    (hd : dropped ps .received sn = false) (hm : msgPhase? msg = some k) (hlt : k < phase ps.x.status) :
    (step ot (f + 3) ps .received sn msg).2 = true ∧ (step ot (f + 3) ps .received sn msg).1.x.status = ps.x.status :=
  backward_step ot hs f ps sn msg k hd hm hlt

/-- the same at the scheduler level: the poll is requested by `Sched.processMessage` and the status of the
pooled proxy is unchanged (graphs without self-children, state without transient objects) -/
theorem backward_polls_sched (g : Graph) (hwf : noSelfChild g = true) (s : State) (p : Int) (n : String)
    (x : Proxy) (hs : StdOut (g.task? n)) (h : s.get? p n = some x) (hgh : s.ghosts = [])
    (sn : Nat) (msg : String) (k : Nat)
    (hd : dropped ⟨x, false⟩ .received sn = false) (hm : msgPhase? msg = some k) (hlt : k < phase x.status) :
    (processMessage g 4 s p n .received sn msg).2 = true ∧
    ∀ x', (processMessage g 4 s p n .received sn msg).1.get? p n = some x' → x'.status = x.status := by
  have hsim : Sim p n s ⟨x, false⟩ := by
    refine ⟨by unfold lookup; rw [h], ?_⟩
    intro _ y hy; rw [hgh] at hy; simp at hy
  obtain ⟨h1, h2⟩ := pm_sim g hwf p n 4 s ⟨x, false⟩ .received sn msg hsim
  obtain ⟨b1, b2⟩ := backward_step (g.task? n) hs 1 ⟨x, false⟩ sn msg k hd hm hlt
  refine ⟨h2.trans b1, ?_⟩
  intro x' hx'
  have hl : lookup (processMessage g 4 s p n .received sn msg).1 p n = some (x', false) := by
    unfold lookup; rw [hx']
  have := h1.1
  rw [hl] at this
  simp only [Option.some.injEq, Prod.mk.injEq] at this
  rw [this.1]; exact b2

/-- `started` arriving after `succeeded` -/
example : (step (some exT) 4 (exP .succeeded ["submitted", "started", "succeeded"] 1) .received 1 "started").2 = true := by
  decide

/-! ### convergence -/

/-- **outcome succeeded**: after any sequence of deliveries to a task whose job exists (not waiting) in which
no failure event occurs — duplicates, messages in any order, stale messages, poll results — the poll
result `succeeded` ends in status succeeded with submitted, started, succeeded complete, no poll pending,
and every output completed on the way still complete. -/
theorem converges_succeeded (ot : Option TaskDefn) (hs : StdOut ot) (ps : PS) (ms : List Dlv) (sn : Nat)
    (hw : ps.x.status ≠ .waiting) (hms : ∀ m ∈ ms, m.text ≠ "failed" ∧ m.text ≠ "submit-failed") :
    (step ot 4 (deliver ot ps ms) .polled sn "succeeded").2 = false ∧
    (step ot 4 (deliver ot ps ms) .polled sn "succeeded").1.x.status = .succeeded ∧
    "submitted" ∈ (step ot 4 (deliver ot ps ms) .polled sn "succeeded").1.x.done ∧
    "started" ∈ (step ot 4 (deliver ot ps ms) .polled sn "succeeded").1.x.done ∧
    (hasOut ot "succeeded" = true → "succeeded" ∈ (step ot 4 (deliver ot ps ms) .polled sn "succeeded").1.x.done) ∧
    (∀ a, a ∈ ps.x.done → a ∈ (step ot 4 (deliver ot ps ms) .polled sn "succeeded").1.x.done) :=
  converge_succeeded ot hs ps ms sn hw hms

/-- **outcome failed**: whatever is delivered before (anything but a submission failure), the poll result
`failed` leaves the task failed with its try counter unchanged when no execution retry was left, and
waiting with exactly one more try when one was — duplicates of the failure cannot burn retries — unless the
proxy has already left the pool (finished and complete). -/
theorem converges_failed (ot : Option TaskDefn) (hs : StdOut ot) (ps : PS) (ms : List Dlv) (sn : Nat)
    (hw : ps.x.status ≠ .waiting)
    (hf : ps.x.status = .failed → ¬ (ps.x.submitNum > 0 ∧ ps.x.execTry < execMax ot))
    (hms : ∀ m ∈ ms, m.text ≠ "submit-failed") :
    (step ot 4 (deliver ot ps ms) .polled sn "failed").1.tr = true ∨
    ((step ot 4 (deliver ot ps ms) .polled sn "failed").1.x.status = .failed ∧
      (step ot 4 (deliver ot ps ms) .polled sn "failed").1.x.execTry = ps.x.execTry ∧
      ¬ (ps.x.submitNum > 0 ∧ ps.x.execTry < execMax ot)) ∨
    ((step ot 4 (deliver ot ps ms) .polled sn "failed").1.x.status = .waiting ∧
      (step ot 4 (deliver ot ps ms) .polled sn "failed").1.x.execTry = ps.x.execTry + 1 ∧
      (ps.x.submitNum > 0 ∧ ps.x.execTry < execMax ot)) :=
  converge_failed ot hs ps ms sn hw hf hms

/-- **outcome submission failed** (duplicates of the submit result, stale messages, poll results before it) -/
theorem converges_submit_failed (ot : Option TaskDefn) (hs : StdOut ot) (ps : PS) (ms : List Dlv) (sn : Nat)
    (hw : ps.x.status ≠ .waiting)
    (hf : ps.x.status = .submitFailed → ¬ (ps.x.submitNum > 0 ∧ ps.x.subTry < subMax ot))
    (hms : ∀ m ∈ ms, m.text ≠ "failed" ∧ m.text ≠ "started" ∧ m.text ≠ "succeeded") :
    (step ot 4 (deliver ot ps ms) .polled sn "submit-failed").1.tr = true ∨
    ((step ot 4 (deliver ot ps ms) .polled sn "submit-failed").1.x.status = .submitFailed ∧
      (step ot 4 (deliver ot ps ms) .polled sn "submit-failed").1.x.subTry = ps.x.subTry ∧
      ¬ (ps.x.submitNum > 0 ∧ ps.x.subTry < subMax ot)) ∨
    ((step ot 4 (deliver ot ps ms) .polled sn "submit-failed").1.x.status = .waiting ∧
      (step ot 4 (deliver ot ps ms) .polled sn "submit-failed").1.x.subTry = ps.x.subTry + 1 ∧
      (ps.x.submitNum > 0 ∧ ps.x.subTry < subMax ot)) :=
  converge_subfailed ot hs ps ms sn hw hf hms

/-- the hypotheses of the convergence theorems are met by: a running first job, a duplicate `started`, a
stale `failed` of job 0, the job's own `failed` twice (one retry configured), then the poll result -/
example : (exP .running ["submitted", "started"] 1).x.status ≠ .waiting ∧
    (∀ m ∈ [(⟨.received, 1, "started"⟩ : Dlv), ⟨.received, 0, "failed"⟩, ⟨.received, 1, "failed"⟩,
      ⟨.received, 1, "failed"⟩], m.text ≠ "submit-failed") ∧
    (step (some exT) 4 (deliver (some exT) (exP .running ["submitted", "started"] 1)
      [⟨.received, 1, "started"⟩, ⟨.received, 0, "failed"⟩, ⟨.received, 1, "failed"⟩, ⟨.received, 1, "failed"⟩])
      .polled 1 "failed").1.x.execTry = 1 := by decide

/-- the text without the final truthful poll result: `succeeded` processed, then a poll result `started`
that was overtaken by it — the task ends running (finding late-poll) -/
def converge_full : Prop :=
  ∀ (ot : Option TaskDefn) (ps : PS) (ms : List Dlv), Good ps.x → ps.x.status = .running →
    (∀ m ∈ ms, m.sn = ps.x.submitNum ∧ (m.text = "succeeded" ∨ m.text = "started")) →
    (∃ m ∈ ms, m.text = "succeeded") → (deliver ot ps ms).x.status = .succeeded

theorem late_poll_counterexample : ¬ converge_full := by
  intro h
  have := h (some exT) (exP .running ["submitted", "started"] 1)
    [⟨.received, 1, "succeeded"⟩, ⟨.polled, 1, "started"⟩] (by unfold Good; decide) rfl (by decide) (by decide)
  have h1 : (deliver (some exT) (exP .running ["submitted", "started"] 1)
      [⟨.received, 1, "succeeded"⟩, ⟨.polled, 1, "started"⟩]).x.status = .running := by
    unfold deliver
    simp only [List.foldl]
    have hnd : dropped (step (some exT) 4 (exP .running ["submitted", "started"] 1) .received 1 "succeeded").1
        .polled 1 = false := by
      apply dropped_of_not_waiting _ _ _ _ (by decide)
      obtain ⟨_, _, hst, _⟩ := sum_succeeded (some exT) exT_std 1 (exP .running ["submitted", "started"] 1)
        .received 1 (by decide)
      rw [hst]; decide
    obtain ⟨_, ⟨s2, hs2, hb⟩, _⟩ := sum_started (some exT) exT_std 2 _ .polled 1 hnd
    rcases hb with ⟨_, hfl, _⟩ | ⟨_, _, hst⟩
    · exact absurd hfl (by decide)
    · exact hst
  rw [h1] at this
  exact absurd this (by decide)

end CylcModel.C10
