/-
C10 — placeholder while the lemma files are being written.
-/
import CylcModel.Msg
namespace CylcModel.C10
end CylcModel.C10
