/-
C38 — `cylc clean` deletes only inside the workflow.
Property statements only; helper lemmas live in `CylcModel/FsLemmas.lean` and
`CylcModel/PathCleanLemmas.lean`.

Prose ↔ statements.
"any accepted --rm pattern"            = `parseRmDirs sp items = some pats`, `pat ∈ pats` (every input text,
                                          every reading of `str.isspace`): `rm_dirs_normalised`, `rm_dirs_inside`.
"any run directory tree with standard symlink directories and any other symlinks pointing elsewhere"
                                        = every `fs : Fs` (finite table path ↦ file | dir | link), every run
                                          dir, every fuel; the standard symlink dirs are what
                                          `getSymlinkDirs` (model of `get_symlink_dirs`) returns.
"deletes only paths inside the workflow run directory or inside the targets of its standard symlink
 directories"                           = `clean_contained` (`Inside`), built on `clean_glob_contained`,
                                          for arbitrary raw glob results (even adversarial ones).
"never follows other symlinks"          = `glob_filter_safe` + `clean_contained`: whatever is reached through a
                                          link that is not a standard symlink dir is filtered out, and what is
                                          deleted is resolved below the run dir / the targets only.
"deletes every path the pattern matches"= `glob_filter_covers` + `clean_complete_partial` (no exception ⇒ every
                                          match reachable without a foreign symlink is gone) +
                                          `removal_never_aborts` (with the guard probed as `skipsMissing`) —
                                          `clean_complete_full` fails on the unguarded code:
                                          `clean_complete_counterexample`.
The housekeeping after the deletion (`runN`, `_cylc-install`, empty parents) is the only thing that
touches anything else: `clean_deletes_only` (`TidyPath`) and `tidy_removes_only_empty_dirs`.
-/
import CylcModel.PathCleanLemmas
namespace CylcModel.C38
open CylcModel.Fs CylcModel.PathClean CylcModel.PathName

/-! ### accepted patterns -/

/-- Every pattern `parse_rm_dirs` accepts is relative and normalised: a non-empty `/`-joined list of
proper components (non-empty, not `.`, not `..`, no `/`), optionally followed by one `/`. -/
theorem rm_dirs_normalised (sp : Char → Bool) (items pats : List Str)
    (h : parseRmDirs sp items = some pats) (pat : Str) (hp : pat ∈ pats) :
    ∃ cs : List Str, cs ≠ [] ∧ (∀ c ∈ cs, Proper c) ∧ (pat = joinSlash cs ∨ pat = joinSlash cs ++ ['/']) := by
  obtain ⟨part, hpart⟩ := parseRmDirs_mem sp items pats h pat hp
  exact parsePart_ok sp part pat hpart

example : parseRmDirs (fun c => c = ' ') ["q/../b/*: c/ ".toList, "./d//e".toList] =
    some ["b/*".toList, "c/".toList, "d/e".toList] := by decide

example : parseRmDirs (fun c => c = ' ') ["a/../../b".toList] = none ∧
    parseRmDirs (fun c => c = ' ') ["/a".toList] = none ∧
    parseRmDirs (fun c => c = ' ') ["a:.".toList] = none := by decide

/-- Every lexical match of an accepted pattern lies under the directory the glob starts in: the
matched path consists of proper names only, so normalising `run_dir/match` cancels nothing — it is
`run_dir` followed by the matched names (for every run dir, every fnmatch relation, every directory
content whose entry names are proper). -/
theorem rm_dirs_inside (sp : Char → Bool) (items pats : List Str)
    (h : parseRmDirs sp items = some pats) (pat : Str) (hp : pat ∈ pats)
    (isEntry : Str → Prop) (fn : Str → Str → Prop) (hE : ∀ n, isEntry n → Proper n)
    (ns : List Str) (hm : LexMatch isEntry fn (splitSlash pat) ns) (runD : List Str) :
    (∀ n ∈ ns, Proper n) ∧ (normGo true runD.reverse ns).reverse = runD ++ ns := by
  obtain ⟨part, hpart⟩ := parseRmDirs_mem sp items pats h pat hp
  have hprop := lexMatch_proper isEntry fn hE _ ns hm (parsePart_split sp part pat hpart)
  refine ⟨hprop, ?_⟩
  have := normGo_push true ns [] runD.reverse hprop
  simp only [List.append_nil] at this
  rw [this]
  simp [normGo]

example : LexMatch (fun n => Proper n) (fun _ _ => True) (splitSlash "b/*/".toList)
    ["b".toList, "x".toList] := by
  have : splitSlash "b/*/".toList = ["b".toList, "*".toList, []] := by decide
  rw [this]
  exact .lit _ _ _ (by decide) (by decide)
    (.magic "*".toList "x".toList _ _ (by decide) (by decide) (by decide) trivial .slash)

/-! ### the glob filter -/

/-- Every path returned by `glob_in_run_dir` has no ancestor (from the run dir down to its parent)
that is a symlink other than one of the given symlink dirs. -/
theorem glob_filter_safe (fs : Fs) (n : Nat) (runDir : P) (sds raw : List P) :
    ∀ p ∈ globInRunDir fs n runDir sds raw, ∀ k, k < p.length →
      isLink fs n (runDir ++ p.take k) = true → p.take k ∈ sds :=
  globInRunDir_safe fs n runDir sds raw

/-- … and it loses nothing: every existing raw match without such an ancestor is returned, or one of
its ancestors is (which is then deleted with its contents). -/
theorem glob_filter_covers (fs : Fs) (n : Nat) (runDir : P) (sds raw : List P) (m : P) (hm : m ∈ raw)
    (hs : Safe fs n runDir sds m) (hex : lexists fs n (runDir ++ m) = true) :
    ∃ p ∈ globInRunDir fs n runDir sds raw, p <+: m :=
  globInRunDir_covers fs n runDir sds raw m hm hs hex

/-- a small tree: run dir `r` with `log → t` (standard), `lnk → o` (foreign), `a/x/b/x`, `z/x`;
outside: `o/c`, `t/f` -/
def demoFs : Fs :=
  [(["r".toList], .dir),
   (["r".toList, "log".toList], .link ["t".toList] false),
   (["r".toList, "lnk".toList], .link ["o".toList] false),
   (["r".toList, "a".toList], .dir), (["r".toList, "a".toList, "x".toList], .dir),
   (["r".toList, "a".toList, "x".toList, "b".toList], .dir),
   (["r".toList, "a".toList, "x".toList, "b".toList, "x".toList], .dir),
   (["r".toList, "z".toList], .dir), (["r".toList, "z".toList, "x".toList], .dir),
   (["o".toList], .dir), (["o".toList, "c".toList], .file),
   (["t".toList], .dir), (["t".toList, "f".toList], .file)]

/-- the filter at work: `**/c`-like raw matches `lnk/c` (through the foreign link) and `log/f`
(through the standard one): the first is dropped, the second kept -/
example : globInRunDir demoFs 20 ["r".toList] [["log".toList]]
    [["lnk".toList, "c".toList], ["log".toList, "f".toList]] = [["log".toList, "f".toList]] := by decide

/-! ### containment -/

/-- `WorkflowFiles.SYMLINK_DIRS` (regenerated from the source) is closed under taking ancestors:
the parent of a standard symlink dir is a standard symlink dir (or the run dir). -/
theorem symlink_dirs_ancestor_closed :
    ∀ d ∈ symlinkDirNames, ∀ k, k ≤ d.length → d.take k ∈ symlinkDirNames := by decide

/-- One `_clean_using_glob` call, at any moment of a clean (`fsk` = the tree at that moment, obtained
from the initial tree `fs0` by deletions), for **any** raw glob result: everything it deletes is
inside the workflow as it was initially. -/
theorem clean_glob_contained (skip : Bool) (fs0 fsk : Fs) (n : Nat) (runDir : P) (S : List P)
    (hc : LinkClosed fs0 n runDir S) (h0 : SubFs fsk fs0) (raw : List P) :
    ∀ e ∈ fsk, e ∉ (cleanUsingGlob skip fsk n runDir S raw).1 → Inside fs0 runDir S e.1 :=
  (cleanUsingGlob_shr skip hc h0 raw).2

/-- **clean_contained.** For every tree, every run dir, every set of `--rm` patterns with arbitrary
raw glob results (or none: wholesale clean), with the standard symlink dirs that `get_symlink_dirs`
accepts: every entry deleted by the deleting part of `clean` lies at or below the run-directory
entry, below what the run dir resolves to, or below what one of the standard symlink dirs resolves
to — in the tree as it was before. Nothing else disappears. -/
theorem clean_contained (skip : Bool) (fs0 : Fs) (n : Nat) (runDir idc : P) (sdl : List (P × P))
    (hsd : getSymlinkDirs fs0 n runDir idc = some sdl) (pats : Option (List (List P))) :
    ∀ e ∈ fs0, e ∉ (cleanMain skip fs0 n runDir (sdl.map (·.1)) pats).1 →
      Inside fs0 runDir (sdl.map (·.1)) e.1 :=
  (cleanMain_shr skip (linkClosed_of_getSymlinkDirs symlink_dirs_ancestor_closed hsd) pats).2

/-- on the demo tree `log` is accepted as a standard symlink dir of workflow `r` below a cylc-run
directory `t`… -/
def demoFs2 : Fs :=
  [(["r".toList], .dir),
   (["r".toList, "log".toList], .link ["cylc-run".toList, "r".toList, "log".toList] false),
   (["r".toList, "lnk".toList], .link ["o".toList] false),
   (["r".toList, "a".toList], .dir),
   (["o".toList], .dir), (["o".toList, "c".toList], .file),
   (["cylc-run".toList], .dir), (["cylc-run".toList, "r".toList], .dir),
   (["cylc-run".toList, "r".toList, "log".toList], .dir),
   (["cylc-run".toList, "r".toList, "log".toList, "f".toList], .file)]

example : getSymlinkDirs demoFs2 20 ["r".toList] ["r".toList] =
    some [(["log".toList], ["cylc-run".toList, "r".toList, "log".toList])] := by decide

/-- … and a wholesale clean removes the run dir and the target of `log`, nothing of `o` -/
example : deleted demoFs2 (cleanMain false demoFs2 20 ["r".toList] [["log".toList]] none).1 =
    [["r".toList], ["r".toList, "log".toList], ["r".toList, "lnk".toList], ["r".toList, "a".toList],
     ["cylc-run".toList, "r".toList, "log".toList],
     ["cylc-run".toList, "r".toList, "log".toList, "f".toList]] := by decide

/-- the same when a pattern matched through the foreign link is handed in: nothing is deleted -/
example : deleted demoFs2 (cleanMain false demoFs2 20 ["r".toList] [["log".toList]]
    (some [[["lnk".toList, "c".toList]]])).1 = [] := by decide

/-- **clean_deletes_only.** The whole of `clean` (deletion, then the tidy-up): every entry that
disappears is inside the workflow (`Inside`), or is one of the tidy-up paths of the tree as it was
before: the `runN` link next to the run dir, `_cylc-install` next to the run dir, a parent
directory of the run dir below `cylc-run`, or a parent directory of a symlink-dir target inside its
`cylc-run/<id>/<dir>` tail. -/
theorem clean_deletes_only (skip : Bool) (fs0 : Fs) (n : Nat) (runDir idc : P) (sdl : List (P × P))
    (hsd : getSymlinkDirs fs0 n runDir idc = some sdl) (pats : Option (List (List P))) :
    ∀ e ∈ fs0, e ∉ (clean skip fs0 n runDir idc pats).1 →
      Inside fs0 runDir (sdl.map (·.1)) e.1 ∨ TidyPath fs0 runDir idc sdl e.1 :=
  (clean_shr skip symlink_dirs_ancestor_closed hsd pats).2

/-- … and the parent directories go only when empty: whatever `remove_empty_parents` removes leaves
nothing strictly below it behind. -/
theorem tidy_removes_only_empty_dirs (n : Nat) (path : P) (rem i : Nat) (fs : Fs) :
    ∀ e ∈ fs, e ∉ removeEmptyParents n path rem i fs →
      ∀ e' ∈ removeEmptyParents n path rem i fs, ¬ (e.1 <+: e'.1 ∧ e'.1 ≠ e.1) :=
  removeEmptyParents_only_empty n path rem i fs

/-- workflow `w/run1` below cylc-run dir `c`, with `runN`, `_cylc-install` and a stray file of
another workflow: a wholesale clean takes the run, then `runN`, `_cylc-install` and the now empty
`c/w` — and leaves `c`, `c/v`, `o` alone -/
def demoFs3 : Fs :=
  [(["c".toList], .dir), (["c".toList, "v".toList], .file), (["c".toList, "w".toList], .dir),
   (["c".toList, "w".toList, "run1".toList], .dir),
   (["c".toList, "w".toList, "run1".toList, "f".toList], .file),
   (["c".toList, "w".toList, "runN".toList], .link ["c".toList, "w".toList, "run1".toList] true),
   (["c".toList, "w".toList, "_cylc-install".toList], .dir),
   (["c".toList, "w".toList, "_cylc-install".toList, "source".toList], .link ["o".toList] false),
   (["o".toList], .dir)]

example : getSymlinkDirs demoFs3 20 ["c".toList, "w".toList, "run1".toList] ["w".toList, "run1".toList] = some [] := by
  decide

example : deleted demoFs3
    (clean false demoFs3 20 ["c".toList, "w".toList, "run1".toList] ["w".toList, "run1".toList] none).1 =
    [["c".toList, "w".toList], ["c".toList, "w".toList, "run1".toList],
     ["c".toList, "w".toList, "run1".toList, "f".toList], ["c".toList, "w".toList, "runN".toList],
     ["c".toList, "w".toList, "_cylc-install".toList],
     ["c".toList, "w".toList, "_cylc-install".toList, "source".toList]] := by decide

/-! ### completeness -/

/-- **clean_complete_partial.** If `_clean_using_glob` ends without an exception, every raw match
that can be reached without passing a non-standard symlink is gone afterwards (with everything
below it: a path below a path that does not exist does not exist). -/
theorem clean_complete_partial (skip : Bool) (fs fs' : Fs) (n : Nat) (runDir : P) (hrd : runDir ≠ [])
    (S raw : List P) (h : cleanUsingGlob skip fs n runDir S raw = (fs', none)) :
    ∀ m ∈ raw, Safe fs n runDir (symlinkDirPathOrder.filter fun d => S.contains d) m →
      lexists fs' n (runDir ++ m) = false :=
  cleanUsingGlob_complete skip hrd S raw h

/-- The full statement: also when an exception ends the call. -/
def clean_complete_full (skip : Bool) : Prop :=
  ∀ (fs : Fs) (n : Nat) (runDir : P), runDir ≠ [] → ∀ (S raw : List P),
    ∀ m ∈ raw, Safe fs n runDir (symlinkDirPathOrder.filter fun d => S.contains d) m →
      lexists (cleanUsingGlob skip fs n runDir S raw).1 n (runDir ++ m) = false

/-- The raw result of `**/x` on the demo tree. -/
def demoRaw : List P :=
  [["a".toList, "x".toList], ["a".toList, "x".toList, "b".toList, "x".toList], ["z".toList, "x".toList]]

/-- Without the guard the full statement fails: with a standard symlink dir present (`log`), the
nested match `a/x/b/x` is not pruned, has disappeared with `a/x` when its turn comes,
`remove_dir_or_file` raises `FileNotFoundError` — and `z/x` is never deleted
(findings/C38.json, key `abort-on-removed-subpath`; fix: findings/C38-fix-1.diff). -/
theorem clean_complete_counterexample : ¬ clean_complete_full false := by
  intro hall
  have := hall demoFs 20 ["r".toList] (by decide) [["log".toList]] demoRaw
    ["z".toList, "x".toList] (by decide) (by decide)
  revert this
  decide

example : (cleanUsingGlob false demoFs 20 ["r".toList] [["log".toList]] demoRaw).2 = some .fileNotFound := by
  decide

/-- the same call with the guard: no exception, and all three matches are gone -/
example : (cleanUsingGlob true demoFs 20 ["r".toList] [["log".toList]] demoRaw).2 = none ∧
    ∀ m ∈ demoRaw, lexists (cleanUsingGlob true demoFs 20 ["r".toList] [["log".toList]] demoRaw).1 20
      (["r".toList] ++ m) = false := by decide

/-- what the code under test does (probed on every run from the real `_clean_using_glob`) -/
theorem clean_complete_counterexample_live (h : Generated.CleanCfg.skipsMissing = false) :
    ¬ clean_complete_full Generated.CleanCfg.skipsMissing := by
  rw [h]; exact clean_complete_counterexample

/-- **removal_never_aborts.** With the guard (the probed flag `skipsMissing`), the loop that removes
the matches never raises, whatever the tree and the matches: an exception of `_clean_using_glob` can
then only come from `remove_dir_and_target` refusing a standard symlink dir. -/
theorem removal_never_aborts (h : Generated.CleanCfg.skipsMissing = true) (n : Nat) (runDir : P)
    (ms : List P) (fs : Fs) : (cleanRest Generated.CleanCfg.skipsMissing n runDir ms fs).2 = none := by
  rw [h]; exact cleanRest_no_error n runDir ms fs

example : (cleanRest true 20 ["r".toList] demoRaw demoFs).2 = none := by decide

/-! ### refusals delete nothing -/

/-- An unacceptable `--rm` item (absolute, `.`, `..`, `../…`) or a missing run dir: nothing is deleted. -/
theorem refused_deletes_nothing (skip : Bool) (fs0 : Fs) (n : Nat) (runDir idc : P) (sp : Char → Bool)
    (items : List Str) (pats : List (List P)) (hne : items ≠ [])
    (h : parseRmDirs sp items = none ∨ (isDir fs0 n runDir = false ∧ isLink fs0 n runDir = false)) :
    (initClean skip fs0 n runDir idc sp (some items) pats).1 = fs0 := by
  unfold initClean
  rcases h with h | ⟨h1, h2⟩
  · split
    · rfl
    · have : items.isEmpty = false := by cases items <;> simp_all
      simp [this, h]
  · simp [h1, h2]

example : parseRmDirs (fun c => c = ' ') ["../x".toList] = none := by decide

end CylcModel.C38
