/-
C03 on workflows WITH LIMITED INTERNAL QUEUES (id C03Q) — no premature shutdown, no false stall, bounded response.
Statements only, over the `Sched3QR` model = `Sched3QT` (scheduler core + holds / stop / pause / restart + limited
queues + manual triggers of pooled tasks, the model of C05S) with retry delays that are not over at once (an explicit
clock: pending timers `hold`, op `tick`).  The primitives are those of `Sched3QT`; proofs by reference to
`Sched3QTLemmasC03`, `Sched3QTLemmasC03b` (which build on the C05S lemmas `Sched3QTLemmas`) and `Sched3QRLemmas`.

Reading of the property text for queues ("never leaves a task unsubmitted once it is ready ... within the
runahead and queue limits"):
* what occupies a slot of a queue is exactly a member that is preparing, submitted, running or released and
  awaiting job preparation (`active_count_spec`); a waiting or finished member - in particular a
  finished-but-incomplete one that stays in the pool - never does (`finished_never_counts`, `no_slot_taken_without_job`);
* the release step leaves a queued task that is not held in its queue only if the queue is at its limit, counting
  those members and what the step itself released (`queue_progress`, `release_progress`,
  `release_some_when_free_slot`), and what it releases it launches (`released_is_launched`): `release_step_response`;
* the stall flag and the automatic shutdown are not decided while a queue holds a ready task
  (`is_stalled_iff`, `stall_flag_only_if_stalled`, `no_stall_with_releasable`, `no_auto_shutdown_with_releasable`).
`act s members` = number of pooled proxies with a name in `members` that count against the limit (C05S).
-/
import CylcModel.Sched3QRLemmas
namespace CylcModel.C03Q
open CylcModel.Sched3QT CylcModel.Sched3QR

/-! ### What occupies a slot -/

/-- **the count of `count_active_tasks` for a queue** (`nActive (countActive s) members`, the number
`release_queued_tasks` starts every queue's release loop with) is exactly the number of pooled members that are
preparing, submitted, running or awaiting job preparation -/
theorem active_count_spec (s : State) (members : List String) :
    nActive (countActive s) members =
      (s.pool.filter fun x => members.contains x.name &&
        (x.wjp || x.status == .preparing || x.status == .submitted || x.status == .running)).length := by
  rw [nActive_countActive, act_eq_slotHolders]; rfl

/-- **finished members never block**: a proxy that is waiting or finished (failed, submit-failed, succeeded,
expired) and not awaiting job preparation is not counted; and the count of every queue is the same as in the
pool with all finished proxies taken out -/
theorem finished_never_counts (s : State) (members : List String) :
    (∀ x : Proxy, x.wjp = false → (x.status = .waiting ∨ x.status.isFinal = true) → x.countsActive = false) ∧
    act (dropFinished s) members = act s members :=
  ⟨countsActive_false_of_idle, act_dropFinished s members⟩

/-- if no member of a queue is preparing / submitted / running / awaiting job preparation, the queue is charged 0 -/
theorem no_slot_taken_without_job (s : State) (members : List String)
    (h : ∀ x ∈ s.pool, members.contains x.name = true →
      x.wjp = false ∧ x.status ≠ .preparing ∧ x.status ≠ .submitted ∧ x.status ≠ .running) :
    nActive (countActive s) members = 0 := by
  rw [nActive_countActive]; exact act_eq_zero_of_idle s members h

/-! ### Progress of the release step -/

/-- **one queue** (`LimitedTaskQueue.release`, any limit, any counter, any held flags): a task that is not held
stays in the deque only if the queue is limited and the counter plus what was just released reaches the limit -/
theorem queue_progress (limit : Nat) (isHeld : Key → Bool) (d : List Key) (n : Nat) (k : Key)
    (hk : k ∈ d) (hh : isHeld k = false) :
    k ∈ (releaseLoop limit isHeld d n).released ∨
      (0 < limit ∧ limit ≤ n + (releaseLoop limit isHeld d n).released.length) := by
  by_cases hr : k ∈ (releaseLoop limit isHeld d n).released
  · exact Or.inl hr
  · exact Or.inr (releaseLoop_progress limit isHeld d n k hk hh hr)

/-- **all queues** (`TaskPool.release_queued_tasks`) in any state satisfying the run invariants of C05S
(`queue_invariants_run`), with independent queues: every queued task that is not held is released, or its queue has
limit `L > 0` and `L <= (members counted active) + (members released by this step)` -/
theorem release_progress {g : Graph} {s : State} (h : KeepQ g s) (hi : IndepSig (g.queues.map QDef.sig))
    (q : LQ) (hq : q ∈ s.qs) (k : Key) (hk : k ∈ q.deque) (hh : s.isHeldKey k = false) :
    k ∈ (releaseQueued s).2 ∨
      (0 < q.limit ∧
        q.limit ≤ act s q.members + ((releaseQueued s).2.filter fun k => q.members.contains k.2).length) := by
  by_cases hr : k ∈ (releaseQueued s).2
  · exact Or.inl hr
  · exact Or.inr (releaseQueued_progress h hi q hq k hk hh hr)

/-- a queue with a free slot (unlimited, or fewer counted members than its limit) that holds a task that is not
held releases at least one task -/
theorem release_some_when_free_slot {g : Graph} {s : State} (h : KeepQ g s) (hi : IndepSig (g.queues.map QDef.sig))
    (q : LQ) (hq : q ∈ s.qs) (k : Key) (hk : k ∈ q.deque) (hh : s.isHeldKey k = false)
    (hfree : q.limit = 0 ∨ act s q.members < q.limit) :
    ((releaseQueued s).2.filter fun k => q.members.contains k.2) ≠ [] := by
  intro hnil
  have hr : k ∉ (releaseQueued s).2 := by
    intro hr
    have := released_of_queue h q hq k hk hr
    rw [hnil] at this
    simp at this
  obtain ⟨h1, h2⟩ := releaseQueued_progress h hi q hq k hk hh hr
  rw [hnil] at h2
  simp only [List.length_nil, Nat.add_zero] at h2
  rcases hfree with h0 | hlt
  · omega
  · omega

/-- **what the queues release is launched by the same release step** (`release_tasks_to_run`): a released proxy
that was not already preparing is launched under its next submit number -/
theorem released_is_launched (s : State) (k : Key) (x : Proxy) (hx : s.get? k.1 k.2 = some x)
    (hs : x.status ≠ .preparing) (hr : k ∈ (releaseQueued s).2) :
    (x.pt, x.name, x.submitNum + 1) ∈ (releaseAndSubmit s).launched :=
  releaseAndSubmit_launches s k x hx hs hr

/-- **bounded response of the release step**: in any state satisfying the run invariants, with independent queues,
a proxy that sits in a queue, is waiting and is not held is launched under its next submit number by this release
step, or its queue is at its limit: `0 < L <= (members preparing / submitted / running / awaiting preparation) +
(members this step released)` -/
theorem release_step_response {g : Graph} {s : State} (h : KeepQ g s) (hi : IndepSig (g.queues.map QDef.sig))
    (q : LQ) (hq : q ∈ s.qs) (k : Key) (hk : k ∈ q.deque) (x : Proxy) (hx : s.get? k.1 k.2 = some x)
    (hw : x.status = .waiting) (hh : x.held = false) :
    (x.pt, x.name, x.submitNum + 1) ∈ (releaseAndSubmit s).launched ∨
      (0 < q.limit ∧
        q.limit ≤ act s q.members + ((releaseQueued s).2.filter fun k => q.members.contains k.2).length) := by
  have hheld : s.isHeldKey k = false := by unfold State.isHeldKey; rw [hx]; exact hh
  rcases release_progress h hi q hq k hk hheld with hr | hfull
  · exact Or.inl (released_is_launched s k x hx (by rw [hw]; simp) hr)
  · exact Or.inr hfull

/-! ### Stall and automatic shutdown -/

/-- `TaskPool.is_stalled` says exactly: nothing preparing / submitted / running, no released waiting proxy with
satisfied prerequisites, and some proxy incomplete or partially satisfied within the stop point -/
theorem is_stalled_iff (g : Graph) (s : State) : isStalled g s = true ↔ StallSpec g s := isStalled_iff g s

/-- `check_workflow_stalled` raises the stall flag only when `is_stalled` holds, and never while paused -/
theorem stall_flag_only_if_stalled (g : Graph) (s : State) (h0 : s.stalled = false)
    (h : (checkStalled g s).stalled = true) : StallSpec g s ∧ s.paused = false := by
  obtain ⟨h1, h2⟩ := checkStalled_raises g s h0 h
  exact ⟨(isStalled_iff g s).mp h1, h2⟩

/-- a ready task sitting in a queue: waiting, released from the runahead pool, prerequisites satisfied -/
def Releasable (s : State) (k : Key) : Prop :=
  ∃ q ∈ s.qs, k ∈ q.deque ∧ ∃ x, s.get? k.1 k.2 = some x ∧
    x.status = .waiting ∧ x.runahead = false ∧ x.prereqsSatisfied = true

/-- **no stall decision while a queue holds a ready task** - whatever the limits and the counts -/
theorem no_stall_with_releasable (g : Graph) (s : State) (k : Key) (hrel : Releasable s k) :
    isStalled g s = false ∧ (s.stalled = false → (checkStalled g s).stalled = false) := by
  obtain ⟨q, _, _, x, hx, hw, hr, hp⟩ := hrel
  have hns : isStalled g s = false := by
    cases hst : isStalled g s with
    | false => rfl
    | true =>
      have := ((isStalled_iff g s).mp hst).2.1 x (get?_some_mem hx).1
      exact absurd ⟨hw, hr, hp⟩ this
  refine ⟨hns, fun h0 => ?_⟩
  cases hc : (checkStalled g s).stalled with
  | false => rfl
  | true => rw [(checkStalled_raises g s h0 hc).1] at hns; cases hns

/-- **no automatic shutdown while a queue holds a ready task**; and when `check_auto_shutdown` says yes, nothing is
preparing / submitted / running and no waiting proxy is released from the runahead pool -/
theorem no_auto_shutdown_with_releasable (g : Graph) (s : State) :
    ((checkAutoShutdown g s).2 = true → NoActive s ∧ NoReleasedWaiting s) ∧
    (∀ k, Releasable s k → (checkAutoShutdown g s).2 = false) := by
  refine ⟨fun h => ⟨(autoShutdown_sound g s h).1, (autoShutdown_sound g s h).2.1⟩, ?_⟩
  intro k hrel
  obtain ⟨q, _, _, x, hx, hw, hr, _⟩ := hrel
  cases hc : (checkAutoShutdown g s).2 with
  | false => rfl
  | true => exact absurd ⟨hw, hr⟩ ((autoShutdown_sound g s hc).2.1 x (get?_some_mem hx).1)


/-! ### Retry timers and the manual-submit flag -/

/-- **a task that only waits for its retry delay is never a reason to report a stall**: `is_stalled` is false as
long as some released waiting proxy has its prerequisites satisfied - whatever its retry xtrigger says (the
proxy's `retryWait`, the clock) and whatever else is in the pool (finished-incomplete tasks included) -/
theorem no_stall_while_retry_pending (g : Graph) (s : State) (x : Proxy) (hx : x ∈ s.pool)
    (hw : x.status = .waiting) (hr : x.runahead = false) (hp : x.prereqsSatisfied = true) :
    isStalled g s = false ∧ (s.stalled = false → (checkStalled g s).stalled = false) := by
  have hns : isStalled g s = false := by
    cases hst : isStalled g s with
    | false => rfl
    | true => exact absurd ⟨hw, hr, hp⟩ (((isStalled_iff g s).mp hst).2.1 x hx)
  refine ⟨hns, fun h0 => ?_⟩
  cases hc : (checkStalled g s).stalled with
  | false => rfl
  | true => rw [(checkStalled_raises g s h0 hc).1] at hns; cases hns

/-- **the clock**: the op `tick` leaves no retry timer pending (and touches nothing but the per-op logs), and with
no timer pending the main loop is the zero-delay main loop of `Sched3QT`: its sweep satisfies every retry xtrigger -/
theorem tick_ends_every_delay (gr : GraphR) (sr : StateR) (g : Graph) (s : State) :
    (stepR gr sr .tick).hold = [] ∧ (stepR gr sr .tick).s = clearOp sr.s ∧ mainLoopR g [] s = mainLoop g s :=
  ⟨rfl, rfl, mainLoopR_nil g s⟩

/-- a pending timer belongs to a pooled proxy that waits on its retry xtrigger -/
theorem pending_timers_are_retries (gr : GraphR) (sr : StateR) (op : OpR) :
    ∀ k ∈ (stepR gr sr op).hold, ∃ y ∈ (stepR gr sr op).s.pool, (y.pt, y.name) = k ∧ y.retryWait = true :=
  hold_spec gr sr op

/-- **the manual-submit flag is cleared when the job is handed over**, so a manually triggered task that comes back
(`waiting`, retry lined up) is queued like any other: `queue_if_ready` skips a proxy with the flag and queues a
ready proxy without it -/
theorem manual_flag_cleared_at_submission {st : State} {k : Key} {y : Proxy} (h : y ∈ (prepSubmit st k).pool)
    (hk : (y.pt, y.name) = k) (hs : (st.get? k.1 k.2).isSome = true) :
    y.manual = false ∧ y.status = .preparing :=
  prepSubmit_manual h hk hs

theorem queue_if_ready_and_the_manual_flag (s : State) (x : Proxy) :
    (x.manual = true → queueIfReady s x = s) ∧
    (x.manual = false → x.queued = false → x.runahead = false → x.isReadyToRun = true →
      queueIfReady s x = (s.put (x.reset (queued := some true))).push x) :=
  ⟨queueIfReady_manual s x, queueIfReady_ready s x⟩

/-! ### Whole operations: every op list is a sequence of `stepR`s, so these hold along every run -/

/-- **shutdown_sound**: a scheduler that was not asked to stop (no stop mode requested, no stop task) stops only in
a main loop, with reason AUTOMATIC, in the pool the decision was taken on (after `compute_runahead` /
`release_runahead_tasks`), and that pool has nothing preparing / submitted / running, no released waiting proxy
(so none waiting for a retry delay either), no finished-incomplete proxy and no proxy partially satisfied within the
stop point; in particular no queue holds a ready task at that moment. Any graph, any queue table, any state, any
pending timers, any operation (commands, manual triggers, restart and clock ticks included). -/
theorem shutdown_sound (gr : GraphR) (sr : StateR) (op : OpR) (h0 : sr.s.stop = none) (hm : sr.s.stopMode = none)
    (ht : sr.s.stopTask = none) (h : (stepR gr sr op).s.stop.isSome = true) :
    op = .base .loop ∧ (stepR gr sr op).s.stop = some "AUTOMATIC" ∧ ShutdownOK gr.g (decision gr.g (clearOp sr.s)) ∧
      (stepR gr sr op).s.pool = (decision gr.g (clearOp sr.s)).pool ∧
      (stepR gr sr op).s.stopPoint = (decision gr.g (clearOp sr.s)).stopPoint ∧
      ∀ k, ¬ Releasable (stepR gr sr op).s k := by
  by_cases hop : op = .base .loop
  · subst hop
    have hstep : (stepR gr sr (.base .loop)).s = mainLoopW gr.g (sweepQueueR sr.hold) (clearOp sr.s) :=
      mainLoopR_eq gr.g sr.hold (clearOp sr.s)
    rw [hstep] at h ⊢
    obtain ⟨a, b, c, d⟩ := mainLoop_shutdown (swCT_sweepQueueR sr.hold) gr.g (clearOp sr.s) h0 hm ht h
    refine ⟨rfl, a, b, c, d, ?_⟩
    intro k ⟨q, _, _, x, hx, hw, hr, _⟩
    have hxm := (get?_some_mem hx).1
    rw [c] at hxm
    exact b.2.1 x hxm ⟨hw, hr⟩
  · exfalso
    have := (stepR_other gr sr op hop).2 h
    rw [h0] at this; cases this

/-- **stall_sound**: the stall flag goes up only in a main loop of a scheduler that is not paused, and then
`StallSpec` holds of the pool at the decision point of that loop or of the pool the loop ends in (the two places
`check_workflow_stalled` is called): nothing is preparing / submitted / running - so every queue has all its slots
free -, no released waiting proxy has its prerequisites satisfied - so no queue holds a ready task and no task waits
for a retry delay only -, and some proxy is incomplete or partially satisfied within the stop point. -/
theorem stall_sound (gr : GraphR) (sr : StateR) (op : OpR) (hs : sr.s.stalled = false)
    (h : (stepR gr sr op).s.stalled = true) :
    op = .base .loop ∧ sr.s.paused = false ∧
      (StallSpec gr.g (decision gr.g (clearOp sr.s)) ∨ StallSpec gr.g (stepR gr sr op).s) := by
  by_cases hop : op = .base .loop
  · subst hop
    have hstep : (stepR gr sr (.base .loop)).s = mainLoopW gr.g (sweepQueueR sr.hold) (clearOp sr.s) :=
      mainLoopR_eq gr.g sr.hold (clearOp sr.s)
    rw [hstep] at h ⊢
    obtain ⟨hp, hh⟩ := mainLoop_stalled (swCT_sweepQueueR sr.hold) gr.g (clearOp sr.s) hs h
    refine ⟨rfl, hp, ?_⟩
    rcases hh with hh | hh
    · exact Or.inl ((isStalled_iff gr.g _).mp hh)
    · exact Or.inr ((isStalled_iff gr.g _).mp hh)
  · exfalso
    have := (stepR_other gr sr op hop).1 h
    rw [hs] at this; cases this

/-- **bounded response over a whole main loop**: in a main loop of a scheduler that is neither paused nor stopping,
started in a state satisfying the run invariants (independent queues), with any set of pending retry timers: every
proxy that sits in a queue once the loop has released runahead-limited tasks and swept the pool for ready tasks
(`beforeReleaseR`), is waiting and is not held, is in the launch log of THIS main loop under its next submit number -
or its queue is at its limit, counting the members preparing / submitted / running / awaiting preparation and what
this loop released from it -/
theorem main_loop_response {g : Graph} {s : State} (hold : List Key) (h : KeepQ g s)
    (hi : IndepSig (g.queues.map QDef.sig))
    (h0 : s.stop = none) (hp : s.paused = false) (hsm : (preLoop g s).stopMode = none)
    (q : LQ) (hq : q ∈ (beforeReleaseR g hold s).qs) (k : Key) (hk : k ∈ q.deque) (x : Proxy)
    (hx : (beforeReleaseR g hold s).get? k.1 k.2 = some x) (hw : x.status = .waiting) (hh : x.held = false) :
    (x.pt, x.name, x.submitNum + 1) ∈ (mainLoopR g hold s).launched ∨
      (0 < q.limit ∧ q.limit ≤ act (beforeReleaseR g hold s) q.members +
        ((releaseQueued (beforeReleaseR g hold s)).2.filter fun k => q.members.contains k.2).length) := by
  have hc : canStop (preLoop g s) = false := by unfold canStop; rw [hsm]
  obtain ⟨hl, hk2⟩ := mainLoop_launched (swKeep_sweepQueueR hold) h h0 hc
  obtain ⟨_, _, c3, c4, _⟩ := ctl_parts (swCT_sweepQueueR hold _ (preLoop g s) (rfl : CT (ctl (preLoop g s)) (preLoop g s)))
  obtain ⟨_, _, _, d4, _⟩ := ctl_parts (ct_decision g s (rfl : CT (ctl s) s))
  have hpp : (beforeReleaseR g hold s).paused = false := by
    show (sweepQueueR hold (preLoop g s)).paused = false
    rw [c4, preLoop_eq, (shutdownBlock_fields g (decision g s)).2.2.2.1, d4, hp]
  have hmm : (beforeReleaseR g hold s).stopMode = none := by
    show (sweepQueueR hold (preLoop g s)).stopMode = none
    rw [c3, hsm]
  have hrel : relStep (beforeReleaseR g hold s) = releaseAndSubmit (beforeReleaseR g hold s) := by
    unfold relStep; simp [hpp, hmm]
  rw [mainLoopR_eq, hl]
  show _ ∈ (relStep (beforeReleaseR g hold s)).launched ∨ _
  rw [hrel]
  exact release_step_response hk2 hi q hq k hk x hx hw hh

/-! ### non-vacuity -/

/-- one parentless task over three cycles in a queue of limit 1 (the witness workflow of the check) -/
def exQ : Graph :=
  { icp := 1, fcp := 3, start := 1, runahead := 3, seqs := [[1, 2, 3]], stopPoint := some 3,
    queues := [{ name := "default", limit := 100, members := [] }, { name := "q", limit := 1, members := ["a"] }],
    tasks := [
      { name := "a",
        insts := [(1, { pre := [], sui := [], children := [], nextParentless := some 2 }),
                  (2, { pre := [], sui := [], children := [], nextParentless := some 3 }),
                  (3, { pre := [], sui := [], children := [], nextParentless := none })],
        firstParentless := some 1, completion := CE.var "succeeded", outputs := [] }] }

def exR : GraphR := { g := exQ }

theorem exQ_indep : IndepSig (exQ.queues.map QDef.sig) := by
  unfold IndepSig; simp [exQ, QDef.sig]

/-- 1/a is released, submitted, and fails (success required: it stays in the pool, incomplete) -/
def opsFail : List OpR := [.base .loop, .base (.subres 1 "a" true 1), .base (.msg 1 "a" 1 "failed"), .base .loop]

/-- the state after `opsFail`: 1/a failed and retained, 2/a and 3/a queued behind it -/
def sFail : State := (finalR exR opsFail).s

example : (sFail.pool.map fun x => (x.pt, x.status, x.queued)) =
      [(1, .failed, false), (2, .waiting, true), (3, .waiting, true)] ∧
    (sFail.qs.map fun q => (q.name, q.deque)) = [("default", []), ("q", [(2, "a"), (3, "a")])] := by decide

-- the hypotheses of `release_progress` / `release_step_response` / `release_some_when_free_slot` hold of `sFail`
example : KeepQ exQ sFail := keepQ_runR exR opsFail _ (finalR_mem_runR exR opsFail)

-- the failed member does not count: the queue is charged 0, has a free slot, and the release step launches 2/a -
-- while 3/a stays queued with the queue at its limit (0 counted + 1 released = limit 1)
example : act sFail ["a"] = 0 ∧ (releaseQueued sFail).2 = [(2, "a")] ∧
    (releaseAndSubmit sFail).launched = [(2, "a", 1)] ∧
    ((releaseAndSubmit sFail).qs.map fun q => q.deque) = [[], [(3, "a")]] := by decide

-- ... and so does the next main loop of the run (bounded response over the whole loop on this run)
example : (stepR exR (finalR exR opsFail) (.base .loop)).s.launched = [(2, "a", 1)] ∧
    (stepR exR (finalR exR opsFail) (.base .loop)).s.stalled = false := by decide

-- `Releasable` is satisfiable: 2/a in `sFail`; no stall, no automatic shutdown there
example : Releasable sFail (2, "a") := by
  have h : ((sFail.get? 2 "a").map fun x => (x.status, x.runahead, x.prereqsSatisfied)) =
      some (Status.waiting, false, true) := by decide
  cases hx : sFail.get? 2 "a" with
  | none => rw [hx] at h; cases h
  | some x =>
    rw [hx] at h
    simp only [Option.map_some, Option.some.injEq, Prod.mk.injEq] at h
    exact ⟨{ name := "q", limit := 1, members := ["a"], deque := [(2, "a"), (3, "a")] }, by decide, by decide,
      x, hx, h.1, h.2.1, h.2.2⟩

/-- a single cycle: after the failure nothing can run, and the stall flag goes up (a genuine stall) -/
def exQ1 : Graph := { exQ with fcp := 1, seqs := [[1]], stopPoint := some 1, runahead := 1 }

example : ((runR { g := exQ1 } (opsFail ++ [.base .loop])).map fun sr => sr.s.stalled) =
    [false, false, false, false, false, true] := by decide

-- `check_auto_shutdown` says yes on a reachable state with a limited queue: stop point before the first cycle, the
-- pool holds one runahead-limited proxy and the first main loop shuts down
def exQ0 : Graph := { exQ1 with stopPoint := some 0 }

example : (checkAutoShutdown exQ0 (releaseRunahead exQ0 (computeRunahead exQ0 (init exQ0))).1).2 = true ∧
    (stepR { g := exQ0 } (initR { g := exQ0 }) (.base .loop)).s.stop = some "AUTOMATIC" := by decide

-- `stall_sound` / `shutdown_sound`: their hypotheses are met by reachable states
example : (finalR { g := exQ1 } opsFail).s.stalled = false ∧
    (stepR { g := exQ1 } (finalR { g := exQ1 } opsFail) (.base .loop)).s.stalled = true := by decide
example : (initR { g := exQ0 }).s.stop = none ∧ (initR { g := exQ0 }).s.stopMode = none ∧
    (initR { g := exQ0 }).s.stopTask = none ∧
    (stepR { g := exQ0 } (initR { g := exQ0 }) (.base .loop)).s.stop.isSome = true := by decide

-- `main_loop_response`: `sFail` meets the hypotheses: not stopped, not paused, no shutdown decided; 2/a and 3/a sit
-- in queue q before the release
example : (clearOp sFail).stop = none ∧ (clearOp sFail).paused = false ∧ (preLoop exQ (clearOp sFail)).stopMode = none ∧
    ((beforeReleaseR exQ [] (clearOp sFail)).qs.map fun q => q.deque) = [[], [(2, "a"), (3, "a")]] := by decide

/-- two parallel tasks in one cycle; `b` has one execution retry with a non-zero delay -/
def exRetry : GraphR :=
  { g := { icp := 1, fcp := 1, start := 1, runahead := 1, seqs := [[1]], stopPoint := some 1,
           queues := [{ name := "default", limit := 2, members := ["a", "b"] }],
           tasks := [
             { name := "a", insts := [(1, { pre := [], sui := [], children := [], nextParentless := none })],
               firstParentless := some 1, completion := CE.var "succeeded", outputs := [] },
             { name := "b", insts := [(1, { pre := [], sui := [], children := [], nextParentless := none })],
               firstParentless := some 1, completion := CE.var "succeeded", outputs := [], execRetries := 1 }] },
    execLong := ["b"] }

/-- both jobs fail: 1/a for good (finished, incomplete), 1/b with its retry lined up; two quiet main loops; the
clock moves on; one more main loop -/
def opsRetry : List OpR :=
  [.base .loop, .base (.subres 1 "a" true 1), .base (.subres 1 "b" true 1), .base (.msg 1 "a" 1 "failed"),
   .base (.msg 1 "b" 1 "failed"), .base .loop, .base .loop, .base .loop, .tick, .base .loop]

-- the retry timer of 1/b is pending over the quiet loops, no stall is reported although 1/a is incomplete and
-- nothing is active (`no_stall_while_retry_pending`), nothing is launched; the tick ends the delay and the next
-- main loop submits the second try
example : ((runR exRetry opsRetry).map fun sr => (sr.hold, sr.s.stalled, sr.s.launched)) =
    [([], false, []), ([], false, [(1, "a", 1), (1, "b", 1)]), ([], false, []), ([], false, []), ([], false, []),
     ([], false, []), ([(1, "b")], false, []), ([(1, "b")], false, []), ([(1, "b")], false, []), ([], false, []),
     ([], false, [(1, "b", 2)])] := by decide

/-- one task with a zero-delay retry, triggered by hand before the first main loop -/
def exTrig : GraphR :=
  { g := { icp := 1, fcp := 1, start := 1, runahead := 1, seqs := [[1]], stopPoint := some 1,
           queues := [{ name := "default", limit := 1, members := ["a"] }],
           tasks := [
             { name := "a", insts := [(1, { pre := [], sui := [], children := [], nextParentless := none })],
               firstParentless := some 1, completion := CE.var "succeeded", outputs := [], execRetries := 1 }] } }

-- the trigger sets the manual-submit flag, the hand-over of job 01 clears it, and after the failure the retry is
-- queued and submitted as job 02 (`manual_flag_cleared_at_submission`, `queue_if_ready_and_the_manual_flag`)
example : ((runR exTrig [.base (.trigger [(1, "a")]), .base .loop, .base (.subres 1 "a" true 1),
      .base (.msg 1 "a" 1 "failed"), .base .loop, .base .loop]).map fun sr =>
        (sr.s.pool.map fun x => (x.manual, x.status), sr.s.launched)) =
    [([(false, .waiting)], []), ([(true, .waiting)], []), ([(false, .preparing)], [(1, "a", 1)]),
     ([(false, .submitted)], []), ([(false, .submitted)], []), ([(false, .waiting)], []),
     ([(false, .preparing)], [(1, "a", 2)])] := by decide

end CylcModel.C03Q
