/-
C03 on workflows WITH LIMITED INTERNAL QUEUES (id C03Q) — no premature shutdown, no false stall, bounded response.
Statements only, over the `Sched3Q` model (scheduler core + holds / stop / pause / restart + limited queues);
proofs by reference to `Sched3QLemmasC03` (which builds on the C05S lemmas `Sched3QLemmas`).

Reading of the property text for queues ("never leaves a task unsubmitted once it is ready ... within the
runahead and queue limits"):
* what occupies a slot of a queue is exactly a member that is preparing, submitted, running or released and
  awaiting job preparation (`active_count_spec`); a waiting or finished member - in particular a
  finished-but-incomplete one that stays in the pool - never does (`finished_never_counts`, `no_slot_taken_without_job`);
* the release step leaves a queued task that is not held in its queue only if the queue is at its limit, counting
  those members and what the step itself released (`queue_progress`, `release_progress`,
  `release_some_when_free_slot`), and what it releases it launches (`released_is_launched`): `release_step_response`;
* the stall flag and the automatic shutdown are not decided while a queue holds a ready task
  (`is_stalled_iff`, `stall_flag_only_if_stalled`, `no_stall_with_releasable`, `no_auto_shutdown_with_releasable`).
`act s members` = number of pooled proxies with a name in `members` that count against the limit (C05S).
-/
import CylcModel.Sched3QLemmasC03b
namespace CylcModel.C03Q
open CylcModel.Sched3Q

/-! ### What occupies a slot -/

/-- **the count of `count_active_tasks` for a queue** (`nActive (countActive s) members`, the number
`release_queued_tasks` starts every queue's release loop with) is exactly the number of pooled members that are
preparing, submitted, running or awaiting job preparation -/
theorem active_count_spec (s : State) (members : List String) :
    nActive (countActive s) members =
      (s.pool.filter fun x => members.contains x.name &&
        (x.wjp || x.status == .preparing || x.status == .submitted || x.status == .running)).length := by
  rw [nActive_countActive, act_eq_slotHolders]; rfl

/-- **finished members never block**: a proxy that is waiting or finished (failed, submit-failed, succeeded,
expired) and not awaiting job preparation is not counted; and the count of every queue is the same as in the
pool with all finished proxies taken out -/
theorem finished_never_counts (s : State) (members : List String) :
    (∀ x : Proxy, x.wjp = false → (x.status = .waiting ∨ x.status.isFinal = true) → x.countsActive = false) ∧
    act (dropFinished s) members = act s members :=
  ⟨countsActive_false_of_idle, act_dropFinished s members⟩

/-- if no member of a queue is preparing / submitted / running / awaiting job preparation, the queue is charged 0 -/
theorem no_slot_taken_without_job (s : State) (members : List String)
    (h : ∀ x ∈ s.pool, members.contains x.name = true →
      x.wjp = false ∧ x.status ≠ .preparing ∧ x.status ≠ .submitted ∧ x.status ≠ .running) :
    nActive (countActive s) members = 0 := by
  rw [nActive_countActive]; exact act_eq_zero_of_idle s members h

/-! ### Progress of the release step -/

/-- **one queue** (`LimitedTaskQueue.release`, any limit, any counter, any held flags): a task that is not held
stays in the deque only if the queue is limited and the counter plus what was just released reaches the limit -/
theorem queue_progress (limit : Nat) (isHeld : Key → Bool) (d : List Key) (n : Nat) (k : Key)
    (hk : k ∈ d) (hh : isHeld k = false) :
    k ∈ (releaseLoop limit isHeld d n).released ∨
      (0 < limit ∧ limit ≤ n + (releaseLoop limit isHeld d n).released.length) := by
  by_cases hr : k ∈ (releaseLoop limit isHeld d n).released
  · exact Or.inl hr
  · exact Or.inr (releaseLoop_progress limit isHeld d n k hk hh hr)

/-- **all queues** (`TaskPool.release_queued_tasks`) in any state satisfying the run invariants of C05S
(`queue_invariants_run`), with independent queues: every queued task that is not held is released, or its queue has
limit `L > 0` and `L <= (members counted active) + (members released by this step)` -/
theorem release_progress {g : Graph} {s : State} (h : KeepQ g s) (hi : IndepSig (g.queues.map QDef.sig))
    (q : LQ) (hq : q ∈ s.qs) (k : Key) (hk : k ∈ q.deque) (hh : s.isHeldKey k = false) :
    k ∈ (releaseQueued s).2 ∨
      (0 < q.limit ∧
        q.limit ≤ act s q.members + ((releaseQueued s).2.filter fun k => q.members.contains k.2).length) := by
  by_cases hr : k ∈ (releaseQueued s).2
  · exact Or.inl hr
  · exact Or.inr (releaseQueued_progress h hi q hq k hk hh hr)

/-- a queue with a free slot (unlimited, or fewer counted members than its limit) that holds a task that is not
held releases at least one task -/
theorem release_some_when_free_slot {g : Graph} {s : State} (h : KeepQ g s) (hi : IndepSig (g.queues.map QDef.sig))
    (q : LQ) (hq : q ∈ s.qs) (k : Key) (hk : k ∈ q.deque) (hh : s.isHeldKey k = false)
    (hfree : q.limit = 0 ∨ act s q.members < q.limit) :
    ((releaseQueued s).2.filter fun k => q.members.contains k.2) ≠ [] := by
  intro hnil
  have hr : k ∉ (releaseQueued s).2 := by
    intro hr
    have := released_of_queue h q hq k hk hr
    rw [hnil] at this
    simp at this
  obtain ⟨h1, h2⟩ := releaseQueued_progress h hi q hq k hk hh hr
  rw [hnil] at h2
  simp only [List.length_nil, Nat.add_zero] at h2
  rcases hfree with h0 | hlt
  · omega
  · omega

/-- **what the queues release is launched by the same release step** (`release_tasks_to_run`): a released proxy
that was not already preparing is launched under its next submit number -/
theorem released_is_launched (s : State) (k : Key) (x : Proxy) (hx : s.get? k.1 k.2 = some x)
    (hs : x.status ≠ .preparing) (hr : k ∈ (releaseQueued s).2) :
    (x.pt, x.name, x.submitNum + 1) ∈ (releaseAndSubmit s).launched :=
  releaseAndSubmit_launches s k x hx hs hr

/-- **bounded response of the release step**: in any state satisfying the run invariants, with independent queues,
a proxy that sits in a queue, is waiting and is not held is launched under its next submit number by this release
step, or its queue is at its limit: `0 < L <= (members preparing / submitted / running / awaiting preparation) +
(members this step released)` -/
theorem release_step_response {g : Graph} {s : State} (h : KeepQ g s) (hi : IndepSig (g.queues.map QDef.sig))
    (q : LQ) (hq : q ∈ s.qs) (k : Key) (hk : k ∈ q.deque) (x : Proxy) (hx : s.get? k.1 k.2 = some x)
    (hw : x.status = .waiting) (hh : x.held = false) :
    (x.pt, x.name, x.submitNum + 1) ∈ (releaseAndSubmit s).launched ∨
      (0 < q.limit ∧
        q.limit ≤ act s q.members + ((releaseQueued s).2.filter fun k => q.members.contains k.2).length) := by
  have hheld : s.isHeldKey k = false := by unfold State.isHeldKey; rw [hx]; exact hh
  rcases release_progress h hi q hq k hk hheld with hr | hfull
  · exact Or.inl (released_is_launched s k x hx (by rw [hw]; simp) hr)
  · exact Or.inr hfull

/-! ### Stall and automatic shutdown -/

/-- `TaskPool.is_stalled` says exactly: nothing preparing / submitted / running, no released waiting proxy with
satisfied prerequisites, and some proxy incomplete or partially satisfied within the stop point -/
theorem is_stalled_iff (g : Graph) (s : State) : isStalled g s = true ↔ StallSpec g s := isStalled_iff g s

/-- `check_workflow_stalled` raises the stall flag only when `is_stalled` holds, and never while paused -/
theorem stall_flag_only_if_stalled (g : Graph) (s : State) (h0 : s.stalled = false)
    (h : (checkStalled g s).stalled = true) : StallSpec g s ∧ s.paused = false := by
  obtain ⟨h1, h2⟩ := checkStalled_raises g s h0 h
  exact ⟨(isStalled_iff g s).mp h1, h2⟩

/-- a ready task sitting in a queue: waiting, released from the runahead pool, prerequisites satisfied -/
def Releasable (s : State) (k : Key) : Prop :=
  ∃ q ∈ s.qs, k ∈ q.deque ∧ ∃ x, s.get? k.1 k.2 = some x ∧
    x.status = .waiting ∧ x.runahead = false ∧ x.prereqsSatisfied = true

/-- **no stall decision while a queue holds a ready task** - whatever the limits and the counts -/
theorem no_stall_with_releasable (g : Graph) (s : State) (k : Key) (hrel : Releasable s k) :
    isStalled g s = false ∧ (s.stalled = false → (checkStalled g s).stalled = false) := by
  obtain ⟨q, _, _, x, hx, hw, hr, hp⟩ := hrel
  have hns : isStalled g s = false := by
    cases hst : isStalled g s with
    | false => rfl
    | true =>
      have := ((isStalled_iff g s).mp hst).2.1 x (get?_some_mem hx).1
      exact absurd ⟨hw, hr, hp⟩ this
  refine ⟨hns, fun h0 => ?_⟩
  cases hc : (checkStalled g s).stalled with
  | false => rfl
  | true => rw [(checkStalled_raises g s h0 hc).1] at hns; cases hns

/-- **no automatic shutdown while a queue holds a ready task**; and when `check_auto_shutdown` says yes, nothing is
preparing / submitted / running and no waiting proxy is released from the runahead pool -/
theorem no_auto_shutdown_with_releasable (g : Graph) (s : State) :
    ((checkAutoShutdown g s).2 = true → NoActive s ∧ NoReleasedWaiting s) ∧
    (∀ k, Releasable s k → (checkAutoShutdown g s).2 = false) := by
  refine ⟨fun h => ⟨(autoShutdown_sound g s h).1, (autoShutdown_sound g s h).2.1⟩, ?_⟩
  intro k hrel
  obtain ⟨q, _, _, x, hx, hw, hr, _⟩ := hrel
  cases hc : (checkAutoShutdown g s).2 with
  | false => rfl
  | true => exact absurd ⟨hw, hr⟩ ((autoShutdown_sound g s hc).2.1 x (get?_some_mem hx).1)


/-! ### Whole operations: every op list is a sequence of `step`s, so these hold along every run -/

/-- **shutdown_sound**: a scheduler that was not asked to stop (no stop mode requested, no stop task) stops only in
a main loop, with reason AUTOMATIC, in the pool the decision was taken on (after `compute_runahead` /
`release_runahead_tasks`), and that pool has nothing preparing / submitted / running, no released waiting proxy,
no finished-incomplete proxy and no proxy partially satisfied within the stop point; in particular no queue holds
a ready task at that moment. Any graph, any queue table, any state, any operation (commands and restart included). -/
theorem shutdown_sound (g : Graph) (s : State) (op : Op) (h0 : s.stop = none) (hm : s.stopMode = none)
    (ht : s.stopTask = none) (h : (step g s op).stop.isSome = true) :
    op = .loop ∧ (step g s op).stop = some "AUTOMATIC" ∧ ShutdownOK g (decision g (clearOp s)) ∧
      (step g s op).pool = (decision g (clearOp s)).pool ∧
      (step g s op).stopPoint = (decision g (clearOp s)).stopPoint ∧
      ∀ k, ¬ Releasable (step g s op) k := by
  by_cases hop : op = .loop
  · subst hop
    have hstep : step g s .loop = mainLoop g (clearOp s) := rfl
    rw [hstep] at h ⊢
    obtain ⟨a, b, c, d⟩ := mainLoop_shutdown g (clearOp s) h0 hm ht h
    refine ⟨rfl, a, b, c, d, ?_⟩
    intro k ⟨q, _, _, x, hx, hw, hr, _⟩
    have hxm := (get?_some_mem hx).1
    rw [c] at hxm
    exact b.2.1 x hxm ⟨hw, hr⟩
  · exfalso
    have := (step_other g s op hop).2 h
    rw [h0] at this; cases this

/-- **stall_sound**: the stall flag goes up only in a main loop of a scheduler that is not paused, and then
`StallSpec` holds of the pool at the decision point of that loop or of the pool the loop ends in (the two places
`check_workflow_stalled` is called): nothing is preparing / submitted / running - so every queue has all its slots
free -, no released waiting proxy has its prerequisites satisfied - so no queue holds a ready task -, and some
proxy is incomplete or partially satisfied within the stop point. -/
theorem stall_sound (g : Graph) (s : State) (op : Op) (hs : s.stalled = false)
    (h : (step g s op).stalled = true) :
    op = .loop ∧ s.paused = false ∧ (StallSpec g (decision g (clearOp s)) ∨ StallSpec g (step g s op)) := by
  by_cases hop : op = .loop
  · subst hop
    have hstep : step g s .loop = mainLoop g (clearOp s) := rfl
    rw [hstep] at h ⊢
    obtain ⟨hp, hh⟩ := mainLoop_stalled g (clearOp s) hs h
    refine ⟨rfl, hp, ?_⟩
    rcases hh with hh | hh
    · exact Or.inl ((isStalled_iff g _).mp hh)
    · exact Or.inr ((isStalled_iff g _).mp hh)
  · exfalso
    have := (step_other g s op hop).1 h
    rw [hs] at this; cases this

/-- **bounded response over a whole main loop**: in a main loop of a scheduler that is neither paused nor stopping,
started in a state satisfying the run invariants (independent queues), every proxy that sits in a queue once the
loop has released runahead-limited tasks and swept the pool for ready tasks (`beforeRelease`), is waiting and is
not held, is in the launch log of THIS main loop under its next submit number - or its queue is at its limit,
counting the members preparing / submitted / running / awaiting preparation and what this loop released from it -/
theorem main_loop_response {g : Graph} {s : State} (h : KeepQ g s) (hi : IndepSig (g.queues.map QDef.sig))
    (h0 : s.stop = none) (hp : s.paused = false) (hsm : (preLoop g s).stopMode = none)
    (q : LQ) (hq : q ∈ (beforeRelease g s).qs) (k : Key) (hk : k ∈ q.deque) (x : Proxy)
    (hx : (beforeRelease g s).get? k.1 k.2 = some x) (hw : x.status = .waiting) (hh : x.held = false) :
    (x.pt, x.name, x.submitNum + 1) ∈ (mainLoop g s).launched ∨
      (0 < q.limit ∧ q.limit ≤ act (beforeRelease g s) q.members +
        ((releaseQueued (beforeRelease g s)).2.filter fun k => q.members.contains k.2).length) := by
  have hc : canStop (preLoop g s) = false := by unfold canStop; rw [hsm]
  obtain ⟨hl, hk2⟩ := mainLoop_launched h h0 hc
  obtain ⟨_, _, c3, c4, _⟩ := ctl_parts (ct_sweepQueue (preLoop g s) (rfl : CT (ctl (preLoop g s)) (preLoop g s)))
  obtain ⟨_, _, _, d4, _⟩ := ctl_parts (ct_decision g s (rfl : CT (ctl s) s))
  have hpp : (beforeRelease g s).paused = false := by
    show (sweepQueue (preLoop g s)).paused = false
    rw [c4, preLoop_eq, (shutdownBlock_fields g (decision g s)).2.2.2.1, d4, hp]
  have hmm : (beforeRelease g s).stopMode = none := by
    show (sweepQueue (preLoop g s)).stopMode = none
    rw [c3, hsm]
  have hrel : relStep (beforeRelease g s) = releaseAndSubmit (beforeRelease g s) := by
    unfold relStep; simp [hpp, hmm]
  rw [hl]
  show _ ∈ (relStep (beforeRelease g s)).launched ∨ _
  rw [hrel]
  exact release_step_response hk2 hi q hq k hk x hx hw hh

/-! ### non-vacuity -/

/-- one parentless task over three cycles in a queue of limit 1 (the witness workflow of the check) -/
def exQ : Graph :=
  { icp := 1, fcp := 3, start := 1, runahead := 3, seqs := [[1, 2, 3]], stopPoint := some 3,
    queues := [{ name := "default", limit := 100, members := [] }, { name := "q", limit := 1, members := ["a"] }],
    tasks := [
      { name := "a",
        insts := [(1, { pre := [], sui := [], children := [], nextParentless := some 2 }),
                  (2, { pre := [], sui := [], children := [], nextParentless := some 3 }),
                  (3, { pre := [], sui := [], children := [], nextParentless := none })],
        firstParentless := some 1, completion := CE.var "succeeded", outputs := [] }] }

theorem exQ_indep : IndepSig (exQ.queues.map QDef.sig) := by
  unfold IndepSig; simp [exQ, QDef.sig]

/-- 1/a is released, submitted, and fails (success required: it stays in the pool, incomplete) -/
def opsFail : List Op := [.loop, .subres 1 "a" true 1, .msg 1 "a" 1 "failed", .loop]

/-- the state after `opsFail`: 1/a failed and retained, 2/a and 3/a queued behind it -/
def sFail : State := final exQ opsFail

example : (sFail.pool.map fun x => (x.pt, x.status, x.queued)) =
      [(1, .failed, false), (2, .waiting, true), (3, .waiting, true)] ∧
    (sFail.qs.map fun q => (q.name, q.deque)) = [("default", []), ("q", [(2, "a"), (3, "a")])] := by decide

-- the hypotheses of `release_progress` / `release_step_response` / `release_some_when_free_slot` hold of `sFail`
example : KeepQ exQ sFail := keepQ_run exQ opsFail sFail (final_mem_run exQ opsFail)

-- the failed member does not count: the queue is charged 0, has a free slot, and the release step launches 2/a -
-- while 3/a stays queued with the queue at its limit (0 counted + 1 released = limit 1)
example : act sFail ["a"] = 0 ∧ (releaseQueued sFail).2 = [(2, "a")] ∧
    (releaseAndSubmit sFail).launched = [(2, "a", 1)] ∧
    ((releaseAndSubmit sFail).qs.map fun q => q.deque) = [[], [(3, "a")]] := by decide

-- ... and so does the next main loop of the run (bounded response over the whole loop on this run)
example : (step exQ sFail .loop).launched = [(2, "a", 1)] ∧ (step exQ sFail .loop).stalled = false := by decide

-- `Releasable` is satisfiable: 2/a in `sFail`; no stall, no automatic shutdown there
example : Releasable sFail (2, "a") := by
  have h : ((sFail.get? 2 "a").map fun x => (x.status, x.runahead, x.prereqsSatisfied)) =
      some (Status.waiting, false, true) := by decide
  cases hx : sFail.get? 2 "a" with
  | none => rw [hx] at h; cases h
  | some x =>
    rw [hx] at h
    simp only [Option.map_some, Option.some.injEq, Prod.mk.injEq] at h
    exact ⟨{ name := "q", limit := 1, members := ["a"], deque := [(2, "a"), (3, "a")] }, by decide, by decide,
      x, hx, h.1, h.2.1, h.2.2⟩

/-- a single cycle: after the failure nothing can run, and the stall flag goes up (a genuine stall) -/
def exQ1 : Graph := { exQ with fcp := 1, seqs := [[1]], stopPoint := some 1, runahead := 1 }

example : ((run exQ1 (opsFail ++ [.loop])).map fun s => s.stalled) = [false, false, false, false, false, true] := by
  decide

-- `check_auto_shutdown` says yes on a reachable state with a limited queue: stop point before the first cycle, the
-- pool holds one runahead-limited proxy and the first main loop shuts down
def exQ0 : Graph := { exQ1 with stopPoint := some 0 }

example : (checkAutoShutdown exQ0 (releaseRunahead exQ0 (computeRunahead exQ0 (init exQ0))).1).2 = true ∧
    (step exQ0 (init exQ0) .loop).stop = some "AUTOMATIC" := by decide


-- `stall_sound` / `shutdown_sound`: their hypotheses are met by reachable states (the stall flag goes up in the last
-- loop of `opsFail ++ [.loop]` on `exQ1`; `exQ0` stops by itself in its first loop, from a state with no stop
-- mode and no stop task)
example : (final exQ1 opsFail).stalled = false ∧ (step exQ1 (final exQ1 opsFail) .loop).stalled = true := by decide
example : (init exQ0).stop = none ∧ (init exQ0).stopMode = none ∧ (init exQ0).stopTask = none ∧
    (step exQ0 (init exQ0) .loop).stop.isSome = true := by decide

-- `main_loop_response`: `sFail` (after its op, the launch log is cleared by the next `step`) meets the hypotheses:
-- not stopped, not paused, no shutdown decided; 2/a and 3/a sit in queue q before the release
example : (clearOp sFail).stop = none ∧ (clearOp sFail).paused = false ∧ (preLoop exQ (clearOp sFail)).stopMode = none ∧
    ((beforeRelease exQ (clearOp sFail)).qs.map fun q => q.deque) = [[], [(2, "a"), (3, "a")]] := by decide

end CylcModel.C03Q
