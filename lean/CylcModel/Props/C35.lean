/-
C35 — Runtime inheritance follows the C3 linearisation.
Property statements only; the model is `CylcModel/C3.lean`, helper lemmas and the
specification vocabulary (`InSomeTail`, `FirstGoodHead`, `Stuck`, `Lin`, `Reach`, `Anc`, `WF`)
are in `CylcModel/C3Lemmas.lean`.

All statements are for every element type with decidable equality, every list of sequences
and every hierarchy (no bound on the number of classes, parents or sequence lengths).
A hierarchy is a list of declarations `(name, parents)`; `WF` = names distinct and every
parent declared earlier or not at all (the order in which the equivalent Python classes can
be created).
-/
import CylcModel.C3Lemmas
namespace CylcModel.C35
open CylcModel.C3

variable {α : Type} [DecidableEq α]

/-- `merge` is a total function whose termination is proved from the measure "total remaining
length" (well-founded recursion, no fuel); it satisfies the loop of `C3.merge` as an equation. -/
theorem merge_terminates (seqs : List (List α)) : merge seqs =
    if nonEmpty seqs = [] then some []
    else match findCand seqs seqs with
      | none => none
      | some c => (merge (removeCand c seqs)).map (c :: ·) :=
  merge_unfold seqs

/-- The table computed declaration by declaration satisfies the recursive definition of `C3.mro`:
`mro(C) = merge([[C]] + [mro(p) for p in parents] + [parents])`. -/
theorem mro_recursive_definition {decls : List (α × List α)} (hwf : WF decls) {c : α} {ps : List α}
    (hd : (c, ps) ∈ decls) : Table.get (mroAll decls) c = mroOf (mroAll decls) c ps :=
  mro_fixpoint hwf hd

/-- `c3_props`: an accepted linearisation `L` of `C`
* starts with `C`,
* has no duplicates,
* contains exactly the ancestors of `C` (reflexive-transitive closure of the parent relation),
* keeps the local precedence order: `C` first, then its parents in declared order,
* is monotone: every parent is itself accepted and its linearisation is a subsequence of `L`. -/
theorem c3_props {decls : List (α × List α)} (hwf : WF decls) {c : α} {ps L : List α}
    (hd : (c, ps) ∈ decls) (h : Table.get (mroAll decls) c = .ok L) :
    L.head? = some c ∧ L.Nodup ∧ (∀ x, x ∈ L ↔ Anc decls c x) ∧ (c :: ps).Sublist L ∧
      ∀ p ∈ ps, ∃ Lp, Table.get (mroAll decls) p = .ok Lp ∧ Lp.Sublist L := by
  obtain ⟨ls, hp, hm, hls, hps⟩ := mro_facts hwf hd h
  have hhead := mro_head_of_facts hm hls hps
  refine ⟨hhead, merge_nodup hm, ?_, ?_, ?_⟩
  · intro x
    exact ⟨mem_anc_aux hwf L.length c ps L hd h (Nat.le_refl _) x, fun ha => anc_mem hwf ha ps L hd h⟩
  · exact cons_sublist_of hhead (merge_sublist hm ps (mem_seqs.mpr (Or.inr (Or.inr rfl)))) hps
  · intro p hpp
    obtain ⟨l, hl, hg⟩ := parentLins_ok_left hp p hpp
    exact ⟨l, hg, merge_sublist hm l (mem_seqs.mpr (Or.inr (Or.inl hl)))⟩

/-- `c3_deterministic`: `merge` returns `L` exactly when `L` is obtained by repeatedly taking the
first head that occurs in no tail (`Lin`), and that rule determines at most one list. -/
theorem c3_deterministic (seqs : List (List α)) (L : List α) : merge seqs = some L ↔ Lin seqs L :=
  ⟨lin_of_merge, merge_of_lin⟩

theorem c3_unique {seqs : List (List α)} {L₁ L₂ : List α} (h₁ : Lin seqs L₁) (h₂ : Lin seqs L₂) :
    L₁ = L₂ := by
  have a := merge_of_lin h₁
  rw [merge_of_lin h₂] at a
  exact (Option.some.inj a).symm

/-- every sequence handed to `merge` is a subsequence of the result, which has no duplicates and
exactly the members of the sequences -/
theorem merge_props {seqs : List (List α)} {L : List α} (h : merge seqs = some L) :
    (∀ s ∈ seqs, s.Sublist L) ∧ L.Nodup ∧ ∀ x, x ∈ L ↔ ∃ s ∈ seqs, x ∈ s :=
  ⟨merge_sublist h, merge_nodup h, merge_mem h⟩

/-- `reject_iff`: `merge` fails exactly when the rounds reach a state in which something is left
and every head occurs in some tail. -/
theorem reject_iff (seqs : List (List α)) : merge seqs = none ↔ ∃ s', Reach seqs s' ∧ Stuck s' :=
  ⟨reach_stuck_of_merge_none (total seqs) seqs (Nat.le_refl _), fun ⟨_, hr, hs⟩ => merge_none_of_reach hr hs⟩

/-- A declared class whose parents' linearisations never hit an undeclared name is rejected exactly
when one of its parents is rejected or its own merge gets stuck. -/
theorem mro_reject_iff {decls : List (α × List α)} (hwf : WF decls) {c : α} {ps : List α}
    (hd : (c, ps) ∈ decls) (hu : ∀ p ∈ ps, Table.get (mroAll decls) p ≠ .undef) :
    Table.get (mroAll decls) c = .bad ↔
      (∃ p ∈ ps, Table.get (mroAll decls) p = .bad) ∨
      ∃ ls, parentLins (mroAll decls) ps = .ok ls ∧ ∃ s', Reach ([c] :: ls ++ [ps]) s' ∧ Stuck s' := by
  rw [mro_fixpoint hwf hd]
  unfold mroOf
  cases hp : parentLins (mroAll decls) ps with
  | error e =>
    have hb := (parentLins_bad_iff hu).mp ⟨e, hp⟩
    have he : e = .bad := parentLins_error_bad hu hp
    subst he
    simp only [true_iff]
    exact Or.inl hb
  | ok ls =>
    simp only
    constructor
    · intro h
      cases hm : merge ([c] :: ls ++ [ps]) with
      | none => exact Or.inr ⟨ls, rfl, (reject_iff _).mp hm⟩
      | some l => rw [hm] at h; cases h
    · rintro (⟨p, hpp, hb⟩ | ⟨ls', hls', hr⟩)
      · obtain ⟨l, _, hg⟩ := parentLins_ok_left hp p hpp
        rw [hb] at hg; cases hg
      · cases hls'
        rw [(reject_iff _).mpr hr]

/-! ### non-vacuity: the hypotheses are met by concrete non-trivial values -/

/-- a diamond with an extra base: `O; A(O); B(O); C(A, B)` -/
def exDiamond : List (Nat × List Nat) := [(0, []), (1, [0]), (2, [0]), (3, [1, 2])]

/-- the "serious order disagreement" example of the c3mro.py doc string:
`O; X(O); Y(O); A(X,Y); B(Y,X); Z(A,B)` -/
def exBad : List (Nat × List Nat) := [(0, []), (1, [0]), (2, [0]), (3, [1, 2]), (4, [2, 1]), (5, [3, 4])]

theorem exDiamond_wf : WF exDiamond := ⟨by decide, by decide⟩
theorem exBad_wf : WF exBad := ⟨by decide, by decide⟩

theorem exDiamond_table : mroAll exDiamond =
    [(0, .ok [0]), (1, .ok [1, 0]), (2, .ok [2, 0]), (3, .ok [3, 1, 2, 0])] := by
  have m0 : merge [[0], ([] : List Nat)] = some [0] := by rw [← mergeF_eq 5 _ (by decide)]; decide
  have m1 : merge [[1], [0], [0]] = some [1, 0] := by rw [← mergeF_eq 5 _ (by decide)]; decide
  have m2 : merge [[2], [0], [0]] = some [2, 0] := by rw [← mergeF_eq 5 _ (by decide)]; decide
  have m3 : merge [[3], [1, 0], [2, 0], [1, 2]] = some [3, 1, 2, 0] := by
    rw [← mergeF_eq 9 _ (by decide)]; decide
  simp [exDiamond, mroAll, mroOf, parentLins, Table.get, List.lookup, Except.map, m0, m1, m2, m3]

theorem exBad_table : mroAll exBad =
    [(0, .ok [0]), (1, .ok [1, 0]), (2, .ok [2, 0]), (3, .ok [3, 1, 2, 0]), (4, .ok [4, 2, 1, 0]),
     (5, .bad)] := by
  have m0 : merge [[0], ([] : List Nat)] = some [0] := by rw [← mergeF_eq 5 _ (by decide)]; decide
  have m1 : merge [[1], [0], [0]] = some [1, 0] := by rw [← mergeF_eq 5 _ (by decide)]; decide
  have m2 : merge [[2], [0], [0]] = some [2, 0] := by rw [← mergeF_eq 5 _ (by decide)]; decide
  have m3 : merge [[3], [1, 0], [2, 0], [1, 2]] = some [3, 1, 2, 0] := by
    rw [← mergeF_eq 9 _ (by decide)]; decide
  have m4 : merge [[4], [2, 0], [1, 0], [2, 1]] = some [4, 2, 1, 0] := by
    rw [← mergeF_eq 9 _ (by decide)]; decide
  have m5 : merge [[5], [3, 1, 2, 0], [4, 2, 1, 0], [3, 4]] = none := by
    rw [← mergeF_eq 13 _ (by decide)]; decide
  simp [exBad, mroAll, mroOf, parentLins, Table.get, List.lookup, Except.map, m0, m1, m2, m3, m4, m5]

example : merge [[3], [1, 0], [2, 0], [1, 2]] = if nonEmpty [[3], [1, 0], [2, 0], [1, 2]] = [] then some []
    else match findCand [[3], [1, 0], [2, 0], [1, 2]] [[3], [1, 0], [2, 0], [1, 2]] with
      | none => none
      | some c => (merge (removeCand c [[3], [1, 0], [2, 0], [1, 2]])).map (c :: ·) :=
  merge_terminates _

example : Table.get (mroAll exDiamond) 3 = mroOf (mroAll exDiamond) 3 [1, 2] :=
  mro_recursive_definition exDiamond_wf (by decide)

/-- `c3_props` applies to class 3 of the diamond, whose linearisation is `[3, 1, 2, 0]` -/
example : ∃ L, Table.get (mroAll exDiamond) 3 = .ok L ∧ L = [3, 1, 2, 0] ∧
    L.head? = some 3 ∧ L.Nodup ∧ (3 :: [1, 2]).Sublist L := by
  have hg : Table.get (mroAll exDiamond) 3 = .ok [3, 1, 2, 0] := by
    rw [exDiamond_table]; decide
  obtain ⟨h1, h2, -, h4, -⟩ := c3_props exDiamond_wf (c := 3) (ps := [1, 2]) (by decide) hg
  exact ⟨_, hg, rfl, h1, h2, h4⟩

example : Lin [[3], [1, 0], [2, 0], [1, 2]] [3, 1, 2, 0] :=
  (c3_deterministic _ _).mp (by rw [← mergeF_eq 9 _ (by decide)]; decide)

example : ∃ L₁ L₂, Lin [[3], [1, 0], [2, 0], [1, 2]] L₁ ∧ Lin [[3], [1, 0], [2, 0], [1, 2]] L₂ ∧ L₁ = L₂ :=
  have h := (c3_deterministic [[3], [1, 0], [2, 0], [1, 2]] [3, 1, 2, 0]).mp
    (by rw [← mergeF_eq 9 _ (by decide)]; decide)
  ⟨_, _, h, h, c3_unique h h⟩

example : ∃ L, merge [[3], [1, 0], [2, 0], [1, 2]] = some L ∧ [1, 2].Sublist L :=
  have h : merge [[3], [1, 0], [2, 0], [1, 2]] = some [3, 1, 2, 0] := by
    rw [← mergeF_eq 9 _ (by decide)]; decide
  ⟨_, h, (merge_props h).1 _ (by decide)⟩

/-- `reject_iff`, both directions non-trivially: the order disagreement is stuck after one round -/
example : ∃ s', Reach [[5], [3, 1, 2, 0], [4, 2, 1, 0], [3, 4]] s' ∧ Stuck s' :=
  (reject_iff _).mp (by rw [← mergeF_eq 13 _ (by decide)]; decide)

/-- `mro_reject_iff` applies to `Z(A, B)` of the order-disagreement example, which is rejected -/
example : Table.get (mroAll exBad) 5 = .bad ∧
    ((∃ p ∈ [3, 4], Table.get (mroAll exBad) p = .bad) ∨
      ∃ ls, parentLins (mroAll exBad) [3, 4] = .ok ls ∧ ∃ s', Reach ([5] :: ls ++ [[3, 4]]) s' ∧ Stuck s') := by
  have hg : Table.get (mroAll exBad) 5 = .bad := by rw [exBad_table]; decide
  refine ⟨hg, (mro_reject_iff exBad_wf (c := 5) (ps := [3, 4]) (by decide) ?_).mp hg⟩
  intro p hp
  rw [exBad_table]
  simp only [List.mem_cons, List.mem_nil_iff, or_false] at hp
  rcases hp with rfl | rfl <;> decide

end CylcModel.C35
