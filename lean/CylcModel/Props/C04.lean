/-
C04 — Runahead limit is respected and never deadlocks a completable run.

Statements only; proofs by reference to `SchedLemmasC04`.  Everything is about the frozen `Sched`
model (count limits `Pn`, no future-trigger offsets, no duration limits, no manual triggers, no
`set_stop_point` command -- Sched v1 has none of these), for **all** instance graphs `g`
satisfying the two decidable hypotheses of `SchedSpecC04`

* `wfSeqs g`    : every recurrence is the strictly ascending list of its points,
* `wfForward g` : no graph child / next parentless instance lies at an earlier point
                  (no future triggers, which is what `max_future_offset` would be needed for),

and **all** op lists (main loops, submit results, job messages in any order).  The driver checks
both hypotheses on every instance graph extracted from the real configuration.
-/
import CylcModel.SchedLemmasC04
namespace CylcModel.C04
open CylcModel.Sched

/-! ### the specification limit -/

/-- **What `limitAt` (the judge's and the theorems' `RunaheadSpec`) is**, without reference to any
sorting function: for *the* strictly ascending list `L` of exactly the points of the workflow's
recurrences at or after the base point `b`, it is the (n+1)-th element of `L` (the last one if `L`
has fewer, `b` itself if `L` is empty), capped at the stop point. -/
theorem limitAt_meaning (g : Graph) (b : Int) (L : List Int) (hs : L.Pairwise (· < ·))
    (hm : ∀ p, p ∈ L ↔ (∃ q ∈ g.seqs, p ∈ q) ∧ b ≤ p) :
    limitAt g b =
      (let l0 := match L[g.runahead]? with
        | some p => p
        | none => L.getLast?.getD b
       match g.stopPoint with
       | some sp => min sp l0
       | none => l0) := by
  have hL : L = pointsFrom g b :=
    sorted_ext _ _ hs (sorted_pointsFrom g b) (fun x => by rw [hm, mem_pointsFrom])
  subst hL
  show capStop g (limit0At g b) = capStop g _
  rw [limit0At_eq, lastTake_eq_get]
  cases (pointsFrom g b)[g.runahead]? <;> rfl

/-- such a list exists (so `limitAt_meaning` determines `limitAt`) -/
theorem pointsFrom_spec (g : Graph) (b : Int) :
    (pointsFrom g b).Pairwise (· < ·) ∧ ∀ p, p ∈ pointsFrom g b ↔ (∃ q ∈ g.seqs, p ∈ q) ∧ b ≤ p :=
  ⟨sorted_pointsFrom g b, mem_pointsFrom g b⟩

/-- **Key lemma**: the k smallest of a union of ascending lists are the k smallest of the union of
each list's first k -- `compute_runahead` only ever looks at the first n+1 points of a recurrence. -/
theorem nth_of_union (k : Nat) (ls : List (List Int)) (h : ∀ q ∈ ls, q.Pairwise (· < ·)) :
    (sortDedup (ls.flatMap fun q => q.take k)).take k = (sortDedup (ls.flatMap fun q => q)).take k :=
  Sched.nth_of_union k ls h

/-- the limit never lies before the base point (when the base point is within the stop point) and
never decreases when the base point moves forward -/
theorem limitAt_bounds (g : Graph) (b b' : Int) :
    ((∀ sp, g.stopPoint = some sp → b ≤ sp) → b ≤ limitAt g b) ∧ (b ≤ b' → limitAt g b ≤ limitAt g b') :=
  ⟨limitAt_ge g b, limitAt_mono g b b'⟩

/-! ### `compute_runahead` -/

/-- **limit_spec_at_recompute**: whenever `compute_runahead` recomputes (here: forced, in *any*
state with a non-empty pool, reachable or not), the new limit is the specification limit of the
earliest point in the pool. -/
theorem limit_spec_at_recompute (g : Graph) (hwf : wfSeqs g = true) (s : State) (b : Int)
    (hb : basePoint s = some b) : (computeRunahead g s true).rhLimit = some (limitAt g b) := by
  have hsel := baseSel_of_basePoint g s b hb
  rcases computeRunahead_shape g s true with ⟨h, _⟩ | ⟨b1, _, h, _⟩ | ⟨b1, hb1, _, he⟩
  · rw [hsel] at h; exact absurd h (by simp)
  · simp at h
  · rw [hsel] at hb1
    simp only [Option.some.injEq] at hb1
    subst hb1
    rw [he]
    simp only [Bool.not_true, Bool.false_and, Bool.false_eq_true, if_false]
    rw [limit_of_seqPts g b hwf]

/-- **cache_transparent / limit after every `compute_runahead`**: in every state of every run, the
ordinary (unforced) `compute_runahead` -- whether it recomputes, reuses the cached sequence points,
or returns early because the base point did not move or the limit already sits at the stop point --
leaves exactly the specification limit of the current pool, the same as a forced recomputation. -/
theorem cache_transparent (g : Graph) (hwf1 : wfSeqs g = true) (hwf2 : wfForward g = true) (ops : List Op) :
    ∀ s ∈ run g ops, ∀ b, basePoint s = some b →
      (computeRunahead g s false).rhLimit = some (limitAt g b) ∧
      (computeRunahead g s false).rhLimit = (computeRunahead g s true).rhLimit := by
  intro s hs b hb
  have hinv := rhInv_run g hwf1 hwf2 ops s hs
  have h1 := (computeRunahead_spec g s false hwf1 hinv).2 b hb
  exact ⟨h1, by rw [h1, limit_spec_at_recompute g hwf1 s b hb]⟩

/-! ### releases -/

/-- **release_sound (every state)**: in every state of every run, every released proxy
(`is_runahead = False`) has a cycle point no later than the specification limit computed from the
*current* pool. -/
theorem release_sound (g : Graph) (hwf1 : wfSeqs g = true) (hwf2 : wfForward g = true) (ops : List Op) :
    ∀ s ∈ run g ops, ∀ x ∈ s.pool, x.runahead = false →
      ∃ b, basePoint s = some b ∧ x.pt ≤ limitAt g b :=
  fun s hs x hx hr => released_within_limit g s (rhInv_run g hwf1 hwf2 ops s hs) x hx hr

/-- **release_sound (the moment of release)**: after a main loop from any state of any run, every
released proxy -- in particular every proxy that this loop released -- lies within the
specification limit of the pool the loop started with (the release is the first thing the loop
does; this is what the judge checks on the real scheduler). -/
theorem release_sound_loop (g : Graph) (hwf1 : wfSeqs g = true) (hwf2 : wfForward g = true) (ops : List Op) :
    ∀ s ∈ run g ops, ∀ b, basePoint s = some b →
      ∀ x ∈ (step g s .loop).pool, x.runahead = false → x.pt ≤ limitAt g b := by
  intro s hs b hb
  have hinv : RhInv g (clearOp s) := rhInv_run g hwf1 hwf2 ops s hs
  exact mainLoop_release_sound g hwf1 hwf2 (clearOp s) hinv b hb

/-- **a release flips `is_runahead` only within the stored limit**: for *any* state, a proxy that
is released after `release_runahead_tasks` was already released before, or lies at or before
`runahead_limit_point`. -/
theorem release_flips_within_limit (g : Graph) (hwf : wfForward g = true) (s : State) :
    ∀ x ∈ (releaseRunahead g s).1.pool, x.runahead = false →
      (∃ y ∈ s.pool, y.pt = x.pt ∧ y.name = x.name ∧ y.runahead = false) ∨
      (∃ l, s.rhLimit = some l ∧ x.pt ≤ l) :=
  releaseRunahead_flips g hwf s

/-- the submit-result and message ops release nothing new and do not touch the limit: what
`release_sound` says about their post-state is inherited from the last main loop -/
theorem other_ops_keep_limit (g : Graph) (hwf1 : wfSeqs g = true) (hwf2 : wfForward g = true) (ops : List Op) :
    ∀ s ∈ run g ops, ∀ op, op ≠ Op.loop →
      (step g s op).rhLimit = s.rhLimit ∧
      ∀ x ∈ (step g s op).pool, x.runahead = false → ∃ l, s.rhLimit = some l ∧ x.pt ≤ l := by
  intro s hs op hop
  have hinv : RhInv g (clearOp s) := rhInv_run g hwf1 hwf2 ops s hs
  have hk : K s.rhLimit s.prevBase s.prevSeqPts (step g s op) := by
    unfold step
    cases op with
    | loop => exact absurd rfl hop
    | subres p n ok sn => exact K_processMessage g hwf2 4 _ _ _ _ _ _ hinv.toK
    | msg p n sn text => exact hinv.toK
  exact ⟨hk.1, fun x hx hr => (hk.2.2.2 x hx).1 hr⟩

/-! ### no deadlock -/

/-- **no_deadlock (base ≤ limit)**: in every state of every run whose earliest pooled point `b` is
within the stop point, the limit left by `compute_runahead` is at or after `b`. -/
theorem no_deadlock_base_le_limit (g : Graph) (hwf1 : wfSeqs g = true) (hwf2 : wfForward g = true)
    (ops : List Op) :
    ∀ s ∈ run g ops, ∀ b, basePoint s = some b → (∀ sp, g.stopPoint = some sp → b ≤ sp) →
      ∃ l, (computeRunahead g s).rhLimit = some l ∧ b ≤ l := by
  intro s hs b hb hsp
  exact ⟨limitAt g b, (cache_transparent g hwf1 hwf2 ops s hs b hb).1, limitAt_ge g b hsp⟩

/-- **no_deadlock (the base cycle is released)**: ... and after the `release_runahead_tasks` that
follows it at the start of every main loop, *no* proxy of the base cycle is held back by the
runahead limit -- so the limit alone can never stop the earliest cycle, hence a run in which every
task completes, from making progress. -/
theorem no_deadlock_base_released (g : Graph) (hwf1 : wfSeqs g = true) (hwf2 : wfForward g = true)
    (ops : List Op) :
    ∀ s ∈ run g ops, ∀ b, basePoint s = some b → (∀ sp, g.stopPoint = some sp → b ≤ sp) →
      ∀ x ∈ (releaseRunahead g (computeRunahead g s)).1.pool, x.pt = b → x.runahead = false := by
  intro s hs b hb hsp
  obtain ⟨l, hl, hbl⟩ := no_deadlock_base_le_limit g hwf1 hwf2 ops s hs b hb hsp
  have hb' : basePoint (computeRunahead g s) = some b := by
    unfold basePoint; rw [pool_computeRunahead]; exact hb
  exact releaseRunahead_base g hwf2 _ b l hb' hl hbl

/-! ### non-vacuity -/

/-- two recurrences of different intervals (`P1` = 1,2,3,4 and `P2` = 1,3), limit `P1`, one
parentless task `a` on every point -/
def exGraph : Graph :=
  let inst (np : Option Int) : InstDef := { pre := [], sui := [], children := [], nextParentless := np }
  { icp := 1, fcp := 4, start := 1, runahead := 1, seqs := [[1, 2, 3, 4], [1, 3]], stopPoint := some 4,
    tasks := [
      { name := "a",
        insts := [(1, inst (some 2)), (2, inst (some 3)), (3, inst (some 4)), (4, inst none)],
        firstParentless := some 1,
        completion := CE.var "succeeded",
        outputs := [{ trigger := "succeeded", message := "succeeded" }] }] }

-- the hypotheses hold for the example graph; the limit binds (3 > limit 2) and differs by base point
example : wfSeqs exGraph = true ∧ wfForward exGraph = true ∧
    limitAt exGraph 1 = 2 ∧ limitAt exGraph 2 = 3 ∧ limitAt exGraph 3 = 4 ∧ limitAt exGraph 4 = 4 := by decide

-- `limitAt_meaning` / `pointsFrom_spec`: the list of points from 2, and its 2nd element
example : pointsFrom exGraph 2 = [2, 3, 4] ∧ [2, 3, 4][exGraph.runahead]? = some (limitAt exGraph 2) := by decide

-- `nth_of_union` on lists where truncation matters
example : (sortDedup ([[1, 4, 7, 10], [2, 3, 5, 6], [9]].flatMap fun q => q.take 3)).take 3 = [1, 2, 3] ∧
    (sortDedup ([[1, 4, 7, 10], [2, 3, 5, 6], [9]].flatMap fun q => q.take 3)) = [1, 2, 3, 4, 5, 7, 9] := by decide

-- start-up: base point 1, limit 2: 1/a and 2/a released, 3/a spawned but held back
example : basePoint (init exGraph) = some 1 ∧ (init exGraph).rhLimit = some 2 ∧
    ((init exGraph).pool.map fun x => (x.pt, x.runahead)) = [(1, false), (2, false), (3, true)] := by decide

-- `cache_transparent` in the start-up state and after a main loop (1/a, 2/a now preparing; the base
-- point did not move, so the unforced call returns early): unforced = forced = specification
example : (computeRunahead exGraph (init exGraph) false).rhLimit = some (limitAt exGraph 1) ∧
    (computeRunahead exGraph (init exGraph) true).rhLimit = some (limitAt exGraph 1) := by decide

def exAfterLoop : State := step exGraph (init exGraph) .loop

example : exAfterLoop ∈ run exGraph [.loop] := by simp [run, exAfterLoop]

example : basePoint exAfterLoop = some 1 ∧
    (computeRunahead exGraph exAfterLoop false).rhLimit = some 2 ∧
    (computeRunahead exGraph exAfterLoop true).rhLimit = some 2 ∧
    (exAfterLoop.pool.map fun x => (x.pt, x.status.str, x.runahead)) =
      [(1, "preparing", false), (2, "preparing", false), (3, "waiting", true)] := by decide

-- `limit_spec_at_recompute` where the base point has moved on to 2 (a state given directly; the
-- completion test of the model goes through `String.replace`, which `decide` cannot evaluate):
-- the limit moves to 3, 3/a is released (and 4/a spawned, held back), the base cycle 2 stays released
def exMoved : State :=
  { pool := [{ pt := 2, name := "a", runahead := false }, { pt := 3, name := "a" }],
    rhLimit := some 2, prevBase := some 1, prevSeqPts := [1, 2, 3] }

example : basePoint exMoved = some 2 ∧
    (computeRunahead exGraph exMoved true).rhLimit = some (limitAt exGraph 2) ∧
    (computeRunahead exGraph exMoved false).rhLimit = some 3 ∧
    ((releaseRunahead exGraph (computeRunahead exGraph exMoved)).1.pool.map fun x => (x.pt, x.runahead)) =
      [(2, false), (3, false), (4, true)] := by decide

-- `other_ops_keep_limit`: a non-loop op
example : Op.subres 1 "a" true 1 ≠ Op.loop := by intro h; cases h

end CylcModel.C04
