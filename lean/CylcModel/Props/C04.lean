/-
C04 — Runahead limit is respected and never deadlocks a completable run.

Statements only; proofs by reference to `SchedLemmasC04`.  Everything is about the frozen `Sched`
model (count limits `Pn`, no future-trigger offsets, no duration limits, no manual triggers, no
`set_stop_point` command -- Sched v1 has none of these), for **all** instance graphs `g`
satisfying the two decidable hypotheses of `SchedSpecC04`

* `wfSeqs g`    : every recurrence is the strictly ascending list of its points,
* `wfForward g` : no graph child / next parentless instance lies at an earlier point
                  (no future triggers, which is what `max_future_offset` would be needed for),

and **all** op lists (main loops, submit results, job messages in any order).  The driver checks
both hypotheses on every instance graph extracted from the real configuration.

Second half: the component model `Runahead` of `compute_runahead` / `set_max_future_offset` /
`release_runahead_tasks` on an explicitly given pool -- count *and* duration limits, future-trigger
offsets, arbitrary pool changes (the base point may move backward, as after a manual trigger) -- tied
to the real functions by direct correspondence on a pool stub.  There the full statement is false on
the code as found (finding `stale-limit-at-stop-point`): `direct_compute_sound_full` is kept as a
`def`, refuted on a reachable state, and proved with the excluding hypothesis / for the repaired
early return (`Cfg.guarded`, findings/C04-fix-1.diff).
-/
import CylcModel.SchedLemmasC04
import CylcModel.RunaheadLemmas
namespace CylcModel.C04
open CylcModel.Sched

/-! ### the specification limit -/

/-- **What `limitAt` (the judge's and the theorems' `RunaheadSpec`) is**, without reference to any
sorting function: for *the* strictly ascending list `L` of exactly the points of the workflow's
recurrences at or after the base point `b`, it is the (n+1)-th element of `L` (the last one if `L`
has fewer, `b` itself if `L` is empty), capped at the stop point. -/
theorem limitAt_meaning (g : Graph) (b : Int) (L : List Int) (hs : L.Pairwise (· < ·))
    (hm : ∀ p, p ∈ L ↔ (∃ q ∈ g.seqs, p ∈ q) ∧ b ≤ p) :
    limitAt g b =
      (let l0 := match L[g.runahead]? with
        | some p => p
        | none => L.getLast?.getD b
       match g.stopPoint with
       | some sp => min sp l0
       | none => l0) := by
  have hL : L = pointsFrom g b :=
    sorted_ext _ _ hs (sorted_pointsFrom g b) (fun x => by rw [hm, mem_pointsFrom])
  subst hL
  show capStop g (limit0At g b) = capStop g _
  rw [limit0At_eq, lastTake_eq_get]
  cases (pointsFrom g b)[g.runahead]? <;> rfl

/-- such a list exists (so `limitAt_meaning` determines `limitAt`) -/
theorem pointsFrom_spec (g : Graph) (b : Int) :
    (pointsFrom g b).Pairwise (· < ·) ∧ ∀ p, p ∈ pointsFrom g b ↔ (∃ q ∈ g.seqs, p ∈ q) ∧ b ≤ p :=
  ⟨sorted_pointsFrom g b, mem_pointsFrom g b⟩

/-- **Key lemma**: the k smallest of a union of ascending lists are the k smallest of the union of
each list's first k -- `compute_runahead` only ever looks at the first n+1 points of a recurrence. -/
theorem nth_of_union (k : Nat) (ls : List (List Int)) (h : ∀ q ∈ ls, q.Pairwise (· < ·)) :
    (sortDedup (ls.flatMap fun q => q.take k)).take k = (sortDedup (ls.flatMap fun q => q)).take k :=
  Sched.nth_of_union k ls h

/-- the limit never lies before the base point (when the base point is within the stop point) and
never decreases when the base point moves forward -/
theorem limitAt_bounds (g : Graph) (b b' : Int) :
    ((∀ sp, g.stopPoint = some sp → b ≤ sp) → b ≤ limitAt g b) ∧ (b ≤ b' → limitAt g b ≤ limitAt g b') :=
  ⟨limitAt_ge g b, limitAt_mono g b b'⟩

/-! ### `compute_runahead` -/

/-- **limit_spec_at_recompute**: whenever `compute_runahead` recomputes (here: forced, in *any*
state with a non-empty pool, reachable or not), the new limit is the specification limit of the
earliest point in the pool. -/
theorem limit_spec_at_recompute (g : Graph) (hwf : wfSeqs g = true) (s : State) (b : Int)
    (hb : basePoint s = some b) : (computeRunahead g s true).rhLimit = some (limitAt g b) := by
  have hsel := baseSel_of_basePoint g s b hb
  rcases computeRunahead_shape g s true with ⟨h, _⟩ | ⟨b1, _, h, _⟩ | ⟨b1, hb1, _, he⟩
  · rw [hsel] at h; exact absurd h (by simp)
  · simp at h
  · rw [hsel] at hb1
    simp only [Option.some.injEq] at hb1
    subst hb1
    rw [he]
    simp only [Bool.not_true, Bool.false_and, Bool.false_eq_true, if_false]
    rw [limit_of_seqPts g b hwf]

/-- **cache_transparent / limit after every `compute_runahead`**: in every state of every run, the
ordinary (unforced) `compute_runahead` -- whether it recomputes, reuses the cached sequence points,
or returns early because the base point did not move or the limit already sits at the stop point --
leaves exactly the specification limit of the current pool, the same as a forced recomputation. -/
theorem cache_transparent (g : Graph) (hwf1 : wfSeqs g = true) (hwf2 : wfForward g = true) (ops : List Op) :
    ∀ s ∈ run g ops, ∀ b, basePoint s = some b →
      (computeRunahead g s false).rhLimit = some (limitAt g b) ∧
      (computeRunahead g s false).rhLimit = (computeRunahead g s true).rhLimit := by
  intro s hs b hb
  have hinv := rhInv_run g hwf1 hwf2 ops s hs
  have h1 := (computeRunahead_spec g s false hwf1 hinv).2 b hb
  exact ⟨h1, by rw [h1, limit_spec_at_recompute g hwf1 s b hb]⟩

/-! ### releases -/

/-- **release_sound (every state)**: in every state of every run, every released proxy
(`is_runahead = False`) has a cycle point no later than the specification limit computed from the
*current* pool. -/
theorem release_sound (g : Graph) (hwf1 : wfSeqs g = true) (hwf2 : wfForward g = true) (ops : List Op) :
    ∀ s ∈ run g ops, ∀ x ∈ s.pool, x.runahead = false →
      ∃ b, basePoint s = some b ∧ x.pt ≤ limitAt g b :=
  fun s hs x hx hr => released_within_limit g s (rhInv_run g hwf1 hwf2 ops s hs) x hx hr

/-- **release_sound (the moment of release)**: after a main loop from any state of any run, every
released proxy -- in particular every proxy that this loop released -- lies within the
specification limit of the pool the loop started with (the release is the first thing the loop
does; this is what the judge checks on the real scheduler). -/
theorem release_sound_loop (g : Graph) (hwf1 : wfSeqs g = true) (hwf2 : wfForward g = true) (ops : List Op) :
    ∀ s ∈ run g ops, ∀ b, basePoint s = some b →
      ∀ x ∈ (step g s .loop).pool, x.runahead = false → x.pt ≤ limitAt g b := by
  intro s hs b hb
  have hinv : RhInv g (clearOp s) := rhInv_run g hwf1 hwf2 ops s hs
  exact mainLoop_release_sound g hwf1 hwf2 (clearOp s) hinv b hb

/-- **a release flips `is_runahead` only within the stored limit**: for *any* state, a proxy that
is released after `release_runahead_tasks` was already released before, or lies at or before
`runahead_limit_point`. -/
theorem release_flips_within_limit (g : Graph) (hwf : wfForward g = true) (s : State) :
    ∀ x ∈ (releaseRunahead g s).1.pool, x.runahead = false →
      (∃ y ∈ s.pool, y.pt = x.pt ∧ y.name = x.name ∧ y.runahead = false) ∨
      (∃ l, s.rhLimit = some l ∧ x.pt ≤ l) :=
  releaseRunahead_flips g hwf s

/-- the submit-result and message ops release nothing new and do not touch the limit: what
`release_sound` says about their post-state is inherited from the last main loop -/
theorem other_ops_keep_limit (g : Graph) (hwf1 : wfSeqs g = true) (hwf2 : wfForward g = true) (ops : List Op) :
    ∀ s ∈ run g ops, ∀ op, op ≠ Op.loop →
      (step g s op).rhLimit = s.rhLimit ∧
      ∀ x ∈ (step g s op).pool, x.runahead = false → ∃ l, s.rhLimit = some l ∧ x.pt ≤ l := by
  intro s hs op hop
  have hinv : RhInv g (clearOp s) := rhInv_run g hwf1 hwf2 ops s hs
  have hk : K s.rhLimit s.prevBase s.prevSeqPts (step g s op) := by
    unfold step
    cases op with
    | loop => exact absurd rfl hop
    | subres p n ok sn => exact K_processMessage g hwf2 4 _ _ _ _ _ _ hinv.toK
    | msg p n sn text => exact hinv.toK
  exact ⟨hk.1, fun x hx hr => (hk.2.2.2 x hx).1 hr⟩

/-! ### no deadlock -/

/-- **no_deadlock (base ≤ limit)**: in every state of every run whose earliest pooled point `b` is
within the stop point, the limit left by `compute_runahead` is at or after `b`. -/
theorem no_deadlock_base_le_limit (g : Graph) (hwf1 : wfSeqs g = true) (hwf2 : wfForward g = true)
    (ops : List Op) :
    ∀ s ∈ run g ops, ∀ b, basePoint s = some b → (∀ sp, g.stopPoint = some sp → b ≤ sp) →
      ∃ l, (computeRunahead g s).rhLimit = some l ∧ b ≤ l := by
  intro s hs b hb hsp
  exact ⟨limitAt g b, (cache_transparent g hwf1 hwf2 ops s hs b hb).1, limitAt_ge g b hsp⟩

/-- **no_deadlock (the base cycle is released)**: ... and after the `release_runahead_tasks` that
follows it at the start of every main loop, *no* proxy of the base cycle is held back by the
runahead limit -- so the limit alone can never stop the earliest cycle, hence a run in which every
task completes, from making progress. -/
theorem no_deadlock_base_released (g : Graph) (hwf1 : wfSeqs g = true) (hwf2 : wfForward g = true)
    (ops : List Op) :
    ∀ s ∈ run g ops, ∀ b, basePoint s = some b → (∀ sp, g.stopPoint = some sp → b ≤ sp) →
      ∀ x ∈ (releaseRunahead g (computeRunahead g s)).1.pool, x.pt = b → x.runahead = false := by
  intro s hs b hb hsp
  obtain ⟨l, hl, hbl⟩ := no_deadlock_base_le_limit g hwf1 hwf2 ops s hs b hb hsp
  have hb' : basePoint (computeRunahead g s) = some b := by
    unfold basePoint; rw [pool_computeRunahead]; exact hb
  exact releaseRunahead_base g hwf2 _ b l hb' hl hbl

/-! ### non-vacuity -/

/-- two recurrences of different intervals (`P1` = 1,2,3,4 and `P2` = 1,3), limit `P1`, one
parentless task `a` on every point -/
def exGraph : Graph :=
  let inst (np : Option Int) : InstDef := { pre := [], sui := [], children := [], nextParentless := np }
  { icp := 1, fcp := 4, start := 1, runahead := 1, seqs := [[1, 2, 3, 4], [1, 3]], stopPoint := some 4,
    tasks := [
      { name := "a",
        insts := [(1, inst (some 2)), (2, inst (some 3)), (3, inst (some 4)), (4, inst none)],
        firstParentless := some 1,
        completion := CE.var "succeeded",
        outputs := [{ trigger := "succeeded", message := "succeeded" }] }] }

-- the hypotheses hold for the example graph; the limit binds (3 > limit 2) and differs by base point
example : wfSeqs exGraph = true ∧ wfForward exGraph = true ∧
    limitAt exGraph 1 = 2 ∧ limitAt exGraph 2 = 3 ∧ limitAt exGraph 3 = 4 ∧ limitAt exGraph 4 = 4 := by decide

-- `limitAt_meaning` / `pointsFrom_spec`: the list of points from 2, and its 2nd element
example : pointsFrom exGraph 2 = [2, 3, 4] ∧ [2, 3, 4][exGraph.runahead]? = some (limitAt exGraph 2) := by decide

-- `nth_of_union` on lists where truncation matters
example : (sortDedup ([[1, 4, 7, 10], [2, 3, 5, 6], [9]].flatMap fun q => q.take 3)).take 3 = [1, 2, 3] ∧
    (sortDedup ([[1, 4, 7, 10], [2, 3, 5, 6], [9]].flatMap fun q => q.take 3)) = [1, 2, 3, 4, 5, 7, 9] := by decide

-- start-up: base point 1, limit 2: 1/a and 2/a released, 3/a spawned but held back
example : basePoint (init exGraph) = some 1 ∧ (init exGraph).rhLimit = some 2 ∧
    ((init exGraph).pool.map fun x => (x.pt, x.runahead)) = [(1, false), (2, false), (3, true)] := by decide

-- `cache_transparent` in the start-up state and after a main loop (1/a, 2/a now preparing; the base
-- point did not move, so the unforced call returns early): unforced = forced = specification
example : (computeRunahead exGraph (init exGraph) false).rhLimit = some (limitAt exGraph 1) ∧
    (computeRunahead exGraph (init exGraph) true).rhLimit = some (limitAt exGraph 1) := by decide

def exAfterLoop : State := step exGraph (init exGraph) .loop

example : exAfterLoop ∈ run exGraph [.loop] := by simp [run, exAfterLoop]

example : basePoint exAfterLoop = some 1 ∧
    (computeRunahead exGraph exAfterLoop false).rhLimit = some 2 ∧
    (computeRunahead exGraph exAfterLoop true).rhLimit = some 2 ∧
    (exAfterLoop.pool.map fun x => (x.pt, x.status.str, x.runahead)) =
      [(1, "preparing", false), (2, "preparing", false), (3, "waiting", true)] := by decide

-- `limit_spec_at_recompute` where the base point has moved on to 2 (a state given directly; the
-- completion test of the model goes through `String.replace`, which `decide` cannot evaluate):
-- the limit moves to 3, 3/a is released (and 4/a spawned, held back), the base cycle 2 stays released
def exMoved : State :=
  { pool := [{ pt := 2, name := "a", runahead := false }, { pt := 3, name := "a" }],
    rhLimit := some 2, prevBase := some 1, prevSeqPts := [1, 2, 3] }

example : basePoint exMoved = some 2 ∧
    (computeRunahead exGraph exMoved true).rhLimit = some (limitAt exGraph 2) ∧
    (computeRunahead exGraph exMoved false).rhLimit = some 3 ∧
    ((releaseRunahead exGraph (computeRunahead exGraph exMoved)).1.pool.map fun x => (x.pt, x.runahead)) =
      [(2, false), (3, false), (4, true)] := by decide

-- `other_ops_keep_limit`: a non-loop op
example : Op.subres 1 "a" true 1 ≠ Op.loop := by intro h; cases h


end CylcModel.C04

/-! ## (ii) the component model `Runahead`: duration limits, future-trigger offsets, any pool history -/

namespace CylcModel.C04
open CylcModel.Runahead
open CylcModel.Sched (sorted_ext lastTake lastTake_eq_get)

/-- **What `Runahead.spec0` is**, for *the* strictly ascending list `L` of exactly the points of the
recurrences at or after the base point `b`: for `Pn` the (n+1)-th element of `L` (the last one if
fewer), for a duration `D` the last element of `L` that is no later than `b + D`; `b` if there is none.
(`specLimit` adds the largest future-trigger offset among pooled tasks and caps at the stop point.) -/
theorem direct_spec0_meaning (c : Cfg) (b : Int) (L : List Int) (hs : L.Pairwise (· < ·))
    (hm : ∀ p, p ∈ L ↔ (∃ q ∈ c.seqs, p ∈ q) ∧ b ≤ p) :
    spec0 c b = match c.limit with
      | .count n => (match L[n]? with | some p => p | none => L.getLast?.getD b)
      | .dur d => ((L.filter (· ≤ b + d)).getLast?).getD b := by
  have hL : L = Runahead.allFrom c b :=
    sorted_ext _ _ hs (Runahead.sorted_allFrom c b) (fun x => by rw [hm, Runahead.mem_allFrom])
  subst hL
  unfold spec0
  cases c.limit with
  | count n =>
    simp only
    have := lastTake_eq_get (Runahead.allFrom c b) n b
    unfold lastTake at this
    rw [this]
    cases (Runahead.allFrom c b)[n]? <;> rfl
  | dur d => rfl

/-- a forced `compute_runahead` leaves the specification limit of the current pool and stored offset, in *any* state -/
theorem direct_compute_forced (c : Cfg) (hwf : wf c = true) (s : St) (b : Int)
    (hb : Runahead.basePoint c s = some b) :
    (Runahead.compute c s true).1.limit = some (specLimit c s.maxOff b) :=
  (Runahead.compute_forced c s hwf).2.2.2 b hb

/-- **full statement** (false on the code as found): after any history of pool changes, offset
updates, computations and releases, the unforced `compute_runahead` leaves the specification limit
of the current pool -/
def direct_compute_sound_full : Prop :=
  ∀ (c : Cfg), wf c = true → c.guarded = false → ∀ (ops : List Op) (b : Int),
    Runahead.basePoint c (runSt c ops) = some b →
    (Runahead.compute c (runSt c ops) false).1.limit = some (specLimit c (runSt c ops).maxOff b)

/-- **proved**: the same, *unless* the limit sits at the stop point and the base point has moved
backward past the cached one, with the code as found or with an empty pool (`Stale`) -- recomputation,
cached sequence points and both early returns included -/
theorem direct_compute_sound_partial (c : Cfg) (hwf : wf c = true) (ops : List Op) (f : Bool) (b : Int)
    (hb : Runahead.basePoint c (runSt c ops) = some b) (hns : ¬ Stale c (runSt c ops) b ∨ f = true) :
    (Runahead.compute c (runSt c ops) f).1.limit = some (specLimit c (runSt c ops).maxOff b) :=
  (Runahead.compute_spec c _ f hwf (Runahead.dinv_run c hwf ops)).2.2.2 b hb hns

/-- with the repaired early return (only when the base point moved forward, or the pool is empty)
the full statement holds for every non-empty pool -/
theorem direct_compute_sound_guarded (c : Cfg) (hwf : wf c = true) (hg : c.guarded = true) (ops : List Op)
    (f : Bool) (b : Int) (hb : Runahead.basePoint c (runSt c ops) = some b)
    (hne : (runSt c ops).pool.isEmpty = false) :
    (Runahead.compute c (runSt c ops) f).1.limit = some (specLimit c (runSt c ops).maxOff b) :=
  direct_compute_sound_partial c hwf ops f b hb (Or.inl (fun h => by
    rcases h.2.2.2 with h1 | h1
    · rw [hg] at h1; exact absurd h1 (by simp)
    · rw [hne] at h1; exact absurd h1 (by simp)))

/-- `P1` on 1..6, limit `P1`, stop point 4 -/
def exStale : Cfg := { seqs := [[1, 2, 3, 4, 5, 6]], limit := .count 1, start := 1, stop := some 4 }

/-- the pool holds cycle 3 (limit 4 = stop point), then cycle 1 joins (a task triggered by hand) -/
def exStaleOps : List Op := [.pool [{ pt := 3 }], .offset, .compute false, .pool [{ pt := 1 }, { pt := 3 }], .offset]

/-- **counterexample** on a reachable state: the limit stays at 4 although `RunaheadSpec` of the pool {1, 3} is 2 -/
theorem direct_compute_sound_counterexample : ¬ direct_compute_sound_full := by
  intro h
  have := h exStale (by decide) (by decide) exStaleOps 1 (by decide)
  revert this
  decide

/-- **release_sound (component)**: pool becomes `ts`, `set_max_future_offset`, `compute_runahead`,
`release_runahead_tasks` -- every released point is no later than the specification limit of `ts`
(with the largest future offset in `ts`), unless `Stale` -/
theorem direct_release_sound (c : Cfg) (hwf : wf c = true) (ops : List Op) (ts : List Task) (f : Bool) (b : Int)
    (hb : Runahead.basePoint c (runSt c (ops ++ [.pool ts, .offset])) = some b)
    (hns : ¬ Stale c (runSt c (ops ++ [.pool ts, .offset])) b ∨ f = true) :
    ∀ p ∈ (Runahead.release (Runahead.compute c (runSt c (ops ++ [.pool ts, .offset])) f).1).2,
      p ≤ specLimit c (maxOffOf ts) b := by
  intro p hp
  have hlim := direct_compute_sound_partial c hwf (ops ++ [.pool ts, .offset]) f b hb hns
  have hoff : (runSt c (ops ++ [.pool ts, .offset])).maxOff = maxOffOf ts := (pool_offset_spec c hwf ops ts).2.1
  obtain ⟨l, hl, hle⟩ := (Runahead.release_spec _).1 p hp
  rw [hlim, hoff] at hl
  simp only [Option.some.injEq] at hl
  omega

/-- **no deadlock (component)**: in the same situation, with or without `Stale`, every
runahead-limited task of the base cycle is released (base point within the stop point, offsets not negative) -/
theorem direct_no_deadlock (c : Cfg) (hwf : wf c = true) (ops : List Op) (ts : List Task) (f : Bool) (b : Int)
    (hb : Runahead.basePoint c (runSt c (ops ++ [.pool ts, .offset])) = some b)
    (hsp : ∀ sp, c.stop = some sp → b ≤ sp) (hoff : ∀ v, maxOffOf ts = some v → 0 ≤ v) :
    ∀ t ∈ ts, t.pt = b → t.rh = true →
      b ∈ (Runahead.release (Runahead.compute c (runSt c (ops ++ [.pool ts, .offset])) f).1).2 := by
  intro t ht htb hrh
  generalize hS : runSt c (ops ++ [.pool ts, .offset]) = S at hb
  have hinv : DInv c S := by rw [← hS]; exact Runahead.dinv_run c hwf _
  have hSp : S.maxOff = maxOffOf ts ∧ S.pool = ts := by
    rw [← hS]
    exact (pool_offset_spec c hwf ops ts).2
  obtain ⟨_, hmo, hpool, hlimit⟩ := Runahead.compute_spec c S f hwf hinv
  -- the limit after the computation is at or after the base point
  have hge : ∃ l, (Runahead.compute c S f).1.limit = some l ∧ b ≤ l := by
    by_cases hst : Stale c S b
    · -- early return with the limit at the stop point
      obtain ⟨hsome, hstop, ⟨pb, hpb, hlt⟩, hg⟩ := hst
      obtain ⟨l, hl⟩ := Option.isSome_iff_exists.mp hsome
      cases f with
      | true =>
        refine ⟨_, hlimit b hb (Or.inr rfl), ?_⟩
        exact Runahead.specLimit_ge c _ b (by rw [hSp.1]; exact hoff) hsp
      | false =>
        rcases Runahead.compute_shape c S false with ⟨hn, _⟩ | ⟨b1, hb1, _, he⟩ | ⟨b1, hb1, hnot, _⟩
        · rw [hb] at hn; exact absurd hn (by simp)
        · refine ⟨l, by rw [he]; exact hl, ?_⟩
          have : c.stop = some l := by rw [← hstop, hl]
          exact hsp l this
        · exfalso
          rw [hb] at hb1
          simp only [Option.some.injEq] at hb1
          subst hb1
          apply hnot
          have e1 : (S.limit == c.stop) = true := by rw [hstop]; simp
          rw [hsome, e1]
          rcases hg with hg | hg
          · rw [hg]; simp
          · rw [hg]; simp
    · refine ⟨_, hlimit b hb (Or.inl hst), ?_⟩
      exact Runahead.specLimit_ge c _ b (by rw [hSp.1]; exact hoff) hsp
  obtain ⟨l, hl, hbl⟩ := hge
  have := (Runahead.release_spec (Runahead.compute c S f).1).2 l hl t (by rw [hpool, hSp.2]; exact ht) hrh (by omega)
  rw [htb] at this
  exact this

/-- duration limit 12 on a 6-hourly and a daily recurrence, stop point 30 -/
def exDur : Cfg := { seqs := [[0, 6, 12, 18, 24, 30, 36], [0, 24]], limit := .dur 12, start := 0, stop := some 30 }

def exDurPool : List Task := [{ pt := 6 }, { pt := 12, off := some 6 }, { pt := 24 }, { pt := 30 }]

-- the hypotheses hold; duration window, future offset and stop-point cap all bite
example : wf exDur = true ∧ spec0 exDur 6 = 18 ∧ maxOffOf exDurPool = some 6 ∧
    specLimit exDur (some 6) 6 = 24 ∧ specLimit exDur (some 6) 18 = 30 ∧ specLimit exDur none 18 = 30 := by decide

-- `direct_release_sound` / `direct_no_deadlock`: 6, 12, 24 are released, 30 is held back
example : Runahead.basePoint exDur (runSt exDur ([] ++ [.pool exDurPool, .offset])) = some 6 ∧
    (Runahead.compute exDur (runSt exDur ([] ++ [.pool exDurPool, .offset])) false).1.limit = some 24 ∧
    (Runahead.release (Runahead.compute exDur (runSt exDur ([] ++ [.pool exDurPool, .offset])) false).1).2
      = [6, 12, 24] := by decide

-- the situation excluded by `direct_compute_sound_partial` is reachable (and only with the unguarded code)
example : Stale exStale (runSt exStale exStaleOps) 1 :=
  ⟨by decide, by decide, ⟨3, by decide, by decide⟩, Or.inl (by decide)⟩

-- with the repaired early return the same history brings the limit down to 2
example : (Runahead.compute { exStale with guarded := true } (runSt { exStale with guarded := true } exStaleOps) false).1.limit
    = some 2 := by decide

end CylcModel.C04
