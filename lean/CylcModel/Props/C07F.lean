/-
C07F — stop point / final point WITH future triggers and stop points set by command, over the `Sched3Fut` model
(sub-check of C07).  Property theorems only; lemmas in `Sched3FutLemmas` / `Frame` / `Stop`.
-/
import CylcModel.Sched3FutStop

namespace CylcModel.C07F
open CylcModel.Sched3Fut

/-! ### nothing beyond the stop point is ever launched -/

/-- **Full statement** (property text: "once a stop point is in effect, no task beyond it is submitted"): in every
state of every run, every job launched by the op that led to the state lies at or before the stop point of that state -/
def no_launch_beyond_stop_point_full : Prop := ∀ (g : Graph) (ops : List Op), ∀ s ∈ run g ops, LaunchOK s

/-- **Partial statement** (proved, all graphs - with or without future triggers): for every op list in which each
`cylc stop <point>` finds every pooled proxy beyond the new point unqueued and either runahead-limited, or never
submitted and not waiting, or waiting while the limit is above the new point (`okStopPoint`), and each restart
finds no finished proxy with a job beyond the restored stop point (`okRestart`) - the situations of the recorded
findings `queued-before-stop-point` / `retry-beyond-stop-point` are what the guard excludes -, every state of the
run satisfies the stop-point invariant and no job beyond the stop point is launched. -/
theorem no_launch_beyond_stop_point_partial (g : Graph) (ops : List Op) (hg : Guarded g (okOp g) (init g) ops) :
    ∀ s ∈ run g ops, LaunchOK s :=
  fun s hs => (spinv_run g ops hg s hs).launchOK

/-- **… and beyond the stop point tasks stay runahead-limited**: in every state of every guarded run the runahead
limit does not exceed the stop point, and a pooled proxy beyond the stop point is not queued and either still
runahead-limited or never had a job and is not waiting (so it can never become ready) -/
theorem beyond_stop_point_held_back (g : Graph) (ops : List Op) (hg : Guarded g (okOp g) (init g) ops) :
    ∀ s ∈ run g ops, ∀ sp, s.stopPoint = some sp →
      (∀ l, s.rhLimit = some l → l ≤ sp) ∧
      (∀ x ∈ s.pool, sp < x.pt → x.queued = false ∧ (x.runahead = true ∨ (x.timers = false ∧ x.status ≠ .waiting))) := by
  intro s hs sp hsp
  have h := spinv_run g ops hg s hs sp hsp
  exact ⟨h.2.lim, fun x hx => h.1 x hx⟩

/-- Corollary (the configured stop point / final point): without `cylc stop <point>` and restart ops nothing beyond the
stop point is ever launched - unconditionally, future triggers included. -/
theorem no_launch_beyond_stop_point_configured (g : Graph) (ops : List Op)
    (h : ∀ op ∈ ops, (∀ p, op ≠ .stopPoint p) ∧ op ≠ .restart) : ∀ s ∈ run g ops, LaunchOK s :=
  no_launch_beyond_stop_point_partial g ops (guarded_of_plain g ops _ h)

/-- one main loop from a state satisfying the invariant launches nothing beyond the stop point and keeps the invariant -/
theorem main_loop_respects_stop_point (g : Graph) (s : State) (h : SPInv s) :
    SPInv (step g s .loop) ∧ LaunchOK (step g s .loop) :=
  ⟨spinv_step g s .loop h rfl, (spinv_step g s .loop h rfl).launchOK⟩

/-! ### the future-trigger exception -/

/-- **`spawn_task` refuses an instance at or before the stop point with a prerequisite beyond it** ("Don't add to pool
if it depends on a task beyond the stop point"), whatever else holds -/
theorem future_prereq_refused (g : Graph) (s : State) (n : String) (p sp : Int) (x : Proxy)
    (hsp : s.stopPoint = some sp) (hx : mkProxy g n p = some x) (hp : p ≤ sp)
    (hat : ∃ pr ∈ x.pre, ∃ a ∈ pr.atoms, a.1.pt > sp) : (spawnTask g s n p).2 = none := by
  cases hy : (spawnTask g s n p).2 with
  | none => rfl
  | some y =>
    exfalso
    obtain ⟨x', y0, hx', hy0, hb, _⟩ := spawnTask_some_eq hy
    rw [hx] at hx'
    simp only [Option.some.injEq] at hx'
    subst hx'
    have hpre : (holdOnSpawn (touch g s n p) n p y0).2.pre = x.pre := by
      rw [(holdOnSpawn_fresh _ _ _ _ (revive_fresh hy0 (mkProxy_fresh hx)).1).2, (revive_fresh hy0 (mkProxy_fresh hx)).2]
    have hstop : (holdOnSpawn (touch g s n p) n p y0).1.stopPoint = some sp := by
      rw [stopPoint_holdOnSpawn, (frame_touch g s n p).1]; exact hsp
    have := beyondStop_false hstop hb hp
    obtain ⟨pr, hpr, a, ha, hgt⟩ := hat
    have h1 := this (pr.atoms.map (·.1)) (by
      unfold atomKeys; rw [hpre]; exact List.mem_map.mpr ⟨pr, hpr, rfl⟩) a.1 (List.mem_map.mpr ⟨a, ha, rfl⟩)
    omega

/-- **… so, as long as the stop point is not moved, no pooled proxy at or before the stop point waits on anything
beyond it** (run invariant, all graphs, all op lists without `cylc stop <point>` / restart): the task the code comment
speaks of ("baz also depends on foo after the final point") is never in the pool, hence can neither stall the
workflow nor keep it from shutting down -/
theorem no_prerequisite_beyond_stop_point (g : Graph) (sp : Int) (hsp : g.stopPoint = some sp) (ops : List Op)
    (hops : ∀ op ∈ ops, (∀ p, op ≠ .stopPoint p) ∧ op ≠ .restart) :
    ∀ s ∈ run g ops, s.stopPoint = some sp ∧
      ∀ x ∈ s.pool, x.pt ≤ sp → ∀ pr ∈ x.pre, ∀ a ∈ pr.atoms, a.1.pt ≤ sp := by
  intro s hs
  have h := atoms_ok_run g sp hsp ops hops s hs
  refine ⟨h.2, ?_⟩
  intro x hx hp pr hpr a ha
  exact h.1 x hx hp (pr.atoms.map (·.1)) (List.mem_map.mpr ⟨pr, hpr, rfl⟩) a.1 (List.mem_map.mpr ⟨a, ha, rfl⟩)

/-! ### Example graph: one parentless task `a` on cycles 1..3, runahead limit P2 (the witness of C43) -/

def exInst (next : Option Int) : InstDef := { pre := [], sui := [], children := [], nextParentless := next }

def exOutputs : List OutDef :=
  [{ trigger := "succeeded", message := "succeeded" }, { trigger := "failed", message := "failed" },
   { trigger := "started", message := "started" }, { trigger := "submitted", message := "submitted" }]

def exGraph : Graph :=
  { icp := 1, fcp := 3, start := 1, runahead := 2, seqs := [[1, 2, 3]], stopPoint := some 3,
    tasks := [
      { name := "a",
        insts := [(1, exInst (some 2)), (2, exInst (some 3)), (3, exInst none)],
        firstParentless := some 1, completion := CE.var "succeeded", outputs := exOutputs }] }

def exGraphP0 : Graph := { exGraph with runahead := 0 }

/-- the witness: all three instances are queued at start-up; `cylc stop 1` then puts 2/a and 3/a back under
the runahead limit but leaves them queued, and the next main loop launches them -/
def exOpsLower : List Op := [.stopPoint 1, .loop]

/-- **The full statement is false** for the model (and for cylc-flow: findings/C07F.json, findings/C43.json
`queued-before-stop-point`): a proxy queued before `cylc stop <point>` lowered the stop point below it is
still released and submitted. -/
theorem no_launch_beyond_stop_point_counterexample : ¬ no_launch_beyond_stop_point_full := by
  intro h
  have := h exGraph exOpsLower _ (mem_run_last exGraph exOpsLower) 1 (by decide) (3, "a", 1) (by decide)
  exact absurd this (by decide)

-- non-vacuity: a guarded run that lowers the stop point (runahead P0 keeps 2/a back, so nothing beyond the
-- new stop point 1 is queued when `cylc stop 1` arrives); the witness of the counterexample is not guarded
example : Guarded exGraphP0 (okOp exGraphP0) (init exGraphP0) [.loop, .stopPoint 1, .loop, .loop] :=
  guarded_of_b _ _ _ _ (by decide)

example : ((([Op.loop, .stopPoint 1, .loop, .loop]).foldl (step exGraphP0) (init exGraphP0)).stopPoint = some 1) ∧
    (step exGraphP0 (init exGraphP0) .loop).launched = [(1, "a", 1)] ∧
    guardedB exGraph (okOp exGraph) (init exGraph) exOpsLower = false := by decide

/-! ### Example with a future trigger: `a[+P1]:start & c:start => b`, cycles 1..2 -/

/-- `2/b` depends on `3/a` (beyond the final point = stop point 2) and on `2/c`; `1/b` on `2/a` and `1/c` -/
def futGraph : Graph :=
  { icp := 1, fcp := 2, start := 1, runahead := 2, seqs := [[1, 2]], stopPoint := some 2,
    tasks := [
      { name := "a",
        insts := [(1, exInst (some 2)),
                  (2, { exInst none with children := [("started", [⟨"b", 1, false⟩])], ghosts := [("b", 1)] })],
        firstParentless := some 1, completion := CE.var "succeeded", outputs := exOutputs },
      { name := "c",
        insts := [(1, { exInst (some 2) with children := [("started", [⟨"b", 1, false⟩])], ghosts := [("b", 1)] }),
                  (2, { exInst none with children := [("started", [⟨"b", 2, false⟩])], ghosts := [("b", 2)] })],
        firstParentless := some 1, completion := CE.var "succeeded", outputs := exOutputs },
      { name := "b",
        insts := [(1, { exInst none with pre := [{ atoms := [(⟨2, "a", "started"⟩, false), (⟨1, "c", "started"⟩, false)],
                                                   expr := none }],
                                         futOff := some 1, ghosts := [("a", 2), ("c", 1)] }),
                  (2, { exInst none with pre := [{ atoms := [(⟨3, "a", "started"⟩, false), (⟨2, "c", "started"⟩, false)],
                                                   expr := none }],
                                         futOff := some 1, ghosts := [("c", 2)] })],
        firstParentless := none, completion := CE.var "succeeded", outputs := exOutputs }] }

/-- `1/c` and `2/c` start: `1/c` spawns `1/b` (its future prerequisite `2/a` is within the stop point), `2/c` wants to
spawn `2/b`, which is refused (`3/a` is beyond the stop point) -/
def futOps : List Op :=
  [.loop, .subres 1 "c" true 1, .msg 1 "c" 1 "started", .subres 2 "c" true 1, .msg 2 "c" 1 "started", .loop]

-- non-vacuity of `future_prereq_refused` / `no_prerequisite_beyond_stop_point`: the run spawns 1/b, not 2/b,
-- leaves the refusal in the database queue (committed by the main loop), and raises the cached maximum offset
example : ((futOps.foldl (step futGraph) (init futGraph)).get? 1 "b").isSome = true ∧
    ((futOps.foldl (step futGraph) (init futGraph)).get? 2 "b").isSome = false ∧
    ((futOps.foldl (step futGraph) (init futGraph)).hist.any fun h => h.pt == 2 && h.name == "b") = true ∧
    (futOps.foldl (step futGraph) (init futGraph)).maxFut = some 1 := by decide

example : ∀ op ∈ futOps, (∀ p, op ≠ .stopPoint p) ∧ op ≠ .restart := by
  intro op hop
  simp only [futOps, List.mem_cons, List.mem_nil_iff, or_false] at hop
  rcases hop with rfl | rfl | rfl | rfl | rfl | rfl <;> exact ⟨(fun p h => nomatch h), (fun h => nomatch h)⟩

end CylcModel.C07F
