/-
C44 — Private workflow files are created owner-only.
Property statements only; helper lemmas live in `CylcModel/PermLemmas.lean`.

Prose ↔ statements.  "The private run database and the scheduler's private authentication keys (server
and client private keys)" = `privateFiles`; "are never readable or writable by group or other users once
start-up completes" = after `startup` each of them exists with `mode &&& 0o077 = 0` (`ownerOnly`);
"whatever the umask" = for every initial state `s`: any umask, any pre-existing files with any modes,
fresh start or restart (`modes_private`).  `modes_private_all_umasks` re-computes the same fact by
kernel evaluation of the model on each of the 512 umasks.
-/
import CylcModel.PermLemmas
namespace CylcModel.C44
open CylcModel.Perm

/-- After start-up the private DB, the server private key and the client private key exist and
grant nothing to group or others — from every initial state. -/
theorem modes_private (s : St) (restart : Bool) :
    ∀ f ∈ privateFiles, ∃ m, (startup restart s).files f = some m ∧ ownerOnly m = true := by
  intro f hf
  simp only [privateFiles, List.mem_cons, List.mem_nil_iff, or_false] at hf
  unfold startup
  rcases hf with rfl | rfl | rfl
  · exact dbStart_priDb (keysStart s) restart
  · rw [dbStart_other _ _ _ (by decide) (by decide) (by decide)]
    exact keysStart_priv s _ (.inl rfl)
  · rw [dbStart_other _ _ _ (by decide) (by decide) (by decide)]
    exact keysStart_priv s _ (.inr rfl)

/-- a lax pre-existing state under the most permissive umask, restarting: the private files are
tightened, the public database keeps its mode -/
example : privateFiles.all (fun f =>
      match (startup true ⟨0, fun _ => some 0o666⟩).files f with
      | some m => ownerOnly m
      | none => false) = true ∧
    (startup true ⟨0, fun _ => some 0o666⟩).files .pubDb = some 0o666 := by decide

/-- The whole finite domain the property names, by evaluation: all 512 umasks, fresh start from an
empty directory and restart over world-writable files. -/
theorem modes_private_all_umasks :
    ∀ u : Fin 512, ∀ restart : Bool, ∀ pre : Bool,
      privateFiles.all (fun f =>
        match (startup restart ⟨u.val, fun _ => if pre then some 0o666 else none⟩).files f with
        | some m => ownerOnly m
        | none => false) = true := by
  decide +kernel

/-- Start-up leaves the process umask as it found it (`create_server_keys` restores it). -/
theorem umask_restored (s : St) (restart : Bool) : (startup restart s).umask = s.umask := by
  simp [startup, dbStart_umask, keysStart_umask]

example : (startup false ⟨0o022, fun _ => none⟩).umask = 0o022 := by decide

/-- The creation rule of the model: a new file never carries a permission bit the umask masks. -/
theorem create_respects_umask (req u : Nat) : createMode req u &&& (u &&& allModeBits) = 0 := by
  apply Nat.eq_of_testBit_eq
  intro i
  simp only [createMode, Nat.testBit_and, Nat.testBit_xor, Nat.zero_testBit]
  cases req.testBit i <;> cases u.testBit i <;> cases allModeBits.testBit i <;> rfl

example : createMode 0o666 0o177 = 0o600 ∧ createMode 0o644 0o002 = 0o644 := by decide

end CylcModel.C44
