/-
C27 — Reload preserves task state.  Statements only; proofs by reference to `Sched3ReloadLemmas`.

Model: `Sched3Reload` (the scheduler core with holds / stop / pause / restart + `cylc reload`, a line-by-line port).
`reloadCmd (some g') s` is `commands.reload_workflow` with the accepted new definition `g'` (`none`: rejected),
`reloadTaskdefs` is `TaskPool._reload_taskdefs`, `reloadProxy` is `TaskProxy(...)` + `copy_to_reload_successor`.
All statements hold for every instance graph (old and new), every behaviour-flag value unless said otherwise, and
every state with distinct pool keys - which every state of every run has (`pool_no_duplicates`).
-/
import CylcModel.Sched3ReloadLemmas
namespace CylcModel.C27
open CylcModel.Sched3Reload

/-- the pool keys of a state are distinct -/
abbrev Distinct (s : State) : Prop := (s.pool.map fun x => (x.pt, x.name)).Nodup

/-- `x`'s task is still defined by the new graph `g'` (it is not one of the orphans of the reload) -/
abbrev StillDefined (s : State) (g' : Graph) (x : Proxy) : Prop := (orphansOf s.g g').contains x.name = false

/-- `x`'s task was in the old task list and is not in the new one -/
abbrev Orphaned (s : State) (g' : Graph) (x : Proxy) : Prop := (orphansOf s.g g').contains x.name = true

/-- **Supporting invariant**: in every state of every run of the model - any flags, any instance graph, any list of
main loops, messages, commands, restarts and reloads with any new graphs - no two proxies share (point, name). -/
theorem pool_no_duplicates (fl : Flags) (g : Graph) (ops : List Op) : ∀ s ∈ run fl g ops, Distinct s :=
  nodup_run fl g ops

/-- **The successor of a pooled proxy keeps its state**: whatever the new definition `g'`, the scheduler state
`s` and the proxy `x`, the proxy that `_reload_taskdefs` swaps in has the same point, name, status, flow numbers,
submit number, held and runahead flags, completed outputs (with the outputs object and completion expression),
try numbers and retry wait.  (The queued flag is NOT copied: `reload_successor_unqueued`.) -/
theorem reload_proxy_preserves (g' : Graph) (s : State) (x : Proxy) :
    SameCore x (reloadProxy g' s x) :=
  reloadProxy_sameCore g' s x

theorem reload_successor_unqueued (g' : Graph) (s : State) (x : Proxy) : (reloadProxy g' s x).queued = false :=
  reloadProxy_queued g' s x

/-- **`_reload_taskdefs` is exactly "every entry replaced by its fate, in place"**: a proxy whose task is still
defined becomes its successor; an orphan is dropped if waiting (or, unrepaired code, held / queued) and otherwise
kept with `graph_children = {}`; nothing else enters or leaves the pool and the order is kept. -/
theorem reload_taskdefs_exact (g' : Graph) (s : State) (cs : Option Int) (h : Distinct s) :
    (reloadTaskdefs g' s cs).pool = s.pool.filterMap (succOf g' (orphansOf s.g g') s) :=
  reloadTaskdefs_pool g' s cs h

/-- **Reload preserves task state** (the whole command, accepted definition): every pooled proxy whose task is still
defined is in the pool when `cylc reload` returns, with the same status, flow numbers, submit number, held flag and
completed outputs, the prerequisites `copy_to_reload_successor` computes, and its runahead flag unchanged or
lifted (the command ends with `release_runahead_tasks`), never set. -/
theorem reload_preserves_state (g' : Graph) (s : State) (h : Distinct s) (x : Proxy) (hx : x ∈ s.pool)
    (hdef : StillDefined s g' x) :
    ∃ z ∈ (reloadCmd (some g') s).pool,
      z.pt = x.pt ∧ z.name = x.name ∧ z.status = x.status ∧ z.flows = x.flows ∧ z.submitNum = x.submitNum ∧
      z.held = x.held ∧ z.done = x.done ∧ z.pre = (reloadProxy g' s x).pre ∧
      (z.runahead = x.runahead ∨ z.runahead = false) := by
  obtain ⟨z, hz, hyz⟩ := reloadCmd_survivor g' s h x hx hdef
  have hc := reloadProxy_sameCore g' s x
  unfold SameButRh at hyz
  unfold SameCore at hc
  obtain ⟨a1, a2, a3, a4, a5, a6, _, a8, a9, _, a11⟩ := hyz
  obtain ⟨c1, c2, c3, c4, c5, c6, c7, c8, _⟩ := hc
  refine ⟨z, hz, a1.trans c1, a2.trans c2, a3.trans c3, a4.trans c4, a5.trans c5, a6.trans c6, a8.trans c8, a9, ?_⟩
  rcases a11 with h' | h'
  · exact Or.inl (h'.trans c7)
  · exact Or.inr h'

/-- ... in particular in every state of every run. -/
theorem reload_preserves_state_run (fl : Flags) (g : Graph) (ops : List Op) (s : State) (hs : s ∈ run fl g ops)
    (g' : Graph) (x : Proxy) (hx : x ∈ s.pool) (hdef : StillDefined s g' x) :
    ∃ z ∈ (reloadCmd (some g') s).pool,
      z.pt = x.pt ∧ z.name = x.name ∧ z.status = x.status ∧ z.flows = x.flows ∧ z.submitNum = x.submitNum ∧
      z.held = x.held ∧ z.done = x.done ∧ z.pre = (reloadProxy g' s x).pre ∧
      (z.runahead = x.runahead ∨ z.runahead = false) :=
  reload_preserves_state g' s (nodup_run fl g ops s hs) x hx hdef

/-- **The successor has exactly the prerequisites of the new definition** (atoms and expressions): prerequisites
the new definition dropped are gone, those it added are there. -/
theorem reload_prereq_shape (s : State) (old new : List Pre) :
    (reloadPre s old new).map (fun p => (p.atoms.map (·.1), p.expr)) =
      new.map (fun p => (p.atoms.map (·.1), p.expr)) :=
  reloadPre_shape s old new

/-- **Prerequisites that still exist keep their satisfaction**: an atom of the successor that the old proxy had
carries the state it had before the reload (`lastState`: if it occurred in several prerequisites, the last one). -/
theorem reload_prereq_kept (s : State) (old new : List Pre) (pr : Pre) (hpr : pr ∈ reloadPre s old new)
    (a : Atom) (v w : Bool) (hav : (a, v) ∈ pr.atoms) (hold : lastState old a = some w) :
    v = w ∧ (a, w) ∈ old.flatMap (·.atoms) := by
  have := reloadPre_state s old new pr hpr a v hav
  rw [hold] at this
  exact ⟨this, lastState_some_mem old a w hold⟩

/-- in particular **a prerequisite that was unsatisfied stays unsatisfied** whatever the DB records for its upstream
output (e.g. the task was removed and spawned again after the upstream task had finished) -/
theorem reload_unsatisfied_stays (s : State) (old new : List Pre) (pr : Pre) (hpr : pr ∈ reloadPre s old new)
    (a : Atom) (v : Bool) (hav : (a, v) ∈ pr.atoms) (hocc : a ∈ (old.flatMap (·.atoms)).map (·.1))
    (hall : ∀ b ∈ old.flatMap (·.atoms), b.1 = a → b.2 = false) : v = false := by
  cases hl : lastState old a with
  | none => exact absurd hocc ((lastState_none_iff old a).mp hl)
  | some w =>
    obtain ⟨hv, hm⟩ := reload_prereq_kept s old new pr hpr a v w hav hl
    rw [hv]
    exact hall (a, w) hm rfl

/-- **manually completed outputs survive**: the successor keeps the completed outputs together with their forced marks
(the outputs object is carried over as it is) -/
theorem reload_keeps_forced_outputs (g' : Graph) (s : State) (x : Proxy) :
    (reloadProxy g' s x).done = x.done ∧ (reloadProxy g' s x).forced = x.forced := by
  unfold reloadProxy
  split <;> exact ⟨rfl, rfl⟩

/-- **New prerequisites are satisfied only from outputs already recorded**: an atom the old proxy did not have is
satisfied iff the committed `task_outputs` row of the upstream instance contains the output. -/
theorem reload_prereq_new_from_db (s : State) (old new : List Pre) (pr : Pre) (hpr : pr ∈ reloadPre s old new)
    (a : Atom) (v : Bool) (hav : (a, v) ∈ pr.atoms) (hnew : a ∉ (old.flatMap (·.atoms)).map (·.1)) :
    v = checkOutput s a := by
  have := reloadPre_state s old new pr hpr a v hav
  rw [(lastState_none_iff old a).mpr hnew] at this
  exact this

/-- `check_task_output`: satisfied from the DB means the row of that instance lists the message -/
theorem recorded_iff (s : State) (a : Atom) :
    checkOutput s a = true ↔ ∃ r, s.dbOut.find? (·.1 == (a.pt, a.task)) = some r ∧ a.out ∈ r.2 := by
  unfold checkOutput
  cases hr : s.dbOut.find? (·.1 == (a.pt, a.task)) with
  | none => simp
  | some r => simp

/-! ### Tasks whose definitions were removed -/

/-- an orphan's key is gone after `_reload_taskdefs` exactly when it was waiting - or (flag `dropHeldOrphans`,
the unrepaired code) held or queued -/
theorem orphan_dropped_iff (g' : Graph) (s : State) (cs : Option Int) (h : Distinct s) (x : Proxy) (hx : x ∈ s.pool)
    (horph : Orphaned s g' x) :
    (x.pt, x.name) ∉ (reloadTaskdefs g' s cs).pool.map (fun y => (y.pt, y.name)) ↔
      (x.status == .waiting || (s.fl.dropHeldOrphans && (x.held || x.queued))) = true := by
  have := key_gone_iff g' s cs h x hx
  unfold pkey at this
  rw [this]
  unfold succOf
  rw [horph]
  simp only [if_true]
  split <;> simp_all

/-- the full-strength statement of the property: a task whose definition was removed is dropped only if it has not
started (its status is `waiting`) -/
def orphan_dropped_only_if_not_started_full : Prop :=
  ∀ (g' : Graph) (s : State) (cs : Option Int) (x : Proxy), Distinct s → x ∈ s.pool → Orphaned s g' x →
    (x.pt, x.name) ∉ (reloadTaskdefs g' s cs).pool.map (fun y => (y.pt, y.name)) → x.status = .waiting

/-- proved for the repaired code (findings/C27-fix-1.diff: `dropHeldOrphans = false`) -/
theorem orphan_dropped_only_if_not_started_partial (g' : Graph) (s : State) (cs : Option Int) (x : Proxy)
    (hfl : s.fl.dropHeldOrphans = false) (h : Distinct s) (hx : x ∈ s.pool) (horph : Orphaned s g' x)
    (hgone : (x.pt, x.name) ∉ (reloadTaskdefs g' s cs).pool.map (fun y => (y.pt, y.name))) :
    x.status = .waiting := by
  have := (orphan_dropped_iff g' s cs h x hx horph).mp hgone
  rw [hfl] at this
  simpa using this

/-- an old graph with task `a`, a new one without -/
def exOld : Graph :=
  { icp := 1, fcp := 1, start := 1, runahead := 1, seqs := [[1]], stopPoint := some 1,
    tasks := [
      { name := "a", insts := [(1, { pre := [], sui := [], children := [], nextParentless := none })],
        firstParentless := some 1, completion := CE.var "succeeded",
        outputs := [{ trigger := "succeeded", message := "succeeded" }] },
      { name := "c", insts := [(1, { pre := [], sui := [], children := [], nextParentless := none })],
        firstParentless := some 1, completion := CE.var "succeeded",
        outputs := [{ trigger := "succeeded", message := "succeeded" }] }] }

def exNew : Graph := { exOld with tasks := exOld.tasks.filter (·.name == "c") }

/-- `1/a`: running, held -/
def exA : Proxy :=
  { pt := 1, name := "a", status := .running, held := true, runahead := false, submitNum := 1,
    done := ["submitted", "started"] }

/-- `1/a` running and held, `1/c` waiting and queued -/
def exState (fl : Flags) : State :=
  { g := exOld, fl := fl, qMembers := ["a", "c"],
    pool := [exA, { pt := 1, name := "c", status := .waiting, queued := true, runahead := false }] }

/-- ... and false on the unrepaired code: a held task with a running job is dropped (finding held-orphan-dropped) -/
theorem orphan_dropped_only_if_not_started_counterexample : ¬ orphan_dropped_only_if_not_started_full := by
  intro hfull
  have := hfull exNew (exState {}) none exA (by decide) (List.mem_cons_self) (by decide) (by decide)
  exact absurd this (by decide)

/-- **An orphan that has started is kept** (not waiting, and - unrepaired code - neither held nor queued): it is in
the pool when the command returns, unchanged but for `graph_children = {}` and a possibly lifted runahead limit. -/
theorem orphan_kept_preserved (g' : Graph) (s : State) (h : Distinct s) (x : Proxy) (hx : x ∈ s.pool)
    (horph : Orphaned s g' x)
    (hst : (x.status == .waiting || (s.fl.dropHeldOrphans && (x.held || x.queued))) = false) :
    ∃ z ∈ (reloadCmd (some g') s).pool,
      z.pt = x.pt ∧ z.name = x.name ∧ z.status = x.status ∧ z.flows = x.flows ∧ z.submitNum = x.submitNum ∧
      z.held = x.held ∧ z.queued = x.queued ∧ z.done = x.done ∧ z.pre = x.pre ∧
      (z.runahead = x.runahead ∨ z.runahead = false) := by
  obtain ⟨z, hz, hyz⟩ := reloadCmd_orphan_kept g' s h x hx horph hst
  unfold SameButRh at hyz
  obtain ⟨a1, a2, a3, a4, a5, a6, a7, a8, a9, _, a11⟩ := hyz
  exact ⟨z, hz, a1, a2, a3, a4, a5, a6, a7, a8, a9, a11⟩

/-- **A rejected definition changes no task**: the pool after a failed reload is the pool before. -/
theorem rejected_reload_keeps_pool (s : State) : (reloadCmd none s).pool = s.pool :=
  reloadCmd_rejected_pool s

/-- **Queued flag, at main-loop granularity**: the successors come out of the reload unqueued
(`reload_successor_unqueued`), and the queue-if-ready sweep of the main loop that executed the command queues
every pooled proxy that is waiting, not runahead-limited and ready to run - so a task queued before the reload and
still ready after it is queued again at the end of that iteration (the order inside the queue is not claimed). -/
theorem queued_restored_by_sweep (s : State) (h : Distinct s) (x : Proxy) (hx : x ∈ s.pool)
    (hw : x.status = .waiting) (hr : x.runahead = false)
    (hready : ({ x with retryWait := false } : Proxy).isReadyToRun = true) :
    ∃ y ∈ (sweepQueue s).pool, (y.pt, y.name) = (x.pt, x.name) ∧ y.queued = true :=
  sweep_requeues s h x hx hw hr hready

/-! ### Non-vacuity: the hypotheses are met by concrete, non-trivial values -/

-- the example state has distinct keys, `1/a` is an orphan of the reload `exOld -> exNew`, `1/c` is still defined
example : Distinct (exState {}) := by decide
example : Orphaned (exState {}) exNew { pt := 1, name := "a" } ∧ StillDefined (exState {}) exNew { pt := 1, name := "c" } := by
  decide
-- reload of the example state (unrepaired flags): held running `1/a` is dropped, queued `1/c` survives unqueued
example : ((reloadCmd (some exNew) (exState {})).pool.map fun x => (x.pt, x.name, x.status, x.queued)) =
    [(1, "c", Status.waiting, false)] := by decide
-- repaired flags: `1/a` is kept, barred from spawning
example : ((reloadCmd (some exNew) (exState { dropHeldOrphans := false })).pool.map
    fun x => (x.pt, x.name, x.status, x.held, x.noSpawn)) =
    [(1, "a", Status.running, true, true), (1, "c", Status.waiting, false, false)] := by decide
-- the sweep after the reload queues `1/c` again
example : ((sweepQueue (reloadCmd (some exNew) (exState {}))).pool.map fun x => (x.pt, x.name, x.queued)) =
    [(1, "c", true)] := by decide

/-- a new prerequisite of `1/c` on `1/a:succeeded` / `1/a:started`: only the recorded output is satisfied -/
def exNewPre : List Pre :=
  [{ atoms := [(⟨1, "a", "started"⟩, false), (⟨1, "a", "succeeded"⟩, false)], expr := none }]

example : reloadPre { (exState {}) with dbOut := [((1, "a"), ["submitted", "started"])] } [] exNewPre =
    [{ atoms := [(⟨1, "a", "started"⟩, true), (⟨1, "a", "succeeded"⟩, false)], expr := none }] := by decide
-- an atom that existed keeps its state whatever the DB says
example : reloadPre (exState {}) [{ atoms := [(⟨1, "a", "succeeded"⟩, true)], expr := none }] exNewPre =
    [{ atoms := [(⟨1, "a", "started"⟩, false), (⟨1, "a", "succeeded"⟩, true)], expr := none }] := by decide

end CylcModel.C27
