/-
C15 — Family triggers expand to all/any of the members' outputs.

"For every family qualifier (succeed, fail, finish, start, submit, submit-fail, expire),
FAM:<q>-all on the left of an arrow is equivalent to the AND over all member tasks of the
corresponding member output and FAM:<q>-any to the OR, and a family on the right of an arrow
applies the trigger and the declared optionality to every member."

Model: `CylcModel/Fam.lean`; helper lemmas: `CylcModel/FamLemmas.lean`.  The qualifier tables and
regex character classes are `CylcModel/Generated/FamTables.lean`, regenerated from the source on
every run: the table theorems below are what ties them to the property's seven qualifiers
(`Fam.Stem`, hand-written from the property text).

The valuation `σ : String → Bool` says which member-level atoms `NAME[OFFSET]:OUTPUT` are complete.
-/
import CylcModel.FamLemmas
namespace CylcModel.C15
open CylcModel.Fam CylcModel.Generated.FamTables

/-! ## The tables of the source (K-T) against the seven qualifiers of the property -/

/-- `fam_to_mem_trigger_map`: each of the 14 family qualifiers maps to (its member output, all/any),
and the table has no other entry. -/
theorem fam_trigger_table :
    (∀ s ∈ Stem.all, ∀ b : Bool, famToMemTrigger.lookup (s.famQual b) = some (s.output, b)) ∧
    famToMemTrigger.length = 14 := by
  decide

/-- `ALT_QUALIFIERS`: each qualifier stem is short for its standard member output, nothing else is. -/
theorem alt_qualifiers_table :
    (∀ s ∈ Stem.all, altQualifiers.lookup s.name = some s.output) ∧ altQualifiers.length = 7 := by
  decide

/-- `fam_to_mem_output_map`: on the right of an arrow a family qualifier affects exactly the real
member outputs of its stem (`finish` = succeeded and failed). -/
theorem fam_output_table :
    (∀ s ∈ Stem.all, ∀ b : Bool, famToMemOutput.lookup (s.famQual b) = some s.outputs) ∧
    famToMemOutput.length = 14 := by
  decide

/-- `TASK_QUALIFIERS` (what `WorkflowConfig.check_terminal_outputs` accepts without a custom output
definition) contains every family qualifier, every stem and every standard output. -/
theorem task_qualifiers_table :
    (∀ s ∈ Stem.all, ∀ b : Bool, taskQualifiers.contains (s.famQual b) = true) ∧
    (∀ s ∈ Stem.all, taskQualifiers.contains s.name = true ∧ taskQualifiers.contains s.output = true) := by
  decide

/-- the `QUAL_FAM_*` constants are the 14 family qualifiers; the output names used by the parser are
the standard ones -/
theorem qualifier_constants :
    (∀ s ∈ Stem.all, ∀ b : Bool, (famQualConstants.map (·.2)).contains (s.famQual b) = true) ∧
    famQualConstants.length = 14 ∧ qualSucceedAll = Stem.succeed.famQual true ∧
    outSucceeded = Stem.succeed.output ∧ outFailed = Stem.fail.output ∧
    outFinished = Stem.finish.output ∧ outStarted = Stem.start.output ∧
    outSubmitted = Stem.submit.output ∧ outSubmitFailed = Stem.submitFail.output ∧
    outExpired = Stem.expire.output := by
  decide

/-- The three node regexes (`REC_NODE_FULL` syntax check, `REC_NODES` on the left, `REC_RHS_NODE` on
the right) accept the same characters in names, qualifiers and offsets, and every family
qualifier, stem and standard output is a lexable qualifier. -/
theorem lexer_tables :
    (fullNameFirst = nodesNameFirst ∧ fullNameFirst = rhsNameFirst ∧
     fullNameRest = nodesNameRest ∧ fullNameRest = rhsNameRest ∧
     fullQual = nodesQual ∧ fullQual = rhsQual ∧
     fullOffset = nodesOffset ∧ fullOffset = rhsOffset) ∧
    (∀ s ∈ Stem.all, charsIn fullQual (s.famQual true) = true ∧ charsIn fullQual (s.famQual false) = true ∧
      charsIn fullQual s.name = true ∧ charsIn fullQual s.output = true) := by
  decide

/-- the facts about the generated tables that the semantic theorems below rest on -/
theorem tables_ok : TablesOK where
  trig := fam_trigger_table.1
  trigOnly := by decide
  alt := by decide
  stdNotFam := by decide
  cSucceeded := by decide
  cFailed := by decide
  cFinished := by decide
  cSucceedAll := by decide
  outTab := fam_output_table.1
  outReal := by decide

/-! ## Left of an arrow: FAM:<q>-all is the AND over the members, FAM:<q>-any the OR -/

/-- **FAM:<q>-all** (any family, any number of members incl. none, any offset, optional or not,
alone or as one node of a larger expression): its expansion is true exactly when the member output
is complete for *every* member (`finish`: succeeded or failed). -/
theorem fam_all_sem (fm : FamMap) (F off : String) (ms : List String) (s : Stem) (opt : Bool)
    (σ : String → Bool) (hF : fm.lookup F = some ms)
    (hx : (Node.isXtrig ⟨F, off, s.famQual true, opt, false⟩) = false) :
    (expand fm (.leaf ⟨F, off, s.famQual true, opt, false⟩)).den σ
      = ms.all fun m => outSpec σ m off s.output := by
  have hc : checkNode fm ⟨F, off, s.famQual true, opt, false⟩ = true := by
    have h1 : stdQual (s.famQual true) = s.famQual true := by
      rw [stdQual_eq_specStd tables_ok]; cases s <;> decide
    have h2 : (s.famQual true != "") = true := by cases s <;> decide
    simp only [checkNode, hx, hF, h1, h2, fam_trigger_table.1 s (Stem.mem_all s) true]
    rfl
  have := den_expandLeaf tables_ok fm σ _ hc
  simp only [expand, Tree.bind]
  rw [this]
  simp only [nodeSpec, hx, hF, famQual?_famQual, Bool.false_eq_true, ↓reduceIte]

/-- **FAM:<q>-any**: true exactly when the member output is complete for *some* member. -/
theorem fam_any_sem (fm : FamMap) (F off : String) (ms : List String) (s : Stem) (opt : Bool)
    (σ : String → Bool) (hF : fm.lookup F = some ms)
    (hx : (Node.isXtrig ⟨F, off, s.famQual false, opt, false⟩) = false) :
    (expand fm (.leaf ⟨F, off, s.famQual false, opt, false⟩)).den σ
      = ms.any fun m => outSpec σ m off s.output := by
  have hc : checkNode fm ⟨F, off, s.famQual false, opt, false⟩ = true := by
    have h1 : stdQual (s.famQual false) = s.famQual false := by
      rw [stdQual_eq_specStd tables_ok]; cases s <;> decide
    have h2 : (s.famQual false != "") = true := by cases s <;> decide
    simp only [checkNode, hx, hF, h1, h2, fam_trigger_table.1 s (Stem.mem_all s) false]
    rfl
  have := den_expandLeaf tables_ok fm σ _ hc
  simp only [expand, Tree.bind]
  rw [this]
  simp only [nodeSpec, hx, hF, famQual?_famQual, Bool.false_eq_true, ↓reduceIte]

/-- **Whole left-hand sides**: for every family map and every expression tree (any size and
nesting of `&`, `|`, parentheses; families with any qualifier, offsets, plain tasks with or without
qualifier, xtriggers — i.e. all mixtures), if the parser accepts the left-hand side then the
conjunction of the expressions it records means exactly what the property says (`specDen`:
family nodes as AND/OR over members, plain nodes as their own standard output). -/
theorem expand_sem (fm : FamMap) (t : Tree Node) (es : List (Tree String)) (σ : String → Bool)
    (hc : t.noConst = true) (h : leftExprs fm t = some es) :
    (es.all fun e => e.den σ) = specDen fm σ t := by
  unfold leftExprs at h
  split at h
  · cases h
  · rename_i hchk
    have hchk' : ∀ n ∈ t.leaves, checkNode fm n = true := by
      simpa [List.all_eq_true] using hchk
    have hpt : ∀ n ∈ t.leaves, (expandLeaf fm (stdN n)).den σ = nodeSpec fm σ n :=
      fun n hn => den_expandLeaf tables_ok fm σ n (hchk' n hn)
    split at h
    · -- conditional / parenthesised: one expression
      cases h
      simp only [List.all_cons, List.all_nil, Bool.and_true, expand, specDen, Tree.den_bind]
      exact Tree.den_congr _ _ t hpt
    · -- a plain `&`-chain: one expression per node
      rename_i hflat
      simp only [Bool.or_eq_true, not_or, Bool.not_eq_true] at hflat
      cases h
      rw [specDen, Tree.den_of_flat _ t hc hflat.1 hflat.2, List.all_map]
      exact all_congr_mem hpt

/-- The expansion keeps the text well formed: read with the usual precedence (`&` over `|`), the
expanded text has the structure (hence the meaning) of the expanded tree. -/
theorem expand_wf (fm : FamMap) (t : Tree Node) (ht : t.WF = true) : (expand fm t).WF = true := by
  refine (Tree.wf_bind _ t ht ?_).1
  intro n _
  have hm : ∀ m off out, (memberT m off out).WF = true ∧ (memberT m off out).isOr = false ∧
      (memberT m off out).isEmpty = false := by
    intro m off out
    unfold memberT
    split <;> exact ⟨rfl, rfl, rfl⟩
  unfold expandLeaf
  split
  · exact ⟨rfl, rfl, rfl⟩
  · split
    · rename_i ms ttype all _ _
      refine ⟨?_, rfl, rfl⟩
      simp only [Tree.WF]
      cases all with
      | true =>
        exact (wf_bigAnd _ (by
          intro t ht
          obtain ⟨m, _, rfl⟩ := List.mem_map.mp ht
          exact hm _ _ _)).1
      | false =>
        exact (wf_bigOr _ (by
          intro t ht
          obtain ⟨m, _, rfl⟩ := List.mem_map.mp ht
          exact hm _ _ _)).1
    · exact hm _ _ _

/-! ## Right of an arrow: the trigger and the declared optionality reach every member -/

/-- **A family on the right** (`expr => FAM[:q][?]`, also `!FAM`): if `_compute_triggers` accepts the
node then for every member `m` of the family
* unless the node carries an offset, `triggers[m][expr]` is the left-hand expression with its
  trigger list and the node's suicide flag, and
* for a non-suicide node with qualifier `<q>-all|any`, every real output of `q` is recorded for `m`
  with the declared optionality as the family default (`?` = optional; `finish`: succeeded and
  failed both optional) — unless an explicit declaration on the member itself has already fixed it. -/
theorem rhs_family (fm : FamMap) (eoc : List String) (expr : String) (trigs : List String)
    (st st' : State) (r : Node) (ms : List String)
    (hF : fm.lookup r.name = some ms)
    (h : procRight fm eoc expr trigs st r = some st') :
    (r.offset = "" → ∀ m ∈ ms, st'.trigs.lookup (m, expr) = some (trigs, r.suicide)) ∧
    (r.suicide = false → ∀ s b, famQual? (effQual r expr) = some (s, b) →
      ∀ m ∈ ms, ∀ out ∈ s.outputs,
        famDefault st'.opts (m, out) (if s = .finish then true else r.opt)) := by
  unfold procRight at h
  split at h
  · cases h
  · split at h
    · cases h
    · rename_i mems outs optional fam hrs
      obtain ⟨rfl, rfl, hnf, hq⟩ := rightSpec_fam tables_ok hF hrs
      have ha := applyMembers_fam hnf mems h
      refine ⟨ha.2.1, ?_⟩
      intro hs s b hfq m hm out hout
      obtain ⟨rfl, rfl⟩ := hq s b hfq
      exact ha.2.2 hs m hm out hout

/-! ## Nesting of families: the family map built from `[runtime]` inheritance -/

/-- **Members of a (nested) family**: in the family map `WorkflowConfig._load_graph` hands to the
parser, the members of `F` are exactly the namespaces that inherit from `F` — directly or through
any number of intermediate families, first or later parent — and from which nothing inherits
(the tasks).  No bound on the depth or size of the hierarchy. -/
theorem nested_members (d : Decls) (F : String) (ms : List String)
    (h : (familyMap d).lookup F = some ms) (m : String) :
    m ∈ ms ↔ (Inherits d m F ∧ ¬ ∃ x, Inherits d x m) :=
  familyMap_members d F ms h m

/-- **FAM:<q>-all over nested families**: true exactly when every task below `F` in the hierarchy
has the member output. -/
theorem nested_fam_all_sem (d : Decls) (F off : String) (ms : List String) (s : Stem) (opt : Bool)
    (σ : String → Bool) (hF : (familyMap d).lookup F = some ms)
    (hx : (Node.isXtrig ⟨F, off, s.famQual true, opt, false⟩) = false) :
    (expand (familyMap d) (.leaf ⟨F, off, s.famQual true, opt, false⟩)).den σ = true ↔
      ∀ m, Inherits d m F → (¬ ∃ x, Inherits d x m) → outSpec σ m off s.output = true := by
  rw [fam_all_sem _ _ _ ms _ _ _ hF hx, List.all_eq_true]
  constructor
  · intro h m h1 h2
    exact h m ((nested_members d F ms hF m).mpr ⟨h1, h2⟩)
  · intro h m hm
    obtain ⟨h1, h2⟩ := (nested_members d F ms hF m).mp hm
    exact h m h1 h2

/-- **FAM:<q>-any over nested families**: true exactly when some task below `F` has the output. -/
theorem nested_fam_any_sem (d : Decls) (F off : String) (ms : List String) (s : Stem) (opt : Bool)
    (σ : String → Bool) (hF : (familyMap d).lookup F = some ms)
    (hx : (Node.isXtrig ⟨F, off, s.famQual false, opt, false⟩) = false) :
    (expand (familyMap d) (.leaf ⟨F, off, s.famQual false, opt, false⟩)).den σ = true ↔
      ∃ m, Inherits d m F ∧ (¬ ∃ x, Inherits d x m) ∧ outSpec σ m off s.output = true := by
  rw [fam_any_sem _ _ _ ms _ _ _ hF hx, List.any_eq_true]
  constructor
  · rintro ⟨m, hm, h⟩
    obtain ⟨h1, h2⟩ := (nested_members d F ms hF m).mp hm
    exact ⟨m, h1, h2, h⟩
  · rintro ⟨m, h1, h2, h⟩
    exact ⟨m, (nested_members d F ms hF m).mpr ⟨h1, h2⟩, h⟩

/-! ## Non-vacuity: the hypotheses of the theorems above are met by concrete, non-trivial values -/

/-- `FAM[-P1]:finish-all` with members m1, m2: true when m1 failed and m2 succeeded at the offset … -/
example :
    (expand [("FAM", ["m1", "m2"])] (.leaf ⟨"FAM", "[-P1]", Stem.finish.famQual true, false, false⟩)).den
      (fun a => a == "m1[-P1]:failed" || a == "m2[-P1]:succeeded") = true := by
  rw [fam_all_sem _ _ _ ["m1", "m2"] _ _ _ (by decide) (by decide)]; decide

/-- … and false when only m1 finished -/
example :
    (expand [("FAM", ["m1", "m2"])] (.leaf ⟨"FAM", "[-P1]", Stem.finish.famQual true, false, false⟩)).den
      (fun a => a == "m1[-P1]:failed") = false := by
  rw [fam_all_sem _ _ _ ["m1", "m2"] _ _ _ (by decide) (by decide)]; decide

/-- `FAM:submit-fail-any?`: one member's submit-failed is enough, `submitted` is not -/
example :
    (expand [("FAM", ["m1", "m2"])] (.leaf ⟨"FAM", "", Stem.submitFail.famQual false, true, false⟩)).den
      (fun a => a == "m2:submit-failed") = true ∧
    (expand [("FAM", ["m1", "m2"])] (.leaf ⟨"FAM", "", Stem.submitFail.famQual false, true, false⟩)).den
      (fun a => a == "m1:submitted" || a == "m2:submitted") = false := by
  rw [fam_any_sem _ _ _ ["m1", "m2"] _ _ _ (by decide) (by decide),
      fam_any_sem _ _ _ ["m1", "m2"] _ _ _ (by decide) (by decide)]; decide

/-- a mixture `(FAM:fail-any? | a-x[-P1]) & x-a:finish`, accepted by the parser as one expression -/
def exTree : Tree Node :=
  .and (.paren (.or (.leaf ⟨"FAM", "", "fail-any", true, false⟩) (.leaf ⟨"a-x", "[-P1]", "", false, false⟩)))
       (.leaf ⟨"x-a", "", "finish", false, false⟩)

example : exTree.noConst = true ∧ exTree.WF = true ∧
    ∃ es, leftExprs [("FAM", ["a-x", "x-a"])] exTree = some es ∧ es.length = 1 := by
  refine ⟨by decide, by decide, _, rfl, rfl⟩

/-- a pure `&` chain is split into one expression per node -/
example : ∃ es, leftExprs [("FAM", ["m1", "m2"])]
    (.and (.leaf ⟨"FAM", "", "start-all", false, false⟩) (.leaf ⟨"a", "", "", false, false⟩)) = some es ∧
    es.length = 2 := ⟨_, rfl, rfl⟩

/-- `a:succeeded => FAM:fail-all?` from the empty state: accepted, every member gets both -/
example : (procRight [("FAM", ["m1", "m2"])] [] "a:succeeded" ["a:succeeded"] {}
      ⟨"FAM", "", "fail-all", true, false⟩).map
      (fun st' => (st'.opts.lookup ("m2", "failed"), st'.trigs.lookup ("m1", "a:succeeded")))
    = some (some (true, true, false), some (["a:succeeded"], false)) := by decide

/-- a nested hierarchy: SUB below FAM, m1 below SUB, m2 below FAM and OTHER (second parent) -/
def exDecls : Decls :=
  [("FAM", []), ("SUB", ["FAM"]), ("OTHER", []), ("m1", ["SUB"]), ("m2", ["OTHER", "FAM"]), ("zz", ["OTHER"])]

example : (familyMap exDecls).lookup "FAM" = some ["m1", "m2"] ∧
    (familyMap exDecls).lookup "SUB" = some ["m1"] ∧
    (familyMap exDecls).lookup "OTHER" = some ["m2", "zz"] := by decide

example : Inherits exDecls "m1" "FAM" ∧ ¬ ∃ x, Inherits exDecls x "m1" :=
  (nested_members exDecls "FAM" ["m1", "m2"] (by decide) "m1").mp (by decide)

end CylcModel.C15
