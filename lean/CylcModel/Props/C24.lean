/-
C24 — Restricted expression evaluation cannot run arbitrary code.
Property statements only.  Model: `CylcModel/REval.lean`; helper lemmas:
`CylcModel/REvalLemmas.lean`; tables regenerated from the live source and the running Python
on every run: `CylcModel/Generated/REvalTables.lean` (the `ast` class hierarchy, the
whitelist of every `restricted_evaluator(...)` call site, the shape of the `eval(...)` call).

Statements are for every expression tree (`PyExpr`: any node classes, any arity, any depth),
every whitelist and every set of supplied variables unless a generated table is named.
-/
import CylcModel.REvalLemmas
namespace CylcModel.C24
open CylcModel.REval CylcModel.Generated.REval

/-! ### the visitor rejects before anything is evaluated -/

/-- `visit_rejects`: the visitor lets a tree through exactly when every node of it is an instance of
a whitelisted class. -/
theorem visit_rejects (wl : List String) (e : PyExpr) :
    check wl e = none ↔ ∀ n ∈ nodes e, allowed wl n.kind = true :=
  check_none_iff wl e

/-- what is reported is the class of the first node (pre-order) that is not whitelisted -/
theorem visit_reports_first (wl : List String) (e : PyExpr) {k : String} (h : check wl e = some k) :
    ∃ pre n post, nodes e = pre ++ n :: post ∧ n.kind = k ∧ allowed wl k = false ∧
      ∀ m ∈ pre, allowed wl m.kind = true :=
  check_some wl e h

/-- `rejected_before_evaluation`: an expression containing anything that is not whitelisted is
rejected, with the same verdict whatever the variables and the evaluation environment are — the
result carries no value and no truth-test of any supplied variable. -/
theorem rejected_before_evaluation (wl : List String) (e : PyExpr)
    (h : ∃ n ∈ nodes e, allowed wl n.kind = false) :
    ∃ k, allowed wl k = false ∧ ∀ (cfg : EvalCfg) (vars : Vars),
      run wl cfg (some e) vars = .rejected k ∧ (run wl cfg (some e) vars).touched = [] := by
  cases hc : check wl e with
  | none =>
    obtain ⟨n, hn, hf⟩ := h
    have := (check_none_iff wl e).mp hc n hn
    rw [hf] at this; cases this
  | some k =>
    obtain ⟨_, _, _, _, _, hf, _⟩ := check_some wl e hc
    refine ⟨k, hf, fun cfg vars => ?_⟩
    simp [run, hc, Result.touched]

/-- evaluation happens only for trees made of whitelisted nodes throughout -/
theorem evaluated_only_if_whitelisted (wl : List String) (cfg : EvalCfg) (e : PyExpr) (vars : Vars)
    {o : Outcome} (h : run wl cfg (some e) vars = .evaluated o) :
    ∀ n ∈ nodes e, allowed wl n.kind = true := by
  unfold run at h
  cases hc : check wl e with
  | none => exact (check_none_iff wl e).mp hc
  | some k => simp [hc] at h

/-- `history_independent`: in a history of calls made in one process (any evaluators, texts and
variables before and after), the answer to a call is the answer it gets on its own — in particular
an expression accepted earlier by a more permissive evaluator is still checked against the
whitelist of the evaluator that is called now. -/
theorem history_independent (cfg : EvalCfg) (before after : List Call) (c : Call) :
    (runSeq cfg (before ++ c :: after))[before.length]? = some (run c.wl cfg c.tree c.vars) := by
  simp [runSeq, runCall]

/-- ... hence a text with a non-whitelisted node is rejected by a strict evaluator whatever was
evaluated before, e.g. the same text on an evaluator that accepts it. -/
theorem rejected_after_any_history (cfg : EvalCfg) (before after : List Call) (wl : List String)
    (e : PyExpr) (vars : Vars) (h : ∃ n ∈ nodes e, allowed wl n.kind = false) :
    ∃ k, allowed wl k = false ∧
      (runSeq cfg (before ++ ⟨wl, some e, vars⟩ :: after))[before.length]? = some (.rejected k) := by
  obtain ⟨k, hk, hr⟩ := rejected_before_evaluation wl e h
  exact ⟨k, hk, by rw [history_independent]; exact congrArg some (hr cfg vars).1⟩

/-- the source has the shape the model assumes: the visitor runs in a statement before the one
holding `eval(...)`, whose globals are the literal `{'__builtins__': {}}` and whose locals are the
supplied variables (all four facts are read from the live source by the translator). -/
theorem pipeline_shape :
    checkBeforeEval = true ∧ evalGlobalsIsLiteral = true ∧ evalLocalsAreVariables = true ∧
      evalGlobalsKeys = ["__builtins__"] ∧ evalBuiltinsKeys = some [] := by
  decide

/-! ### the whitelist of `CompletionEvaluator` -/

/-- the classes the `CompletionEvaluator` whitelist lets through -/
def completionKinds : List String := ["Expression", "Name", "Load", "BoolOp", "And", "Or", "BinOp"]

/-- syntax the property names as never acceptable in a completion expression (calls, attribute
access, subscripts, lambdas, comprehensions, walrus, ...) -/
def dangerousKinds : List String :=
  ["Call", "Attribute", "Subscript", "Lambda", "ListComp", "SetComp", "DictComp", "GeneratorExp",
   "comprehension", "NamedExpr", "Starred", "Await", "Yield", "YieldFrom", "JoinedStr", "FormattedValue",
   "IfExp", "Slice", "keyword", "arguments", "arg"]

/-- never acceptable for any evaluator of the code base -/
def alwaysDangerousKinds : List String :=
  ["Call", "Lambda", "ListComp", "SetComp", "DictComp", "GeneratorExp", "comprehension", "NamedExpr",
   "Starred", "Await", "Yield", "YieldFrom", "JoinedStr", "FormattedValue", "keyword", "arguments", "arg",
   "Store", "Del"]

theorem completion_table :
    ∀ e ∈ astClasses, (e.2.any fun a => completionWhitelist.contains a) = true → e.1 ∈ completionKinds := by
  decide +kernel

/-- `completion_whitelist_exact`: for every class name whatsoever — the classes of the running
Python's `ast` module (generated table) and any other string — a node of that class passes the
`CompletionEvaluator` check iff the class is one of the seven. -/
theorem completion_whitelist_exact (k : String) :
    allowed completionWhitelist k = true ↔ k ∈ completionKinds := by
  constructor
  · exact allowed_char completion_table (by decide +kernel)
  · intro h
    have : ∀ k ∈ completionKinds, allowed completionWhitelist k = true := by decide +kernel
    exact this k h

/-- `dangerous_disjoint`: none of the dangerous constructs is accepted by `CompletionEvaluator` -/
theorem dangerous_disjoint : ∀ k ∈ dangerousKinds, allowed completionWhitelist k = false := by
  decide +kernel

/-- ... and every evaluator built with `restricted_evaluator` anywhere in cylc/flow rejects calls,
lambdas, comprehensions, walrus, starred, await/yield, f-strings and assignment contexts. -/
theorem all_evaluators_reject_calls :
    ∀ ev ∈ evaluators, ∀ k ∈ alwaysDangerousKinds, allowed ev.2 k = false := by
  decide +kernel

/-- the evaluators of the code base are exactly the ones this check knows about -/
theorem evaluator_sites : evaluators.map (·.1) =
    ["cylc.flow.host_select.RankingExpressionEvaluator", "cylc.flow.task_outputs.CompletionEvaluator"] := by
  decide

/-- a tree as `ast.parse` produces it: a `BinOp` node carries its operator as a child node -/
def WF (e : PyExpr) : Prop :=
  ∀ n ∈ nodes e, n.kind = "BinOp" → ∃ c ∈ n.children, "operator" ∈ ancestorsIn astClasses c.kind

/-- the fragment that can actually be evaluated -/
def fragmentKinds : List String := ["Expression", "Name", "Load", "BoolOp", "And", "Or"]

/-- `completion_accepts_only_fragment`: what `CompletionEvaluator` accepts is built only from
`Expression`, `BoolOp`, `And`, `Or`, `Name`, `Load`; `BinOp` is whitelisted but no operator class is,
so no accepted tree contains one. -/
theorem completion_accepts_only_fragment {e : PyExpr} (hwf : WF e)
    (h : check completionWhitelist e = none) : ∀ n ∈ nodes e, n.kind ∈ fragmentKinds := by
  intro n hn
  have hall := (check_none_iff completionWhitelist e).mp h
  have hk := (completion_whitelist_exact n.kind).mp (hall n hn)
  by_cases hb : n.kind = "BinOp"
  · exfalso
    obtain ⟨c, hc, hop⟩ := hwf n hn hb
    have hck := (completion_whitelist_exact c.kind).mp (hall c (child_mem_nodes hn hc))
    have : ∀ k ∈ completionKinds, ¬ "operator" ∈ ancestorsIn astClasses k := by decide +kernel
    exact this c.kind hck hop
  · simp only [completionKinds, List.mem_cons, List.mem_nil_iff, or_false] at hk
    simp only [fragmentKinds, List.mem_cons, List.mem_nil_iff, or_false]
    rcases hk with h | h | h | h | h | h | h
    · exact Or.inl h
    · exact Or.inr (Or.inl h)
    · exact Or.inr (Or.inr (Or.inl h))
    · exact Or.inr (Or.inr (Or.inr (Or.inl h)))
    · exact Or.inr (Or.inr (Or.inr (Or.inr (Or.inl h))))
    · exact Or.inr (Or.inr (Or.inr (Or.inr (Or.inr h))))
    · exact absurd h hb

/-! ### evaluation sees the supplied variables only -/

/-- the two names Python resolves without looking at the supplied variables -/
def reservedNames : List String := ["__debug__", "__builtins__"]

/-- Full-strength statement: a name evaluates only if it is a supplied variable. -/
def names_only_supplied_full : Prop :=
  ∀ (vars : Vars) (x : String) (v : Val), resolve liveCfg vars x = some v → v = .var x ∧ hasVar vars x = true

/-- It is false on the current code: `__builtins__` evaluates (to the empty dict handed to `eval`)
with no variables supplied; likewise `__debug__` (a compile-time constant). -/
theorem names_only_supplied_counterexample : ¬ names_only_supplied_full := by
  intro h
  have := h [] "__builtins__" (.globalEntry "__builtins__") (by decide)
  exact absurd this.1 (by decide)

/-- `names_only_supplied_partial`: every name other than `__builtins__` / `__debug__` evaluates only
if it is one of the supplied variables, and then to the supplied object; all other names are
`NameError`s.  (Missing for the full statement: the two reserved names, see the counterexample.) -/
theorem names_only_supplied_partial (vars : Vars) (x : String) (hx : x ∉ reservedNames) :
    resolve liveCfg vars x = if hasVar vars x then some (.var x) else none := by
  have h1 : (x == "__debug__") = false := by
    simp only [reservedNames, List.mem_cons, List.mem_nil_iff, or_false, not_or] at hx
    simpa using hx.1
  have h2 : liveCfg.globalsNamespace.contains x = false := by
    have e : liveCfg.globalsNamespace = ["__builtins__"] := by decide
    simp only [reservedNames, List.mem_cons, List.mem_nil_iff, or_false, not_or] at hx
    rw [e]; simpa using hx.2
  have h3 : liveCfg.builtinsNamespace.contains x = false := by
    have e : liveCfg.builtinsNamespace = [] := by decide
    rw [e]; rfl
  unfold resolve
  simp only [h1, h2, h3]
  by_cases hv : hasVar vars x = true <;> simp [hv]

/-- `no_builtins`: no name resolves to an object of a builtins namespace — the one handed to
`eval` is empty. -/
theorem no_builtins (vars : Vars) (x y : String) : resolve liveCfg vars x ≠ some (.builtin y) := by
  have e : liveCfg.builtinsNamespace = [] := by decide
  unfold resolve
  rw [e]
  intro h
  split at h
  · cases h
  · split at h
    · cases h
    · split at h
      · cases h
      · simp at h

/-- `eval_reads_only_variables`: whatever a completion expression evaluates to is the object
supplied for a variable named in it (or one of the two reserved constants), a `NameError` names a
name of the expression that was not supplied, and only supplied variables named in the expression
are ever truth-tested. -/
theorem eval_reads_only_variables (vars : Vars) (e : PyExpr) :
    (∀ v t, eval liveCfg vars e = .value v t →
      ((∃ x, v = .var x ∧ hasVar vars x = true ∧ ∃ n ∈ nodes e, n.kind = "Name" ∧ n.tag = x) ∨
        v = .debugConst ∨ v = .globalEntry "__builtins__") ∧
      ∀ y ∈ t, hasVar vars y = true ∧ ∃ n ∈ nodes e, n.kind = "Name" ∧ n.tag = y) ∧
    (∀ x t, eval liveCfg vars e = .nameError x t →
      (hasVar vars x = false ∧ ∃ n ∈ nodes e, n.kind = "Name" ∧ n.tag = x) ∧
      ∀ y ∈ t, hasVar vars y = true ∧ ∃ n ∈ nodes e, n.kind = "Name" ∧ n.tag = y) := by
  have hok := eval_ok liveCfg vars e
  constructor
  · intro v t he
    rw [he] at hok
    obtain ⟨⟨n, hn, hk, hr⟩, ht⟩ := hok
    refine ⟨?_, ht⟩
    by_cases hres : n.tag ∈ reservedNames
    · simp only [reservedNames, List.mem_cons, List.mem_nil_iff, or_false] at hres
      rcases hres with h | h
      · right; left
        rw [h] at hr
        have : resolve liveCfg vars "__debug__" = some .debugConst := by simp [resolve]
        rw [this] at hr; exact (Option.some.inj hr).symm
      · by_cases hv : hasVar vars "__builtins__" = true
        · left
          rw [h] at hr
          have : resolve liveCfg vars "__builtins__" = some (.var "__builtins__") := by
            simp [resolve, hv]
          rw [this] at hr
          exact ⟨"__builtins__", (Option.some.inj hr).symm, hv, n, hn, hk, h⟩
        · right; right
          rw [h] at hr
          have e1 : liveCfg.globalsNamespace = ["__builtins__"] := by decide
          have : resolve liveCfg vars "__builtins__" = some (.globalEntry "__builtins__") := by
            simp [resolve, hv, e1]
          rw [this] at hr; exact (Option.some.inj hr).symm
    · left
      rw [names_only_supplied_partial vars n.tag hres] at hr
      by_cases hv : hasVar vars n.tag = true
      · simp only [hv, if_true, Option.some.injEq] at hr
        exact ⟨n.tag, hr.symm, hv, n, hn, hk, rfl⟩
      · simp [hv] at hr
  · intro x t he
    rw [he] at hok
    obtain ⟨⟨n, hn, hk, hx, hr⟩, ht⟩ := hok
    refine ⟨⟨?_, n, hn, hk, hx⟩, ht⟩
    cases hv : hasVar vars x with
    | false => rfl
    | true =>
      exfalso
      unfold resolve at hr
      split at hr
      · cases hr
      · simp at hr

/-! ### non-vacuity: concrete, non-trivial instances of every hypothesis -/

def nm (x : String) : PyExpr := .node "Name" x [.node "Load" "" []]
/-- `(succeeded and x) or failed` -/
def exGood : PyExpr :=
  .node "Expression" "" [.node "BoolOp" "" [.node "Or" "" [],
    .node "BoolOp" "" [.node "And" "" [], nm "succeeded", nm "x"], nm "failed"]]
/-- `succeeded or __import__('os').system('true')` -/
def exEvil : PyExpr :=
  .node "Expression" "" [.node "BoolOp" "" [.node "Or" "" [], nm "succeeded",
    .node "Call" "" [.node "Attribute" "system" [.node "Call" "" [nm "__import__", .node "Constant" "'os'" []],
      .node "Load" "" []], .node "Constant" "'true'" []]]]
/-- `a | b` -/
def exBitOr : PyExpr :=
  .node "Expression" "" [.node "BinOp" "" [nm "a", .node "BitOr" "" [], nm "b"]]

example : check completionWhitelist exGood = none := by decide +kernel
example : ∀ n ∈ nodes exGood, allowed completionWhitelist n.kind = true :=
  (visit_rejects _ _).mp (by decide +kernel)
example : check completionWhitelist exEvil = some "Call" := by decide +kernel
example : ∃ pre n post, nodes exEvil = pre ++ n :: post ∧ n.kind = "Call" ∧
    allowed completionWhitelist "Call" = false ∧ ∀ m ∈ pre, allowed completionWhitelist m.kind = true :=
  visit_reports_first _ _ (by decide +kernel)
/-- the hypothesis of `rejected_before_evaluation` holds for the evil expression: it is rejected for
every environment, even one in which `succeeded` is true (so that Python would never reach the call) -/
example : ∃ k, allowed completionWhitelist k = false ∧ ∀ (cfg : EvalCfg) (vars : Vars),
    run completionWhitelist cfg (some exEvil) vars = .rejected k ∧
      (run completionWhitelist cfg (some exEvil) vars).touched = [] := by
  obtain ⟨pre, n, post, e, hk, hf, _⟩ :=
    visit_reports_first completionWhitelist exEvil (k := "Call") (by decide +kernel)
  exact rejected_before_evaluation _ _ ⟨n, by rw [e]; simp, hk ▸ hf⟩
/-- `succeeded.real`-like history: the evil text first on an evaluator that accepts everything
(`AST` whitelisted), then on `CompletionEvaluator`: still rejected at the call -/
example : ∃ k, allowed completionWhitelist k = false ∧
    (runSeq liveCfg ([⟨["AST"], some exEvil, [("succeeded", true)]⟩] ++
      ⟨completionWhitelist, some exEvil, [("succeeded", true)]⟩ :: []))[1]? = some (.rejected k) := by
  obtain ⟨pre, n, post, e, hk, hf, _⟩ :=
    visit_reports_first completionWhitelist exEvil (k := "Call") (by decide +kernel)
  exact rejected_after_any_history liveCfg [⟨["AST"], some exEvil, [("succeeded", true)]⟩] []
    completionWhitelist exEvil [("succeeded", true)] ⟨n, by rw [e]; simp, hk ▸ hf⟩
example : check ["AST"] exEvil = none := by decide +kernel
example : (runSeq liveCfg [⟨["AST"], some exGood, []⟩, ⟨completionWhitelist, some exGood, [("succeeded", false), ("failed", true)]⟩])[1]?
    = some (run completionWhitelist liveCfg (some exGood) [("succeeded", false), ("failed", true)]) :=
  history_independent liveCfg [⟨["AST"], some exGood, []⟩] [] ⟨completionWhitelist, some exGood, [("succeeded", false), ("failed", true)]⟩
example : run completionWhitelist liveCfg (some exGood) [("succeeded", true), ("x", false), ("failed", true)]
    = .evaluated (.value (.var "failed") ["succeeded", "x"]) := by decide +kernel
example : ∀ n ∈ nodes exGood, allowed completionWhitelist n.kind = true :=
  evaluated_only_if_whitelisted completionWhitelist liveCfg exGood
    [("succeeded", true), ("x", false), ("failed", true)]
    (o := .value (.var "failed") ["succeeded", "x"]) (by decide +kernel)
example : allowed completionWhitelist "BoolOp" = true ∧ "BoolOp" ∈ completionKinds :=
  ⟨(completion_whitelist_exact "BoolOp").mpr (by decide), by decide⟩
example : "Call" ∈ dangerousKinds ∧ "NamedExpr" ∈ dangerousKinds ∧ "Call" ∈ alwaysDangerousKinds := by decide
example : WF exGood ∧ check completionWhitelist exGood = none := by
  refine ⟨?_, by decide +kernel⟩
  intro n hn hb
  have : ∀ n ∈ nodes exGood, n.kind ≠ "BinOp" := by decide +kernel
  exact absurd hb (this n hn)
/-- `a | b` is well formed, contains a `BinOp`, and is rejected at the operator -/
example : WF exBitOr ∧ check completionWhitelist exBitOr = some "BitOr" := by
  refine ⟨?_, by decide +kernel⟩
  have : ∀ n ∈ nodes exBitOr, n.kind = "BinOp" →
      (n.children.any fun c => (ancestorsIn astClasses c.kind).contains "operator") = true := by
    decide +kernel
  intro n hn hb
  have h := this n hn hb
  simp only [List.any_eq_true, List.contains_eq_mem, decide_eq_true_eq] at h
  exact h
example : resolve liveCfg [("x", true)] "x" = some (.var "x") ∧ resolve liveCfg [("x", true)] "len" = none ∧
    "len" ∉ reservedNames ∧ "len" ∈ realBuiltins := by decide +kernel
example : ∃ v t, eval liveCfg [("succeeded", false), ("failed", true)] exGood = .value v t ∧ v = .var "failed" :=
  ⟨.var "failed", ["succeeded", "succeeded"], by decide +kernel, rfl⟩
example : ∃ x t, eval liveCfg [("succeeded", true)] exGood = .nameError x t ∧ x = "x" :=
  ⟨"x", ["succeeded"], by decide +kernel, rfl⟩

end CylcModel.C24
