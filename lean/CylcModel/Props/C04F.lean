/-
C04F — runahead limit WITH future-trigger offsets, over the `Sched3Fut` model (sub-check of C04).

Property theorems only; the lemmas live in `Sched3FutLemmas` / `Frame` / `Off` / `Rel` / `Limit` / `Cache`.
All statements are for every instance graph and every op list / state they quantify over; the instance-graph
hypotheses (`wfSeqs`: every recurrence an ascending list, `wfOff`: no negative future offset) are decidable and
checked by the driver on every extracted graph.
-/
import CylcModel.Sched3FutOff
import CylcModel.Sched3FutRel
import CylcModel.Sched3FutCache

namespace CylcModel.C04F
open CylcModel.Sched3Fut

/-! ### the cached maximum future offset -/

/-- **The cached maximum future offset is bracketed by the pool, in every state of every run** (all graphs, all op
lists of main loops, submit results, messages, hold / release, stop modes, stop points, pause, restart): it is at
least the largest future offset of the pooled INSTANCES and at most the largest future offset of the pooled TASKS
over all their instances (the judge's clause R3).  With `max_future_prereq_offset` raised lazily per task definition
the two ends differ only for a task whose instances have different offsets. -/
theorem cached_offset_bracket (g : Graph) (ops : List Op) :
    ∀ s ∈ run g ops, optLe (lowOff g (keys s)) s.maxFut = true ∧ optLe s.maxFut (highOff g (keys s)) = true :=
  fun s hs => offinv_bracket g s (offinv_run g ops s hs)

/-- the same invariant in elementary terms: (lower) every pooled instance with a future offset `o` has `o ≤` the cached
maximum; (upper) the cached maximum does not exceed `tdef.max_future_prereq_offset` of some pooled proxy, which
(attained) is the future offset of one of the instances of that task -/
theorem cached_offset_invariant (g : Graph) (ops : List Op) : ∀ s ∈ run g ops,
    (∀ x ∈ s.pool, ∀ o, instOff g x.name x.pt = some o → ∃ m, s.maxFut = some m ∧ o ≤ m) ∧
    (∀ m, s.maxFut = some m → ∃ x ∈ s.pool, ∃ o p, s.offOf x.name = some o ∧ instOff g x.name p = some o ∧ m ≤ o) := by
  intro s hs
  have h := offinv_run g ops s hs
  constructor
  · intro x hx o ho
    exact h.lower (x.pt, x.name) (mem_keys.mpr ⟨x, hx, rfl⟩) o ho
  · intro m hm
    obtain ⟨k, hk, o, ho, hmo⟩ := h.upper m hm
    obtain ⟨x, hx, hxk⟩ := mem_keys.mp hk
    obtain ⟨p, hp⟩ := h.attained k.2 o ho
    have hn : x.name = k.2 := by rw [← hxk]
    exact ⟨x, hx, o, p, by rw [hn]; exact ho, by rw [hn]; exact hp, hmo⟩

/-- **`set_max_future_offset` recomputes the maximum over the whole pool** (`poolMaxOff`: the largest
`tdef.max_future_prereq_offset` among the pooled proxies), whatever the old value was … -/
theorem cached_offset_recomputed (g : Graph) (s : State) : (setMaxFut g s).maxFut = poolMaxOff s := by
  unfold setMaxFut
  simp only
  split
  · exact (tdefOff_computeRunahead g _ _).2
  · rfl

/-- … and it is called at both sites that can change the answer: when a proxy whose task definition has an offset
enters the pool … -/
theorem cached_offset_exact_on_add (g : Graph) (s : State) (x : Proxy) (hnew : s.get? x.pt x.name = none)
    (hoff : ((enterPool g s x).offOf x.name).isSome = true) :
    (State.add g s x).maxFut = poolMaxOff (enterPool g s x) := by
  unfold State.add
  simp only [hnew, Option.isSome_none, Bool.false_eq_true, if_false, hoff, if_true]
  exact cached_offset_recomputed g _

/-- … and when one leaves it (the member carrying the largest offset may be the one removed: the maximum is taken
again over the remaining members, so a smaller positive offset of another member survives) -/
theorem cached_offset_exact_on_remove (g : Graph) (s : State) (x : Proxy)
    (hoff : ((dropPool s x).offOf x.name).isSome = true) :
    (dropKey g s x).maxFut = poolMaxOff (dropPool s x) := by
  unfold dropKey
  simp only [hoff, if_true]
  exact cached_offset_recomputed g _

/-- **Full statement** (the brief: "the cached max offset always equals the maximum over pool members"): in every state
of every run the cached value is the largest `tdef.max_future_prereq_offset` among the pooled proxies -/
def cached_offset_exact_full : Prop := ∀ (g : Graph) (ops : List Op), ∀ s ∈ run g ops, s.maxFut = poolMaxOff s

/-- `R1 = a[+P1]:start => b`, `P1 = a; b` on cycles 1..2: `1/b` has a future offset (prerequisite `2/a`), `2/b` has none
and is parentless -/
def lazyGraph : Graph :=
  { icp := 1, fcp := 2, start := 1, runahead := 1, seqs := [[1, 2], [1]], stopPoint := some 2,
    tasks := [
      { name := "a",
        insts := [(1, { pre := [], sui := [], children := [], nextParentless := some 2 }),
                  (2, { pre := [], sui := [], children := [("started", [⟨"b", 1, false⟩])], nextParentless := none,
                        ghosts := [("b", 1)] })],
        firstParentless := some 1, completion := CE.var "succeeded", outputs := [] },
      { name := "b",
        insts := [(1, { pre := [{ atoms := [(⟨2, "a", "started"⟩, false)], expr := none }], sui := [], children := [],
                        nextParentless := some 2, futOff := some 1, ghosts := [("a", 2)] }),
                  (2, { pre := [], sui := [], children := [], nextParentless := none })],
        firstParentless := some 2, completion := CE.var "succeeded", outputs := [] }] }

/-- **The full statement is false** for the model and for cylc-flow (observed on the real scheduler in every
correspondence run of such a workflow: `max_future_prereq_offset` of `b` is 1, `max_future_offset` is `None`, `2/b`
is pooled): the offset of a task definition is raised lazily - here by the ghost proxy the data store builds for
`1/b` when `2/a` enters the pool - and `set_max_future_offset` runs only when a proxy whose task definition ALREADY
has an offset enters or leaves the pool.  Harmless (the pooled instance `2/b` has no future prerequisite), and the
reason why the invariant is the bracket `cached_offset_bracket` and not an equality. -/
theorem cached_offset_exact_counterexample : ¬ cached_offset_exact_full := by
  intro h
  have := h lazyGraph [] (init lazyGraph) (mem_run_last lazyGraph [])
  revert this
  decide

/-! ### the future offset of an instance -/

/-- **What the future offset of an instance is** (`atomFutOff`, the rule of `Dependency.get_prerequisite` however the
trigger is written - `x[+P2]`, `x[^+P2]`, ...): no offset iff no prerequisite atom (suicide ones included) lies at a
later cycle; offset `o` iff `o > 0`, some atom lies exactly `o` cycles later and none lies further -/
theorem future_offset_meaning (p : Int) (pres : List Pre) :
    (atomFutOff p pres = none → ∀ q ∈ atomPts pres, q ≤ p) ∧
    (∀ o, atomFutOff p pres = some o → 0 < o ∧ (p + o) ∈ atomPts pres ∧ ∀ q ∈ atomPts pres, q ≤ p + o) :=
  atomFutOff_spec p pres

/-- … and that is the offset every theorem here, the model and the judge use for an instance (`wfFut`, checked by the
driver on every extracted graph; what the implementation records per instance is compared with it by judge clause R0) -/
theorem future_offset_of_instance (g : Graph) (hwf : wfFut g = true) (n : String) (p : Int) (t : TaskDefn) (d : InstDef)
    (ht : g.task? n = some t) (hd : t.inst? p = some d) : instOff g n p = atomFutOff p (d.pre ++ d.sui) :=
  instOff_of_wfFut g hwf n p t d ht hd

/-! ### the limit -/

/-- **A forced `compute_runahead` (what every change of the cached maximum triggers) yields the specification limit**
`specLimit` (`Sched3FutSpec`: count limit from the base point, + offset, capped at the stop point; defined without
sorting, per-recurrence truncation or cache) of the current base point, cached maximum and stop point, in ANY state. -/
theorem limit_forced_spec (g : Graph) (s : State) (hwf : wfSeqs g = true) (b : Int) (hb : basePointOf g s = some b) :
    (computeRunahead g s true).rhLimit = some (specLimit g b s.maxFut s.stopPoint) :=
  computeRunahead_forced g s hwf b hb

/-- **The unforced `compute_runahead` of the main loop, in every state of every run**: either it is skipped (a limit
exists and the base point did not move since the last computation, or the limit sits at the stop point) and the limit
stays, or the new limit is the specification limit; the cached sequence points are never what decides -/
theorem limit_unforced_spec (g : Graph) (ops : List Op) (hwf : wfSeqs g = true) :
    ∀ s ∈ run g ops, ∀ b, basePointOf g s = some b →
      (computeRunahead g s).rhLimit =
        if s.rhLimit.isSome && (b == s.prevBase.getD b || s.rhLimit == s.stopPoint) then s.rhLimit
        else some (specLimit g b s.maxFut s.stopPoint) :=
  fun s hs b hb => computeRunahead_unforced g s hwf (cache_run g ops s hs) b hb

/-- the limit a computation leaves never exceeds the stop point -/
theorem limit_capped_at_stop_point (g : Graph) (s : State) (sp l : Int) (hsp : s.stopPoint = some sp)
    (h : (computeRunahead g s true).rhLimit = some l) (hb : (basePointOf g s).isSome = true) : l ≤ sp :=
  computeRunahead_forced_le_stop g s sp l hsp h hb

/-! ### releases -/

/-- **Nothing is released beyond the computed limit**: a proxy that is released after a main loop either was released
before it, or lies at or before the limit `compute_runahead` left at the start of that loop — for ANY state. -/
theorem release_sound_loop (g : Graph) (s : State) :
    ∀ x' ∈ (step g s .loop).pool, x'.runahead = false →
      (∃ x ∈ s.pool, x.pt = x'.pt ∧ x.name = x'.name ∧ x.runahead = false) ∨
      (∃ L, (computeRunahead g (clearOp s)).rhLimit = some L ∧ x'.pt ≤ L) :=
  Sched3Fut.release_sound_loop g s

/-- **No other op releases anything** (submit results, messages, hold / release, stop modes, `cylc stop <point>`,
pause / resume) … -/
theorem release_sound_other (g : Graph) (s : State) (op : Op) (h1 : op ≠ .loop) (h3 : op ≠ .restart) :
    ∀ x' ∈ (step g s op).pool, x'.runahead = false →
      ∃ x ∈ s.pool, x.pt = x'.pt ∧ x.name = x'.name ∧ x.runahead = false :=
  Sched3Fut.release_sound_other g s op h1 h3

/-- … and a restart reloads everything runahead-limited and releases finished tasks only. -/
theorem restart_release_final (g : Graph) (s : State) :
    ∀ x' ∈ (step g s .restart).pool, x'.runahead = false → x'.status.isFinal = true := by
  unfold step
  exact Sched3Fut.restart_release_final g (clearOp s)

/-- the judge's clause R1 for one main loop from state `s`: whatever the loop releases lies at or before the
specification limit of the pool the loop started with, with the largest offset of the pooled tasks -/
def ReleaseWithinSpec (g : Graph) (s : State) : Prop :=
  ∀ x' ∈ (step g s .loop).pool, x'.runahead = false →
    (∃ x ∈ s.pool, x.pt = x'.pt ∧ x.name = x'.name ∧ x.runahead = false) ∨
    (∃ b, basePointOf g (clearOp s) = some b ∧ x'.pt ≤ specLimit g b (highOff g (keys s)) s.stopPoint)

/-- **Full statement** (property text: released only within the limit computed from the CURRENT pool): R1 holds for
every main loop from every state of every run -/
def release_within_spec_full : Prop :=
  ∀ (g : Graph) (ops : List Op), wfSeqs g = true → wfOff g = true → ∀ s ∈ run g ops, ReleaseWithinSpec g s

/-- **Partial statement** (proved): R1 holds for every main loop, from every state of every run, whose
`compute_runahead` is not skipped (i.e. there is no limit yet, or the base point moved while the limit does not sit
at the stop point).  The skipped computations are exactly the two early returns of the code; the one at the stop
point is where the full statement fails. -/
theorem release_within_spec_partial (g : Graph) (ops : List Op) (hwf : wfSeqs g = true) (hoff : wfOff g = true) :
    ∀ s ∈ run g ops, ∀ b, basePointOf g (clearOp s) = some b →
      (s.rhLimit.isSome && (b == s.prevBase.getD b || s.rhLimit == s.stopPoint)) = false →
      ReleaseWithinSpec g s := by
  intro s hs b hb hskip x' hx' hr
  rcases Sched3Fut.release_sound_loop g s x' hx' hr with h | ⟨L, hL, hle⟩
  · exact Or.inl h
  · right
    refine ⟨b, hb, ?_⟩
    have hc : CacheInv (clearOp s) := cache_run g ops s hs
    have hu := computeRunahead_unforced g (clearOp s) hwf hc b hb
    have hskip' : ((clearOp s).rhLimit.isSome && (b == (clearOp s).prevBase.getD b || (clearOp s).rhLimit == (clearOp s).stopPoint)) = false := hskip
    rw [hskip'] at hu
    simp only [Bool.false_eq_true, if_false] at hu
    rw [hu] at hL
    simp only [Option.some.injEq] at hL
    have hbr := (offinv_bracket g s (offinv_run g ops s hs)).2
    have hmono := specLimit_mono_off g b s.maxFut (highOff g (keys s)) s.stopPoint
      (getD_le_of_optLe hbr (highOff_nonneg g hoff (keys s)))
    have e1 : (clearOp s).maxFut = s.maxFut := rfl
    have e2 : (clearOp s).stopPoint = s.stopPoint := rfl
    rw [e1, e2] at hL
    omega

/-! ### the witness of the recorded finding `stale-limit-at-stop-point` -/

def exInst (next : Option Int) : InstDef := { pre := [], sui := [], children := [], nextParentless := next }

def exOutputs : List OutDef :=
  [{ trigger := "succeeded", message := "succeeded" }, { trigger := "failed", message := "failed" },
   { trigger := "started", message := "started" }, { trigger := "submitted", message := "submitted" }]

/-- `e[+P2]:start & f[-P1]:start => b` on cycles 1..5 (e from cycle 3, f at cycle 2 only), runahead limit P1:
`3/b` (prerequisites `5/e`, `2/f`; future offset 2) is a child of `2/f:started`, `1/b` (prerequisite `3/e`; future
offset 2) a child of `3/e:started` -/
def exGraph : Graph :=
  { icp := 1, fcp := 5, start := 1, runahead := 1, seqs := [[1, 2, 3, 4, 5]], stopPoint := some 5,
    tasks := [
      { name := "e",
        insts := [(3, { exInst (some 4) with children := [("started", [⟨"b", 1, false⟩])], ghosts := [("b", 1)] }),
                  (4, exInst (some 5)),
                  (5, { exInst none with children := [("started", [⟨"b", 3, false⟩])], ghosts := [("b", 3)] })],
        firstParentless := some 3, completion := CE.var "succeeded", outputs := exOutputs },
      { name := "f",
        insts := [(2, { exInst none with children := [("started", [⟨"b", 3, false⟩])], ghosts := [("b", 3)] })],
        firstParentless := some 2, completion := CE.var "succeeded", outputs := exOutputs },
      { name := "b",
        insts := [(1, { exInst none with pre := [{ atoms := [(⟨3, "e", "started"⟩, false)], expr := none }],
                                         futOff := some 2, ghosts := [("e", 3)] }),
                  (3, { exInst none with pre := [{ atoms := [(⟨5, "e", "started"⟩, false), (⟨2, "f", "started"⟩, false)],
                                                   expr := none }],
                                         futOff := some 2, ghosts := [("e", 5), ("f", 2)] })],
        firstParentless := none, completion := CE.var "succeeded", outputs := exOutputs }] }

/-- `2/f` and `3/e` start; the main loop that processes both messages spawns `3/b` first (the cached maximum becomes 2:
forced recomputation with base point 2, limit 3 + 2 = 5 = stop point) and then `1/b` (base point 1, no
recomputation); the next main loop skips the computation (limit at the stop point) and releases `4/e`, the one after
releases `5/e` although the limit of the current pool is 2 + 2 = 4 -/
def exOps : List Op :=
  [.loop, .subres 2 "f" true 1, .msg 2 "f" 1 "started", .subres 3 "e" true 1, .msg 3 "e" 1 "started", .loop, .loop]

example : wfSeqs exGraph = true ∧ wfOff exGraph = true := by decide

/-- **The full statement is false** for the model (and for cylc-flow: findings/C04F.json, findings/C04.json
`stale-limit-at-stop-point`, reproduced on the real scheduler): with the limit at the stop point, a future-trigger
child that enters the pool in an earlier cycle than the base point does not bring the limit down. -/
theorem release_within_spec_counterexample : ¬ release_within_spec_full := by
  intro h
  have h1 := h exGraph exOps (by decide) (by decide) _ (mem_run_last exGraph exOps)
  -- 5/e is released by the next main loop ...
  have hrel : ((step exGraph (exOps.foldl (step exGraph) (init exGraph)) .loop).get? 5 "e").map (·.runahead) = some false := by
    decide
  cases hx : (step exGraph (exOps.foldl (step exGraph) (init exGraph)) .loop).get? 5 "e" with
  | none => rw [hx] at hrel; simp at hrel
  | some x =>
    rw [hx] at hrel
    simp only [Option.map_some, Option.some.injEq] at hrel
    obtain ⟨hpt, hname⟩ := get?_key hx
    rcases h1 x (get?_mem hx) hrel with ⟨x0, hx0, h2, h3, h4⟩ | ⟨b, hb, hle⟩
    · -- ... it was not released before ...
      have hall : (exOps.foldl (step exGraph) (init exGraph)).pool.all
          (fun y => !(y.pt == 5 && y.name == "e") || y.runahead) = true := by decide
      have := List.all_eq_true.mp hall x0 hx0
      rw [h2, h3, hpt, hname, h4] at this
      simp at this
    · -- ... and lies beyond the limit of the pool the loop started with (base point 1: limit 2 + 2 = 4)
      have hb' : basePointOf exGraph (clearOp (exOps.foldl (step exGraph) (init exGraph))) = some 1 := by decide
      rw [hb'] at hb
      simp only [Option.some.injEq] at hb
      subst hb
      have hlim : specLimit exGraph 1 (highOff exGraph (keys (exOps.foldl (step exGraph) (init exGraph))))
          (exOps.foldl (step exGraph) (init exGraph)).stopPoint = 4 := by decide
      rw [hlim, hpt] at hle
      omega

/-! ### non-vacuity -/

-- the bracket is not trivially `none`: in the witness run the cached maximum is 2 while 1/b and 3/b are pooled
example : (exOps.foldl (step exGraph) (init exGraph)).maxFut = some 2 := by decide

-- the hypothesis of the partial statement is satisfiable in a state where something is released: the first
-- main loop after the start-up of a workflow whose first cycle is complete
example : (basePointOf exGraph (clearOp (init exGraph)) = some 2) ∧
    ((init exGraph).rhLimit = some 3) ∧ ((init exGraph).prevBase = some 2) := by decide

-- the forced computation of the witness: base point 2, cached maximum 2, stop point 5 -> limit 5
example : specLimit exGraph 2 (some 2) (some 5) = 5 ∧ specLimit exGraph 1 (some 2) (some 5) = 4 := by decide

end CylcModel.C04F
