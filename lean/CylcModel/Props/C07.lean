/-
C07 — Task instances stay within cycle bounds and on their sequences; nothing beyond the stop point is submitted.
Statements only; the inductive invariant `Inv07` and its per-primitive lemmas are in `SchedLemmasC07`.

The theorems hold for EVERY instance graph `g` (no well-formedness hypothesis is needed: the model's
`mkProxy` = `TaskPool.can_be_spawned` rejects every key that is not an instance of `g`) and every list
of main loops, submit results and job messages.
-/
import CylcModel.SchedLemmasC07
namespace CylcModel.C07
open CylcModel.Sched

/-- **Pool bounds and sequences**: in every state of every run, every pooled proxy lies within
`[icp, fcp]` and on a valid point of its own task (`insts` = the points of the task's recurrences). -/
theorem pool_within_bounds_on_sequence (g : Graph) (ops : List Op) :
    ∀ s ∈ run g ops, ∀ x ∈ s.pool,
      g.icp ≤ x.pt ∧ x.pt ≤ g.fcp ∧ ∃ t, g.task? x.name = some t ∧ (t.inst? x.pt).isSome = true :=
  fun s hs x hx => ((inv07_run g ops s hs).pool x hx).1

/-- **… ever added**: the same for every instance that was in the pool at any earlier moment and has been
removed since — `hist` records every removal (`remove` is the only way out of the pool), `ghosts` the
removals of the current operation, so additions that do not survive to the end of an operation are covered too. -/
theorem ever_pooled_within_bounds_on_sequence (g : Graph) (ops : List Op) :
    ∀ s ∈ run g ops,
      (∀ h ∈ s.hist, g.icp ≤ h.pt ∧ h.pt ≤ g.fcp ∧ ∃ t, g.task? h.name = some t ∧ (t.inst? h.pt).isSome = true) ∧
      (∀ x ∈ s.ghosts, g.icp ≤ x.pt ∧ x.pt ≤ g.fcp ∧ ∃ t, g.task? x.name = some t ∧ (t.inst? x.pt).isSome = true) :=
  fun s hs => ⟨fun h hh => (inv07_run g ops s hs).hist h hh, fun x hx => ((inv07_run g ops s hs).ghosts x hx).1⟩

/-- **No launch beyond the stop point** (Sched v1: the configured stop point, no manual triggers):
every job launched by any operation of any run is an instance of the graph at a point `≤` the stop point. -/
theorem no_launch_beyond_stop_point (g : Graph) (ops : List Op) :
    ∀ s ∈ run g ops, ∀ l ∈ s.launched,
      (∀ sp, g.stopPoint = some sp → l.1 ≤ sp) ∧
      (g.icp ≤ l.1 ∧ l.1 ≤ g.fcp ∧ ∃ t, g.task? l.2.1 = some t ∧ (t.inst? l.1).isSome = true) := by
  intro s hs l hl
  have h := (inv07_run g ops s hs).launched l hl
  refine ⟨?_, h.2⟩
  intro sp hsp
  have := h.1
  unfold beyondStop at this
  by_cases hle : l.1 ≤ sp
  · exact hle
  · exact absurd ⟨sp, hsp, by omega⟩ this

/-- **Why**: a proxy beyond the stop point is never released from the runahead pool nor queued,
and the runahead limit never exceeds the stop point. -/
theorem beyond_stop_point_held_back (g : Graph) (ops : List Op) :
    ∀ s ∈ run g ops, ∀ sp, g.stopPoint = some sp →
      (∀ x ∈ s.pool, sp < x.pt → x.runahead = true ∧ x.queued = false) ∧
      (∀ lim, s.rhLimit = some lim → lim ≤ sp) := by
  intro s hs sp hsp
  have h := inv07_run g ops s hs
  refine ⟨fun x hx hlt => (h.pool x hx).2 ⟨sp, hsp, hlt⟩, ?_⟩
  intro lim hlim
  have := h.limit lim hlim
  unfold beyondStop at this
  by_cases hle : lim ≤ sp
  · exact hle
  · exact absurd ⟨sp, hsp, by omega⟩ this

/-- `can_be_spawned` as modelled: no proxy object is ever built for a key outside the bounds or off the sequences -/
theorem mkProxy_only_instances (g : Graph) (n : String) (p : Int) (x : Proxy) (h : mkProxy g n p = some x) :
    x.pt = p ∧ x.name = n ∧ g.icp ≤ p ∧ p ≤ g.fcp ∧ ∃ t, g.task? n = some t ∧ (t.inst? p).isSome = true := by
  have hk := mkProxy_key h
  have hg := (mkProxy_good h).1
  rw [hk.1, hk.2] at hg
  exact ⟨hk.1, hk.2, hg⟩

/-! ### non-vacuity: a three-point workflow with stop point 2 and runahead limit P3 -/

def exGraph : Graph :=
  { icp := 1, fcp := 3, start := 1, runahead := 3, seqs := [[1, 2, 3]], stopPoint := some 2,
    tasks := [
      { name := "a",
        insts := [(1, { pre := [], sui := [], children := [], nextParentless := some 2 }),
                  (2, { pre := [], sui := [], children := [], nextParentless := some 3 }),
                  (3, { pre := [], sui := [], children := [], nextParentless := none })],
        firstParentless := some 1,
        completion := CE.var "succeeded",
        outputs := [{ trigger := "succeeded", message := "succeeded" }] }] }

-- the pool holds three instances, the one beyond the stop point stays runahead-limited and unqueued;
-- the first main loop launches exactly the two instances within the stop point
example :
    ((run exGraph [.loop]).map fun s => s.pool.map fun x => (x.pt, x.runahead, x.queued)) =
      [[(1, false, true), (2, false, true), (3, true, false)], [(1, false, false), (2, false, false), (3, true, false)]] ∧
    ((run exGraph [.loop]).map fun s => s.launched) = [[], [(1, "a", 1), (2, "a", 1)]] ∧
    ((run exGraph [.loop]).map fun s => s.rhLimit) = [some 2, some 2] := by decide

-- `can_be_spawned`: point 4 is beyond the final point, point 0 before the initial point, "b" is not a task
example : (mkProxy exGraph "a" 4).isNone ∧ (mkProxy exGraph "a" 0).isNone ∧ (mkProxy exGraph "b" 1).isNone ∧
    (mkProxy exGraph "a" 3).isSome := by decide

-- a job message is processed without leaving the bounds: 1/a running, 3/a still held back
example :
    ((run exGraph [.loop, .subres 1 "a" true 1, .msg 1 "a" 1 "started", .loop]).getLast?.map fun s =>
      s.pool.map fun x => (x.pt, x.status, x.runahead)) =
      some [(1, Status.running, false), (2, Status.preparing, false), (3, Status.waiting, true)] := by decide

end CylcModel.C07
