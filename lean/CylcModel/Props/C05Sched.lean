/-
C05 at scheduler level (id C05S) — internal queue limits are never exceeded; FIFO release skipping held tasks.
Statements only, over the `Sched3QT` model (scheduler core + limited queues + manual trigger of pooled group-start
tasks); proofs by reference to `Sched3QTLemmas`.  `act s members` = number of pooled proxies with a name in `members` that are preparing /
submitted / running / waiting on job preparation (`TaskPool.count_active_tasks`).

Reading of the property text:
* "a queue never releases a task while the number of its members that are preparing, submitted, running or
  released-awaiting-preparation is at its limit": `release_limit` / `release_and_prepare_limit` (any state that
  satisfies the run invariants `queue_invariants_run`) and, along runs, `Inv_queue_partial`;
* "released in the order they were queued, skipping held ones": `release_fifo`, `queue_release_fifo`,
  `held_never_released`;
* "only manual triggering may exceed a limit": `trigger_respects_limit` - a manual trigger of a task that is NOT
  queued starts it only if its queue has room, else it is queued (a trigger of a task that IS queued takes it out of
  the queue and runs it regardless: the one legitimate way over a limit).  The unrestricted run
  statement `Inv_queue_full` is FALSE in the model (and in the code, which the model follows): a job
  message can move a waiting task straight to `running` without passing its queue (`Inv_queue_counterexample`);
  what is proved is `Inv_queue_partial`: if every activation along the run is a queue release (`NoOobFrom`,
  a property of the trace that the judge also evaluates on the real traces; it excludes manual triggers that start a
  task), no limit is ever exceeded.
-/
import CylcModel.Sched3QTLemmas
namespace CylcModel.C05S
open CylcModel.Sched3QT

/-! ### FIFO, held tasks skipped and left in place -/

/-- **one queue**: the release loop looks at the first `k` entries of the deque (head first); it releases exactly
those of them that are not held, in queue order, and leaves the held ones followed by the untouched tail -
i.e. the deque afterwards is the old deque without the released tasks, order unchanged. Any limit, any counter. -/
theorem queue_release_fifo (limit : Nat) (isHeld : Key → Bool) (d : List Key) (n : Nat) :
    (releaseLoop limit isHeld d n).released = (d.take (popCount limit isHeld d n)).filter (fun x => !isHeld x) ∧
    (releaseLoop limit isHeld d n).held ++ (releaseLoop limit isHeld d n).rest =
      (d.take (popCount limit isHeld d n)).filter isHeld ++ d.drop (popCount limit isHeld d n) := by
  obtain ⟨h1, h2, h3⟩ := releaseLoop_spec limit isHeld d n
  exact ⟨h1, by rw [h2, h3]⟩

/-- **all queues** (`IndepQueueManager.release_tasks`): every queue gives up the non-held tasks among its first
`k` entries in order and keeps the rest in order (`Fifo`), whatever the queues, counters and held flags are. -/
theorem release_fifo (isHeld : Key → Bool) (qs : List LQ) (active : List String) :
    Fifo isHeld qs (releaseQueues isHeld qs active).1 (releaseQueues isHeld qs active).2 :=
  releaseQueues_fifo isHeld qs active

/-- a task released by `release_queued_tasks` sat in a queue and is not held -/
theorem held_never_released (s : State) :
    ∀ k ∈ (releaseQueued s).2, (∃ q ∈ s.qs, k ∈ q.deque) ∧ s.isHeldKey k = false :=
  releaseQueues_released_mem s.isHeldKey s.qs (countActive s)

/-- an unlimited queue (limit 0) releases every task that is not held -/
theorem unlimited_releases_all (isHeld : Key → Bool) (d : List Key) (n : Nat) :
    (releaseLoop 0 isHeld d n).released = d.filter (fun x => !isHeld x) :=
  (releaseLoop_unlimited isHeld d n).1

/-- a limited queue stops before the end of its deque only when it has reached its limit -/
theorem stops_only_at_limit (limit : Nat) (isHeld : Key → Bool) (d : List Key) (n : Nat)
    (h : (releaseLoop limit isHeld d n).rest ≠ []) :
    0 < limit ∧ limit ≤ n + (releaseLoop limit isHeld d n).released.length :=
  releaseLoop_stops_at_limit limit isHeld d n h

/-! ### The release step against the limits (every state that satisfies the run invariants) -/

/-- **run invariants**: in every state of every run (any instance graph, any op list) no two proxies share
(point, name), the queue manager has exactly the configured queues, and every deque entry is a member of its queue -/
theorem queue_invariants_run (g : Graph) (ops : List Op) :
    ∀ s ∈ run g ops,
      (s.pool.map fun x => (x.pt, x.name)).Nodup ∧
      s.qs.map LQ.sig = g.queues.map QDef.sig ∧
      ∀ q ∈ s.qs, ∀ k ∈ q.deque, q.members.contains k.2 = true := by
  intro s hs
  obtain ⟨h1, h2, h3⟩ := keepQ_run g ops s hs
  exact ⟨h1, h2, h3⟩

/-- **a queue never releases while at its limit**: with independent queues (no task name in two queues), for
every queue with limit `L > 0` of a state satisfying the run invariants: either nothing of that queue is released,
or the released members together with the members that count as active stay within `L`; and the active count
after the release (released tasks wait on job preparation) is at most the old count plus the number released. -/
theorem release_limit {g : Graph} {s : State} (h : KeepQ g s) (hi : IndepSig (g.queues.map QDef.sig))
    (q : LQ) (hq : q ∈ s.qs) (hl : 0 < q.limit) :
    (((releaseQueued s).2.filter fun k => q.members.contains k.2) = [] ∨
      act s q.members + ((releaseQueued s).2.filter fun k => q.members.contains k.2).length ≤ q.limit) ∧
    act (releaseQueued s).1 q.members ≤
      act s q.members + ((releaseQueued s).2.filter fun k => q.members.contains k.2).length :=
  releaseQueued_limit h hi q hq hl

/-- release + job preparation (`release_tasks_to_run`) never takes a queue above `max L (what it was)` -/
theorem release_and_prepare_limit {g : Graph} {s : State} (h : KeepQ g s) (hi : IndepSig (g.queues.map QDef.sig))
    (q : LQ) (hq : q ∈ s.qs) (hl : 0 < q.limit) :
    act (releaseAndSubmit s) q.members ≤ max q.limit (act s q.members) := by
  obtain ⟨h1, h2⟩ := (releaseAndSubmit_spec h hi).1 q hq hl
  rcases h1 with h1 | h1
  · rw [h1] at h2
    exact Nat.le_trans h2 (Nat.le_max_right _ _)
  · exact Nat.le_trans (Nat.le_trans h2 h1) (Nat.le_max_left _ _)

/-- every job launch of a run comes out of the release step of a main loop: any other operation launches nothing -/
theorem launch_only_in_main_loop {g : Graph} {s : State} (h : KeepQ g s) (op : Op) (hne : op ≠ .loop) :
    (step g s op).launched = [] :=
  launched_step_of_ne_loop h op hne

/-- **queue order over any operation** (run level, any state satisfying the run invariants): queue by queue the
name, limit and members are unchanged, and the deque afterwards is `sub ++ app` where `sub` is a sublist of the
deque before - the tasks that are still queued keep the order in which they were queued - and `app` are the tasks
queued by the operation, behind all of them (`QStep`, `Tail`).  Together with `release_fifo` (a release takes from
the head, skipping held tasks, which stay where they are): tasks leave a queue in the order they entered it. -/
theorem queue_order_step {g : Graph} {s : State} (h : KeepQ g s) (op : Op) : QStep s.qs (step g s op).qs :=
  qstep_step s op h

/-- the same for the release step alone -/
theorem queue_order_release (s : State) : QStep s.qs (releaseAndSubmit s).qs := qstep_releaseAndSubmit s

/-! ### `Inv_queue`: the limits along runs -/

/-- one operation keeps every limited queue within its limit, unless a proxy is activated out of band -/
theorem Inv_queue_step {g : Graph} (hi : IndepSig (g.queues.map QDef.sig)) {s : State} (hk : KeepQ g s) (op : Op)
    (hno : NoOobStep s (step g s op)) (hl : LimitOK g s) : LimitOK g (step g s op) :=
  limit_step hi hk op hno hl

/-- **`Inv_queue` (partial)**: any instance graph with independent queues, any op list (main loops, submit
results, job messages, hold / release / hold point, stop modes / point / task, pause / resume, restart): if every
activation along the run is a queue release (`NoOobFrom`: a proxy that counts as active after an operation counted
as active before it or was launched by it), then in every state of the run every queue with limit `L > 0` has at
most `L` members that are preparing / submitted / running / waiting on job preparation. -/
theorem Inv_queue_partial {g : Graph} (hi : IndepSig (g.queues.map QDef.sig)) (ops : List Op)
    (hno : NoOobFrom g (init g) ops) :
    ∀ s ∈ run g ops, ∀ q ∈ g.queues, 0 < q.limit → act s q.members ≤ q.limit :=
  limit_run hi ops hno

/-- the unrestricted statement -/
def Inv_queue_full : Prop :=
  ∀ (g : Graph), IndepSig (g.queues.map QDef.sig) → ∀ (ops : List Op),
    ∀ s ∈ run g ops, ∀ q ∈ g.queues, 0 < q.limit → act s q.members ≤ q.limit

/-- two parentless tasks in one queue of limit 1 -/
def exGraph : Graph :=
  { icp := 1, fcp := 1, start := 1, runahead := 1, seqs := [[1]], stopPoint := some 1,
    queues := [{ name := "default", limit := 1, members := ["a", "b"] }],
    tasks := [
      { name := "a", insts := [(1, { pre := [], sui := [], children := [], nextParentless := none })],
        firstParentless := some 1, completion := CE.var "succeeded", execRetries := 1,
        outputs := [{ trigger := "succeeded", message := "succeeded" }] },
      { name := "b", insts := [(1, { pre := [], sui := [], children := [], nextParentless := none })],
        firstParentless := some 1, completion := CE.var "succeeded",
        outputs := [{ trigger := "succeeded", message := "succeeded" }] }] }

/-- a main loop releases `1/a`; a forged "started" message for the still waiting, still queued `1/b` (submit
number 0) is processed by the next main loop: `1/b` is running although its queue is at its limit -/
def cexOps : List Op := [.loop, .msg 1 "b" 0 "started", .loop]

theorem exGraph_indep : IndepSig (exGraph.queues.map QDef.sig) := by
  unfold IndepSig; simp [exGraph]

theorem cex_run : ((run exGraph cexOps).map fun s => s.pool.map fun x => (x.name, x.status, x.queued)) =
    [[("a", .waiting, true), ("b", .waiting, true)],
     [("a", .preparing, false), ("b", .waiting, true)],
     [("a", .preparing, false), ("b", .waiting, true)],
     [("a", .preparing, false), ("b", .running, true)]] := by decide

/-- **the unrestricted statement is false**: a job message activates a task behind the back of its queue -/
theorem Inv_queue_counterexample : ¬ Inv_queue_full := by
  intro h
  have := h exGraph exGraph_indep cexOps _ (final_mem_run exGraph cexOps)
    { name := "default", limit := 1, members := ["a", "b"] } (by simp [exGraph]) (by decide)
  revert this
  decide

/-! ### Manual trigger -/

/-- **a manual trigger respects the limit** (`TaskPool.queue_or_trigger`, any state satisfying the run invariants):
after triggering a pooled proxy that is not queued, every queue with limit `L > 0` has at most
`max L (what it had before)` active members - the proxy starts (waits on job preparation) only if its queue has
room, counting the proxies the same command has started before it; otherwise it is queued. -/
theorem trigger_respects_limit {g : Graph} {s : State} (h : KeepQ g s) {x : Proxy} (hx : x ∈ s.pool)
    (hq : x.queued = false) (q : LQ) (hqm : q ∈ s.qs) (hl : 0 < q.limit) :
    act (queueOrTrigger s x) q.members ≤ max q.limit (act s q.members) :=
  queueOrTrigger_limit h hx hq q hqm hl

/-- the trigger command keeps the run invariants, launches nothing itself, and only appends to / deletes from the
deques (`queue_invariants_run`, `launch_only_in_main_loop` and `queue_order_step` cover the `trigger` op as well);
stated here for the command on its own -/
theorem trigger_keeps_invariants {g : Graph} {s : State} (h : KeepQ g s) (ids : List Key) :
    KeepQ g (triggerTasks g s ids) ∧ (triggerTasks g s ids).launched = s.launched ∧
      QStep s.qs (triggerTasks g s ids).qs := by
  have := keep_triggerTasks g s ids (keep_of_keepQ h)
  exact ⟨keepQ_of_keep this, keep_launched this, keep_qstep this⟩

/-! ### non-vacuity -/

-- `trigger_respects_limit`: `1/a` is preparing (queue of limit 1 full), `1/b` pooled and not queued: a trigger
-- queues it instead of starting it
def trigState : State :=
  let s1 := step exGraph (init exGraph) .loop
  { s1 with pool := s1.pool.map (fun x => if x.name == "b" then { x with queued := false } else x),
            qs := s1.qs.map fun q => { q with deque := [] } }

example : KeepQ exGraph trigState := by
  refine ⟨by unfold NoDup keys; decide, by decide, by decide⟩

example : (trigState.pool.filter (·.name == "b")).map (fun x => (x.queued, x.wjp)) = [(false, false)] := by decide

example : ((trigState.pool.filter (·.name == "b")).map fun x =>
      (queueOrTrigger trigState x).pool.map (fun y => (y.name, y.status, y.queued, y.wjp))) =
      [[("a", .preparing, false, false), ("b", .waiting, true, false)]] := by decide

example : ((trigState.pool.filter (·.name == "b")).map fun x =>
      (queueOrTrigger trigState x).qs.map (·.deque)) = [[[(1, "b")]]] := by decide

-- the hypotheses of `release_limit` / `release_and_prepare_limit` are met by the start-up state of `exGraph`,
-- whose limited queue holds two ready tasks: exactly one is released
example : KeepQ exGraph (init exGraph) := keepQ_init exGraph
example : (releaseQueued (init exGraph)).2 = [(1, "a")] ∧
    ((releaseQueued (init exGraph)).1.qs.map (·.deque)) = [[(1, "b")]] ∧
    act (releaseAndSubmit (init exGraph)) ["a", "b"] = 1 := by decide

-- `Inv_queue_partial`: a run of `exGraph` whose every activation is a queue release; the limit binds
-- (the second main loop releases nothing while `1/a` is preparing, nor does the third while it is submitted; its
-- job fails with a retry left, so `1/a` goes back to waiting and `1/b`, queued first, is released before it)
def okOps : List Op := [.loop, .loop, .subres 1 "a" true 1, .msg 1 "a" 1 "failed", .loop, .loop]

example : NoOobFrom exGraph (init exGraph) okOps := noOobFrom_of_B exGraph okOps _ (by decide)

example : ((run exGraph okOps).map fun s => (s.pool.map fun x => (x.name, x.status), s.qs.map (·.deque))) =
    [([("a", .waiting), ("b", .waiting)], [[(1, "a"), (1, "b")]]),
     ([("a", .preparing), ("b", .waiting)], [[(1, "b")]]),
     ([("a", .preparing), ("b", .waiting)], [[(1, "b")]]),
     ([("a", .submitted), ("b", .waiting)], [[(1, "b")]]),
     ([("a", .submitted), ("b", .waiting)], [[(1, "b")]]),
     ([("a", .waiting), ("b", .waiting)], [[(1, "b")]]),
     ([("a", .waiting), ("b", .preparing)], [[(1, "a")]])] := by decide

-- FIFO skipping a held head: the held task keeps its place
example : (releaseLoop 1 (fun k => k == (1, "a")) [(1, "a"), (1, "b"), (1, "c")] 0).released = [(1, "b")] ∧
    (releaseLoop 1 (fun k => k == (1, "a")) [(1, "a"), (1, "b"), (1, "c")] 0).held ++
      (releaseLoop 1 (fun k => k == (1, "a")) [(1, "a"), (1, "b"), (1, "c")] 0).rest = [(1, "a"), (1, "c")] := by
  decide

end CylcModel.C05S
