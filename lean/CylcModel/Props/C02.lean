/-
C02 — No task instance runs twice in a flow without intervention; retries.
Property theorems only (proofs in `SchedLemmasC02`, on top of the atomic-action refinement of `Sched`).
-/
import CylcModel.SchedLemmasC02
import CylcModel.SchedEnvC02
import CylcModel.SchedEnvPF
namespace CylcModel.C02
open CylcModel.Sched

/-- **no_double_submit.** In every run (any graph with the standard outputs, any list of main loops, submit
results and job messages — duplicates, stale and out-of-order messages included), the submit numbers of the
launches of one instance `(p, n)`, in order of occurrence over the whole run, are exactly `1, 2, …, k`:
pairwise distinct and consecutive.  `k` is the submit number on record for the instance at the end (pooled
proxy, else latest history record). Removal and later re-spawning of the instance does not restart the count. -/
theorem no_double_submit (g : Graph) (hwf : g.wf = true) (ops : List Op) (p : Int) (n : String) :
    snsOf ((run g ops).flatMap (·.launched)) p n = List.range' 1 (snOf (lastState g (init g) ops) p n) :=
  submit_numbers_consecutive hwf ops p n

/-- per atomic action: a launch carries the submit number on record plus one and makes it the number on record;
every other action leaves all numbers on record and the launch log alone -/
theorem launch_increments_record (g : Graph) (K : Kinds) (s s' : State) (ha : Act g K s s') :
    (s'.launched = s.launched ∧ ∀ p n, snOf s' p n = snOf s p n) ∨
    (∃ p n, s'.launched = s.launched ++ [(p, n, snOf s p n + 1)] ∧ snOf s' p n = snOf s p n + 1 ∧
      ∀ q m, ¬ (q = p ∧ m = n) → snOf s' q m = snOf s q m) :=
  snOf_act ha

/-- **retry counters bounded**: in every state of every run the execution / submission try counters of every
pooled proxy are at most the numbers `N` / `M` of configured retry delays -/
theorem retry_counters_bounded (g : Graph) (hwf : g.wf = true) (ops : List Op) :
    ∀ s ∈ run g ops, ∀ x ∈ s.pool, x.execTry ≤ maxExec g x.name ∧ x.subTry ≤ maxSub g x.name :=
  tries_run hwf ops

/-- **final_output_only_when_exhausted.** For every atomic action of the model (every operation is a sequence
of them, `C01.step_refines`): if it makes the `failed` output of the pooled proxy of `(p, n)` complete, then in
the state it acts on no execution retry remained (`¬ (submitNum > 0 ∧ execTry < N)`) — or the proxy is being
revived from a history record that had the output already.  Likewise `submit-failed` and submission retries. -/
theorem final_output_only_when_exhausted (g : Graph) (K : Kinds) (s s' : State) (ha : Act g K s s')
    (p : Int) (n : String) :
    (¬ poolHas s p n "failed" → poolHas s' p n "failed" →
      (∃ x, s.get? p n = some x ∧ ¬ (x.submitNum > 0 ∧ x.execTry < maxExec g n)) ∨
      (s.get? p n = none ∧ ∃ h, lastHist s n p = some h ∧ "failed" ∈ h.done)) ∧
    (¬ poolHas s p n "submit-failed" → poolHas s' p n "submit-failed" →
      (∃ x, s.get? p n = some x ∧ ¬ (x.submitNum > 0 ∧ x.subTry < maxSub g n)) ∨
      (s.get? p n = none ∧ ∃ h, lastHist s n p = some h ∧ "submit-failed" ∈ h.done)) :=
  final_output_when_exhausted ha p n

/-- children of the `failed` / `submit-failed` output are spawned and satisfied only after the output was
completed: a satisfied prerequisite atom on such an output, in any pooled proxy of any state of any run, is
initially satisfied in the graph or the output is recorded complete (instance of `C01.prereq_atoms_justified`) -/
theorem final_children_only_after_completion (g : Graph) (hwf : g.wf = true) (ops : List Op) :
    ∀ s ∈ run g ops, ∀ x ∈ s.pool, Valid g (completedB s) x :=
  fun s hs => (c01_run hwf ops s hs).2.valid

theorem lastState_mem_trace (g : Graph) : ∀ (ops : List Op) (s : State), lastState g s ops ∈ trace g s ops := by
  intro ops; induction ops with
  | nil => intro s; simp [lastState, trace]
  | cons op ops ih =>
    intro s
    have : lastState g s (op :: ops) = lastState g (step g s op) ops := rfl
    rw [this]
    simp only [trace, List.mem_cons]
    exact Or.inr (ih _)

/-- **retry_bound.** For a graph without suicide triggers (`g.noSui`, decidable) and a run that respects the
environment assumption `envOK2` (decidable, on the operation list: a failed job-submission is reported only for
an instance that is still preparing; job messages carry a submit number ≥ 1 and never read "submit-failed"):
in every state the submit number of every pooled proxy and of every history record is at most
`(N+1)*(M+1)`, `N` / `M` the numbers of execution / submission retry delays of the task. -/
theorem retry_bound_states (g : Graph) (hwf : g.wf = true) (hns : g.noSui = true) (ops : List Op)
    (henv : envOK2 g ops = true) : ∀ s ∈ run g ops,
      (∀ x ∈ s.pool, x.submitNum ≤ (maxExec g x.name + 1) * (maxSub g x.name + 1)) ∧
      (∀ h ∈ s.hist, h.submitNum ≤ (maxExec g h.name + 1) * (maxSub g h.name + 1)) := by
  intro s hs
  have h := (env_run hwf hns ops henv s hs).2
  exact ⟨fun x hx => (h.pool x hx).bound, fun hh hm => (h.hist hh hm).2⟩

/-- **retry_bound**, in terms of launches: under the same hypotheses an instance `(p, n)` is launched at most
`(N+1)*(M+1)` times in the whole run (with `no_double_submit`: the launches carry the numbers `1..k`, `k` the
submit number on record at the end). -/
theorem retry_bound (g : Graph) (hwf : g.wf = true) (hns : g.noSui = true) (ops : List Op)
    (henv : envOK2 g ops = true) (p : Int) (n : String) :
    (snsOf ((run g ops).flatMap (·.launched)) p n).length ≤ (maxExec g n + 1) * (maxSub g n + 1) := by
  rw [no_double_submit g hwf ops p n, List.length_range']
  have hmem : lastState g (init g) ops ∈ run g ops := by rw [run_eq_trace]; exact lastState_mem_trace g ops _
  obtain ⟨hp, hh⟩ := retry_bound_states g hwf hns ops henv _ hmem
  unfold snOf
  cases hg : (lastState g (init g) ops).get? p n with
  | some x =>
    have hx := get?_some_spec hg
    have := hp x hx.1
    rw [hx.2.2] at this
    exact this
  | none =>
    simp only
    cases hl : lastHist (lastState g (init g) ops) n p with
    | none => exact Nat.zero_le _
    | some h =>
      have hm := lastHist_mem hl
      have := hh h hm.1
      rw [hm.2.2] at this
      exact this

/-- what remains outside: graphs with suicide triggers (a proxy removed by a suicide trigger and spawned again
starts with fresh try counters but keeps its submit number) and operation lists outside the environment
assumption; on those the judge decides -/
def retry_bound_full : Prop :=
  ∀ (g : Graph) (ops : List Op), g.wf = true → envOK2 g ops = true →
    ∀ p n, snOf (lastState g (init g) ops) p n ≤ (maxExec g n + 1) * (maxSub g n + 1)

/-! ### the model extended by job-file preparation failures (`SchedPF`) -/

/-- every operation of the extended model — a main loop in which the job-file preparation of some of the instances
just sent to preparation fails, handled as submit-failed via the preparation path — is a sequence of atomic actions -/
theorem stepX_refines (g : Graph) (hwf : g.wf = true) (s : State) (hi : RInv g s) (op : OpX) :
    Steps g Kinds.all (clearOp s) (stepX g s op) :=
  steps_stepX hwf hi op

/-- **no_double_submit with preparation failures**: in every run of the extended model the submit numbers of the
submission attempts (launches and failed preparations) of one instance, in order, are exactly 1, 2, …, k -/
theorem no_double_submit_pf (g : Graph) (hwf : g.wf = true) (ops : List OpX) (p : Int) (n : String) :
    snsOf ((runX g ops).flatMap (·.launched)) p n = List.range' 1 (snOf (lastStateX g (init g) ops) p n) :=
  submit_numbers_consecutiveX hwf ops p n

theorem retry_counters_bounded_pf (g : Graph) (hwf : g.wf = true) (ops : List OpX) :
    ∀ s ∈ runX g ops, ∀ x ∈ s.pool, x.execTry ≤ maxExec g x.name ∧ x.subTry ≤ maxSub g x.name :=
  tries_runX hwf ops

theorem lastStateX_mem_traceX (g : Graph) : ∀ (ops : List OpX) (s : State), lastStateX g s ops ∈ traceX g s ops := by
  intro ops; induction ops with
  | nil => intro s; simp [lastStateX, traceX]
  | cons op ops ih =>
    intro s
    have : lastStateX g s (op :: ops) = lastStateX g (stepX g s op) ops := rfl
    rw [this]
    simp only [traceX, List.mem_cons]
    exact Or.inr (ih _)

/-- **retry_bound with preparation failures**: for a graph without suicide triggers and a run of the extended model
that respects the environment assumption (`envOK2X`), an instance has at most `(N+1)*(M+1)` submission attempts
(launches plus failed job-file preparations) in the whole run: a preparation failure consumes a submission retry
like any other submission failure and does not lead to a re-submission by itself. -/
theorem retry_bound_pf (g : Graph) (hwf : g.wf = true) (hns : g.noSui = true) (ops : List OpX)
    (henv : envOK2X g ops = true) (p : Int) (n : String) :
    (snsOf ((runX g ops).flatMap (·.launched)) p n).length ≤ (maxExec g n + 1) * (maxSub g n + 1) := by
  rw [no_double_submit_pf g hwf ops p n, List.length_range']
  have hmem : lastStateX g (init g) ops ∈ runX g ops := lastStateX_mem_traceX g ops _
  have h := (env_runX hwf hns ops henv _ hmem).2
  unfold snOf
  cases hg : (lastStateX g (init g) ops).get? p n with
  | some x =>
    have hx := get?_some_spec hg
    have := (h.pool x hx.1).bound
    rw [hx.2.2] at this
    exact this
  | none =>
    simp only
    cases hl : lastHist (lastStateX g (init g) ops) n p with
    | none => exact Nat.zero_le _
    | some hh =>
      have hm := lastHist_mem hl
      have := (h.hist hh hm.1).2
      rw [hm.2.2] at this
      exact this

/-! ### the retry automaton of one proxy -/

/-- abstract state of one proxy between spawn and removal: execution / submission try numbers, the number of
launches so far, and the phase (`w`: waiting for a launch; `a`: launched, job not started; `b`: job started) -/
structure RS where
  e : Nat
  s : Nat
  l : Nat
  ph : Nat   -- 0 = waiting, 1 = launched (preparing / submitted), 2 = started (running / finished)

/-- the moves of `processMessage` / `releaseAndSubmit` on these components, with the guards of the code -/
inductive RStep (N M : Nat) : RS → RS → Prop
  | launch (r : RS) : r.ph = 0 → RStep N M r { r with l := r.l + 1, ph := 1 }
  | subRetry (r : RS) : r.ph = 1 → r.s < M → RStep N M r { r with s := r.s + 1, ph := 0 }
  | started (r : RS) : r.ph ≠ 0 → RStep N M r { r with s := 0, ph := 2 }
  | execRetry (r : RS) : r.ph ≠ 0 → r.e < N → RStep N M r { r with e := r.e + 1, ph := 0 }

def RInvar (N M : Nat) (r : RS) : Prop :=
  r.e ≤ N ∧ r.s ≤ M ∧
  (r.ph = 0 → r.l ≤ r.e * (M + 1) + r.s) ∧
  (r.ph = 1 → r.l ≤ r.e * (M + 1) + r.s + 1) ∧
  (r.ph ≥ 2 → r.l ≤ (r.e + 1) * (M + 1))

theorem rinvar_step {N M : Nat} {r r' : RS} (h : RInvar N M r) (hs : RStep N M r r') : RInvar N M r' := by
  obtain ⟨h1, h2, h3, h4, h5⟩ := h
  have hm : (r.e + 1) * (M + 1) = r.e * (M + 1) + M + 1 := by rw [Nat.add_mul]; omega
  cases hs with
  | launch hp =>
    refine ⟨h1, h2, (by intro h; cases h), (fun _ => ?_), (by intro h; simp at h)⟩
    have := h3 hp; simp only; omega
  | subRetry hp hlt =>
    refine ⟨h1, (by simp only; omega), (fun _ => ?_), (by intro h; cases h), (by intro h; simp at h)⟩
    have := h4 hp; simp only; omega
  | started hp =>
    refine ⟨h1, Nat.zero_le _, (by intro h; cases h), (by intro h; cases h), (fun _ => ?_)⟩
    simp only
    rcases Nat.lt_or_ge r.ph 2 with hlt | hge
    · have : r.ph = 1 := by omega
      have := h4 this; omega
    · exact h5 hge
  | execRetry hp hlt =>
    refine ⟨(by simp only; omega), h2, (fun _ => ?_), (by intro h; cases h), (by intro h; simp at h)⟩
    simp only
    rcases Nat.lt_or_ge r.ph 2 with hlt' | hge
    · have : r.ph = 1 := by omega
      have := h4 this; omega
    · have := h5 hge; omega

/-- states reachable from a fresh proxy -/
inductive RReach (N M : Nat) : RS → Prop
  | fresh : RReach N M ⟨0, 0, 0, 0⟩
  | step {r r' : RS} : RReach N M r → RStep N M r r' → RReach N M r'

/-- **retry bound on the automaton**: whatever the sequence of moves from a fresh proxy, the number of launches
is at most `(N+1)*(M+1)` -/
theorem retry_automaton_bound (N M : Nat) (r : RS) (h : RReach N M r) : r.l ≤ (N + 1) * (M + 1) := by
  have hinv : RInvar N M r := by
    induction h with
    | fresh => exact ⟨Nat.zero_le _, Nat.zero_le _, (fun _ => Nat.zero_le _), (fun h => by cases h), (fun h => by simp at h)⟩
    | step _ hs ih => exact rinvar_step ih hs
  obtain ⟨h1, h2, h3, h4, h5⟩ := hinv
  have hm : (r.e + 1) * (M + 1) ≤ (N + 1) * (M + 1) := Nat.mul_le_mul_right _ (by omega)
  have hm2 : r.e * (M + 1) + M + 1 = (r.e + 1) * (M + 1) := by rw [Nat.add_mul]; omega
  rcases Nat.lt_or_ge r.ph 2 with hlt | hge
  · rcases Nat.lt_or_ge r.ph 1 with h0 | h1'
    · have := h3 (by omega); omega
    · have := h4 (by omega); omega
  · have := h5 hge; omega

/-! ### non-vacuity -/

def stdOuts : List OutDef := [⟨"submitted", "submitted"⟩, ⟨"started", "started"⟩, ⟨"succeeded", "succeeded"⟩,
  ⟨"failed", "failed"⟩, ⟨"submit-failed", "submit-failed"⟩]

/-- one task with one execution retry at the single point 1 -/
def exGraph : Graph :=
  { icp := 1, fcp := 1, start := 1, runahead := 1, seqs := [[1]], stopPoint := some 1,
    tasks := [
      { name := "a",
        insts := [(1, { pre := [], sui := [], children := [], nextParentless := none })],
        firstParentless := some 1, completion := CE.var "succeeded", outputs := stdOuts, execRetries := 1 }] }

def exOps : List Op := [.loop, .subres 1 "a" true 1, .msg 1 "a" 1 "failed", .loop, .loop]

-- the job fails with a retry remaining: back to waiting with the failed output incomplete, then launch no. 2
example : exGraph.wf = true ∧
    (run exGraph exOps).map (·.launched) = [[], [(1, "a", 1)], [], [], [], [(1, "a", 2)]] ∧
    snsOf ((run exGraph exOps).flatMap (·.launched)) 1 "a" = [1, 2] ∧
    snOf (lastState exGraph (init exGraph) exOps) 1 "a" = 2 ∧
    ((run exGraph exOps).map fun s => s.pool.map fun x => (x.status, x.execTry, x.done.contains "failed")) =
      [[(.waiting, 0, false)], [(.preparing, 0, false)], [(.submitted, 0, false)], [(.submitted, 0, false)],
       [(.waiting, 1, false)], [(.preparing, 1, false)]] := by decide

-- the hypotheses of `retry_bound` hold for the example (bound (1+1)*(0+1) = 2, reached)
example : exGraph.noSui = true ∧ envOK2 exGraph exOps = true := by decide

/-- one task with one submission retry -/
def exGraph2 : Graph :=
  { icp := 1, fcp := 1, start := 1, runahead := 1, seqs := [[1]], stopPoint := some 1,
    tasks := [
      { name := "a",
        insts := [(1, { pre := [], sui := [], children := [], nextParentless := none })],
        firstParentless := some 1, completion := CE.var "succeeded", outputs := stdOuts, subRetries := 1 }] }

-- the extended model: the job-file preparation of the first submission fails with a submission retry remaining:
-- back to waiting, attempt no. 1 consumed and not launched; the next main loops wake the retry and launch no. 2
example : exGraph2.noSui = true ∧
    envOK2X exGraph2 [.loopPF [(1, "a")], .base .loop, .base .loop] = true ∧
    ((runX exGraph2 [.loopPF [(1, "a")], .base .loop, .base .loop]).map fun s =>
      (s.launched, s.pool.map fun x => (x.status, x.submitNum, x.subTry))) =
    [([], [(.waiting, 0, 0)]), ([(1, "a", 1)], [(.waiting, 1, 1)]), ([(1, "a", 2)], [(.preparing, 2, 1)]),
     ([], [(.preparing, 2, 1)])] := by
  decide

-- the automaton: N = 1, M = 0: launch, started, exec retry, launch reaches 2 = (1+1)*(0+1) launches
example : RReach 1 0 ⟨1, 0, 2, 1⟩ :=
  RReach.step (RReach.step (RReach.step (RReach.step RReach.fresh (RStep.launch _ rfl))
    (RStep.started _ (by decide))) (RStep.execRetry _ (by decide) (by decide))) (RStep.launch _ rfl)

end CylcModel.C02
