/-
C18 — Cycle point and interval algebra is a consistent total order.

Points are the raw value strings in structured form (`CylcModel/Points.lean`): integer points
`[+-]?0*digits` with unbounded magnitude, datetime points as (instant, spelling) with the canonical
dump as spelling 0.  Comparison goes through `PointBase.__cmp__` (string-equality shortcut, then
`_cmp` on the values), `hashKey` is what `__hash__` hashes.  All statements are for all points /
intervals of the type, no bound on magnitudes.
-/
import CylcModel.Points
namespace CylcModel.C18
open CylcModel.Points

/-! ## integer points -/

theorem value_canon (v : Int) : (IntLit.canon v).value = v := by
  unfold IntLit.canon
  split <;> simp [IntLit.value] <;> omega

theorem cmp3_eq_zero (a b : Int) : cmp3 a b = 0 ↔ a = b := by
  unfold cmp3
  split
  · simp [*]
  · split <;> simp [*]

theorem cmp3_eq_neg (a b : Int) : cmp3 a b = -1 ↔ a < b := by
  unfold cmp3
  split
  · simp; omega
  · split <;> simp [*]

theorem cmp3_le (a b : Int) : cmp3 a b ≤ 0 ↔ a ≤ b := by
  unfold cmp3
  split
  · simp; omega
  · split <;> simp <;> omega

/-- the string-equality shortcut of `PointBase.__cmp__` never changes the result -/
theorem baseCmp_eq {α : Type} [DecidableEq α] (val : α → Int) (a b : α) :
    baseCmp val a b = cmp3 (val a) (val b) := by
  unfold baseCmp
  split
  · rename_i h; subst h; simp [cmp3]
  · rfl

/-- **int_order_consistent.** `<`, `<=`, `==` on integer points are exactly `<`, `≤`, `=` on their
integer values (whatever the spelling: sign, leading zeros), hence a total preorder whose
equivalence is equality of values. -/
theorem int_order_consistent (a b : IntPoint) :
    (IntPoint.lt a b = true ↔ a.value < b.value) ∧ (IntPoint.le a b = true ↔ a.value ≤ b.value) ∧
    (IntPoint.eq a b = true ↔ a.value = b.value) := by
  unfold IntPoint.lt IntPoint.le IntPoint.eq IntPoint.cmp
  rw [baseCmp_eq]
  refine ⟨?_, ?_, ?_⟩
  · rw [beq_iff_eq]; exact cmp3_eq_neg ..
  · rw [decide_eq_true_iff]; exact cmp3_le ..
  · rw [beq_iff_eq]; exact cmp3_eq_zero ..

/-- **int_total_order.** The order laws: total, transitive, antisymmetric up to `==`, `<` is the
strict part, and exactly one of `a < b`, `a == b`, `b < a` holds. -/
theorem int_total_order (a b c : IntPoint) :
    (IntPoint.le a b = true ∨ IntPoint.le b a = true) ∧
    (IntPoint.le a b = true → IntPoint.le b c = true → IntPoint.le a c = true) ∧
    (IntPoint.le a b = true → IntPoint.le b a = true → IntPoint.eq a b = true) ∧
    (IntPoint.lt a b = true ↔ (IntPoint.le a b = true ∧ IntPoint.eq a b = false)) ∧
    ((IntPoint.lt a b = true ∧ IntPoint.eq a b = false ∧ IntPoint.lt b a = false) ∨
     (IntPoint.lt a b = false ∧ IntPoint.eq a b = true ∧ IntPoint.lt b a = false) ∨
     (IntPoint.lt a b = false ∧ IntPoint.eq a b = false ∧ IntPoint.lt b a = true)) := by
  obtain ⟨h1, h2, h3⟩ := int_order_consistent a b
  obtain ⟨h4, h5, h6⟩ := int_order_consistent b a
  obtain ⟨_, h8, _⟩ := int_order_consistent b c
  obtain ⟨_, h11, _⟩ := int_order_consistent a c
  have e1 : IntPoint.eq a b = false ↔ ¬ a.value = b.value := by rw [← h3]; simp
  have e2 : IntPoint.lt a b = false ↔ ¬ a.value < b.value := by rw [← h1]; simp
  have e3 : IntPoint.lt b a = false ↔ ¬ b.value < a.value := by rw [← h4]; simp
  rw [h1, h2, h3, h4, h5, h8, h11, e1, e2, e3]
  omega

/-- The full-strength statement: equal points hash equal. -/
def int_hash_consistent_full : Prop :=
  ∀ a b : IntPoint, IntPoint.eq a b = true → IntPoint.hashKey a = IntPoint.hashKey b

/-- **int_hash_consistent (partial).** Equal *standardised* points are the same string, hence hash
equal.  Missing for the full statement: points whose string is not in standard form (leading
zeros, `+`, `-0`), see `int_hash_counterexample`. -/
theorem int_hash_consistent_partial (a b : IntPoint)
    (ha : IntPoint.standardise a = a) (hb : IntPoint.standardise b = b)
    (h : IntPoint.eq a b = true) : IntPoint.hashKey a = IntPoint.hashKey b := by
  have hv : a.value = b.value := (int_order_consistent a b).2.2.1 h
  have : a = b := by rw [← ha, ← hb]; unfold IntPoint.standardise; rw [hv]
  rw [this]

/-- `IntegerPoint("07") == IntegerPoint("7")` but the hashed strings differ (unpatched code). -/
theorem int_hash_counterexample (h : intHashByValue = false) : ¬ int_hash_consistent_full := by
  intro hall
  have := hall ⟨.none, 1, 7⟩ ⟨.none, 0, 7⟩ (by decide)
  simp [IntPoint.hashKey, h] at this

/-- once `__hash__` hashes the integer value the full statement holds -/
theorem int_hash_consistent_of_fix (h : intHashByValue = true) : int_hash_consistent_full := by
  intro a b hab
  have hv : a.value = b.value := (int_order_consistent a b).2.2.1 hab
  simp [IntPoint.hashKey, h, hv]

/-- **int_standardise.** Standardising is idempotent, preserves the value, and two points are
equal iff they standardise to the same string. -/
theorem int_standardise (a b : IntPoint) :
    IntPoint.standardise (IntPoint.standardise a) = IntPoint.standardise a ∧
    (IntPoint.standardise a).value = a.value ∧
    (IntPoint.eq a b = true ↔ IntPoint.standardise a = IntPoint.standardise b) := by
  refine ⟨?_, value_canon _, ?_⟩
  · unfold IntPoint.standardise; rw [value_canon]
  · rw [(int_order_consistent a b).2.2]
    unfold IntPoint.standardise
    constructor
    · intro h; rw [h]
    · intro h; have := congrArg IntLit.value h; rwa [value_canon, value_canon] at this

/-- **int_add_sub.** Adding then subtracting an interval (and the reverse) gives back the original
point: equal to it, and string-identical to its standard form; the difference of two points added
back to the second gives the first.  Any integers, any spelling of point and interval. -/
theorem int_add_sub (p q : IntPoint) (i : IntIv) :
    IntPoint.sub (IntPoint.add p i) i = IntPoint.standardise p ∧
    IntPoint.eq (IntPoint.sub (IntPoint.add p i) i) p = true ∧
    IntPoint.add (IntPoint.sub p i) i = IntPoint.standardise p ∧
    IntPoint.eq (IntPoint.add (IntPoint.sub p i) i) p = true ∧
    IntPoint.add q (IntPoint.diff p q) = IntPoint.standardise p ∧
    IntPoint.eq (IntPoint.add q (IntPoint.diff p q)) p = true := by
  have e1 : IntPoint.sub (IntPoint.add p i) i = IntPoint.standardise p := by
    unfold IntPoint.sub IntPoint.add IntPoint.standardise; rw [value_canon]; congr 1; omega
  have e2 : IntPoint.add (IntPoint.sub p i) i = IntPoint.standardise p := by
    unfold IntPoint.sub IntPoint.add IntPoint.standardise; rw [value_canon]; congr 1; omega
  have e3 : IntPoint.add q (IntPoint.diff p q) = IntPoint.standardise p := by
    unfold IntPoint.diff IntPoint.add IntPoint.standardise IntIv.ofInt; rw [value_canon]; congr 1; omega
  have hs : IntPoint.eq (IntPoint.standardise p) p = true := by
    rw [(int_order_consistent _ _).2.2]; exact value_canon _
  rw [e1, e2, e3]
  exact ⟨rfl, hs, rfl, hs, rfl, hs⟩

/-! ## datetime points over the instant abstraction -/

/-- **dt_order_consistent.** Comparison of datetime points is comparison of their instants. -/
theorem dt_order_consistent (a b : DtPoint) :
    (DtPoint.lt a b = true ↔ a.inst < b.inst) ∧ (DtPoint.le a b = true ↔ a.inst ≤ b.inst) ∧
    (DtPoint.eq a b = true ↔ a.inst = b.inst) := by
  unfold DtPoint.lt DtPoint.le DtPoint.eq DtPoint.cmp
  rw [baseCmp_eq]
  refine ⟨?_, ?_, ?_⟩
  · rw [beq_iff_eq]; exact cmp3_eq_neg ..
  · rw [decide_eq_true_iff]; exact cmp3_le ..
  · rw [beq_iff_eq]; exact cmp3_eq_zero ..

theorem dt_total_order (a b c : DtPoint) :
    (DtPoint.le a b = true ∨ DtPoint.le b a = true) ∧
    (DtPoint.le a b = true → DtPoint.le b c = true → DtPoint.le a c = true) ∧
    (DtPoint.le a b = true → DtPoint.le b a = true → DtPoint.eq a b = true) ∧
    (DtPoint.lt a b = true ↔ (DtPoint.le a b = true ∧ DtPoint.eq a b = false)) := by
  obtain ⟨h1, h2, h3⟩ := dt_order_consistent a b
  obtain ⟨_, h5, _⟩ := dt_order_consistent b a
  obtain ⟨_, h8, _⟩ := dt_order_consistent b c
  obtain ⟨_, h11, _⟩ := dt_order_consistent a c
  have e1 : DtPoint.eq a b = false ↔ ¬ a.inst = b.inst := by rw [← h3]; simp
  rw [h1, h2, h3, h5, h8, h11, e1]
  omega

def dt_hash_consistent_full : Prop :=
  ∀ a b : DtPoint, DtPoint.eq a b = true → DtPoint.hashKey a = DtPoint.hashKey b

/-- **dt_hash_consistent (partial).** Equal standardised datetime points hash equal.  Missing:
other spellings of the same instant (`20000101T00Z` vs `20000101T0000Z`, other time zones). -/
theorem dt_hash_consistent_partial (a b : DtPoint)
    (ha : DtPoint.standardise a = a) (hb : DtPoint.standardise b = b)
    (h : DtPoint.eq a b = true) : DtPoint.hashKey a = DtPoint.hashKey b := by
  have hv : a.inst = b.inst := (dt_order_consistent a b).2.2.1 h
  have : a = b := by rw [← ha, ← hb]; unfold DtPoint.standardise; rw [hv]
  rw [this]

theorem dt_hash_counterexample (h : dtHashByInstant = false) : ¬ dt_hash_consistent_full := by
  intro hall
  have := hall ⟨0, 1⟩ ⟨0, 0⟩ (by decide)
  simp [DtPoint.hashKey, h] at this

theorem dt_hash_consistent_of_fix (h : dtHashByInstant = true) : dt_hash_consistent_full := by
  intro a b hab
  have hv : a.inst = b.inst := (dt_order_consistent a b).2.2.1 hab
  simp [DtPoint.hashKey, h, hv]

theorem trunc_of_aligned (x : Int) (h : x % dumpRes = 0) : trunc x = x := by
  unfold trunc; omega

theorem trunc_idem (x : Int) : trunc (trunc x) = trunc x := by
  unfold trunc
  have : (x - x % dumpRes) % dumpRes = 0 := by simp only [dumpRes]; omega
  omega

/-- The full-strength statement for datetime points: standardising keeps the value and adding
then subtracting any fixed-length interval gives back a point equal to the original. -/
def dt_standardise_add_sub_full : Prop :=
  ∀ (a : DtPoint) (secs : Int),
    DtPoint.eq (DtPoint.standardise a) a = true ∧ DtPoint.eq (DtPoint.sub (DtPoint.add a secs) secs) a = true

/-- **dt_standardise_add_sub (partial).** Over the abstraction (parsing and dumping are
isodatetime's), for points and intervals that are whole multiples of the resolution of the cycle
point format (`dumpRes` = 60 s for the default `CCYYMMDDThhmm`): standardising is idempotent (always)
and keeps the instant; two points are equal iff they have the same standard form; adding then
subtracting the interval (and the reverse) returns the standard form of the original point, which
compares equal to it; `b + (a - b)` is the standard form of `a` (always).  Missing for the full
statement: seconds are dropped by every dump, see `dt_sub_minute_counterexample`. -/
theorem dt_standardise_add_sub_partial (a b : DtPoint) (secs : Int)
    (ha : a.inst % dumpRes = 0) (hb : b.inst % dumpRes = 0) (hs : secs % dumpRes = 0) :
    DtPoint.standardise (DtPoint.standardise a) = DtPoint.standardise a ∧
    (DtPoint.standardise a).inst = a.inst ∧
    (DtPoint.eq a b = true ↔ DtPoint.standardise a = DtPoint.standardise b) ∧
    DtPoint.sub (DtPoint.add a secs) secs = DtPoint.standardise a ∧
    DtPoint.add (DtPoint.sub a secs) secs = DtPoint.standardise a ∧
    DtPoint.add b (DtPoint.diff a b) = DtPoint.standardise a ∧
    DtPoint.eq (DtPoint.standardise a) a = true := by
  have ta := trunc_of_aligned a.inst ha
  have tb := trunc_of_aligned b.inst hb
  have h1 : trunc (a.inst + secs) = a.inst + secs := trunc_of_aligned _ (by simp only [dumpRes] at *; omega)
  have h2 : trunc (a.inst - secs) = a.inst - secs := trunc_of_aligned _ (by simp only [dumpRes] at *; omega)
  refine ⟨?_, ta, ?_, ?_, ?_, ?_, ?_⟩
  · unfold DtPoint.standardise; simp only [trunc_idem]
  · rw [(dt_order_consistent a b).2.2]
    unfold DtPoint.standardise
    rw [ta, tb]
    constructor
    · intro h; rw [h]
    · intro h; injection h
  · unfold DtPoint.sub DtPoint.add DtPoint.standardise
    simp only [h1, ta]; congr 1
    have : a.inst + secs - secs = a.inst := by omega
    rw [this, ta]
  · unfold DtPoint.sub DtPoint.add DtPoint.standardise
    simp only [h2, ta]; congr 1
    have : a.inst - secs + secs = a.inst := by omega
    rw [this, ta]
  · unfold DtPoint.diff DtPoint.add DtPoint.standardise
    congr 1
    have : b.inst + (a.inst - b.inst) = a.inst := by omega
    rw [this]
  · rw [(dt_order_consistent _ _).2.2]; exact ta

/-- With the default cycle point format (resolution one minute) `(p + PT1S) - PT1S` is one minute
before `p`: every dump drops the seconds. -/
theorem dt_sub_minute_counterexample (h : dumpRes = 60) : ¬ dt_standardise_add_sub_full := by
  intro hall
  have := (hall ⟨0, 0⟩ 1).2
  rw [(dt_order_consistent _ _).2.2] at this
  simp [DtPoint.sub, DtPoint.add, trunc, h] at this

/-! ## the lru_cached helpers across calendar switches (histories in one process) -/

theorem cacheLook_mem {β : Type} {k : (String × String) × Option Nat}
    {c : List (((String × String) × Option Nat) × β)} {v : β} (h : cacheLook k c = some v) : (k, v) ∈ c := by
  induction c with
  | nil => simp [cacheLook] at h
  | cons e t ih =>
    obtain ⟨k', v'⟩ := e
    unfold cacheLook at h
    by_cases hk : k' = k
    · rw [if_pos hk] at h; injection h with h; subst h; subst hk; exact List.mem_cons_self ..
    · rw [if_neg hk] at h; exact List.mem_cons_of_mem _ (ih h)

theorem cacheKey_fst (k : Bool) (m : Nat) (a : String × String) : (cacheKey k m a).1 = a := rfl
theorem cacheKey_snd (m : Nat) (a : String × String) : (cacheKey true m a).2 = some m := by simp [cacheKey]

/-- every entry was stored under its calendar mode and holds the result for that mode -/
def CacheInv {β : Type} (f : Nat → String × String → β) (c : List (((String × String) × Option Nat) × β)) : Prop :=
  ∀ e ∈ c, ∃ m, e.1.2 = some m ∧ e.2 = f m e.1.1

theorem cachedCall_keyed {β : Type} (cap : Nat) (f : Nat → String × String → β)
    (c : List (((String × String) × Option Nat) × β)) (m : Nat) (a : String × String) (hi : CacheInv f c) :
    (cachedCall true cap f c m a).2 = f m a ∧ CacheInv f (cachedCall true cap f c m a).1 := by
  unfold cachedCall
  by_cases hc : cap = 0
  · rw [if_pos hc]; exact ⟨rfl, hi⟩
  · rw [if_neg hc]
    cases hl : cacheLook (cacheKey true m a) c with
    | some v =>
      simp only
      obtain ⟨m', h1, h2⟩ := hi _ (cacheLook_mem hl)
      have hv : v = f m a := by
        rw [cacheKey_snd] at h1; injection h1 with h1; subst h1; rw [cacheKey_fst] at h2; exact h2
      refine ⟨hv, ?_⟩
      intro e he
      rcases List.mem_append.1 he with h | h
      · exact hi e (List.mem_filter.1 h).1
      · have : e = (cacheKey true m a, v) := by simpa using h
        subst this; exact ⟨m, cacheKey_snd m a, by rw [cacheKey_fst]; exact hv⟩
    | none =>
      simp only
      refine ⟨trivial, ?_⟩
      intro e he
      have he' : e ∈ c ++ [(cacheKey true m a, f m a)] := by
        split at he
        · exact List.mem_of_mem_tail he
        · exact he
      rcases List.mem_append.1 he' with h | h
      · exact hi e h
      · have : e = (cacheKey true m a, f m a) := by simpa using h
        subst this; exact ⟨m, cacheKey_snd m a, by rw [cacheKey_fst]⟩

theorem cachedRun_keyed {β : Type} (cap : Nat) (f : Nat → String × String → β) :
    ∀ (calls : List (Nat × (String × String))) (c : List (((String × String) × Option Nat) × β)),
      CacheInv f c → cachedRun true cap f c calls = calls.map (fun x => f x.1 x.2) := by
  intro calls
  induction calls with
  | nil => intro c _; rfl
  | cons x rest ih =>
    intro c hi
    obtain ⟨m, a⟩ := x
    obtain ⟨h1, h2⟩ := cachedCall_keyed cap f c m a hi
    simp only [cachedRun, List.map_cons, h1, ih _ h2]

/-- The full-strength statement: whatever calendar switches one process goes through, every call of
the four cached helpers (`_iso_point_add`, `_iso_point_sub_interval`, `_iso_point_sub_point`,
`_iso_point_cmp`) returns what the computation gives under the calendar in force, i.e. what a
process that only ever made this one call would get. -/
def dt_cache_transparent_full : Prop :=
  ∀ (β : Type) (cap : Nat) (f : Nat → String × String → β) (calls : List (Nat × (String × String))),
    cachedRun addKeyedByCalendar cap f [] calls = calls.map (fun x => f x.1 x.2) ∧
    cachedRun subKeyedByCalendar cap f [] calls = calls.map (fun x => f x.1 x.2) ∧
    cachedRun diffKeyedByCalendar cap f [] calls = calls.map (fun x => f x.1 x.2) ∧
    cachedRun cmpKeyedByCalendar cap f [] calls = calls.map (fun x => f x.1 x.2)

/-- **dt_cache_transparent.** With the calendar mode in every cache key (the flags are probed from
the live code on every run) the caches are transparent across calendar switches: any history of
calls under any sequence of calendars, any cache size (evictions and hits included), any cached
computation. -/
theorem dt_cache_transparent
    (h : addKeyedByCalendar = true ∧ subKeyedByCalendar = true ∧ diffKeyedByCalendar = true ∧
      cmpKeyedByCalendar = true) : dt_cache_transparent_full := by
  intro β cap f calls
  obtain ⟨h1, h2, h3, h4⟩ := h
  rw [h1, h2, h3, h4]
  have := cachedRun_keyed cap f calls [] (by intro e he; cases he)
  exact ⟨this, this, this, this⟩

/-- When a helper is cached by its two strings only, a result computed under one calendar is served
under the next: the same call under calendars 0 and 1 returns the first result twice. -/
theorem dt_cache_counterexample
    (h : addKeyedByCalendar = false ∨ subKeyedByCalendar = false ∨ diffKeyedByCalendar = false ∨
      cmpKeyedByCalendar = false) : ¬ dt_cache_transparent_full := by
  intro hall
  obtain ⟨h1, h2, h3, h4⟩ := hall Nat 10 (fun m _ => m) [(0, ("20000301T0000Z", "P1D")), (1, ("20000301T0000Z", "P1D"))]
  rcases h with h | h | h | h
  · rw [h] at h1; revert h1; decide
  · rw [h] at h2; revert h2; decide
  · rw [h] at h3; revert h3; decide
  · rw [h] at h4; revert h4; decide

/-! ## non-vacuity -/

/-- `"+007"`, `"7"`, `"-0"`, `"0"`: equal, differently spelled -/
example : IntPoint.eq ⟨.plus, 2, 7⟩ ⟨.none, 0, 7⟩ = true ∧ IntPoint.eq ⟨.minus, 0, 0⟩ ⟨.none, 0, 0⟩ = true ∧
    IntPoint.lt ⟨.minus, 1, 3⟩ ⟨.plus, 0, 2⟩ = true ∧
    IntPoint.standardise ⟨.plus, 2, 7⟩ = ⟨.none, 0, 7⟩ ∧ IntPoint.standardise ⟨.minus, 3, 0⟩ = ⟨.none, 0, 0⟩ := by
  decide

/-- the hypotheses of the partial hash theorem are satisfiable by distinct spellings' standard forms -/
example : IntPoint.standardise ⟨.minus, 0, 12⟩ = ⟨.minus, 0, 12⟩ ∧
    IntPoint.eq ⟨.minus, 0, 12⟩ (IntPoint.standardise ⟨.minus, 2, 12⟩) = true := by decide

example : IntPoint.sub (IntPoint.add ⟨.plus, 1, 5⟩ ⟨.minus, 0, 9⟩) ⟨.minus, 0, 9⟩ = ⟨.none, 0, 5⟩ ∧
    IntPoint.diff ⟨.none, 0, 5⟩ ⟨.none, 1, 7⟩ = ⟨.minus, 0, 2⟩ := by decide

example : DtPoint.eq ⟨3600, 2⟩ ⟨3600, 0⟩ = true ∧ DtPoint.standardise ⟨3600, 2⟩ = ⟨3600, 0⟩ ∧
    DtPoint.lt ⟨0, 1⟩ ⟨60, 3⟩ = true ∧ DtPoint.sub (DtPoint.add ⟨0, 1⟩ 21600) 21600 = ⟨0, 0⟩ := by decide

/-- the alignment hypotheses are satisfiable (whatever the generated resolution is: 0 is aligned;
with the default 60 s so are 3600 and an interval of six hours) -/
example : (0 : Int) % dumpRes = 0 := by simp
example (h : dumpRes = 60) : (3600 : Int) % dumpRes = 0 ∧ (21600 : Int) % dumpRes = 0 := by simp [h]

/-- a history with calendar switches, a hit, a miss and an eviction (cap = 1): every answer is the one
of the calendar in force -/
example : cachedRun true 1 (fun m a => (m, a.1)) []
    [(0, ("a", "P1D")), (1, ("a", "P1D")), (0, ("a", "P1D")), (0, ("b", "P1D")), (0, ("b", "P1D"))]
    = [(0, "a"), (1, "a"), (0, "a"), (0, "b"), (0, "b")] := by decide

/-- and the same history with keys that lack the calendar serves a stale answer -/
example : cachedRun false 10 (fun m a => (m, a.1)) [] [(0, ("a", "P1D")), (1, ("a", "P1D"))]
    = [(0, "a"), (0, "a")] := by decide

end CylcModel.C18
