/-
C41 — Literal task environment values reach the job unchanged.

Property statements only.  Model: `CylcModel/Bash.lean` (`define` = port of
`JobFileWriter._get_variable_value_definition`, `bodyText` = the assignment lines of
`cylc__job__inst__user_env`, `run` = the bash fragment); helper lemmas: `CylcModel/BashLemmas.lean`.

`exportEnv esc homes defs env` is: write the function body for the `[environment]` section `defs`
(in configuration order) and let bash run it in environment `env`.  `esc` is the behaviour of the
quoting: `true` = double quotes in expansion-free values are escaped (the repaired code), `false` =
they are written as they are (probed from the live code into `Generated.BashCfg.escapesDquote`).
Sections, names, values and environments are unbounded.  Bash itself is assumed (trusted base).
-/
import CylcModel.BashLemmas
namespace CylcModel.C41
open CylcModel.Bash

/-- "contains no shell-expansion characters": no `$`, backquote, backslash, and not a tilde form:
either it does not start with `~`, or it is literal text that merely starts with one (`~5 km/h`,
`~ 3/4 of it`: whitespace before the first slash, `BlankTilde`).
Quote characters, `#`, `=`, blanks, newlines, anything else are allowed. -/
def ExpansionFree (v : Str) : Prop :=
  '$' ∉ v ∧ '`' ∉ v ∧ '\\' ∉ v ∧ (v.head? ≠ some '~' ∨ BlankTilde v)

theorem ExpansionFree.notTildeForm {v : Str} (h : ExpansionFree v) : NotTildeForm v :=
  h.2.2.2.elim (notTildeForm_of_head v) (notTildeForm_of_blankTilde v)

/-- A value written as literal text with `${NAME}` references in it. -/
inductive Part
  | lit (s : Str)
  | ref (n : Str)

def Part.render : Part → Str
  | .lit s => s
  | .ref n => ['$', '{'] ++ n ++ ['}']

/-- the configuration text of the value -/
def render (ps : List Part) : Str := ps.flatMap Part.render

def Part.value (e : Env) : Part → Str
  | .lit s => s
  | .ref n => (e.get n).getD []

/-- what the value means in environment `e`: references replaced by the current values (unset = empty) -/
def value (e : Env) (ps : List Part) : Str := ps.flatMap (Part.value e)

def Part.Safe : Part → Prop
  | .lit s => '$' ∉ s ∧ '`' ∉ s ∧ '\\' ∉ s ∧ '"' ∉ s
  | .ref n => ValidName n

/-- literal pieces free of `$`, backquote, backslash and `"`; references to proper names; not a tilde form -/
def SafeParts (ps : List Part) : Prop := (∀ p ∈ ps, p.Safe) ∧ NotTildeForm (render ps)

theorem dq_parts (homes : Env) (n : Str) (e : Env) (ps : List Part) (a : Str) (h : ∀ p ∈ ps, p.Safe) :
    (render ps).foldl (step homes) ⟨.dq, n, a, e, .run⟩ = ⟨.dq, n, a ++ value e ps, e, .run⟩ := by
  induction ps generalizing a with
  | nil => simp [render, value]
  | cons p r ih =>
    have hp := h p (by simp)
    have hr : ∀ q ∈ r, q.Safe := fun q hq => h q (by simp [hq])
    simp only [render, value, List.flatMap_cons, List.foldl_append] at *
    cases p with
    | lit s =>
      obtain ⟨h1, h2, h3, h4⟩ := hp
      rw [show (Part.lit s).render = s from rfl, fold_dq_lit homes n e s a h4 h3 h1 h2, ih _ hr]
      simp [Part.value]
    | ref m =>
      rw [show (Part.ref m).render = ['$', '{'] ++ m ++ ['}'] from rfl, fold_dq_ref homes n e m a hp, ih _ hr]
      simp [Part.value]

theorem render_noquote (ps : List Part) (h : ∀ p ∈ ps, p.Safe) (hv : ∀ p ∈ ps, ∀ m, p = .ref m → '"' ∉ m) :
    '"' ∉ render ps := by
  induction ps with
  | nil => simp [render]
  | cons p r ih =>
    simp only [render, List.flatMap_cons, List.mem_append, not_or]
    refine ⟨?_, ih (fun q hq => h q (by simp [hq])) (fun q hq => hv q (by simp [hq]))⟩
    cases p with
    | lit s =>
      have hs : (Part.lit s).Safe := h _ (by simp)
      exact hs.2.2.2
    | ref m =>
      have := hv (.ref m) (by simp) m rfl
      simp [Part.render, this]

theorem validName_noquote {m : Str} (h : ValidName m) : '"' ∉ m := by
  obtain ⟨c, r, rfl, hc, hr⟩ := h
  intro hm
  rcases List.mem_cons.1 hm with h1 | h1
  · subst h1; revert hc; decide
  · have := hr _ h1; revert this; decide

/-- **Configuration order / full section semantics.**  For every section (any number of
variables, any names, any start environment) whose values are literal text with `${NAME}`
references (`SafeParts`), whatever the quoting behaviour `esc`: bash running the generated function
body ends with exactly the environment obtained by applying the definitions one after the other
in configuration order, each value being its text with every reference replaced by the value
that variable has at that moment — i.e. a later definition sees the earlier ones. -/
theorem section_spec (esc : Bool) (homes : Env) (defs : List (Str × List Part)) (env : Env)
    (hn : ∀ d ∈ defs, ValidName d.1) (hs : ∀ d ∈ defs, SafeParts d.2) :
    exportEnv esc homes (defs.map fun d => (d.1, render d.2)) env
      = .ok (defs.foldl (fun e d => e.set d.1 (value e d.2)) env) := by
  have hW : ∀ (ds : List (Str × List Part)) (e : Env),
      (∀ d ∈ ds, ValidName d.1) → (∀ d ∈ ds, SafeParts d.2) →
      ((ds.map fun d => (d.1, render d.2)).flatMap (line esc)).foldl (step homes) (idle e)
        = idle (ds.foldl (fun e d => e.set d.1 (value e d.2)) e) := by
    intro ds
    induction ds with
    | nil => intro e _ _; simp
    | cons d r ih =>
      intro e hn hs
      obtain ⟨hsafe, hhead⟩ := hs d (by simp)
      have hq : '"' ∉ render d.2 :=
        render_noquote d.2 hsafe (fun p hp m hm => validName_noquote (by have := hsafe p hp; rw [hm] at this; exact this))
      have hdef : define esc (render d.2) = ['"'] ++ render d.2 ++ ['"'] := by
        have := define_of_notTildeForm esc (render d.2) (by rw [escape_noquote esc _ hq]; exact hhead)
        rw [this, escape_noquote esc _ hq]
      have hl : (line esc (d.1, render d.2)).foldl (step homes) (idle e) = idle (e.set d.1 (value e d.2)) := by
        unfold line
        have : "    ".toList ++ d.1 ++ ['='] ++ define esc (render d.2) ++ ['\n']
            = "    ".toList ++ ((d.1 ++ ['=']) ++ (['"'] ++ render d.2 ++ ['"'] ++ ['\n'])) := by
          rw [hdef]; simp
        rw [this, List.foldl_append, fold_indent, List.foldl_append, fold_lhs homes e d.1 (hn d (by simp))]
        exact fold_word homes d.1 e (render d.2) (value e d.2) (by simpa using dq_parts homes d.1 e d.2 [] hsafe)
      simp only [List.map_cons, List.flatMap_cons, List.foldl_append, List.foldl_cons]
      rw [hl]
      exact ih _ (fun x hx => hn x (by simp [hx])) (fun x hx => hs x (by simp [hx]))
  unfold exportEnv run bodyText
  have h0 : step homes { env := env } '\n' = idle env := by simp [step, idle]
  rw [List.foldl_cons, h0, hW defs env hn hs]
  simp [finish, idle]

/-- non-vacuity: a three-variable section with blanks, `#`, `'`, unicode and two references,
running in a non-empty environment -/
example :
    let defs : List (Str × List Part) := [
      ("A".toList, [.lit "x  y # it's é".toList]),
      ("B_2".toList, [.ref "A".toList, .lit "/z=".toList, .ref "HOME".toList]),
      ("A".toList, [.lit "again ".toList, .ref "B_2".toList])]
    (∀ d ∈ defs, ValidName d.1) ∧ (∀ d ∈ defs, SafeParts d.2) ∧
    exportEnv false [] (defs.map fun d => (d.1, render d.2)) [("HOME".toList, "/h".toList)]
      = .ok [("A".toList, "again x  y # it's é/z=/h".toList), ("B_2".toList, "x  y # it's é/z=/h".toList),
             ("HOME".toList, "/h".toList)] := by
  refine ⟨?_, ?_, by decide⟩
  · intro d hd
    simp only [List.mem_cons, List.not_mem_nil, or_false] at hd
    rcases hd with rfl | rfl | rfl
    · exact ⟨'A', [], rfl, by decide, by simp⟩
    · exact ⟨'B', "_2".toList, rfl, by decide, by decide⟩
    · exact ⟨'A', [], rfl, by decide, by simp⟩
  · intro d hd
    simp only [List.mem_cons, List.not_mem_nil, or_false] at hd
    rcases hd with rfl | rfl | rfl
    · refine ⟨?_, ⟨by decide, by decide⟩⟩
      intro p hp; simp only [List.mem_cons, List.not_mem_nil, or_false] at hp; subst hp
      exact ⟨by decide, by decide, by decide, by decide⟩
    · refine ⟨?_, ⟨by decide, by decide⟩⟩
      intro p hp; simp only [List.mem_cons, List.not_mem_nil, or_false] at hp
      rcases hp with rfl | rfl | rfl
      · exact ⟨'A', [], rfl, by decide, by simp⟩
      · exact ⟨by decide, by decide, by decide, by decide⟩
      · exact ⟨'H', "OME".toList, rfl, by decide, by decide⟩
    · refine ⟨?_, ⟨by decide, by decide⟩⟩
      intro p hp; simp only [List.mem_cons, List.not_mem_nil, or_false] at hp
      rcases hp with rfl | rfl
      · exact ⟨by decide, by decide, by decide, by decide⟩
      · exact ⟨'B', "_2".toList, rfl, by decide, by decide⟩

/-- **`[environment filter]` keeps the configuration order**: the filtered section is a sublist of
the configured one (relative order preserved), a variable stays iff it is included (or there is no
include list) and not excluded - so with `section_spec` the kept definitions are still applied in
configuration order and a later one sees every earlier one that was kept. -/
theorem filter_preserves_order (incl excl : List Str) (defs : List (Str × Str)) :
    (filterEnv incl excl defs).Sublist defs ∧
    ∀ d, d ∈ filterEnv incl excl defs ↔ d ∈ defs ∧ (incl = [] ∨ d.1 ∈ incl) ∧ d.1 ∉ excl := by
  refine ⟨List.filter_sublist, ?_⟩
  intro d
  simp [filterEnv, List.mem_filter, List.isEmpty_iff]

example : filterEnv ["LOG".toList, "RUN".toList] ["X".toList]
    [("RUN".toList, "r".toList), ("X".toList, "x".toList), ("LOG".toList, "${RUN}/log".toList), ("Y".toList, "y".toList)]
    = [("RUN".toList, "r".toList), ("LOG".toList, "${RUN}/log".toList)] := by decide

/-- The full-strength statement for a quoting behaviour `esc`: in every section of
expansion-free values — double quotes included, as the property's quantifier lists them — every
variable is exported with exactly its configured value (the section applied in order). -/
def literal_preserved_full (esc : Bool) : Prop :=
  ∀ (homes : Env) (defs : List (Str × Str)) (env : Env),
    (∀ d ∈ defs, ValidName d.1) → (∀ d ∈ defs, ExpansionFree d.2) →
    exportEnv esc homes defs env = .ok (defs.foldl (fun e d => e.set d.1 d.2) env)

/-- **Literal values are preserved** by the quoting that escapes double quotes. -/
theorem literal_preserved : literal_preserved_full true := by
  intro homes defs env hn hs
  refine run_section homes true (fun _ d => d.2) defs hn ?_ env
  intro d hd e
  obtain ⟨h3, h4, h2, hh⟩ := hs d hd
  have hesc := escape_true d.2 h2 h3 h4
  have hdef : define true d.2 = ['"'] ++ d.2.flatMap esc1 ++ ['"'] := by
    have := define_of_notTildeForm true d.2 (by
      rw [hesc]
      exact hh.elim (fun h => notTildeForm_of_head _ (escape_head d.2 h))
        (fun h => notTildeForm_of_blankTilde _ (blankTilde_escaped d.2 h)))
    rw [this, hesc]
  rw [hdef]
  exact fold_word homes d.1 e _ d.2 (by simpa using fold_dq_escaped homes d.1 e d.2 [] h2 h3 h4)

/-- The same for ANY quoting behaviour (in particular the unrepaired one), for values that in
addition contain no double quote.  Missing w.r.t. the full statement: values containing `"`. -/
theorem literal_preserved_partial (esc : Bool) (homes : Env) (defs : List (Str × Str)) (env : Env)
    (hn : ∀ d ∈ defs, ValidName d.1) (hs : ∀ d ∈ defs, ExpansionFree d.2) (hq : ∀ d ∈ defs, '"' ∉ d.2) :
    exportEnv esc homes defs env = .ok (defs.foldl (fun e d => e.set d.1 d.2) env) := by
  refine run_section homes esc (fun _ d => d.2) defs hn ?_ env
  intro d hd e
  obtain ⟨h3, h4, h2, hh⟩ := hs d hd
  have hq := hq d hd
  have hdef : define esc d.2 = ['"'] ++ d.2 ++ ['"'] := by
    have := define_of_notTildeForm esc d.2 (by rw [escape_noquote esc _ hq]; exact (hs d hd).notTildeForm)
    rw [this, escape_noquote esc _ hq]
  rw [hdef]
  exact fold_word homes d.1 e _ d.2 (by simpa using fold_dq_lit homes d.1 e d.2 [] hq h2 h3 h4)

/-- The full statement for the behaviour probed on the live code: it applies as soon as the
generated flag says that the live `_get_variable_value_definition` escapes double quotes. -/
theorem literal_preserved_live (hlive : Generated.BashCfg.escapesDquote = true) :
    literal_preserved_full Generated.BashCfg.escapesDquote := by
  rw [hlive]; exact literal_preserved

/-- non-vacuity of the second disjunct: `~5 km/h` and `~ 3/4 "of" it` are literal text -/
example : ExpansionFree "~5 km/h".toList ∧ ExpansionFree "~ 3/4 \"of\" it".toList ∧
    exportEnv true [] [("A".toList, "~5 km/h".toList), ("B".toList, "~ 3/4 \"of\" it".toList)] [("HOME".toList, "/h".toList)]
      = .ok [("B".toList, "~ 3/4 \"of\" it".toList), ("A".toList, "~5 km/h".toList), ("HOME".toList, "/h".toList)] := by
  refine ⟨⟨by decide, by decide, by decide, Or.inr ⟨['5'], ' ', "km/h".toList, by decide, ?_, by decide, by decide⟩⟩,
    ⟨by decide, by decide, by decide, Or.inr ⟨[], ' ', "3/4 \"of\" it".toList, by decide, by simp, by decide, by decide⟩⟩, by decide⟩
  intro c hc
  simp only [List.mem_cons, List.not_mem_nil, or_false] at hc
  subst hc; exact ⟨by decide, by decide⟩

/-- non-vacuity: values with double quotes, single quotes, `#`, `=`, blanks, a newline, unicode -/
example :
    let defs : List (Str × Str) := [("A".toList, "say \"hi\"".toList), ("b_".toList, "a\"b # '=\n é☃".toList)]
    (∀ d ∈ defs, ValidName d.1) ∧ (∀ d ∈ defs, ExpansionFree d.2) ∧
    exportEnv true [] defs [] = .ok [("b_".toList, "a\"b # '=\n é☃".toList), ("A".toList, "say \"hi\"".toList)] := by
  refine ⟨?_, ?_, by decide⟩
  · intro d hd
    simp only [List.mem_cons, List.not_mem_nil, or_false] at hd
    rcases hd with rfl | rfl
    · exact ⟨'A', [], rfl, by decide, by simp⟩
    · exact ⟨'b', "_".toList, rfl, by decide, by decide⟩
  · intro d hd
    simp only [List.mem_cons, List.not_mem_nil, or_false] at hd
    rcases hd with rfl | rfl <;> exact ⟨by decide, by decide, by decide, Or.inl (by decide)⟩

/-- **Order**: a later variable may refer to an earlier one.  With `A` an expansion-free,
quote-free value and `B = ${A}`, bash ends with `B` = the value of `A`. -/
theorem order (esc : Bool) (homes : Env) (env : Env) (a b v : Str) (ha : ValidName a) (hb : ValidName b)
    (hab : a ≠ b) (hv : ExpansionFree v) (hq : '"' ∉ v) :
    ∃ e, exportEnv esc homes [(a, v), (b, ['$', '{'] ++ a ++ ['}'])] env = .ok e ∧ e.get b = some v ∧ e.get a = some v := by
  have h := section_spec esc homes [(a, [.lit v]), (b, [.ref a])] env
    (by intro d hd; simp only [List.mem_cons, List.not_mem_nil, or_false] at hd; rcases hd with rfl | rfl <;> assumption)
    (by
      intro d hd
      simp only [List.mem_cons, List.not_mem_nil, or_false] at hd
      rcases hd with rfl | rfl
      · refine ⟨?_, by simpa [render, Part.render] using hv.notTildeForm⟩
        intro p hp; simp only [List.mem_cons, List.not_mem_nil, or_false] at hp; subst hp
        exact ⟨hv.1, hv.2.1, hv.2.2.1, hq⟩
      · refine ⟨?_, notTildeForm_of_head _ (by simp [render, Part.render])⟩
        intro p hp; simp only [List.mem_cons, List.not_mem_nil, or_false] at hp; subst hp
        exact ha)
  refine ⟨_, by simpa [render, Part.render] using h, ?_, ?_⟩
  · simp [value, Part.value, Env.get, Env.set]
  · have hba : (b == a) = false := by simpa using Ne.symm hab
    have hab' : (a == b) = false := by simpa using hab
    simp [value, Part.value, Env.get, Env.set, hba, hab']

example : ∃ e, exportEnv false [] [("A".toList, "x y".toList), ("B".toList, "${A}".toList)] [] = .ok e ∧
    e.get "B".toList = some "x y".toList ∧ e.get "A".toList = some "x y".toList :=
  order false [] [] "A".toList "B".toList "x y".toList ⟨'A', [], rfl, by decide, by simp⟩ ⟨'B', [], rfl, by decide, by simp⟩
    (by decide) ⟨by decide, by decide, by decide, Or.inl (by decide)⟩ (by decide)

/-- Without the escaping the full statement is false: `say "hi"` reaches the job as `say hi`
(and `a"b` is rejected by bash: `Outcome.syntax`). -/
theorem literal_preserved_counterexample : ¬ literal_preserved_full false := by
  intro h
  have := h [] [("A".toList, "say \"hi\"".toList)] []
    (by intro d hd; simp only [List.mem_cons, List.not_mem_nil, or_false] at hd; subst hd; exact ⟨'A', [], rfl, by decide, by simp⟩)
    (by intro d hd; simp only [List.mem_cons, List.not_mem_nil, or_false] at hd; subst hd
        exact ⟨by decide, by decide, by decide, Or.inl (by decide)⟩)
  revert this
  decide

example : exportEnv false [] [("A".toList, "say \"hi\"".toList)] [] = .ok [("A".toList, "say hi".toList)] ∧
    exportEnv false [] [("A".toList, "a\"b".toList)] [] = .syntax := by decide

end CylcModel.C41
