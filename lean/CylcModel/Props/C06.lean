/-
C06 — Held tasks never submit; holds persist and apply to future instances.

Statements over the `Sched2` model (scheduler core with holds, hold point, stop modes and clean restart), for
every instance graph `g` — no well-formedness hypothesis on `g` is needed — and every operation / op list.
Proofs are by reference to `SchedLemmasC06` (one lemma per primitive of the model, lifted over op lists).

Property text → theorems
* "a held instance never enters job preparation until it is released"
    `held_not_ready`, `release_skips_held`, `launch_only_in_main_loop`, `held_never_prepared`,
    `held_never_prepared_run`
* "holding an instance that is not yet in the pool takes effect when it spawns"
    `hold_command_recorded`, `hold_kept_until_released_or_removed`, `future_hold`, `hold_table_exact`,
    `hold_point_command`, `start_hold_point`
* "the set of held instances and the hold point survive a restart"
    `hold_persist`, `hold_persist_partial`; the unrestricted statement `hold_persist_full` is FALSE for the
    model (and for cylc-flow, finding `rehold-after-restart`): `hold_persist_counterexample`.
The model has no manual trigger, so the "or manually triggered" exemption of the property has no counterpart.
-/
import CylcModel.SchedLemmasC06
namespace CylcModel.C06
open CylcModel.Sched2

/-! ### held ⇒ never prepared -/

/-- **A held proxy is not ready to run** and the queue-if-ready step leaves the state alone for it. -/
theorem held_not_ready (s : State) (x : Proxy) (h : x.held = true) :
    x.isReadyToRun = false ∧ queueIfReady s x = s := by
  have h1 : x.isReadyToRun = false := by simp [Proxy.isReadyToRun, h]
  exact ⟨h1, by simp [queueIfReady, h1]⟩

/-- **Job release skips held proxies**: every launch recorded by the release-and-submit step of a main loop
belongs to a proxy of the pool that is queued and *not held*, under its next submit number. -/
theorem release_skips_held (s : State) (l : Int × String × Nat)
    (h : l ∈ (releaseAndSubmit s).launched) (h0 : l ∉ s.launched) :
    ∃ x ∈ s.pool, x.pt = l.1 ∧ x.name = l.2.1 ∧ x.submitNum + 1 = l.2.2 ∧ x.queued = true ∧ x.held = false :=
  releaseAndSubmit_launch_not_held s l h h0

/-- **Jobs are launched by main loops only**: no command, job message, submit result or restart launches one. -/
theorem launch_only_in_main_loop (g : Graph) (s : State) (op : Op) (h : op ≠ .loop) :
    (step g s op).launched = [] :=
  launched_step_of_ne_loop g s op h

/-- **Held ⇒ never prepared** (any state, any operation): if the instance `(p, n)` is in the pool and held —
every proxy of that key has the held flag — then the operation launches no job for it, under any submit number. -/
theorem held_never_prepared (g : Graph) (s : State) (op : Op) (p : Int) (n : String)
    (hin : ∃ x ∈ s.pool, x.pt = p ∧ x.name = n)
    (hheld : ∀ x ∈ s.pool, x.pt = p → x.name = n → x.held = true) :
    ∀ sn, (p, n, sn) ∉ (step g s op).launched :=
  fun sn => step_held_no_launch g s op p n ⟨hin, hheld⟩ sn

/-- **Held ⇒ never prepared, along every run**: in the state reached by any op list, a pooled proxy with the held
flag is not launched by the next operation, whatever that is (a release command un-holds it but launches nothing;
a later main loop may then launch it). -/
theorem held_never_prepared_run (g : Graph) (ops : List Op) (op : Op) :
    ∀ x ∈ (final g ops).pool, x.held = true →
      ∀ sn, (x.pt, x.name, sn) ∉ (final g (ops ++ [op])).launched := by
  intro x hx hh sn
  rw [final_snoc]
  exact step_held_no_launch g _ op x.pt x.name (keyHeld_of_holdInv (holdInv_final g ops) hx hh) sn

/-! ### holds apply to future instances -/

/-- **A hold command records every id it is given**, pooled or not; pooled ones are held at once (given the
hold-table invariant, which every reachable state has: `hold_table_exact`). -/
theorem hold_command_recorded (g : Graph) (s : State) (ids : List (Int × String)) (hinv : HoldInv s) :
    ∀ k ∈ ids, (k.2, k.1) ∈ (step g s (.hold ids)).tasksToHold ∧
      ∀ x ∈ (step g s (.hold ids)).pool, x.pt = k.1 → x.name = k.2 → x.held = true := by
  intro k hk
  have hm : (k.2, k.1) ∈ (step g s (.hold ids)).tasksToHold := holdTasks_mem (clearOp s) ids k hk
  refine ⟨hm, fun x hx hp hn => ?_⟩
  have := holdInv_step (g := g) (.hold ids) hinv x hx
  rw [this, hn, hp]
  simpa using hm

/-- **A recorded hold stays recorded** through every operation other than a release command, unless the instance
is removed from the pool in that very operation (then it is among the proxies removed by the operation). -/
theorem hold_kept_until_released_or_removed (g : Graph) (s : State) (op : Op)
    (hop : (∀ ids, op ≠ .release ids) ∧ op ≠ .releaseHoldPoint) :
    ∀ k ∈ s.tasksToHold, k ∈ (step g s op).tasksToHold ∨ ∃ x ∈ (step g s op).ghosts, (x.name, x.pt) = k :=
  keeps_step g s op hop

/-- **Future hold** (`spawn_task`): a newly created proxy is held *exactly* when a hold was requested earlier for
its instance or the instance lies beyond the hold point; in the latter case the instance is entered in the hold
table; nothing else of the state changes. -/
theorem future_hold (g : Graph) (s : State) (n : String) (p : Int) (y : Proxy)
    (h : (spawnTask g s n p).2 = some y) :
    y.pt = p ∧ y.name = n ∧
    y.held = (s.tasksToHold.contains (n, p) || beyondHold s.holdPoint p) ∧
    (spawnTask g s n p).1 = { s with tasksToHold := holdTableAfterSpawn s n p } :=
  spawnTask_some h

/-- **The hold table is exact, in every state of every run**: a pooled proxy is held if and only if its instance
is in `tasksToHold`.  In particular an instance held while it was not in the pool is held from the moment it is. -/
theorem hold_table_exact (g : Graph) (ops : List Op) :
    ∀ s ∈ run g ops, ∀ x ∈ s.pool, x.held = s.tasksToHold.contains (x.name, x.pt) :=
  holdInv_run g ops

/-- **Hold point command**: afterwards the hold point is set and every pooled proxy beyond it is held. -/
theorem hold_point_command (g : Graph) (s : State) (p : Int) :
    (step g s (.setHoldPoint p)).holdPoint = some p ∧
      ∀ y ∈ (step g s (.setHoldPoint p)).pool, y.pt > p → y.held = true :=
  setHoldPoint_holds (clearOp s) p

/-- **Hold point given at start-up** (`cylc play --hold-after=p`: `Scheduler.configure` issues the same command
right after the pool is loaded, i.e. the run begins with the op `setHoldPoint p`): in the first observable state the
point is in force and every pooled proxy beyond it is held — including those that start-up had already queued — and
by `held_never_prepared_run` none of them is launched by whatever comes next. -/
theorem start_hold_point (g : Graph) (p : Int) (op : Op) :
    (final g [.setHoldPoint p]).holdPoint = some p ∧
    (∀ y ∈ (final g [.setHoldPoint p]).pool, y.pt > p → y.held = true) ∧
    (∀ y ∈ (final g [.setHoldPoint p]).pool, y.pt > p →
      ∀ sn, (y.pt, y.name, sn) ∉ (final g ([.setHoldPoint p] ++ [op])).launched) := by
  have h := hold_point_command g (init g) p
  have hf : final g [.setHoldPoint p] = step g (init g) (.setHoldPoint p) := rfl
  rw [hf]
  refine ⟨h.1, h.2, fun y hy hgt sn => ?_⟩
  have := held_never_prepared_run g [.setHoldPoint p] op y (hf ▸ hy) (h.2 y hy hgt) sn
  exact this

/-! ### holds and restart -/

/-- **Holds survive a restart** (exact statement for the model, all states): the hold point is kept; every
recorded hold is kept, and the only new entries are pooled instances beyond the hold point; every proxy is
still there with its held flag — or is now held because it lies beyond the hold point (`configure` re-applies
`set_hold_point` after the pool is loaded). -/
theorem hold_persist (g : Graph) (s : State) :
    (restart g s).holdPoint = s.holdPoint ∧
    (∀ k ∈ s.tasksToHold, k ∈ (restart g s).tasksToHold) ∧
    (∀ k ∈ (restart g s).tasksToHold, k ∈ s.tasksToHold ∨
      ∃ x ∈ s.pool, k = (x.name, x.pt) ∧ beyondHold s.holdPoint x.pt = true) ∧
    (∀ x ∈ s.pool, ∃ y ∈ (restart g s).pool, y.pt = x.pt ∧ y.name = x.name ∧
      (y.held = x.held ∨ (beyondHold s.holdPoint x.pt = true ∧ y.held = true))) ∧
    (∀ y ∈ (restart g s).pool, ∃ x ∈ s.pool, x.pt = y.pt ∧ x.name = y.name ∧
      (y.held = x.held ∨ (beyondHold s.holdPoint y.pt = true ∧ y.held = true))) :=
  ⟨restart_holdPoint g s, (restart_table g s).1, (restart_table g s).2, restart_pool_before g s,
   restart_pool_after g s⟩

/-- the unrestricted reading of "the set of held instances survives a restart": along every run, a restart changes
the held flag of no pooled instance -/
def hold_persist_full : Prop :=
  ∀ (g : Graph) (ops : List Op), ∀ x ∈ (final g ops).pool, ∀ y ∈ (final g (ops ++ [.restart])).pool,
    y.pt = x.pt → y.name = x.name → y.held = x.held

/-- **Partial**: the held flags (and the hold table, as a set) are exactly preserved by a restart of a state in
which no pooled instance beyond the hold point has been released individually. -/
theorem hold_persist_partial (g : Graph) (s : State) (hinv : HoldInv s)
    (hbeyond : ∀ x ∈ s.pool, beyondHold s.holdPoint x.pt = true → x.held = true) :
    (∀ x ∈ s.pool, ∀ y ∈ (restart g s).pool, y.pt = x.pt → y.name = x.name → y.held = x.held) ∧
    (∀ k, k ∈ (restart g s).tasksToHold ↔ k ∈ s.tasksToHold) := by
  have htab : ∀ k, k ∈ (restart g s).tasksToHold ↔ k ∈ s.tasksToHold := by
    intro k
    constructor
    · intro hk
      rcases (restart_table g s).2 k hk with h | ⟨x, hx, rfl, hb⟩
      · exact h
      · have := hinv x hx
        rw [hbeyond x hx hb] at this
        simpa using this.symm
    · exact (restart_table g s).1 k
  refine ⟨fun x hx y hy hp hn => ?_, htab⟩
  -- both flags are read off the (equal) hold tables
  have hy' := holdInv_restart (g := g) hinv y hy
  have hx' := hinv x hx
  rw [hy', hx', hp, hn]
  cases h1 : (restart g s).tasksToHold.contains (x.name, x.pt) <;>
    cases h2 : s.tasksToHold.contains (x.name, x.pt) <;> simp_all

/-! ### a concrete workflow for the non-vacuity examples and the counterexample -/

/-- `a` runs in cycles 1..3 (no prerequisites), `b` in the same cycles after `a:started`; runahead `P1` -/
def exGraph : Graph :=
  let outs : List OutDef := [⟨"submitted", "submitted"⟩, ⟨"started", "started"⟩, ⟨"succeeded", "succeeded"⟩]
  let aInst (p : Int) (nx : Option Int) : Int × InstDef :=
    (p, { pre := [], sui := [], children := [("started", [⟨"b", p, false⟩])], nextParentless := nx })
  let bInst (p : Int) : Int × InstDef :=
    (p, { pre := [{ atoms := [(⟨p, "a", "started"⟩, false)], expr := none }], sui := [], children := [],
          nextParentless := none })
  { icp := 1, fcp := 3, start := 1, runahead := 1, seqs := [[1, 2, 3]], stopPoint := some 3,
    tasks := [
      { name := "a", insts := [aInst 1 (some 2), aInst 2 (some 3), aInst 3 none], firstParentless := some 1,
        completion := CE.var "succeeded", outputs := outs },
      { name := "b", insts := [bInst 1, bInst 2, bInst 3], firstParentless := none,
        completion := CE.var "succeeded", outputs := outs }] }

def view (s : State) : List (Int × String × Status × Bool) := s.pool.map fun x => (x.pt, x.name, x.status, x.held)

-- the pool after start-up: 1/a and 2/a released, 3/a runahead-limited; without a hold the first main loop
-- launches 1/a and 2/a ...
example : view (final exGraph []) = [(1, "a", .waiting, false), (2, "a", .waiting, false), (3, "a", .waiting, false)] ∧
    (final exGraph [.loop]).launched = [(1, "a", 1), (2, "a", 1)] := by decide +kernel

-- ... with 1/a held (pooled: the hypotheses of `held_never_prepared` are met) only 2/a is launched,
-- and after the release the next main loop launches 1/a
example :
    view (final exGraph [.hold [(1, "a")]]) =
      [(1, "a", .waiting, true), (2, "a", .waiting, false), (3, "a", .waiting, false)] ∧
    (final exGraph [.hold [(1, "a")], .loop]).launched = [(2, "a", 1)] ∧
    (final exGraph [.hold [(1, "a")], .loop, .release [(1, "a")], .loop]).launched = [(1, "a", 1)] := by
  decide +kernel

-- future hold: 1/b is held before it exists (`hold_command_recorded`, not pooled) and is held when `a:started`
-- spawns it (`future_hold` with the first disjunct, `hold_table_exact`)
example :
    (final exGraph [.hold [(1, "b")]]).tasksToHold = [("b", 1)] ∧
    view (final exGraph [.hold [(1, "b")], .loop, .subres 1 "a" true 1, .msg 1 "a" 1 "started", .loop]) =
      [(1, "a", .running, false), (2, "a", .preparing, false), (3, "a", .waiting, false), (1, "b", .waiting, true)] := by
  decide +kernel

-- hold point: 2/a and 3/a are beyond hold point 1 and are held by the command (`hold_point_command`); 2/a is then
-- released individually, runs, and the 2/b it spawns is held at once: it lies beyond the hold point
-- (`future_hold` with the second disjunct) and is entered in the hold table
example :
    view (final exGraph [.setHoldPoint 1]) =
      [(1, "a", .waiting, false), (2, "a", .waiting, true), (3, "a", .waiting, true)] ∧
    view (final exGraph [.setHoldPoint 1, .release [(2, "a")], .loop, .subres 2 "a" true 1,
        .msg 2 "a" 1 "started", .loop]) =
      [(1, "a", .preparing, false), (2, "a", .running, false), (3, "a", .waiting, true), (2, "b", .waiting, true)] ∧
    (final exGraph [.setHoldPoint 1, .release [(2, "a")], .loop, .subres 2 "a" true 1,
        .msg 2 "a" 1 "started", .loop]).tasksToHold = [("a", 3), ("b", 2)] := by
  decide +kernel

-- start-up hold point 1: 2/a was queued by start-up and is held while queued; the first main loop launches 1/a only
example :
    (view (final exGraph [.setHoldPoint 1]) = [(1, "a", .waiting, false), (2, "a", .waiting, true), (3, "a", .waiting, true)]) ∧
    ((final exGraph [.setHoldPoint 1]).pool.map fun x => x.queued) = [true, true, false] ∧
    (final exGraph [.setHoldPoint 1, .loop]).launched = [(1, "a", 1)] := by
  decide +kernel

/-- the history of the counterexample: hold point 1, then 2/a (beyond it) is released individually, stop now -/
def exOps : List Op := [.setHoldPoint 1, .release [(2, "a")], .stop "REQUEST(NOW)", .loop]

-- holds in force survive the restart (`hold_persist`, `hold_persist_partial` apply: hold point 1; 2/a, 3/a held;
-- a hold for the future 1/b)
example :
    view (final exGraph [.setHoldPoint 1, .hold [(1, "b")], .stop "REQUEST(NOW)", .loop, .restart]) =
      [(1, "a", .waiting, false), (2, "a", .waiting, true), (3, "a", .waiting, true)] ∧
    (final exGraph [.setHoldPoint 1, .hold [(1, "b")], .stop "REQUEST(NOW)", .loop, .restart]).tasksToHold =
      [("a", 2), ("a", 3), ("b", 1)] ∧
    (final exGraph [.setHoldPoint 1, .hold [(1, "b")], .stop "REQUEST(NOW)", .loop, .restart]).holdPoint = some 1 := by
  decide +kernel

/-- **The unrestricted statement is false** (model and cylc-flow alike, finding `rehold-after-restart`): with hold
point 1, `release 2/a`, stop, restart — 2/a was not held before the restart and is held after it. -/
theorem hold_persist_counterexample : ¬ hold_persist_full := by
  intro h
  have := h exGraph exOps
  revert this
  decide +kernel

end CylcModel.C06
