/-
C06 — Held tasks never submit; holds persist and apply to future instances.  (under construction)
-/
import CylcModel.Sched2
namespace CylcModel.C06
end CylcModel.C06
