/-
C21 — Database writes are atomic and the public database converges.

Property statements only; the model is `CylcModel/Db.lean`, helper lemmas are in
`CylcModel/DbLemmas.lean`.  `cfg : Cfg` carries the two behaviours probed on the live code
(`retryKeepsOrder`, `recoverClearsQueue`) and `MAX_TRIES`; `ss` is any list of table schemas
(the live one is `Db.schemas`, generated from `TABLES_ATTRS`).  Batches, statement positions,
fault patterns and histories are unbounded.
-/
import CylcModel.DbLemmas
namespace CylcModel.C21
open CylcModel.Db

/-! ## 1. Each batch is applied to the private database as a single transaction -/

/-- `execute_queued_items` with any queued content and a fault at any position (`f`: none, an
error at executemany call `k` after `j` rows, at the commit, or a held lock):
* an error (injected or raised by sqlite itself) leaves the file exactly as it was and no
  connection open;
* nothing queued: nothing happens;
* otherwise the file holds exactly the result of executing every statement of `sql_queue`, in the
  code's order (tables sorted by name; per table deletes, then inserts, then updates), completely;
* without an injected fault the write fails only if sqlite itself rejects a statement. -/
theorem pri_atomic (cfg : Cfg) (ss : List Schema) (d : Dao) (f : Fault) (hc : d.store.conn = none) :
    (∀ d' e, d.exec cfg ss f = (d', .failed e) → d'.store.file = d.store.file ∧ d'.store.conn = none) ∧
    (∀ d', d.exec cfg ss f = (d', .noop) → d' = d) ∧
    (∀ d', d.exec cfg ss f = (d', .committed) →
        runAll ss d.store.file (d.sqlQueue ss) = some d'.store.file ∧ d'.store.conn = none ∧
        d'.sqlQueue ss = []) ∧
    (∀ db, runAll ss d.store.file (d.sqlQueue ss) = some db → (d.exec cfg ss .none).2.isFailed = false) := by
  have h := Dao.exec_spec cfg ss d f hc
  refine ⟨?_, ?_, ?_, ?_⟩
  · intro d' e he
    obtain ⟨h1, h2, _⟩ := h.2.1 d' e he
    exact ⟨h1, h2⟩
  · intro d' he
    exact (h.1 d' he).1
  · intro d' he
    obtain ⟨h1, h2, h3, h4, _⟩ := h.2.2 d' he
    refine ⟨h1, h2, ?_⟩
    rw [Dao.sqlQueue_eq, h3, lowered_nil_of_queues (fun s _ => by rw [h4])]
    rfl
  · intro db hdb
    have := Dao.exec_none_complete cfg ss d hc db hdb
    simpa using this

/-- a private DAO with two queued inserts and a fault after the first row: the hypotheses of
`pri_atomic` are met, the write fails and the file is unchanged -/
example :
    let ss : List Schema := [⟨"t", ["a", "v"], [0]⟩]
    let d : Dao := (([Op.insList "t" [.str "x", .str "1"], Op.insList "t" [.str "y", .str "2"]]).foldl
      (Dao.enqueue ss) { isPublic := false, store := { file := emptyDb } })
    d.store.conn = none ∧ (d.exec ⟨false, false, 100⟩ ss (.at 0 1)).2 = .failed .injected ∧
      (d.exec ⟨false, false, 100⟩ ss (.at 0 1)).1.store.file "t" = [] ∧
      ((d.exec ⟨false, false, 100⟩ ss .none).1.store.file "t").length = 2 := by
  decide

/-- The scheduler dies at statement `k`, row `j` of the private write (or at its commit) and is
restarted: the private file is the previous committed state, or — if the point of death lies
beyond the commit — the whole batch; the public file is a copy of it. -/
theorem pri_crash_atomic (cfg : Cfg) (ss : List Schema) (m : Mgr) (ops : List Op) (k j : Nat)
    (hc : m.pri.store.conn = none) :
    let pri1 := ops.foldl (Dao.enqueue ss) m.pri
    let m' := Mgr.restart { m with pri := (pri1.exec cfg ss (.at k j)).1 }
    ((pri1.exec cfg ss (.at k j)).2.isFailed = true →
        m'.pri.store.file = m.pri.store.file ∧ m'.pub.store.file = m.pri.store.file) ∧
    ((pri1.exec cfg ss (.at k j)).2 = .committed →
        runAll ss m.pri.store.file (pri1.sqlQueue ss) = some m'.pri.store.file ∧
        m'.pub.store.file = m'.pri.store.file) := by
  intro pri1 m'
  have hs : pri1.store = m.pri.store := (enqueue_fold_fields ss ops m.pri).1
  have hc1 : pri1.store.conn = none := by rw [hs]; exact hc
  have h := Dao.exec_spec cfg ss pri1 (.at k j) hc1
  rcases hex : pri1.exec cfg ss (.at k j) with ⟨d', r⟩
  have hm' : m' = Mgr.restart { m with pri := d' } := by show Mgr.restart _ = _; rw [hex]
  constructor
  · intro hf
    cases r with
    | failed e =>
      obtain ⟨h1, _⟩ := h.2.1 d' e hex
      rw [hm']
      simp only [Mgr.restart, Mgr.start]
      rw [h1, hs]; exact ⟨rfl, rfl⟩
    | noop => simp [ExecResult.isFailed] at hf
    | committed => simp [ExecResult.isFailed] at hf
  · intro hcm
    cases hcm
    obtain ⟨h1, _⟩ := h.2.2 d' hex
    rw [hm']
    simp only [Mgr.restart, Mgr.start]
    rw [← hs]; exact ⟨h1, trivial⟩

example :
    let ss : List Schema := [⟨"t", ["a", "v"], [0]⟩]
    let m : Mgr := Mgr.start emptyDb
    let pri1 := ([Op.insList "t" [.str "x", .str "1"]]).foldl (Dao.enqueue ss) m.pri
    m.pri.store.conn = none ∧ (pri1.exec ⟨false, false, 100⟩ ss (.at 0 0)).2.isFailed = true ∧
      (pri1.exec ⟨false, false, 100⟩ ss (.at 5 0)).2 = .committed := by
  decide

/-! ## 2. After a failed public write the batch is retried -/

/-- A failed write of the public DAO changes nothing in the file, loses no statement (the same
`sql_queue` is executed by the next attempt) and counts one more try. -/
theorem pub_failure_retries (cfg : Cfg) (ss : List Schema) (d : Dao) (f : Fault)
    (hc : d.store.conn = none) (hp : d.isPublic = true) :
    ∀ d' e, d.exec cfg ss f = (d', .failed e) →
      d'.store.file = d.store.file ∧ d'.sqlQueue ss = d.sqlQueue ss ∧ d'.nTries = d.nTries + 1 := by
  intro d' e he
  obtain ⟨h1, _, h3, h4, _⟩ := (Dao.exec_spec cfg ss d f hc).2.1 d' e he
  refine ⟨h1, h3, ?_⟩
  rw [h4, hp]; rfl

example :
    let ss : List Schema := [⟨"t", ["a", "v"], [0]⟩]
    let d : Dao := ([Op.insList "t" [.str "x", .str "1"]]).foldl (Dao.enqueue ss)
      { isPublic := true, store := { file := emptyDb } }
    d.store.conn = none ∧ d.isPublic = true ∧ (d.exec ⟨false, false, 100⟩ ss .lock).2 = .failed .injected := by
  decide

/-- `recover_pub_from_pri`: at `MAX_TRIES` failed attempts the public file becomes a copy of the
private one and the counter restarts; below the threshold nothing happens. -/
theorem recover_copies (cfg : Cfg) (m : Mgr) :
    (cfg.maxTries ≤ m.pub.nTries →
        (m.recover cfg).2 = true ∧ (m.recover cfg).1.pub.store.file = m.pri.store.file ∧
        (m.recover cfg).1.pub.nTries = 0 ∧ (m.recover cfg).1.pri = m.pri) ∧
    (m.pub.nTries < cfg.maxTries → m.recover cfg = (m, false)) := by
  constructor
  · intro h
    unfold Mgr.recover
    rw [if_pos h]
    cases cfg.recoverClearsQueue <;> simp
  · intro h
    unfold Mgr.recover
    rw [if_neg (by omega)]

example : (3 : Nat) ≤ ({ (Mgr.start emptyDb) with pub := { (Mgr.start emptyDb).pub with nTries := 3 } } : Mgr).pub.nTries := by
  decide

/-! ## 3. ... and the public database eventually holds the same content as the private one -/

/-- Convergence, for a given behaviour of the code: after any history of main-loop iterations
(any operations, any faults in the private and in the public write, any number of failed public
writes, recoveries at the threshold) and restarts, whenever the public write of the next
iteration commits, the public file equals the private file. -/
def pub_converges_full (cfg : Cfg) : Prop :=
  ∀ (ss : List Schema) (f0 : Db) (evs : List Ev) (ops : List Op) (pf uf : Fault),
    ((Mgr.start f0).run cfg ss evs |>.process cfg ss ops pf uf).2.pub = some .committed →
    ((Mgr.start f0).run cfg ss evs |>.process cfg ss ops pf uf).1.pub.store.file
      = ((Mgr.start f0).run cfg ss evs |>.process cfg ss ops pf uf).1.pri.store.file

/-- `pub_converges_full` holds for the repaired retry (statements of failed attempts keep their order;
the recovery clears the public queue) — the excluding hypotheses `hk`, `hr` are about the code's
behaviour, not about the histories: every history, fault pattern and batch is covered.  What is
missing for the unrepaired code (`retryKeepsOrder = false` or `recoverClearsQueue = false`) is
shown false by `pub_converges_counterexample` / `recover_stale_queue_counterexample`.  Moreover, in every reachable state
* a recovery makes the files equal,
* an iteration whose public write is not disturbed and whose private write does not fail ends
  with equal files (so one undisturbed iteration is enough, whatever happened before),
* the failure counter stays below `MAX_TRIES` at the end of every iteration. -/
theorem pub_converges_partial (cfg : Cfg) (hk : cfg.retryKeepsOrder = true) (hr : cfg.recoverClearsQueue = true)
    (hm : 0 < cfg.maxTries) :
    pub_converges_full cfg ∧
    ∀ (ss : List Schema) (f0 : Db) (evs : List Ev) (ops : List Op) (pf uf : Fault),
      let m := (Mgr.start f0).run cfg ss evs
      let m1 := (m.process cfg ss ops pf uf).1
      m.pub.nTries < cfg.maxTries ∧
      ((m1.recover cfg).2 = true → (m1.recover cfg).1.pub.store.file = (m1.recover cfg).1.pri.store.file) ∧
      (uf = .none → (m.process cfg ss ops pf uf).2.pri.isFailed = false → m1.pub.store.file = m1.pri.store.file) := by
  constructor
  · intro ss f0 evs ops pf uf
    have hi := run_inv cfg ss hk hr hm evs _ (start_inv cfg ss hm f0)
    exact (process_behind cfg ss hk _ hi.behind ops pf uf).2.1
  · intro ss f0 evs ops pf uf m m1
    have hi : RoundInv cfg ss m := run_inv cfg ss hk hr hm evs _ (start_inv cfg ss hm f0)
    obtain ⟨hb', _, hnt, hpend, hconv⟩ := process_behind cfg ss hk m hi.behind ops pf uf
    refine ⟨hi.tries, ?_, hconv⟩
    refine (recover_behind cfg ss hr hm m1 hb' ?_).2
    intro hge
    cases hf : (m.process cfg ss ops pf uf).2.pri.isFailed with
    | true =>
      have h1 : m1.pub.nTries = m.pub.nTries := hnt hf
      have h2 := hi.tries
      omega
    | false => exact hpend hf

/-- the hypotheses of `pub_converges_partial` are satisfiable and the conclusion is not vacuous: a history
with a failed public write (lock) followed by a committed one -/
example :
    let cfg : Cfg := ⟨true, true, 100⟩
    let ss : List Schema := [⟨"t", ["a", "v"], [0]⟩]
    let m := (Mgr.start emptyDb).run cfg ss [.round [.insList "t" [.str "x", .str "1"]] .none .lock]
    cfg.retryKeepsOrder = true ∧ cfg.recoverClearsQueue = true ∧ 0 < cfg.maxTries ∧ m.pub.nTries = 1 ∧
      (m.process cfg ss [.del "t" [("a", .str "x")]] .none .none).2.pub = some .committed := by
  decide

/-- The same for the behaviour probed on the live code: as soon as the generated flags say that
the live code keeps the statement order and clears the queue on recovery, it converges
(`MAX_TRIES` of the live code must be positive — checked here on the generated constant). -/
theorem pub_converges_live (hk : liveCfg.retryKeepsOrder = true) (hr : liveCfg.recoverClearsQueue = true) :
    pub_converges_full liveCfg :=
  (pub_converges_partial liveCfg hk hr (by decide)).1

/-- Merging a failed batch into the per-table queues (the behaviour of the unrepaired code,
`retryKeepsOrder = false`) breaks convergence: `insert x` fails on a lock, `delete x` comes with the
next batch, the retry runs the delete first — the public database keeps `x`. -/
theorem pub_converges_counterexample : ¬ pub_converges_full ⟨false, false, 100⟩ ∧ ¬ pub_converges_full ⟨false, true, 100⟩ := by
  constructor <;>
  · intro h
    have := h [⟨"t", ["a", "v"], [0]⟩] emptyDb
      [.round [.insList "t" [.str "x", .str "1"]] .none .lock]
      [.del "t" [("a", .str "x")]] .none .none (by decide)
    have := congrFun this "t"
    revert this
    decide

/-- Leaving the failed batches queued in the public DAO when the public file is replaced by a
copy of the private one (`recoverClearsQueue = false`) breaks convergence too: the next public
write applies them a second time (duplicate rows in a table without primary key). -/
theorem recover_stale_queue_counterexample : ¬ pub_converges_full ⟨true, false, 1⟩ := by
  intro h
  have := h [⟨"e", ["n", "v"], []⟩] emptyDb
    [.round [.insList "e" [.str "a", .str "1"]] .none .lock]
    [.insList "e" [.str "b", .str "1"]] .none .none (by decide)
  have := congrFun this "e"
  revert this
  decide

end CylcModel.C21
