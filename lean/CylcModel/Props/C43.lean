/-
C43 — Stop point, stop task and stop modes behave as documented.

Statements about the `Sched2` model (scheduler core with holds, stop modes / stop point / stop task,
pause and clean restart) for ALL instance graphs and ALL op lists (main loops, submit results, job
messages, hold/release/stop/pause commands, restarts); proofs by reference to `SchedLemmasC43`.

  stop_point_submit        no job beyond the stop point is launched           — FALSE as stated (counterexample),
                           proved for op lists whose `stopPoint`/`restart` ops satisfy an explicit guard
  stop_point_shutdown      the main loop shuts down once nothing at or before the stop point remains, and
                           only then (when it is not the stop task that ends the run)
  stop_point_forgotten / _persisted   DB `stopcp` cleared by the automatic shutdown, otherwise restored
  stop_task                the run ends at the first main loop after the stop task finished — but "finished"
                           is any final status, not `succeeded` (counterexample to the full statement)
  clean_stop               `REQUEST(CLEAN)` stops only without submitted/running jobs, and does once idle
  stop_now                 `REQUEST(NOW)` stops at once and leaves the jobs; a restart finds them again
-/
import CylcModel.SchedLemmasC43
namespace CylcModel.C43
open CylcModel.Sched2

/-- hypothesis on the instance graph (checked by the driver on every extracted graph): the initial stop
point is `stop after cycle point` of flow.cylc, else the final point -/
def WF (g : Graph) : Bool := g.stopPoint == some (g.cfgStop.getD g.fcp)

/-! ### Example graph: one parentless task `a` on cycles 1..3, runahead limit P2 -/

def exInst (next : Option Int) : InstDef := { pre := [], sui := [], children := [], nextParentless := next }

def exGraph : Graph :=
  { icp := 1, fcp := 3, start := 1, runahead := 2, seqs := [[1, 2, 3]], stopPoint := some 3,
    tasks := [
      { name := "a",
        insts := [(1, exInst (some 2)), (2, exInst (some 3)), (3, exInst none)],
        firstParentless := some 1,
        completion := CE.var "succeeded",
        outputs := [{ trigger := "succeeded", message := "succeeded" }, { trigger := "failed", message := "failed" },
                    { trigger := "started", message := "started" }, { trigger := "submitted", message := "submitted" }] }] }

example : WF exGraph = true := by decide

/-- the same workflow with runahead limit P0 -/
def exGraphP0 : Graph := { exGraph with runahead := 0 }

/-- the same workflow, runahead limit P0, with no outputs declared: `String.replace` (used by the completion
check on the trigger names) does not reduce in the kernel, so the examples that let a task reach a final
status use a task without outputs (it is then never complete and stays in the pool) -/
def exGraphNoOut : Graph :=
  { exGraphP0 with tasks := exGraph.tasks.map fun t => { t with outputs := [] } }

/-! ### stop_point_submit -/

/-- **Full statement** (DESIGN §5 `stop_point_submit`): in every state of every run, every job launched by
the op that led to the state lies at or before the stop point of that state. -/
def stop_point_submit_full : Prop := ∀ (g : Graph) (ops : List Op), ∀ s ∈ run g ops, LaunchOK s

/-- the witness: all three instances are queued at start-up; `cylc stop 1` then puts 2/a and 3/a back under
the runahead limit but leaves them queued, and the next main loop launches them -/
def exOpsLower : List Op := [.stopPoint 1, .loop]

/-- **The full statement is false** for the model (and for cylc-flow: findings/C43.json
`queued-before-stop-point`): a proxy queued before `cylc stop <point>` lowered the stop point below it is
still released and submitted. -/
theorem stop_point_submit_counterexample : ¬ stop_point_submit_full := by
  intro h
  have := h exGraph exOpsLower _ (mem_run_last exGraph exOpsLower) 1 (by decide) (3, "a", 1) (by decide)
  exact absurd this (by decide)

/-- a second witness (findings/C43.json `retry-beyond-stop-point`): 3/a is running when `cylc stop 1` arrives;
its job fails with a retry left and submit number 2 of 3/a is launched beyond the stop point -/
def exGraphRetry : Graph := { exGraph with tasks := exGraph.tasks.map fun t => { t with execRetries := 1 } }

def exOpsRetry : List Op :=
  [.loop, .subres 3 "a" true 1, .msg 3 "a" 1 "started", .loop, .stopPoint 1, .msg 3 "a" 1 "failed", .loop, .loop]

theorem stop_point_submit_retry_counterexample :
    (exOpsRetry.foldl (step exGraphRetry) (init exGraphRetry)).stopPoint = some 1 ∧
    (3, "a", 2) ∈ (exOpsRetry.foldl (step exGraphRetry) (init exGraphRetry)).launched := by decide

/-- **Partial statement**: for every instance graph and every op list in which each `stopPoint p` op finds
every pooled proxy beyond `p` unqueued and not yet released (`okStopPoint`), and each `restart` finds no
finished-job proxy beyond the restored stop point (`okRestart`), every state of the run satisfies the
stop-point invariant (runahead limit ≤ stop point; nothing beyond the stop point is queued or can become
ready) and no job beyond the stop point is launched. -/
theorem stop_point_submit_partial (g : Graph) (ops : List Op) (hg : Guarded g (okOp g) (init g) ops) :
    ∀ s ∈ run g ops, SPInv s ∧ LaunchOK s := by
  apply run_inv_guarded (fun s => SPInv s ∧ LaunchOK s) g (okOp g)
  · obtain ⟨h1, h2⟩ := spinv_init g
    exact ⟨h1, fun sp _ l hl => by rw [h2] at hl; simp at hl⟩
  · intro s op hs hok
    exact spinv_step g s op hs.1 hok
  · exact hg

/-- Corollary (the configured stop point, C07.2 extended to holds, pause and stop modes): without
`cylc stop <point>` and restart ops nothing beyond the stop point is ever launched — unconditionally. -/
theorem stop_point_submit_configured (g : Graph) (ops : List Op)
    (h : ∀ op ∈ ops, (∀ p, op ≠ .stopPoint p) ∧ op ≠ .restart) : ∀ s ∈ run g ops, LaunchOK s :=
  fun s hs => (stop_point_submit_partial g ops (guarded_of_plain g ops _ h) s hs).2

/-- The main loop itself never launches beyond the stop point from a state satisfying the invariant. -/
theorem stop_point_submit_loop (g : Graph) (s : State) (h : SPInv s) : LaunchOK (step g s .loop) :=
  (spinv_step g s .loop h rfl).2

-- non-vacuity: a guarded run that lowers the stop point (runahead P0 keeps 2/a back, so nothing beyond the
-- new stop point 1 is queued when `cylc stop 1` arrives); the witness of the counterexample is not guarded
example : Guarded exGraphP0 (okOp exGraphP0) (init exGraphP0) [.loop, .stopPoint 1, .loop, .loop] :=
  guarded_of_b _ _ _ _ (by decide)

example : ((([Op.loop, .stopPoint 1, .loop, .loop]).foldl (step exGraphP0) (init exGraphP0)).stopPoint = some 1) ∧
    (step exGraphP0 (init exGraphP0) .loop).launched = [(1, "a", 1)] ∧
    guardedB exGraph (okOp exGraph) (init exGraph) exOpsLower = false := by decide

/-! ### stop_point_shutdown -/

/-- **Shutdown once nothing at or before the stop point remains to run**: with no stop requested, not
paused, not waiting on the restart timeout, the stop task not finished: if — after the runahead
computation and release of this iteration — every pooled proxy at or before the stop point has a final
status, everything beyond it is a waiting, runahead-limited proxy, and the workflow is not stalled, then the
main loop stops the scheduler with `AUTOMATIC` and forgets the stop point in the DB. -/
theorem stop_point_shutdown (g : Graph) (s : State) (sp : Int)
    (hstop : s.stop = none) (hmode : s.stopMode = none) (hp : s.paused = false) (hw : s.restartWait = false)
    (htask : ¬ (s.stopTask.isSome = true ∧ s.stopTaskFinished = true))
    (hstall : (checkStalled g (preShutdown g s)).stalled = false)
    (hpool : ∀ x ∈ (preShutdown g s).pool,
      (x.pt ≤ sp → x.status.isFinal = true) ∧ (sp < x.pt → x.status = .waiting ∧ x.runahead = true)) :
    (mainLoop g s).stop = some "AUTOMATIC" ∧ (mainLoop g s).dbStopCp = none := by
  obtain ⟨f1, f2, _, _, f5, f6, f7, f8, _, _⟩ := frame_preShutdown g s
  rw [mainLoop_eq']
  simp only [hstop, Option.isSome_none, Bool.false_eq_true, if_false]
  generalize preShutdown g s = s2 at *
  -- the decision
  have hdec : shutdownDecision g s2 = { (checkStalled g s2) with dbStopCp := none, stopMode := some "AUTOMATIC" } := by
    unfold shutdownDecision
    have hm2 : s2.stopMode.isNone = true := by rw [f2, hmode]; rfl
    simp only [hm2, if_true]
    have hstd : stopTaskDone s2 = (s2, false) := by
      unfold stopTaskDone
      split
      · rename_i hc
        simp only [Bool.and_eq_true] at hc
        rw [f5, f6] at hc
        exact absurd hc htask
      · rfl
    simp only [hstd, Bool.false_eq_true, if_false]
    have hauto : checkAutoShutdown g s2 = ({ (checkStalled g s2) with dbStopCp := none }, true) := by
      unfold checkAutoShutdown
      simp only [f7, f8, hp, hw, Bool.or_self, Bool.false_eq_true, if_false, hstall]
      have hany : ((checkStalled g s2).pool.any fun x => x.status == .preparing || x.status == .submitted ||
          x.status == .running || (x.status == .waiting && !x.runahead)) = false := by
        rw [(frame_checkStalled g s2).2.1]
        cases hq : (s2.pool.any fun x => x.status == .preparing || x.status == .submitted ||
          x.status == .running || (x.status == .waiting && !x.runahead)) with
        | false => rfl
        | true =>
          obtain ⟨x, hx, hc⟩ := List.any_eq_true.mp hq
          obtain ⟨h1, h2⟩ := hpool x hx
          by_cases hle : x.pt ≤ sp
          · have := h1 hle
            cases hst : x.status <;> simp [hst, Status.isFinal] at this hc
          · obtain ⟨e1, e2⟩ := h2 (by omega)
            simp [e1, e2] at hc
      simp only [hany, Bool.false_eq_true, if_false]
    simp only [hauto, if_true]
  rw [hdec]
  have hcs : canStop { (checkStalled g s2) with dbStopCp := none, stopMode := some "AUTOMATIC" } = true :=
    canStop_auto rfl
  simp only [hcs, if_true, and_self]

/-- **… and only then**: if a main loop that starts without a stop request ends with the scheduler stopped
as `AUTOMATIC` and it was not the stop task that ended the run, then no pooled proxy is preparing,
submitted or running, every waiting proxy is runahead-limited, the workflow is neither paused nor
stalled, and the DB stop point is cleared. -/
theorem auto_shutdown_sound (g : Graph) (s : State)
    (hstop : s.stop = none) (hmode : s.stopMode = none)
    (htask : ¬ (s.stopTask.isSome = true ∧ s.stopTaskFinished = true))
    (hauto : (mainLoop g s).stop = some "AUTOMATIC") :
    (∀ x ∈ (mainLoop g s).pool, x.status ≠ .preparing ∧ x.status ≠ .submitted ∧ x.status ≠ .running ∧
      (x.status = .waiting → x.runahead = true)) ∧
    (mainLoop g s).paused = false ∧ (mainLoop g s).stalled = false ∧ (mainLoop g s).dbStopCp = none := by
  obtain ⟨f1, f2, _, _, f5, f6, f7, f8, _, _⟩ := frame_preShutdown g s
  rw [mainLoop_eq'] at hauto ⊢
  simp only [hstop, Option.isSome_none, Bool.false_eq_true, if_false] at hauto ⊢
  generalize preShutdown g s = s2 at *
  have hm2 : s2.stopMode.isNone = true := by rw [f2, hmode]; rfl
  have hstd : stopTaskDone s2 = (s2, false) := by
    unfold stopTaskDone
    split
    · rename_i hc
      simp only [Bool.and_eq_true] at hc
      rw [f5, f6] at hc
      exact absurd hc htask
    · rfl
  -- either the automatic shutdown fired or the decision left the state without a stop mode
  have hcases : (shutdownDecision g s2 = { (checkStalled g s2) with dbStopCp := none, stopMode := some "AUTOMATIC" } ∧
        (checkAutoShutdown g s2).2 = true) ∨
      ((shutdownDecision g s2).stopMode = none ∧ (shutdownDecision g s2).stop = s2.stop) := by
    unfold shutdownDecision
    simp only [hm2, if_true, hstd, Bool.false_eq_true, if_false]
    unfold checkAutoShutdown
    simp only
    split
    · right; exact ⟨by simpa using hm2, rfl⟩
    · split
      · right
        exact ⟨(ctl_stopMode (frame_checkStalled g s2).1).trans (by simpa using hm2),
          ctl_stop (frame_checkStalled g s2).1⟩
      · split
        · right
          exact ⟨(ctl_stopMode (frame_checkStalled g s2).1).trans (by simpa using hm2),
            ctl_stop (frame_checkStalled g s2).1⟩
        · left; exact ⟨rfl, rfl⟩
  rcases hcases with ⟨hdec, hfired⟩ | ⟨hnone, hst⟩
  · rw [hdec] at hauto ⊢
    have hcs : canStop { (checkStalled g s2) with dbStopCp := none, stopMode := some "AUTOMATIC" } = true :=
      canStop_auto rfl
    simp only [hcs, if_true] at hauto ⊢
    -- read the conditions off `checkAutoShutdown`
    unfold checkAutoShutdown at hfired
    simp only at hfired
    split at hfired
    · simp at hfired
    · rename_i hpw
      split at hfired
      · simp at hfired
      · rename_i hnst
        split at hfired
        · simp at hfired
        · rename_i hany
          refine ⟨?_, ?_, by simpa using hnst, trivial⟩
          · intro x hx
            have hx' : x ∈ (checkStalled g s2).pool := hx
            have hnot : ¬ (x.status == .preparing || x.status == .submitted || x.status == .running ||
                (x.status == .waiting && !x.runahead)) = true := by
              intro hc
              exact hany (List.any_eq_true.mpr ⟨x, hx', hc⟩)
            cases hs : x.status <;> cases hr : x.runahead <;> simp [hs, hr] at hnot ⊢
          · have : (checkStalled g s2).paused = s2.paused := ctl_paused (frame_checkStalled g s2).1
            show (checkStalled g s2).paused = false
            rw [this]
            simp only [Bool.or_eq_true, not_or, Bool.not_eq_true] at hpw
            exact hpw.1
  · exfalso
    have hcs : canStop (shutdownDecision g s2) = false := canStop_none hnone
    simp only [hcs, Bool.false_eq_true, if_false] at hauto
    have := (frame_loopBody g (shutdownDecision g s2)).2.2.1
    rw [this, hst, f1, hstop] at hauto
    exact absurd hauto (by simp)

/-- **Full converse** ("… and only once nothing at or before the stop point remains"): whenever a main loop of a
run shuts down automatically — not for the stop task — every pooled proxy at or before the stop point has a
final status. -/
def auto_shutdown_full : Prop :=
  ∀ (g : Graph) (ops : List Op), ∀ s ∈ run g ops, ∀ sp, s.stopPoint = some sp → s.stop = none → s.stopMode = none →
    ¬ (s.stopTask.isSome = true ∧ s.stopTaskFinished = true) → (mainLoop g s).stop = some "AUTOMATIC" →
    ((mainLoop g s).pool.all fun x => !(decide (x.pt ≤ sp)) || x.status.isFinal) = true

/-- the witness: `cylc stop 0` caps the runahead limit at 0 and puts 1/a back under it; `cylc stop 3` raises the
stop point again but the limit is not recomputed (the base point has not changed), so 1/a stays
runahead-limited, nothing blocks the shutdown check and the workflow shuts down with 1/a and 2/a never run -/
def exOpsStale : List Op := [.stopPoint 0, .stopPoint 3]

/-- **The full converse is false** for the model (and for cylc-flow: findings/C43.json `stale-runahead-limit`):
after the stop point was lowered below the pool and raised again the runahead limit stays at the old stop
point; the tasks in between never run and the workflow "completes". `auto_shutdown_sound` is what holds. -/
theorem auto_shutdown_counterexample : ¬ auto_shutdown_full := by
  intro h
  have := h exGraphP0 exOpsStale _ (mem_run_last exGraphP0 exOpsStale) 3 (by decide) (by decide) (by decide)
    (by decide) (by decide)
  exact absurd this (by decide)

-- non-vacuity: `cylc stop 0` (a stop point before the first cycle): 1/a (and 2/a) are put back under the runahead
-- limit, nothing at or before the stop point remains, the next main loop shuts down and clears the DB row
def exOpsReach : List Op := [.stopPoint 0]

example :
    let s := exOpsReach.foldl (step exGraphP0) (init exGraphP0)
    s.stop = none ∧ s.stopMode = none ∧ s.dbStopCp = some 0 ∧
    ((preShutdown exGraphP0 s).pool.map fun x => (x.pt, x.status, x.runahead)) =
      [(1, .waiting, true), (2, .waiting, true)] ∧
    (checkStalled exGraphP0 (preShutdown exGraphP0 s)).stalled = false ∧
    (mainLoop exGraphP0 s).stop = some "AUTOMATIC" ∧ (mainLoop exGraphP0 s).dbStopCp = none := by decide

/-! ### stop point forgotten once reached, otherwise persisted -/

/-- **A recorded stop point is the current stop point**, in every state of every run. -/
theorem db_stop_point_inv (g : Graph) (ops : List Op) : ∀ s ∈ run g ops, DbInv s := by
  apply run_inv DbInv g
  · -- start-up: nothing recorded
    intro p hp
    exfalso
    have : (init g).dbStopCp = none := by
      unfold init loadFromPoint
      simp only
      have c1 : ctl (g.tasks.foldl (fun st t => match t.firstParentless with
          | some p => spawnAndAdd g st t.name p
          | none => st) ({ stopPoint := g.stopPoint } : State)) = ctl ({ stopPoint := g.stopPoint } : State) := by
        apply foldl_inv (fun st => ctl st = ctl ({ stopPoint := g.stopPoint } : State))
        · intro st t hst
          split
          · exact (ctl_spawnAndAdd _ _ _ _).trans hst
          · exact hst
        · rfl
      generalize (g.tasks.foldl (fun st t => match t.firstParentless with
          | some p => spawnAndAdd g st t.name p
          | none => st) ({ stopPoint := g.stopPoint } : State)) = s1 at c1 ⊢
      have d1 : s1.dbStopCp = none := ctl_dbStopCp c1
      have d2 := (frame_computeRunahead g s1 false).2.2.2.2.2.1
      have c3 := ctl_releaseRunaheadN g 10 (computeRunahead g s1)
      have cq : ∀ s3 : State, ctl (s3.pool.foldl (fun st x => match st.get? x.pt x.name with
          | some y => queueIfReady st y | none => st) s3) = ctl s3 := by
        intro s3
        apply foldl_inv (fun st => ctl st = ctl s3)
        · intro st x hst
          split
          · exact (ctl_queueIfReady _ _).trans hst
          · exact hst
        · rfl
      exact (ctl_dbStopCp (cq _)).trans ((ctl_dbStopCp c3).trans (d2.trans d1))
    rw [this] at hp
    exact absurd hp (by simp)
  · intro s op h
    have hc : DbInv (clearOp s) := h
    have frame : ∀ s' : State, s'.dbStopCp = (clearOp s).dbStopCp → s'.stopPoint = (clearOp s).stopPoint → DbInv s' := by
      intro s' e1 e2 p hp
      rw [e1] at hp; rw [e2]; exact hc p hp
    unfold step
    cases op with
    | loop =>
      intro p hp
      simp only at hp ⊢
      rw [stopPoint_mainLoop]
      rcases db_mainLoop g (clearOp s) with e | ⟨e, _⟩
      · rw [e] at hp; exact hc p hp
      · rw [e] at hp; exact absurd hp (by simp)
    | subres p n ok sn =>
      have c := ctl_processMessage g 4 (clearOp s) p n .internal sn (if ok = true then "submitted" else "submit-failed")
      exact frame _ (ctl_dbStopCp c) (ctl_stopPoint c)
    | msg p n sn text => exact frame _ rfl rfl
    | hold ids => exact frame _ (ctl_dbStopCp (ctl_holdTasks _ _)) (ctl_stopPoint (ctl_holdTasks _ _))
    | release ids => exact frame _ (ctl_dbStopCp (ctl_releaseTasks _ _)) (ctl_stopPoint (ctl_releaseTasks _ _))
    | setHoldPoint p => exact frame _ (ctl_setHoldPoint _ _).2.2.2.1 (ctl_setHoldPoint _ _).1
    | releaseHoldPoint => exact frame _ (ctl_releaseHoldPoint _).2.2.2.1 (ctl_releaseHoldPoint _).1
    | stop mode => exact frame _ rfl rfl
    | stopPoint p =>
      rcases db_setStopPoint (clearOp s) p with ⟨e1, e2, _⟩ | ⟨e1, e2⟩
      · exact frame _ e2 e1
      · intro q hq
        simp only at hq ⊢
        rw [e2] at hq; rw [e1]; exact hq
    | stopTask p n => exact frame _ rfl rfl
    | pause => exact frame _ rfl rfl
    | resume => exact frame _ rfl rfl
    | restart =>
      intro p hp
      simp only at hp ⊢
      rw [stopPoint_restart]
      have hdb : (restart g (clearOp s)).dbStopCp = (clearOp s).dbStopCp := by
        rw [restart_eq]
        split
        · exact (ctl_setHoldPoint _ _).2.2.2.1
        · rfl
      rw [hdb] at hp
      unfold restoredStop
      rw [hp]
      rfl

/-- **`cylc stop <point>` records the new stop point** (unless it is the current one). -/
theorem stop_point_recorded (g : Graph) (s : State) (p : Int) (h : s.stopPoint ≠ some p) :
    (step g s (.stopPoint p)).stopPoint = some p ∧ (step g s (.stopPoint p)).dbStopCp = some p := by
  unfold step
  simp only
  rcases db_setStopPoint (clearOp s) p with ⟨_, _, e⟩ | h'
  · exact absurd e h
  · exact h'

/-- **The recorded stop point changes only by `cylc stop <point>` or by the automatic shutdown**: any other
op leaves the DB row alone; a main loop either leaves it alone or clears it while shutting down
automatically from a state without stop request. -/
theorem stop_point_persisted (g : Graph) (s : State) (op : Op) (hop : ∀ p, op ≠ .stopPoint p) :
    (step g s op).dbStopCp = s.dbStopCp ∨
    (op = Op.loop ∧ (step g s op).dbStopCp = none ∧ (step g s op).stop = some "AUTOMATIC" ∧ s.stop = none ∧
      s.stopMode = none) := by
  have hc : (clearOp s).dbStopCp = s.dbStopCp := rfl
  cases op with
  | loop =>
    rcases db_mainLoop g (clearOp s) with e | ⟨e1, e2, e3, e4⟩
    · exact Or.inl (e.trans hc)
    · exact Or.inr ⟨rfl, e1, e2, e3, e4⟩
  | subres p n ok sn =>
    left
    show (processMessage g 4 (clearOp s) p n .internal sn (if ok = true then "submitted" else "submit-failed")).1.dbStopCp = _
    exact (ctl_dbStopCp (ctl_processMessage g 4 (clearOp s) p n .internal sn _)).trans hc
  | msg p n sn text => exact Or.inl rfl
  | hold ids =>
    left
    show (holdTasks (clearOp s) ids).dbStopCp = _
    exact (ctl_dbStopCp (ctl_holdTasks _ _)).trans hc
  | release ids =>
    left
    show (releaseTasks (clearOp s) ids).dbStopCp = _
    exact (ctl_dbStopCp (ctl_releaseTasks _ _)).trans hc
  | setHoldPoint p =>
    left
    show (setHoldPoint (clearOp s) p).dbStopCp = _
    exact (ctl_setHoldPoint _ _).2.2.2.1.trans hc
  | releaseHoldPoint =>
    left
    show (releaseHoldPoint (clearOp s)).dbStopCp = _
    exact (ctl_releaseHoldPoint _).2.2.2.1.trans hc
  | stop mode => exact Or.inl rfl
  | stopPoint p => exact absurd rfl (hop p)
  | stopTask p n => exact Or.inl rfl
  | pause => exact Or.inl rfl
  | resume => exact Or.inl rfl
  | restart =>
    left
    show (restart g (clearOp s)).dbStopCp = _
    rw [restart_eq]
    split
    · exact (ctl_setHoldPoint _ _).2.2.2.1
    · rfl

/-- **A restart restores the recorded stop point**; with nothing recorded it falls back to flow.cylc,
else to the final point. -/
theorem restart_stop_point (g : Graph) (s : State) :
    (step g s .restart).stopPoint = some (restoredStop g s) := stopPoint_restart g (clearOp s)

/-- **Otherwise survives restart**: in every state of every run in which a stop point is recorded, a
restart comes back with exactly the current stop point. -/
theorem stop_point_survives_restart (g : Graph) (ops : List Op) :
    ∀ s ∈ run g ops, ∀ p, s.dbStopCp = some p → (step g s .restart).stopPoint = s.stopPoint := by
  intro s hs p hp
  rw [restart_stop_point, db_stop_point_inv g ops s hs p hp]
  unfold restoredStop
  rw [hp]; rfl

/-- **Forgotten once reached**: after the automatic shutdown of `stop_point_shutdown` a restart comes back
with the configured stop point — which for a well-formed graph is the stop point the run started with. -/
theorem stop_point_forgotten (g : Graph) (s : State) (h : s.dbStopCp = none) :
    (step g s .restart).stopPoint = some (g.cfgStop.getD g.fcp) ∧
    (WF g = true → (step g s .restart).stopPoint = (init g).stopPoint) := by
  have e : (step g s .restart).stopPoint = some (g.cfgStop.getD g.fcp) := by
    rw [restart_stop_point]; unfold restoredStop; rw [h]
  refine ⟨e, ?_⟩
  intro hwf
  rw [e]
  have : (init g).stopPoint = g.stopPoint := by
    have c := (spinv_init g)
    unfold init loadFromPoint
    simp only
    have c1 : ctl (g.tasks.foldl (fun st t => match t.firstParentless with
        | some p => spawnAndAdd g st t.name p
        | none => st) ({ stopPoint := g.stopPoint } : State)) = ctl ({ stopPoint := g.stopPoint } : State) := by
      apply foldl_inv (fun st => ctl st = ctl ({ stopPoint := g.stopPoint } : State))
      · intro st t hst
        split
        · exact (ctl_spawnAndAdd _ _ _ _).trans hst
        · exact hst
      · rfl
    generalize (g.tasks.foldl (fun st t => match t.firstParentless with
        | some p => spawnAndAdd g st t.name p
        | none => st) ({ stopPoint := g.stopPoint } : State)) = s1 at c1 ⊢
    have d1 : s1.stopPoint = g.stopPoint := ctl_stopPoint c1
    have d2 := (frame_computeRunahead g s1 false).2.1
    have c3 := ctl_releaseRunaheadN g 10 (computeRunahead g s1)
    have cq : ∀ s3 : State, ctl (s3.pool.foldl (fun st x => match st.get? x.pt x.name with
        | some y => queueIfReady st y | none => st) s3) = ctl s3 := by
      intro s3
      apply foldl_inv (fun st => ctl st = ctl s3)
      · intro st x hst
        split
        · exact (ctl_queueIfReady _ _).trans hst
        · exact hst
      · rfl
    exact (ctl_stopPoint (cq _)).trans ((ctl_stopPoint c3).trans (d2.trans d1))
  rw [this]
  unfold WF at hwf
  exact (by simpa using hwf : g.stopPoint = some (g.cfgStop.getD g.fcp)).symm

-- non-vacuity: `cylc stop 2`, stop --now, restart: stop point 2 again; reached (see above), restart: back to 3
example :
    let s := ([Op.stopPoint 2, .loop, .stop "REQUEST(NOW)", .loop]).foldl (step exGraphP0) (init exGraphP0)
    s.stop = some "REQUEST(NOW)" ∧ s.dbStopCp = some 2 ∧ (step exGraphP0 s .restart).stopPoint = some 2 := by decide

example :
    let s := (exOpsReach ++ [Op.loop]).foldl (step exGraphP0) (init exGraphP0)
    s.stop = some "AUTOMATIC" ∧ s.stopPoint = some 0 ∧ s.dbStopCp = none ∧
    (step exGraphP0 s .restart).stopPoint = some 3 := by decide

/-! ### stop task -/

/-- **The run ends at the first main loop after the stop task finished**: with a stop task whose
finished-flag is up and no stop requested, the main loop stops the scheduler (`AUTOMATIC`) and clears the
stop task. -/
theorem stop_task_stops (g : Graph) (s : State) (hstop : s.stop = none) (hmode : s.stopMode = none)
    (ht : s.stopTask.isSome = true) (hf : s.stopTaskFinished = true) :
    (mainLoop g s).stop = some "AUTOMATIC" ∧ (mainLoop g s).stopTask = none := by
  obtain ⟨f1, f2, _, _, f5, f6, _, _, _, _⟩ := frame_preShutdown g s
  rw [mainLoop_eq']
  simp only [hstop, Option.isSome_none, Bool.false_eq_true, if_false]
  generalize preShutdown g s = s2 at *
  have hdec : shutdownDecision g s2 =
      { s2 with stopTask := none, stopTaskFinished := false, stopMode := some "AUTOMATIC" } := by
    unfold shutdownDecision
    have hm2 : s2.stopMode.isNone = true := by rw [f2, hmode]; rfl
    simp only [hm2, if_true]
    have hstd : stopTaskDone s2 = ({ s2 with stopTask := none, stopTaskFinished := false }, true) := by
      unfold stopTaskDone
      simp only [f5, f6, ht, hf, Bool.and_self, if_true]
    simp only [hstd, if_true]
  rw [hdec]
  have hcs : canStop { s2 with stopTask := none, stopTaskFinished := false, stopMode := some "AUTOMATIC" } = true :=
    canStop_auto rfl
  simp only [hcs, if_true, and_self]

/-- **Full statement** (property text: "the workflow stops after that task *succeeds*"): the
finished-flag of the stop task goes up only for a succeeded proxy. -/
def stop_task_full : Prop :=
  ∀ (g : Graph) (s : State) (x : Proxy), s.stopTaskFinished = false →
    (removeIfComplete g s x).stopTaskFinished = true → x.status = .succeeded

/-- **Partial statement**: `remove_if_complete` — the only writer of the flag besides its resets — raises it
only for the stop task itself and only in a final status. -/
theorem stop_task_partial (g : Graph) (s : State) (x : Proxy) (h0 : s.stopTaskFinished = false)
    (h : (removeIfComplete g s x).stopTaskFinished = true) :
    x.status.isFinal = true ∧ s.stopTask = some (x.pt, x.name) := by
  unfold removeIfComplete at h
  split at h
  · rw [h0] at h; exact absurd h (by simp)
  · rename_i hfin
    refine ⟨by simpa using hfin, ?_⟩
    simp only at h
    by_cases hk : (s.stopTask == some (x.pt, x.name)) = true
    · simpa using hk
    · exfalso
      simp only [hk, Bool.false_eq_true, if_false] at h
      have hrm : ∀ t : State, (remove g t x).stopTaskFinished = t.stopTaskFinished := by
        intro t
        unfold remove
        simp only
        split
        · show (spawnNextParentless g _ _).stopTaskFinished = _
          rw [stf_spawnNextParentless, stf_releaseHeldActive]
        · show (releaseHeldActive t x).stopTaskFinished = _
          exact stf_releaseHeldActive _ _
      split at h
      · rw [h0] at h; exact absurd h (by simp)
      · split at h
        · rw [hrm, h0] at h; exact absurd h (by simp)
        · rw [h0] at h; exact absurd h (by simp)

/-- **The full statement is false** for the model (and for cylc-flow: findings/C43.json
`stop-task-not-succeeded`): a *failed* stop task raises the flag as well. -/
theorem stop_task_counterexample : ¬ stop_task_full := by
  intro h
  have := h exGraphNoOut { stopTask := some (1, "a") } { pt := 1, name := "a", status := .failed } rfl (by decide)
  exact absurd this (by decide)

/-- the failing run: stop task 1/a fails for good; the next main loop ends the run although 1/a has not
succeeded (runahead limit P0: 2/a is waiting behind it) -/
def exOpsTaskFails : List Op :=
  [.stopTask 1 "a", .loop, .subres 1 "a" true 1, .msg 1 "a" 1 "failed", .loop, .loop]

theorem stop_task_run_counterexample :
    let s := exOpsTaskFails.foldl (step exGraphNoOut) (init exGraphNoOut)
    s.stop = some "AUTOMATIC" ∧ (s.pool.map fun x => (x.pt, x.status)) =
      [(1, .failed), (2, .waiting)] := by decide

/-- **Only message processing raises the flag**: commands, restarts and queueing a message never do. -/
theorem stop_task_flag_only_by_messages (g : Graph) (s : State) (op : Op) (h0 : s.stopTaskFinished = false)
    (h : (step g s op).stopTaskFinished = true) : op = Op.loop ∨ ∃ p n ok sn, op = Op.subres p n ok sn := by
  cases op with
  | loop => exact Or.inl rfl
  | subres p n ok sn => exact Or.inr ⟨p, n, ok, sn, rfl⟩
  | msg p n sn text => exfalso; unfold step at h; simp only [clearOp] at h; rw [h0] at h; exact absurd h (by simp)
  | hold ids =>
    exfalso; unfold step at h; simp only at h
    rw [stf_holdTasks] at h; exact absurd (h0 ▸ h : false = true) (by simp)
  | release ids =>
    exfalso; unfold step at h; simp only at h
    rw [stf_releaseTasks] at h; exact absurd (h0 ▸ h : false = true) (by simp)
  | setHoldPoint p =>
    exfalso; unfold step at h; simp only at h
    rw [stf_setHoldPoint] at h; exact absurd (h0 ▸ h : false = true) (by simp)
  | releaseHoldPoint =>
    exfalso; unfold step at h; simp only at h
    rw [stf_releaseHoldPoint] at h; exact absurd (h0 ▸ h : false = true) (by simp)
  | stop mode => exfalso; unfold step at h; simp only [clearOp] at h; rw [h0] at h; exact absurd h (by simp)
  | stopPoint p =>
    exfalso; unfold step at h; simp only at h
    rw [(frame_setStopPoint _ _).1] at h; exact absurd (h0 ▸ h : false = true) (by simp)
  | stopTask p n => exfalso; unfold step at h; simp at h
  | pause => exfalso; unfold step at h; simp only [clearOp] at h; rw [h0] at h; exact absurd h (by simp)
  | resume => exfalso; unfold step at h; simp only [clearOp] at h; rw [h0] at h; exact absurd h (by simp)
  | restart =>
    exfalso; unfold step at h; simp only at h
    have : (restart g (clearOp s)).stopTaskFinished = false := by
      rw [restart_eq]
      split
      · exact (stf_setHoldPoint _ _).trans rfl
      · rfl
    rw [this] at h; exact absurd h (by simp)

-- non-vacuity of `stop_task_stops`: the stop task succeeds, the next main loop stops
example :
    let s := ([Op.stopTask 1 "a", .loop, .subres 1 "a" true 1, .msg 1 "a" 1 "succeeded", .loop]).foldl
      (step exGraphNoOut) (init exGraphNoOut)
    s.stop = none ∧ s.stopMode = none ∧ s.stopTask = some (1, "a") ∧ s.stopTaskFinished = true ∧
    (mainLoop exGraphNoOut s).stop = some "AUTOMATIC" := by decide

/-! ### clean stop -/

/-- **A clean stop waits for active jobs**: a main loop under `REQUEST(CLEAN)` stops the scheduler only
if no pooled proxy is submitted or running. -/
theorem clean_stop_waits (g : Graph) (s : State) (hstop : s.stop = none)
    (hmode : s.stopMode = some "REQUEST(CLEAN)") (h : (mainLoop g s).stop ≠ none) :
    ∀ x ∈ (mainLoop g s).pool, x.status.isActive = false := by
  obtain ⟨f1, f2, _⟩ := frame_preShutdown g s
  rw [mainLoop_eq'] at h ⊢
  simp only [hstop, Option.isSome_none, Bool.false_eq_true, if_false] at h ⊢
  have hm2 : (preShutdown g s).stopMode = some "REQUEST(CLEAN)" := f2.trans hmode
  rw [shutdownDecision_some (by rw [hm2]; rfl)] at h ⊢
  by_cases hc : canStop (preShutdown g s) = true
  · simp only [hc, if_true]
    exact (canStop_clean hm2).mp hc
  · exfalso
    simp only [hc, Bool.false_eq_true, if_false] at h
    apply h
    rw [(frame_loopBody g _).2.2.1, f1, hstop]

/-- **… and stops once idle**: without submitted/running proxies (after this iteration's runahead release)
the main loop stops the scheduler with `REQUEST(CLEAN)`. -/
theorem clean_stop_when_idle (g : Graph) (s : State) (hstop : s.stop = none)
    (hmode : s.stopMode = some "REQUEST(CLEAN)")
    (hidle : ∀ x ∈ (preShutdown g s).pool, x.status.isActive = false) :
    (mainLoop g s).stop = some "REQUEST(CLEAN)" := by
  obtain ⟨_, f2, _⟩ := frame_preShutdown g s
  rw [mainLoop_eq']
  simp only [hstop, Option.isSome_none, Bool.false_eq_true, if_false]
  have hm2 : (preShutdown g s).stopMode = some "REQUEST(CLEAN)" := f2.trans hmode
  rw [shutdownDecision_some (by rw [hm2]; rfl)]
  have hc : canStop (preShutdown g s) = true := (canStop_clean hm2).mpr hidle
  simp only [hc, if_true]
  exact hm2

/-- **Nothing is launched while a stop is in progress or the workflow is paused.** -/
theorem no_launch_while_stopping (g : Graph) (s : State) (h : s.stopMode.isSome = true ∨ s.paused = true) :
    (step g s .loop).launched = [] := by
  unfold step
  simp only
  obtain ⟨f1, f2, _, _, _, _, f7, _, f9, _⟩ := frame_preShutdown g (clearOp s)
  rw [mainLoop_eq']
  split
  · rfl
  · have hl0 : (preShutdown g (clearOp s)).launched = [] := f9
    obtain ⟨_, _, _, d4, _, d6⟩ := frame_shutdownDecision g (preShutdown g (clearOp s))
    split
    · exact d4.trans hl0
    · rename_i hcs
      have hmode : (shutdownDecision g (preShutdown g (clearOp s))).stopMode.isSome = true ∨
          (shutdownDecision g (preShutdown g (clearOp s))).paused = true := by
        rcases h with h | h
        · left
          have : (preShutdown g (clearOp s)).stopMode.isSome = true := by rw [f2]; exact h
          rw [shutdownDecision_some this]; exact this
        · right
          rw [d6, f7]; exact h
      rw [launched_loopBody_idle g _ hmode]
      exact d4.trans hl0

-- non-vacuity: clean stop requested while 1/a is submitted: the loop does not stop; after it succeeded it does
example :
    let s := ([Op.loop, .subres 1 "a" true 1, .stop "REQUEST(CLEAN)"]).foldl (step exGraphNoOut) (init exGraphNoOut)
    (mainLoop exGraphNoOut s).stop = none ∧
    (mainLoop exGraphNoOut (([Op.msg 1 "a" 1 "succeeded", .loop]).foldl (step exGraphNoOut) s)).stop =
      some "REQUEST(CLEAN)" := by decide

/-! ### stop --now -/

/-- **`stop --now` (and `--now --now`) stops at the next main loop**, whatever is running. -/
theorem stop_now_immediate (g : Graph) (s : State) (hstop : s.stop = none)
    (hmode : s.stopMode = some "REQUEST(NOW)" ∨ s.stopMode = some "REQUEST(NOW-NOW)") :
    (mainLoop g s).stop = s.stopMode := by
  obtain ⟨_, f2, _⟩ := frame_preShutdown g s
  rw [mainLoop_eq']
  simp only [hstop, Option.isSome_none, Bool.false_eq_true, if_false]
  have hsome : (preShutdown g s).stopMode.isSome = true := by
    rw [f2]; rcases hmode with h | h <;> rw [h] <;> rfl
  rw [shutdownDecision_some hsome]
  have hc : canStop (preShutdown g s) = true := canStop_now (by rw [f2]; exact hmode)
  simp only [hc, if_true]
  exact f2

/-- **… and leaves the jobs alone**: every pooled instance keeps its status and submit number through
that main loop. -/
theorem stop_now_keeps_jobs (g : Graph) (s : State) (hstop : s.stop = none)
    (hmode : s.stopMode = some "REQUEST(NOW)" ∨ s.stopMode = some "REQUEST(NOW-NOW)") :
    Kept s (mainLoop g s) := by
  obtain ⟨_, f2, _, _, _, _, _, _, _, hk⟩ := frame_preShutdown g s
  rw [mainLoop_eq']
  simp only [hstop, Option.isSome_none, Bool.false_eq_true, if_false]
  have hsome : (preShutdown g s).stopMode.isSome = true := by
    rw [f2]; rcases hmode with h | h <;> rw [h] <;> rfl
  rw [shutdownDecision_some hsome]
  have hc : canStop (preShutdown g s) = true := canStop_now (by rw [f2]; exact hmode)
  simp only [hc, if_true]
  exact hk.trans (kept_of_pool_eq rfl)

/-- **Restartable**: a restart finds every pooled instance that is not `preparing` — in particular every
submitted or running one — again, under the same status and submit number (so its job messages are still
accepted). -/
theorem restart_keeps_jobs (g : Graph) (s : State) (p : Int) (n : String) (x : Proxy)
    (hx : s.get? p n = some x) (hprep : x.status ≠ .preparing) :
    ∃ y, (step g s .restart).get? p n = some y ∧ y.status = x.status ∧ y.submitNum = x.submitNum :=
  kept_restart g (clearOp s) p n x hx hprep

-- non-vacuity: 1/a running, stop --now, main loop, restart: 1/a is still running under submit number 1
example :
    let s := ([Op.loop, .subres 1 "a" true 1, .msg 1 "a" 1 "started", .loop, .stop "REQUEST(NOW)", .loop]).foldl
      (step exGraphP0) (init exGraphP0)
    s.stop = some "REQUEST(NOW)" ∧
    ((step exGraphP0 s .restart).pool.map fun x => (x.pt, x.status, x.submitNum)) =
      [(1, .running, 1), (2, .waiting, 0)] := by decide

end CylcModel.C43
