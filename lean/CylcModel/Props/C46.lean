/-
C46 — Warm starts run only what follows the start point.
Statements only; proofs by reference to `SchedLemmasC46` (the warm-start invariant as a `Frame`).

Not expressible over `Sched` v1 (stated in the evidence): manual triggering of pre-start instances
(`pre_start_tasks_to_trigger`) and start-task selection (`--start-task`, `_load_pool_from_tasks`).
-/
import CylcModel.SchedLemmasC46
namespace CylcModel.C46
open CylcModel.Sched

/-- **No task instance before the start point runs** (`prestart_not_run`): in every state of every run —
any instance graph, any list of main loops, submit results and job messages — every job launch of the
op, every proxy in the pool and every instance that ever left the pool (DB history) is at or after the
start cycle point.  No hypothesis on the graph. -/
theorem prestart_not_run (g : Graph) (ops : List Op) :
    ∀ s ∈ run g ops,
      (∀ l ∈ s.launched, g.start ≤ l.1) ∧ (∀ x ∈ s.pool, g.start ≤ x.pt) ∧ (∀ h ∈ s.hist, g.start ≤ h.pt) := by
  intro s hs
  have h := holds46_run g (fun _ => True) (fun _ _ _ => trivial) (fun _ _ _ _ _ _ _ => trivial) ops s hs
  exact ⟨h.2.2, fun x hx => (h.1 x hx).1, h.2.1⟩

/-- **Dependencies on pre-start instances count as satisfied** (`prestart_satisfied`): if the instance
graph follows the rule of `Dependency.get_prerequisite` (`preStartSatB`: on instances at or after the
start point, atoms pointing before the start point are initially satisfied — checked by the driver on
every extracted graph), then in every state of every run every atom of every pooled proxy that points
before the start point is satisfied. -/
theorem prestart_satisfied (g : Graph) (hwf : preStartSatB g = true) (ops : List Op) :
    ∀ s ∈ run g ops, ∀ x ∈ s.pool, ∀ pr ∈ x.pre, ∀ e ∈ pr.atoms, e.1.pt < g.start → e.2 = true := by
  intro s hs x hx
  have h := holds46_run g (PreStartOk g) (preStartOk_satisfy g)
    (fun _ _ _ _ ht hd hp => preStartOk_of_wf hwf ht hd hp) ops s hs
  exact (h.1 x hx).2

/-- Consequence: a pooled proxy whose (conjunctive) prerequisites only name pre-start instances never
waits — it is ready as far as prerequisites go, in every state of every run. -/
theorem prestart_only_ready (g : Graph) (hwf : preStartSatB g = true) (ops : List Op) :
    ∀ s ∈ run g ops, ∀ x ∈ s.pool,
      (∀ pr ∈ x.pre, pr.expr = none ∧ ∀ e ∈ pr.atoms, e.1.pt < g.start) → x.prereqsSatisfied = true := by
  intro s hs x hx hall
  unfold Proxy.prereqsSatisfied
  apply List.all_eq_true.mpr
  intro pr hpr
  unfold Pre.isSatisfied
  rw [(hall pr hpr).1]
  simp only
  apply List.all_eq_true.mpr
  intro e he
  exact prestart_satisfied g hwf ops s hs x hx pr hpr e he ((hall pr hpr).2 e he)

/-! ### non-vacuity -/

/-- `P1 = "a[-P1] => a"`, initial point 1, final point 3, started at 2 (`--startcp=2`) -/
def exGraph : Graph :=
  { icp := 1, fcp := 3, start := 2, runahead := 2, seqs := [[1, 2, 3]], stopPoint := some 3,
    tasks := [
      { name := "a",
        insts := [
          (1, { pre := [⟨[(⟨0, "a", "succeeded"⟩, true)], none⟩], sui := [],
                children := [("succeeded", [⟨"a", 2, false⟩])], nextParentless := some 2 }),
          (2, { pre := [⟨[(⟨1, "a", "succeeded"⟩, true)], none⟩], sui := [],
                children := [("succeeded", [⟨"a", 3, false⟩])], nextParentless := none }),
          (3, { pre := [⟨[(⟨2, "a", "succeeded"⟩, false)], none⟩], sui := [],
                children := [], nextParentless := none })],
        firstParentless := some 2,
        completion := CE.var "succeeded",
        outputs := [⟨"submitted", "submitted"⟩, ⟨"started", "started"⟩, ⟨"succeeded", "succeeded"⟩] }] }

-- the graph satisfies the hypothesis of `prestart_satisfied`
example : preStartSatB exGraph = true := by decide

-- the run is not empty-handed: the first main loop launches 2/a (its only prerequisite, on the
-- pre-start 1/a, counts as satisfied), nothing at point 1
example :
    ((run exGraph [.loop]).map fun s => (s.launched, s.pool.map fun x => (x.pt, x.name, x.status))) =
      [([], [(2, "a", Status.waiting)]), ([(2, "a", 1)], [(2, "a", Status.preparing)])] := by decide

-- and a graph that breaks the rule is rejected by the hypothesis
example : preStartSatB { exGraph with tasks := exGraph.tasks.map fun t =>
    { t with insts := t.insts.map fun pd => (pd.1, { pd.2 with pre := pd.2.pre.map fun pr =>
      { pr with atoms := pr.atoms.map fun e => (e.1, false) } }) } } = false := by decide

end CylcModel.C46
