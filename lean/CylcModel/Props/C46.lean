/-
C46 — Warm starts run only what follows the start point.
Statements only; proofs by reference to `SchedLemmasC46` (the warm-start invariant as a `Frame`).

Start-task starts (`--start-task`, `_load_pool_from_tasks`) are modelled in `SchedStart.lean` as another
start-up state of the same model (`initTasks`, `runTasks`): the theorems `start_tasks_*` below.
Not expressible over `Sched` v1 (stated in the evidence): manual triggering of pre-start instances
(`pre_start_tasks_to_trigger`); that the start point is the earliest start-task cycle
(`WorkflowConfig.process_start_cycle_point`, configuration loading — judged on the real scheduler only).
-/
import CylcModel.SchedLemmasC46
namespace CylcModel.C46
open CylcModel.Sched

/-- **No task instance before the start point runs** (`prestart_not_run`): in every state of every run —
any instance graph, any list of main loops, submit results and job messages — every job launch of the
op, every proxy in the pool and every instance that ever left the pool (DB history) is at or after the
start cycle point.  No hypothesis on the graph. -/
theorem prestart_not_run (g : Graph) (ops : List Op) :
    ∀ s ∈ run g ops,
      (∀ l ∈ s.launched, g.start ≤ l.1) ∧ (∀ x ∈ s.pool, g.start ≤ x.pt) ∧ (∀ h ∈ s.hist, g.start ≤ h.pt) := by
  intro s hs
  have h := holds46_run g (fun _ => True) (fun _ _ _ => trivial) (fun _ _ _ _ _ _ _ => trivial) ops s hs
  exact ⟨h.2.2, fun x hx => (h.1 x hx).1, h.2.1⟩

/-- **Dependencies on pre-start instances count as satisfied** (`prestart_satisfied`): if the instance
graph follows the rule of `Dependency.get_prerequisite` (`preStartSatB`: on instances at or after the
start point, atoms pointing before the start point are initially satisfied — checked by the driver on
every extracted graph), then in every state of every run every atom of every pooled proxy that points
before the start point is satisfied. -/
theorem prestart_satisfied (g : Graph) (hwf : preStartSatB g = true) (ops : List Op) :
    ∀ s ∈ run g ops, ∀ x ∈ s.pool, ∀ pr ∈ x.pre, ∀ e ∈ pr.atoms, e.1.pt < g.start → e.2 = true := by
  intro s hs x hx
  have h := holds46_run g (PreStartOk g) (preStartOk_satisfy g)
    (fun _ _ _ _ ht hd hp => preStartOk_of_wf hwf ht hd hp) ops s hs
  exact (h.1 x hx).2

/-- Consequence: a pooled proxy whose (conjunctive) prerequisites only name pre-start instances never
waits — it is ready as far as prerequisites go, in every state of every run. -/
theorem prestart_only_ready (g : Graph) (hwf : preStartSatB g = true) (ops : List Op) :
    ∀ s ∈ run g ops, ∀ x ∈ s.pool,
      (∀ pr ∈ x.pre, pr.expr = none ∧ ∀ e ∈ pr.atoms, e.1.pt < g.start) → x.prereqsSatisfied = true := by
  intro s hs x hx hall
  unfold Proxy.prereqsSatisfied
  apply List.all_eq_true.mpr
  intro pr hpr
  unfold Pre.isSatisfied
  rw [(hall pr hpr).1]
  simp only
  apply List.all_eq_true.mpr
  intro e he
  exact prestart_satisfied g hwf ops s hs x hx pr hpr e he ((hall pr hpr).2 e he)

/-! ### non-vacuity -/

/-- `P1 = "a[-P1] => a"`, initial point 1, final point 3, started at 2 (`--startcp=2`) -/
def exGraph : Graph :=
  { icp := 1, fcp := 3, start := 2, runahead := 2, seqs := [[1, 2, 3]], stopPoint := some 3,
    tasks := [
      { name := "a",
        insts := [
          (1, { pre := [⟨[(⟨0, "a", "succeeded"⟩, true)], none⟩], sui := [],
                children := [("succeeded", [⟨"a", 2, false⟩])], nextParentless := some 2 }),
          (2, { pre := [⟨[(⟨1, "a", "succeeded"⟩, true)], none⟩], sui := [],
                children := [("succeeded", [⟨"a", 3, false⟩])], nextParentless := none }),
          (3, { pre := [⟨[(⟨2, "a", "succeeded"⟩, false)], none⟩], sui := [],
                children := [], nextParentless := none })],
        firstParentless := some 2,
        completion := CE.var "succeeded",
        outputs := [⟨"submitted", "submitted"⟩, ⟨"started", "started"⟩, ⟨"succeeded", "succeeded"⟩] }] }

-- the graph satisfies the hypothesis of `prestart_satisfied`
example : preStartSatB exGraph = true := by decide

-- the run is not empty-handed: the first main loop launches 2/a (its only prerequisite, on the
-- pre-start 1/a, counts as satisfied), nothing at point 1
example :
    ((run exGraph [.loop]).map fun s => (s.launched, s.pool.map fun x => (x.pt, x.name, x.status))) =
      [([], [(2, "a", Status.waiting)]), ([(2, "a", 1)], [(2, "a", Status.preparing)])] := by decide

-- and a graph that breaks the rule is rejected by the hypothesis
example : preStartSatB { exGraph with tasks := exGraph.tasks.map fun t =>
    { t with insts := t.insts.map fun pd => (pd.1, { pd.2 with pre := pd.2.pre.map fun pr =>
      { pr with atoms := pr.atoms.map fun e => (e.1, false) } }) } } = false := by decide

/-! ### start tasks -/

/-- **With start tasks, only the start tasks and the instances they lead to run**
(`start_tasks_closure`): in every state of every start-task run — any instance graph, any start tasks,
any op list — every job launch and every pooled proxy is a start task, or a graph child (of some output)
of such an instance, or the next parentless instance of one (`LeadsTo`). -/
theorem start_tasks_closure (g : Graph) (starts : List (Int × String)) (ops : List Op) :
    ∀ s ∈ runTasks g starts ops,
      (∀ l ∈ s.launched, LeadsTo g starts (l.1, l.2.1)) ∧ (∀ x ∈ s.pool, LeadsTo g starts (x.pt, x.name)) := by
  intro s hs
  have h := holdsCl_runTasks g starts ops s hs
  exact ⟨h.2, h.1⟩

/-- every start task that `spawn_task` accepts (a valid instance at or after the start point) is in the
pool when the run begins -/
theorem start_tasks_loaded (g : Graph) (starts : List (Int × String)) (k : Int × String) (hk : k ∈ starts)
    (hsp : (spawnTask g {} k.2 k.1).isSome = true) :
    ∃ x ∈ (initTasks g starts).pool, x.pt = k.1 ∧ x.name = k.2 :=
  initTasks_mem g starts k hk hsp

/-- `prestart_not_run` for start-task runs (the start point is the earliest start-task cycle) -/
theorem start_tasks_prestart_not_run (g : Graph) (starts : List (Int × String)) (ops : List Op) :
    ∀ s ∈ runTasks g starts ops,
      (∀ l ∈ s.launched, g.start ≤ l.1) ∧ (∀ x ∈ s.pool, g.start ≤ x.pt) ∧ (∀ h ∈ s.hist, g.start ≤ h.pt) := by
  intro s hs
  have h := holds46_runTasks g (fun _ => True) (fun _ _ _ => trivial) (fun _ _ => trivial)
    (fun _ _ _ _ _ _ _ => trivial) starts ops s hs
  exact ⟨h.2.2, fun x hx => (h.1 x hx).1, h.2.1⟩

/-- `prestart_satisfied` for start-task runs -/
theorem start_tasks_prestart_satisfied (g : Graph) (hwf : preStartSatB g = true) (starts : List (Int × String))
    (ops : List Op) :
    ∀ s ∈ runTasks g starts ops, ∀ x ∈ s.pool, ∀ pr ∈ x.pre, ∀ e ∈ pr.atoms, e.1.pt < g.start → e.2 = true := by
  intro s hs x hx
  have h := holds46_runTasks g (PreStartOk g) (preStartOk_satisfy g) (fun pre _ => forceAll_preStartOk g pre)
    (fun _ _ _ _ ht hd hp => preStartOk_of_wf hwf ht hd hp) starts ops s hs
  exact (h.1 x hx).2

/-- `P1 = "a => b => c"`, points 8..10, started with `--start-task=9/b --start-task=10/c` (start point 9) -/
def stGraph : Graph :=
  let inst (pre : List Pre) (ch : List (String × List Child)) (np : Option Int) : InstDef :=
    { pre := pre, sui := [], children := ch, nextParentless := np }
  let outs : List OutDef := [⟨"submitted", "submitted"⟩, ⟨"started", "started"⟩, ⟨"succeeded", "succeeded"⟩]
  { icp := 8, fcp := 10, start := 9, runahead := 2, seqs := [[8, 9, 10]], stopPoint := some 10,
    tasks := [
      { name := "a", firstParentless := some 9, completion := CE.var "succeeded", outputs := outs,
        insts := [8, 9, 10].map fun p =>
          (p, inst [] [("succeeded", [⟨"b", p, false⟩])] (if p < 10 then some (p + 1) else none)) },
      { name := "b", firstParentless := none, completion := CE.var "succeeded", outputs := outs,
        insts := [8, 9, 10].map fun p =>
          (p, inst [⟨[(⟨p, "a", "succeeded"⟩, false)], none⟩] [("succeeded", [⟨"c", p, false⟩])] none) },
      { name := "c", firstParentless := none, completion := CE.var "succeeded", outputs := outs,
        insts := [8, 9, 10].map fun p => (p, inst [⟨[(⟨p, "b", "succeeded"⟩, false)], none⟩] [] none) }] }

-- both start tasks are loaded with their prerequisites satisfied, and the first main loop launches them;
-- nothing of `a` is ever in the pool
example :
    ((runTasks stGraph [(9, "b"), (10, "c")] [.loop]).map fun s =>
      (s.launched, s.pool.map fun x => (x.pt, x.name, x.prereqsSatisfied))) =
      [([], [(9, "b", true), (10, "c", true)]),
       ([(9, "b", 1), (10, "c", 1)], [(9, "b", true), (10, "c", true)])] := by decide

-- a start task before the start point is refused (what happens when the start point is computed wrongly)
example : ((initTasks { stGraph with start := 10 } [(9, "b"), (10, "c")]).pool.map fun x => (x.pt, x.name)) =
    [(10, "c")] := by decide

end CylcModel.C46
