/-
C08S — flow numbers at scheduler level (the scheduler half of C08: "Children spawned by a task carry that task's
flow numbers (merged into any existing instance, which then belongs to the union), and a task already finished and
complete in a flow is not re-run when that flow reaches it again").
Statements only, over the `Sched3Set` model (scheduler core + flows + `cylc set`), for all instance graphs and all
states; proofs by reference to `Sched3SetFlow` / `Sched3SetSpawn`.
-/
import CylcModel.Sched3SetFlowRun2
namespace CylcModel.C08S
open CylcModel.Sched3Set

/-- flow numbers `a` all occur in `b` -/
def Sub (a b : Flows) : Prop := ∀ f ∈ a, f ∈ b

/-- **child_inherits** (one child of one completed output).  `spawnChild g p n out` is the body of the child loop
of `spawn_on_output` for the output `out` of the parent `(p, n)` (a pooled proxy or the transient object of
`cylc set`), `parentFlows` the parent's flow numbers.  If the child is in the pool afterwards it carries every flow
number of the parent; a child that was not in the pool carries exactly the parent's flows; an existing instance
keeps its own flows as well (the union).  The parent as its own child (`a => !a`) is skipped by the code. -/
theorem child_inherits (g : Graph) (p : Int) (n out : String) (acc : State × List (Int × String)) (c : Child)
    (hne : ¬ (c.pt = p ∧ c.name = n)) (y : Proxy)
    (hy : (spawnChild g p n out acc c).1.get? c.pt c.name = some y) :
    Sub (parentFlows acc.1 p n) y.flows ∧
    (acc.1.get? c.pt c.name = none → y.flows = parentFlows acc.1 p n) ∧
    (∀ y0, acc.1.get? c.pt c.name = some y0 → Sub y0.flows y.flows) :=
  spawnChild_child_flows g p n out acc c hne y hy

/-- **child_inherits** over the whole child loop of `spawn_on_output` (children `l1 ++ c :: l2` in any order):
a child that is in the pool when its turn is over is in the pool when the loop ends and carries every flow number
the parent had at its turn; later children only add flow numbers. -/
theorem children_inherit (g : Graph) (p : Int) (n out : String) (l1 l2 : List Child) (c : Child)
    (acc : State × List (Int × String)) (hne : ¬ (c.pt = p ∧ c.name = n)) (y1 : Proxy)
    (h1 : ((l1 ++ [c]).foldl (spawnChild g p n out) acc).1.get? c.pt c.name = some y1) :
    ∃ y, ((l1 ++ c :: l2).foldl (spawnChild g p n out) acc).1.get? c.pt c.name = some y ∧
      Sub (parentFlows (l1.foldl (spawnChild g p n out) acc).1 p n) y.flows :=
  Sched3Set.children_inherit g p n out l1 l2 c acc hne y1 h1

/-- ... and for a pooled parent `x`: every flow number `x` had when `spawn_on_output` began. -/
theorem children_inherit_pooled (g : Graph) (p : Int) (n out : String) (l1 l2 : List Child) (c : Child)
    (acc : State × List (Int × String)) (hne : ¬ (c.pt = p ∧ c.name = n)) (x y1 : Proxy)
    (hx : acc.1.get? p n = some x)
    (h1 : ((l1 ++ [c]).foldl (spawnChild g p n out) acc).1.get? c.pt c.name = some y1) :
    ∃ y, ((l1 ++ c :: l2).foldl (spawnChild g p n out) acc).1.get? c.pt c.name = some y ∧ Sub x.flows y.flows :=
  Sched3Set.children_inherit_pooled g p n out l1 l2 c acc hne x y1 hx h1

/-- flow numbers of pooled instances never get lost in the child loop, and pooled instances stay pooled -/
theorem child_loop_flows_grow (g : Graph) (p : Int) (n out : String) (cs : List Child)
    (acc : State × List (Int × String)) (q : Int) (m : String) (y : Proxy) (hy : acc.1.get? q m = some y) :
    ∃ y', (cs.foldl (spawnChild g p n out) acc).1.get? q m = some y' ∧ Sub y.flows y'.flows :=
  spawnChildren_fold_mono g p n out cs acc q m y hy

/-- **merged union**: `merge_flows` of the flow numbers `f` into the pooled proxy `x` leaves at that key a proxy
with exactly the flows `x.flows ∪ f` (every other pooled proxy is what it was) -/
theorem merge_union (g : Graph) (s : State) (x : Proxy) (f : Flows)
    (hx : s.get? x.pt x.name = some x) (h : (f.isEmpty || f == x.flows) = false) :
    (∃ y, (mergeFlows g s x f).get? x.pt x.name = some y ∧ y.flows = fUnion x.flows f) ∧
    (∀ p n w, s.get? p n = some w → ¬ (p = x.pt ∧ n = x.name) → (mergeFlows g s x f).get? p n = some w) :=
  mergeFlows_at g s x f hx h

/-- `fUnion` is the set union -/
theorem fUnion_is_union (a b : Flows) (m : Nat) : m ∈ fUnion a b ↔ m ∈ a ∨ m ∈ b := mem_fUnion a b m

/-- merging no flows (a parent without flows), or the flows the proxy has, changes nothing -/
theorem merge_same_noop (g : Graph) (s : State) (x : Proxy) (f : Flows) (h : (f.isEmpty || f == x.flows) = true) :
    mergeFlows g s x f = s := mergeFlows_noop g s x f h

/-- **what is spawned carries the flows it is spawned in**: `spawn_task` (including the children it spawns for
finished tasks whose flow wait ends) leaves every pooled proxy alone; every proxy it adds, and the proxy it
returns, has exactly the flow numbers given. -/
theorem spawn_in_given_flows (g : Graph) (fuel : Nat) (s : State) (name : String) (p : Int) (F : Flows) (fw : Bool) :
    (∀ q m y, s.get? q m = some y → (spawnTask g fuel s name p F fw).1.get? q m = some y) ∧
    (∀ q m y, (spawnTask g fuel s name p F fw).1.get? q m = some y → s.get? q m = some y ∨ y.flows = F) ∧
    (∀ y, (spawnTask g fuel s name p F fw).2 = some y → y.flows = F ∧ y.pt = p ∧ y.name = name) :=
  spawnTask_ok g fuel s name p F fw

/-- **no_rerun_in_flow**: `spawn_task name p F` returns no proxy (the instance does not enter the pool, hence does not
run) when the database history of the instance in the flows `F` (`_get_task_history`: the rows whose flows meet `F`)
ends in a final status and the outputs recorded in these rows satisfy the task's completion condition. -/
theorem no_rerun_in_flow (g : Graph) (fuel : Nat) (s : State) (name : String) (p : Int) (F : Flows) (fw : Bool)
    (x0 : Proxy) (t : TaskDefn) (hmk : mkProxy g name p = some x0) (ht : g.task? name = some t)
    (st : Status) (hprev : (taskHistory s name p F).2.1 = some st) (hfin : st.isFinal = true)
    (hcomp : isComplete t (loadHistoricalOutputs g s
      { x0 with flows := F, status := st, submitNum := (taskHistory s name p F).1, flowWait := fw }).2.done = true) :
    (spawnTask g (fuel + 1) s name p F fw).2 = none :=
  spawnTask_no_rerun g fuel s name p F fw x0 t hmk ht st hprev hfin hcomp

/-! ### flow numbers over whole runs -/

/-- **run invariant** (every instance graph; every list of main loops, submit results, job messages, hold / stop /
pause commands, `cylc set` commands with any `--flow` option, restarts): every flow number carried by a pooled proxy
or by a transient object is in the `workflow_flows` table; the flows the flow manager knows are in the table; every
number in the table is at most the flow counter or a flow the manager knows; flow 1 is in the table. -/
theorem flow_invariant_all_runs (g : Graph) (ops : List Op) : ∀ s ∈ run g ops, FlowInv s :=
  flowInv_run g ops

/-- **fresh_flow at scheduler level** ("a new flow started by command always gets a number never used before in the
workflow's history, including across restarts"): in every state of every run the number `--flow=new` gets
(`FlowMgr.get_flow()` = `newFlow`) is carried by no pooled proxy and no transient object and is not in the
`workflow_flows` table (which, by the invariant, holds every number that was ever carried). -/
theorem new_flow_is_fresh (g : Graph) (ops : List Op) : ∀ s ∈ run g ops,
    (newFlow s).2 ∉ s.flowsDb ∧ (∀ y ∈ s.pool, (newFlow s).2 ∉ y.flows) ∧ (∀ y ∈ s.ghosts, (newFlow s).2 ∉ y.flows) :=
  fun s hs => newFlow_fresh s (flowInv_run g ops s hs)

/-- the table only grows under `cli_to_flow_nums`, and the flows of the command are registered in it -/
theorem command_flows_registered (s : State) (fl : FlowSpec) (h : FlowInv s) :
    FlowInv (cliFlows s fl).1 ∧ ∀ a ∈ (cliFlows s fl).2, a ∈ (cliFlows s fl).1.flowsDb :=
  flowInv_cliFlows s fl h

/-! ### non-vacuity -/

def stdOut : List OutDef :=
  [⟨"submitted", "submitted"⟩, ⟨"started", "started"⟩, ⟨"succeeded", "succeeded"⟩, ⟨"failed", "failed"⟩]

/-- `a => b`, one cycle point -/
def exG : Graph :=
  { icp := 1, fcp := 1, start := 1, runahead := 1, seqs := [[1]], stopPoint := some 1,
    tasks := [
      { name := "a",
        insts := [(1, { pre := [], sui := [], children := [("succeeded", [⟨"b", 1, false⟩])], nextParentless := none })],
        firstParentless := some 1, completion := CE.var "succeeded", outputs := stdOut, required := ["succeeded"] },
      { name := "b",
        insts := [(1, { pre := [{ atoms := [(⟨1, "a", "succeeded"⟩, false)], expr := none }], sui := [], children := [],
                        nextParentless := none, validPre := [⟨1, "a", "succeeded"⟩] })],
        firstParentless := none, completion := CE.var "succeeded", outputs := stdOut, required := ["succeeded"] }] }

/-- `cylc set --flow=1 --flow=2 --out=succeeded 1/a` on the start-up state: `1/a` (flows 1) gets flow 2 merged in,
its child `1/b` is spawned in the flows 1, 2 with the prerequisite satisfied, `1/a` is complete and leaves -/
def exAfterSet : State := setCmd exG (init exG) (1, "a") ["succeeded"] .none (.nums [1, 2]) false

example : exAfterSet.pool.map (fun x => (x.pt, x.name, x.flows, x.prereqsSatisfied)) = [(1, "b", [1, 2], true)] := by
  decide

-- `child_inherits`, hypotheses satisfiable: the child loop for `1/a:succeeded` on a state with `1/a` pooled in flows 1
example : ((spawnChild exG 1 "a" "succeeded" (init exG, []) ⟨"b", 1, false⟩).1.get? 1 "b").map (·.flows) = some [1] ∧
    parentFlows (init exG) 1 "a" = [1] := by decide

-- `no_rerun_in_flow`: after the set above the database records 1/a as succeeded and complete in flows 1,2;
-- flow 2 (or 1) reaching it again does not spawn it, a new flow 3 does
example : (spawnTask exG 3 exAfterSet "a" 1 [2] false).2.isNone = true ∧
    (spawnTask exG 3 exAfterSet "a" 1 [3] false).2.isSome = true := by decide

example : (taskHistory exAfterSet "a" 1 [2]).2.1 = some Status.succeeded := by decide

-- a run with a `cylc set --flow=new`, a stop and a restart: the next new flow number is 3, carried by nothing
example : (run exG [.set [(1, "a")] ["succeeded"] .none .new false, .loop, .stop "REQUEST(NOW-NOW)", .loop, .restart]).getLast?.map
    (fun s => ((newFlow s).2, s.flowsDb, s.pool.map (fun x => (x.name, x.flows)))) = some (3, [1, 2], [("b", [1, 2])]) := by
  decide

end CylcModel.C08S
