/-
C26 — Task pool bookkeeping is internally consistent.
Statements only; proofs by reference to `SchedLemmas` except the small `PoolCache` inductions.
-/
import CylcModel.SchedLemmas
import CylcModel.PoolCache
namespace CylcModel.C26
open CylcModel.Sched

/-- **No two proxies for one (cycle point, task name)**: in every state of every run of the scheduler
model — any instance graph, any list of main loops, submit results and job messages. -/
theorem pool_no_duplicates (g : Graph) (ops : List Op) :
    ∀ s ∈ run g ops, ((s.pool.map fun x => (x.pt, x.name)).Nodup) :=
  nodup_run g ops

/-- **The `task_pool` table is exactly the pool after a main-loop iteration** (unless that iteration
shut the scheduler down): status, flows and held state included, since the rows *are* the proxies. -/
theorem db_pool_exact (g : Graph) (s : State) (h : (mainLoop g s).stop = none) (h0 : s.stop = none) :
    (mainLoop g s).db = some (mainLoop g s).pool := by
  have hfin : ∀ t : State, (finishLoop g t).db = some (finishLoop g t).pool := by
    intro t
    by_cases hu : (t.schedUpd || t.pool.any (·.upd)) = true
    · simp [finishLoop, hu]
    · simp only [finishLoop, hu, Bool.false_eq_true, if_false, Bool.not_false, if_true]
      unfold checkStalled
      split
      · rfl
      · split <;> rfl
  unfold mainLoop at h ⊢
  simp only [h0, Option.isSome_none, Bool.false_eq_true, if_false] at h ⊢
  split
  · rename_i hauto
    simp [hauto] at h
  · exact hfin _

/-- a one-task graph used for the non-vacuity examples -/
def exGraph : Graph :=
  { icp := 1, fcp := 1, start := 1, runahead := 1, seqs := [[1]], stopPoint := some 1,
    tasks := [
      { name := "a",
        insts := [(1, { pre := [], sui := [], children := [], nextParentless := none })],
        firstParentless := some 1,
        completion := CE.var "succeeded",
        outputs := [{ trigger := "succeeded", message := "succeeded" }] }] }

-- non-vacuity: one main loop: the table lists the proxy as `preparing`
example :
    (mainLoop exGraph (init exGraph)).stop = none ∧
      ((mainLoop exGraph (init exGraph)).db.map fun l => l.map fun x => (x.pt, x.name, x.status)) =
        some [(1, "a", Status.preparing)] := by decide

/-! ### cycle buckets and the cached task list -/

theorem inv_add {α : Type} (s : PoolCache.St α) (p : Int) (k : String) (x : α) (h : PoolCache.Inv s) :
    PoolCache.Inv (PoolCache.add s p k x) := by
  obtain ⟨hc, hb⟩ := h
  unfold PoolCache.add
  split
  · exact ⟨hc, hb⟩
  · refine ⟨by intro h; simp at h, ?_⟩
    intro e he
    simp only at he
    split at he
    · obtain ⟨e0, he0, rfl⟩ := List.mem_map.mp he
      split
      · simp
      · exact hb e0 he0
    · rcases List.mem_append.mp he with h | h
      · exact hb e h
      · simp at h; subst h; simp

theorem inv_remove {α : Type} (s : PoolCache.St α) (p : Int) (k : String) (h : PoolCache.Inv s) :
    PoolCache.Inv (PoolCache.remove s p k) := by
  obtain ⟨hc, hb⟩ := h
  unfold PoolCache.remove
  split
  · refine ⟨by intro h; simp at h, ?_⟩
    intro e he
    simp only at he
    have := (List.mem_filter.mp he).2
    intro hnil; simp [hnil] at this
  · exact ⟨hc, hb⟩

theorem inv_swap {α : Type} (s : PoolCache.St α) (p : Int) (k : String) (x : α) (h : PoolCache.Inv s) :
    PoolCache.Inv (PoolCache.swap s p k x) := by
  obtain ⟨hc, hb⟩ := h
  unfold PoolCache.swap
  split
  · refine ⟨by intro h; simp at h, ?_⟩
    intro e he
    simp only at he
    obtain ⟨e0, he0, rfl⟩ := List.mem_map.mp he
    split
    · intro h; exact hb e0 he0 (by simpa using h)
    · exact hb e0 he0
  · exact ⟨hc, hb⟩

theorem inv_get {α : Type} (s : PoolCache.St α) (h : PoolCache.Inv s) :
    PoolCache.Inv (PoolCache.getTasks s).1 := by
  obtain ⟨hc, hb⟩ := h
  unfold PoolCache.getTasks
  split
  · exact ⟨fun _ => rfl, hb⟩
  · exact ⟨hc, hb⟩

/-- **No empty cycle bucket, and the cached list equals the true contents whenever the
`changed` flag is down** — for every sequence of add / remove / swap / get_tasks operations. -/
theorem cache_inv {α : Type} (ops : List (PoolCache.Op α)) :
    PoolCache.Inv (ops.foldl PoolCache.step ({} : PoolCache.St α)) := by
  have hstep : ∀ (s : PoolCache.St α) (op : PoolCache.Op α), PoolCache.Inv s → PoolCache.Inv (PoolCache.step s op) := by
    intro s op h
    cases op with
    | add p k x => exact inv_add s p k x h
    | remove p k => exact inv_remove s p k h
    | swap p k x => exact inv_swap s p k x h
    | get => exact inv_get s h
  have : ∀ (ops : List (PoolCache.Op α)) (s : PoolCache.St α), PoolCache.Inv s →
      PoolCache.Inv (ops.foldl PoolCache.step s) := by
    intro ops; induction ops with
    | nil => intro s h; exact h
    | cons op ops ih => intro s h; exact ih _ (hstep s op h)
  exact this ops _ ⟨fun _ => rfl, by intro e he; simp at he⟩

/-- `get_tasks` returns the true contents -/
theorem getTasks_exact {α : Type} (s : PoolCache.St α) (h : PoolCache.Inv s) :
    (PoolCache.getTasks s).2 = PoolCache.flatten s.buckets := by
  unfold PoolCache.getTasks
  split
  · rfl
  · rename_i hc
    exact h.1 (by simpa using hc)

example : (PoolCache.getTasks ((PoolCache.step (PoolCache.step (PoolCache.step ({} : PoolCache.St Nat)
    (.add 1 "1/a" 7)) (.add 1 "1/b" 8)) (.remove 1 "1/a")))).2 = [8] := by decide

end CylcModel.C26
