/-
C42 — The subprocess pool runs every command once, within its bounds.

"Every command put into the process pool gets exactly one callback (including when it times out
or the pool is stopping), no more than the configured pool size run concurrently, and
job-submission commands are not started once the pool is stopping."

Statements are for **all** command tables, pool sizes, timeouts, behaviour flags and operation
histories of any length (`put`, `process` with any set of children found exited, clock advance,
`release` of a slow command, `set_stopping`, `close`, `terminate`). Which children have exited
when the pool polls them is an input of every operation (environment), so the statements hold
for every exit order and timing. Helper lemmas: `CylcModel/SubProcLemmas.lean` (counting),
`CylcModel/SubProcRefine.lean` (coupling invariant pool ↔ monitor).

`Flags` are the two behaviours probed from the live code (`Generated/SubProcFlags.lean`):
whether `process()` / `terminate()` drop the callback of queued commands they refuse.
`Flags.sound` = nothing dropped (the code after findings/C42-fix-1.diff).
-/
import CylcModel.SubProcRefine
namespace CylcModel.C42
open CylcModel.SubProc

deriving instance DecidableEq for Except

/-! ### bounded concurrency -/

/-- **bounded.** After every history from the empty pool, at most `size` commands are running
(and the size itself never changes). All flags, all exit orders. -/
theorem bounded (fl : Flags) (size : Nat) (timeout : Int) (ops : List Op) :
    (exec fl (init size timeout) ops).1.running.length ≤ size ∧
    (exec fl (init size timeout) ops).1.size = size :=
  exec_running_le fl ops (init size timeout) (Nat.zero_le _)

/-! ### no job submission once stopping -/

/-- **no_submit_when_stopping.** In a stopping pool no operation starts a job-submit command. -/
theorem no_submit_when_stopping (fl : Flags) (s : State) (op : Op) (h : s.stopping = true) (c : Cmd)
    (hc : Ev.start c ∈ (step fl s op).2) : c.submit = false :=
  step_starts fl s op h c hc

/-- **stopping_forever.** Whatever happened before (`pre`), once the pool has been set stopping
(by `set_stopping`, `close` or `terminate`: `stop`), it stays stopping and no job-submit command is
started by any later history `post`. -/
theorem stopping_forever (fl : Flags) (size : Nat) (timeout : Int) (pre post : List Op) (stop : Op)
    (hstop : isStop stop = true) :
    let s := (exec fl (init size timeout) (pre ++ [stop])).1
    s.stopping = true ∧ (exec fl s post).1.stopping = true ∧
      ∀ c, Ev.start c ∈ (exec fl s post).2 → c.submit = false := by
  intro s
  have hs : s.stopping = true := by
    show (exec fl (init size timeout) (pre ++ [stop])).1.stopping = true
    rw [exec_append]
    cases stop with
    | setStopping => simp [exec, step]
    | close => simp [exec, step]
    | terminate ex => simp [exec, step, doProcess]
    | put c => simp [isStop] at hstop
    | process ex => simp [isStop] at hstop
    | advance dt => simp [isStop] at hstop
    | release i => simp [isStop] at hstop
  exact ⟨hs, exec_stopping fl post s hs⟩

/-! ### callbacks -/

/-- **at_most_one_callback.** For every command id, in every history and for either behaviour of
the code: callbacks received + still queued + still running ≤ number of times it was put. In
particular a command put once is never called back twice, and never called back while it is
still queued or running. -/
theorem at_most_one_callback (fl : Flags) (size : Nat) (timeout : Int) (ops : List Op) (id : Nat) :
    cbN id (exec fl (init size timeout) ops).2 + qN id (exec fl (init size timeout) ops).1.queue
      + rN id (exec fl (init size timeout) ops).1.running ≤ putN id ops := by
  simpa [init, qN_nil, rN_nil] using exec_count_le fl id ops (init size timeout)

/-- **conservation.** When no callback is dropped (`Flags.sound`) the count is exact: every
command is, at every moment, queued, running or called back — exactly as many times as it was put. -/
theorem conservation (size : Nat) (timeout : Int) (ops : List Op) (id : Nat) :
    cbN id (exec Flags.sound (init size timeout) ops).2 + qN id (exec Flags.sound (init size timeout) ops).1.queue
      + rN id (exec Flags.sound (init size timeout) ops).1.running = putN id ops := by
  simpa [init, qN_nil, rN_nil] using
    exec_count_eq Flags.sound id ops (init size timeout) (runSafe_sound ops _)

/-- The full statement for a behaviour of the code: at quiescence (nothing queued, nothing
running) every command that was put once has been called back exactly once. -/
def one_callback_full (fl : Flags) : Prop :=
  ∀ (size : Nat) (timeout : Int) (ops : List Op) (id : Nat), putN id ops = 1 →
    (exec fl (init size timeout) ops).1.queue = [] → (exec fl (init size timeout) ops).1.running = [] →
    cbN id (exec fl (init size timeout) ops).2 = 1

/-- **one_callback_sound (full statement, no callback dropped).** -/
theorem one_callback_sound : one_callback_full Flags.sound := by
  intro size timeout ops id hput hq hr
  have := conservation size timeout ops id
  rw [hq, hr, hput, qN_nil, rN_nil] at this
  omega

/-- **one_callback_partial (either behaviour).** The same for the code as it is, restricted to
histories on which the dropping branches cannot lose anything (`DropFree`): no `terminate` (unless
`dropTerm = false`), and no job-submit command put or never set stopping (unless `dropStop = false`).
Missing for the full statement: queued job-submit commands refused by `process()` while stopping and
commands drained by `terminate()` — see the counterexamples. -/
theorem one_callback_partial (fl : Flags) (size : Nat) (timeout : Int) (ops : List Op) (id : Nat)
    (hfree : DropFree fl ops) (hput : putN id ops = 1)
    (hq : (exec fl (init size timeout) ops).1.queue = []) (hr : (exec fl (init size timeout) ops).1.running = []) :
    cbN id (exec fl (init size timeout) ops).2 = 1 := by
  have hsafe : RunSafe fl (init size timeout) ops := by
    apply runSafe_of fl ops hfree.1
    rcases hfree.2 with h | h | h
    · exact Or.inl h
    · exact Or.inr (Or.inl ⟨h, by simp [init]⟩)
    · exact Or.inr (Or.inr ⟨h, rfl⟩)
  have h0 := exec_count_eq fl id ops (init size timeout) hsafe
  rw [hq, hr, hput] at h0
  have e1 : qN id (init size timeout).queue = 0 := rfl
  have e2 : rN id (init size timeout).running = 0 := rfl
  rw [e1, e2, qN_nil, rN_nil] at h0
  omega

/-- witness of finding `stopping-drop`: a job-submit command is queued, the pool is set stopping,
`process()` removes it from the queue without calling back -/
def witnessStop : List Op := [.put ⟨0, true, .quick, 0, false, false⟩, .setStopping, .process []]

/-- witness of finding `terminate-drop`: a command is queued when `terminate()` drains the queue -/
def witnessTerm : List Op := [.put ⟨0, false, .quick, 0, false, false⟩, .terminate []]

/-- **drop_stop_counterexample.** With `dropStop` the full statement is false. -/
theorem drop_stop_counterexample (b : Bool) : ¬ one_callback_full ⟨true, b⟩ := by
  intro h
  have := h 1 10 witnessStop 0 (by decide) (by cases b <;> decide) (by cases b <;> decide)
  revert this
  cases b <;> decide

/-- **drop_term_counterexample.** With `dropTerm` the full statement is false. -/
theorem drop_term_counterexample (b : Bool) : ¬ one_callback_full ⟨b, true⟩ := by
  intro h
  have := h 1 10 witnessTerm 0 (by decide) (by cases b <;> decide) (by cases b <;> decide)
  revert this
  cases b <;> decide

/-- **terminate_quiescent.** `terminate()` leaves nothing queued; it leaves nothing running exactly
when every child is found exited by the single poll that follows the kill (environment: finding
`terminate-no-wait`). -/
theorem terminate_quiescent (fl : Flags) (s : State) (exited : List Nat)
    (h : ∀ r ∈ s.running, r.cmd.id ∈ exited) :
    (step fl s (.terminate exited)).1.queue = [] ∧ (step fl s (.terminate exited)).1.running = [] := by
  constructor
  · simp [step, doProcess, launch_nil]
  · simp only [step, doProcess, launch_nil]
    exact reap_all_exited _ _ _ _ _ h

/-- **code_as_probed.** The statement about the code under test, whichever behaviour `translate()`
found in it: the full statement when it drops nothing (`codeDropStop = codeDropTerm = false`, i.e.
after findings/C42-fix-1.diff), restricted to drop-free histories otherwise. -/
theorem code_as_probed (size : Nat) (timeout : Int) (ops : List Op) (id : Nat)
    (h : (codeDropStop = false ∧ codeDropTerm = false) ∨ DropFree Flags.code ops) (hput : putN id ops = 1)
    (hq : (exec Flags.code (init size timeout) ops).1.queue = [])
    (hr : (exec Flags.code (init size timeout) ops).1.running = []) :
    cbN id (exec Flags.code (init size timeout) ops).2 = 1 := by
  apply one_callback_partial Flags.code size timeout ops id _ hput hq hr
  rcases h with h | h
  · exact ⟨Or.inl h.2, Or.inl h.1⟩
  · exact h

/-! ### the 255 callback -/

/-- **callback_255_instead.** The second callback of a command (`callback_255`) is called only for a
running ssh / rsync command that carries one and exited 255 - and then it is the command's single
callback event: all counting theorems above (`at_most_one_callback`, `conservation`,
`one_callback_sound`) count it like any other callback, so it never comes in addition to the
ordinary one. -/
theorem callback_255_instead (fl : Flags) (s : State) (op : Op) (id : Nat)
    (h : Ev.cb id .host255 ∈ (step fl s op).2) :
    ∃ r ∈ s.running, r.cmd.id = id ∧ r.cmd.remote = true ∧ r.cmd.cb255 = true ∧ r.cmd.code = 255 :=
  step_host255 fl s op id h

/-! ### the judge of the driver accepts the model (refinement) -/

/-- **monitor_accepts.** For either behaviour of the code, every pool size and every history in which
each command id is put at most once, the property monitor `Spec.monitor` (the judge run on the
implementation: own bookkeeping of commands put / started / called back) never rejects the
model's events: no second callback, no event for a command never put, never more children alive
(started and not yet called back) than the pool size, no command started twice, no job-submit command
started once stopping. -/
theorem monitor_accepts (fl : Flags) (size : Nat) (timeout : Int) (ops : List Op) (hd : ∀ id, putN id ops ≤ 1) :
    ∃ m, Spec.monitor size 0 {} ops ((trace fl (init size timeout) ops).map (·.1)) = .ok m := by
  obtain ⟨m, h, _⟩ := monitor_run fl ops 0 (init size timeout) {} (si_init fl size timeout) hd (by simp)
  exact ⟨m, h⟩

/-- **judge_accepts_sound.** When no callback is dropped, the whole judge - the monitor plus "at
quiescence every command put has been called back" - accepts the model's run of every history with
distinct command ids that ends with nothing queued and nothing running. -/
theorem judge_accepts_sound (size : Nat) (timeout : Int) (ops : List Op) (hd : ∀ id, putN id ops ≤ 1)
    (hq : (exec Flags.sound (init size timeout) ops).1.queue = [])
    (hr : (exec Flags.sound (init size timeout) ops).1.running = []) :
    Spec.judge size ops ((trace Flags.sound (init size timeout) ops).map (·.1)) = .ok () := by
  obtain ⟨m, h, hsi⟩ := monitor_run Flags.sound ops 0 (init size timeout) {} (si_init _ size timeout) hd (by simp)
  have hall : ∀ id ∈ m.put, id ∈ m.called := by
    intro id hid
    have := hsi.ri.all_acc rfl id hid
    rw [hq, hr] at this
    simpa using this
  have hfind : (m.put.reverse.find? fun i => !m.called.contains i) = none := by
    rw [List.find?_eq_none]
    intro x hx
    have := hall x (List.mem_reverse.1 hx)
    simpa using this
  have hm : Spec.monitor size 0 {} ops ((trace Flags.sound (init size timeout) ops).map (·.1)) = .ok m := h
  simp only [Spec.judge, hm, bind, Except.bind, Spec.checkQuiescent, hfind]

/-! ### non-vacuity -/

/-- a history with a full pool, a timeout, an unstartable command, a stop and a terminate -/
def exOps : List Op :=
  [.put ⟨0, false, .hang, 0, false, false⟩, .put ⟨1, true, .quick, 3, false, false⟩, .put ⟨2, false, .bad, 0, false, false⟩, .put ⟨3, false, .slow, 2, false, false⟩,
   .process [], .advance 11, .process [], .process [1], .release 3, .setStopping, .put ⟨4, true, .quick, 0, false, false⟩,
   .process [3], .terminate []]

/-- `bounded` is tight: the pool of size 1 is full after the first `process` -/
example : (exec Flags.sound (init 1 10) (exOps.take 5)).1.running.length = 1 := by decide

/-- on `exOps` everything happens: timeout of 0, exit of 1, oserr of 2, exit of 3, refusal of 4 -/
example : (exec Flags.sound (init 1 10) exOps).2 =
    [.start ⟨0, false, .hang, 0, false, false⟩, .cb 0 .timeout, .start ⟨1, true, .quick, 3, false, false⟩, .cb 1 (.exit 3), .cb 2 .oserr,
     .start ⟨3, false, .slow, 2, false, false⟩, .cb 4 .stopping, .cb 3 (.exit 2)] := by decide

/-- hypotheses of `one_callback_sound` met on `exOps` for every id put -/
example : putN 3 exOps = 1 ∧ (exec Flags.sound (init 1 10) exOps).1.queue = [] ∧
    (exec Flags.sound (init 1 10) exOps).1.running = [] := by decide

/-- `stopping_forever`: a stop operation exists; `no_submit_when_stopping`: a stopping state that still starts
(non-submit) commands -/
example : isStop .close = true := rfl
example : (step Flags.sound { init 2 10 with stopping := true, queue := [⟨0, true, .quick, 0, false, false⟩, ⟨1, false, .quick, 0, false, false⟩] }
    (.process [])).2 = [.cb 0 .stopping, .start ⟨1, false, .quick, 0, false, false⟩] := by decide

/-- `DropFree` is satisfiable for the dropping flags by histories that do stop (no job-submit command) -/
example : DropFree ⟨true, true⟩ [.put ⟨0, false, .quick, 0, false, false⟩, .setStopping, .process [], .process [0]] := by
  refine ⟨Or.inr (by decide), Or.inr (Or.inl (by decide))⟩

/-- `terminate_quiescent`: hypothesis met with a running child -/
example : ∀ r ∈ ({ init 1 10 with running := [⟨⟨7, false, .hang, 0, false, false⟩, 10⟩] } : State).running, r.cmd.id ∈ [7] := by
  simp

/-- remote commands: 255 with a 255 callback -> that callback alone; 255 without one, or another
exit status -> the ordinary callback -/
def exRemote : List Op :=
  [.put ⟨0, false, .quick, 255, true, true⟩, .put ⟨1, false, .quick, 255, true, false⟩,
   .put ⟨2, true, .quick, 1, true, true⟩, .put ⟨3, false, .quick, 255, false, true⟩, .process [], .process [0, 1, 2, 3]]

example : ((exec Flags.sound (init 4 10) exRemote).2.filter fun e => (match e with | .cb _ _ => true | _ => false)) =
    [.cb 0 .host255, .cb 1 (.exit 255), .cb 2 (.exit 1), .cb 3 (.exit 255)] := by decide

/-- hypothesis of `callback_255_instead` met -/
example : Ev.cb 0 .host255 ∈ (step Flags.sound (exec Flags.sound (init 4 10) (exRemote.take 5)).1 (.process [0])).2 := by
  decide

/-- the judge rejects both callbacks firing for one command -/
example : Spec.judge 1 [.put ⟨0, false, .quick, 255, true, true⟩, .process [], .process [0]]
    [[], [.start ⟨0, false, .quick, 255, true, true⟩], [.cb 0 .host255, .cb 0 (.exit 255)]] = .error (.twice 2 0) := by
  decide

/-- hypotheses of `monitor_accepts` / `judge_accepts_sound` met on `exOps` -/
example : ∀ id ∈ [0, 1, 2, 3, 4, 5], putN id exOps ≤ 1 := by decide

/-- the monitor used as judge is not trivially accepting: a second callback is rejected -/
example : Spec.judge 1 [.put ⟨0, false, .quick, 0, false, false⟩, .process [], .process [0]]
    [[], [.start ⟨0, false, .quick, 0, false, false⟩], [.cb 0 (.exit 0), .cb 0 (.exit 0)]] = .error (.twice 2 0) := by decide

/-- ... and it accepts the model's own run of `exOps` -/
example : Spec.judge 1 exOps ((trace Flags.sound (init 1 10) exOps).map (·.1)) = .ok () := by decide

end CylcModel.C42
