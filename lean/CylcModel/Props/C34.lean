/-
C34 — Parameter expansion yields exactly the Cartesian product.
Property statements only; specification objects (`combos`, `specItemVal`, `specLine`, …) and helper
lemmas live in `CylcModel/ParamsLemmas.lean`.

All statements are for every `Quirks` value `q` unless a particular behaviour is named, i.e. for
the current code and for the repaired one (`findings/C34-fix-*.diff`).
-/
import CylcModel.ParamsLemmas
namespace CylcModel.C34
open CylcModel.Params

/-! ### graph lines -/

/-- `GraphExpander.expand`: the nested loops over the *values* of the parameters used (loop
variables in a shared dict, positions recovered with `list.index`) compute exactly one instance
per combination of positions — `combos` of the value lists of the parameters used, in order of
first use — each instance being the line with every group replaced by what its items denote
(`specItemVal`: the member / the selected value / the neighbouring member or the removal
sentinel); empty instances are skipped; an exception anywhere is an exception of the whole.
Hypothesis: the value list of a parameter used with an offset has no duplicates. -/
theorem expand_is_product (q : Quirks) (cfg : Cfg) (line : List Seg)
    (hnd : ∀ it ∈ itemsOf line, (∃ k, it.sel = .offset k) → (cfg.values it.name).Nodup) :
    expandGraph q cfg line =
      if (itemsOf line).all (checkItemGraph q cfg) then
        optConcatMap (fun c => (specLine q cfg c line).map nonEmpty)
          (combos (paramList cfg (usedNames line)))
      else none := by
  unfold expandGraph
  split
  · rw [expandAux_eq_combos _ _ _ (by rw [paramList_names]; exact dedup_nodup _) (by simp)]
    apply optConcatMap_congr
    intro c hc
    simp only [graphLeaf, List.nil_append, renderSegs, specLine]
    rw [renderSegsWith_congr cfg _ (specItemVal q cfg c) line
      (fun it hit => itemValGraph_eq_spec q cfg _ c hc it (hnd it hit))]
    rfl
  · rfl

example : ∃ cfg line, (∀ it ∈ itemsOf line, (∃ k, it.sel = .offset k) → (Cfg.values cfg it.name).Nodup)
    ∧ expandGraph ⟨false, false, false⟩ cfg line
        = some ["foo_m" ++ toString Generated.Params.removeSentinel ++ "=>bar_m0", "foo_m0=>bar_m1", "foo_m1=>bar_m2"] :=
  ⟨[⟨"m", [.int 0, .int 1, .int 2], [.lit "_m", .field "m" .s]⟩],
   [.lit "foo", .group [⟨"m", .offset (-1)⟩], .lit "=>bar", .group [⟨"m", .plain⟩]],
   by
    intro it hit _
    simp [itemsOf, groupsOf] at hit
    rcases hit with rfl | rfl <;> simp [Cfg.values],
   by decide⟩

/-- membership form: a string is in the result iff it is the (non-empty) instance of some combination -/
theorem expand_mem_iff (q : Quirks) (cfg : Cfg) (line : List Seg) (L : List String)
    (hnd : ∀ it ∈ itemsOf line, (∃ k, it.sel = .offset k) → (cfg.values it.name).Nodup)
    (h : expandGraph q cfg line = some L) (s : String) :
    s ∈ L ↔ s ≠ "" ∧ ∃ c ∈ combos (paramList cfg (usedNames line)), specLine q cfg c line = some s := by
  rw [expand_is_product q cfg line hnd] at h
  split at h
  · rw [optConcatMap_mem _ _ _ h]
    constructor
    · rintro ⟨c, hc, la, hla, hs⟩
      cases hsl : specLine q cfg c line with
      | none => simp [hsl] at hla
      | some t =>
        simp [hsl] at hla
        subst hla
        simp only [nonEmpty] at hs
        split at hs
        · simp at hs
        · simp at hs; subst hs; exact ⟨by assumption, c, hc, hsl⟩
    · rintro ⟨hne, c, hc, hsl⟩
      exact ⟨c, hc, [s], by simp [hsl, nonEmpty, hne], by simp⟩
  · simp at h

example : expandGraph ⟨true, true, true⟩
    [⟨"m", [.str "cat", .str "dog"], [.lit "_", .field "m" .s]⟩, ⟨"n", [.int 1, .int 2], [.lit "_n", .field "n" (.d false 2)]⟩]
    [.lit "a", .group [⟨"m", .plain⟩, ⟨"n", .fixed "02"⟩]] = some ["a_cat_n02", "a_cat_n02", "a_dog_n02", "a_dog_n02"] := by decide

/-- count: at most one line per combination, `∏ |values|` lines (loop iterations) when no instance
is empty, and these are pairwise different when different combinations give different text -/
theorem expand_count (q : Quirks) (cfg : Cfg) (line : List Seg) (L : List String)
    (hnd : ∀ it ∈ itemsOf line, (∃ k, it.sel = .offset k) → (cfg.values it.name).Nodup)
    (h : expandGraph q cfg line = some L) :
    L.length ≤ prodLen (paramList cfg (usedNames line)) ∧
    ((∀ c ∈ combos (paramList cfg (usedNames line)), specLine q cfg c line ≠ some "") →
      L.length = prodLen (paramList cfg (usedNames line))) := by
  rw [expand_is_product q cfg line hnd] at h
  split at h
  · constructor
    · rw [← combos_length]
      apply optConcatMap_length_le _ _ _ h
      intro c _ la hla
      cases hsl : specLine q cfg c line with
      | none => simp [hsl] at hla
      | some t => simp [hsl] at hla; subst hla; simp only [nonEmpty]; split <;> simp
    · intro hne
      rw [← combos_length]
      apply optConcatMap_length_singleton _ _ _ h
      intro c hc la hla
      cases hsl : specLine q cfg c line with
      | none => simp [hsl] at hla
      | some t =>
        simp [hsl] at hla; subst hla
        have : t ≠ "" := fun e => hne c hc (by rw [hsl, e])
        simp [nonEmpty, this]
  · simp at h

example : prodLen (paramList [⟨"m", [.int 0, .int 1, .int 2], []⟩, ⟨"n", [.str "a", .str "b"], []⟩]
    (usedNames [.lit "x", .group [⟨"m", .plain⟩, ⟨"n", .plain⟩], .lit "=>y", .group [⟨"n", .plain⟩]])) = 6 := by decide

/-- when different combinations give different (non-empty) text, the result has no repetition: the
*set* returned has exactly `∏ |values|` elements -/
theorem expand_distinct (q : Quirks) (cfg : Cfg) (line : List Seg) (L : List String)
    (hnd : ∀ it ∈ itemsOf line, (∃ k, it.sel = .offset k) → (cfg.values it.name).Nodup)
    (h : expandGraph q cfg line = some L)
    (hne : ∀ c ∈ combos (paramList cfg (usedNames line)), specLine q cfg c line ≠ some "")
    (hinj : ∀ c ∈ combos (paramList cfg (usedNames line)), ∀ c' ∈ combos (paramList cfg (usedNames line)),
      specLine q cfg c line = specLine q cfg c' line → c = c') :
    L.Nodup ∧ L.length = prodLen (paramList cfg (usedNames line)) := by
  refine ⟨?_, (expand_count q cfg line L hnd h).2 hne⟩
  rw [expand_is_product q cfg line hnd] at h
  split at h
  · -- every combination renders (the whole is `some`), to a non-empty string
    have hsome : ∀ c ∈ combos (paramList cfg (usedNames line)), ∃ t, specLine q cfg c line = some t := by
      intro c hc
      cases hsl : specLine q cfg c line with
      | some t => exact ⟨t, rfl⟩
      | none =>
        exfalso
        have : ∀ (l : List Combo), c ∈ l →
            optConcatMap (fun c => (specLine q cfg c line).map nonEmpty) l = none := by
          intro l
          induction l with
          | nil => simp
          | cons a r ih =>
            intro hm
            simp only [List.mem_cons] at hm
            simp only [optConcatMap]
            rcases hm with rfl | hm
            · simp [hsl]
            · rw [ih hm]; cases (specLine q cfg a line).map nonEmpty <;> rfl
        rw [this _ hc] at h; cases h
    have hf : ∀ c ∈ combos (paramList cfg (usedNames line)),
        (fun c => (specLine q cfg c line).map nonEmpty) c = some [((specLine q cfg c line).getD "")] := by
      intro c hc
      obtain ⟨t, ht⟩ := hsome c hc
      have : t ≠ "" := fun e => hne c hc (by rw [ht, e])
      simp [ht, nonEmpty, this]
    rw [optConcatMap_singletons _ _ _ hf] at h
    cases h
    apply nodup_map_of_injOn _ _ (combos_nodup _)
    intro a ha b hb hab
    obtain ⟨ta, hta⟩ := hsome a ha
    obtain ⟨tb, htb⟩ := hsome b hb
    apply hinj a ha b hb
    simp [hta, htb] at hab
    rw [hta, htb, hab]
  · simp at h

example :
    let q : Quirks := ⟨false, false, false⟩
    let cfg : Cfg := [⟨"m", [.int 0, .int 1], [.lit "_m", .field "m" .s]⟩, ⟨"n", [.str "a", .str "b"], [.lit "_", .field "n" .s]⟩]
    let line : List Seg := [.lit "x", .group [⟨"m", .offset (-1)⟩, ⟨"n", .plain⟩], .lit "=>y", .group [⟨"m", .plain⟩]]
    (∀ c ∈ combos (paramList cfg (usedNames line)), specLine q cfg c line ≠ some "") ∧
    (∀ c ∈ combos (paramList cfg (usedNames line)), ∀ c' ∈ combos (paramList cfg (usedNames line)),
      specLine q cfg c line = specLine q cfg c' line → c = c') := by decide

/-- the pairs `parse_graph` derives from a parameterised line are, likewise, those of one instance
of the chain per combination (each instance: nodes rendered, out-of-range nodes dropped from the
expressions, chain cut at an emptied expression) -/
theorem pairs_is_product (q : Quirks) (cfg : Cfg) (chain : Chain)
    (hnd : ∀ it ∈ itemsOf (chainSegs chain), (∃ k, it.sel = .offset k) → (cfg.values it.name).Nodup) :
    expandPairs q cfg chain =
      if (itemsOf (chainSegs chain)).all (checkItemGraph q cfg) then
        optConcatMap (fun c => pairsWith q cfg (specItemVal q cfg c) chain)
          (combos (paramList cfg (usedNames (chainSegs chain))))
      else none := by
  have hsub : ∀ e ∈ chain, ∀ t ∈ e, ∀ it ∈ itemsOf t.segs, it ∈ itemsOf (chainSegs chain) :=
    fun e he t ht it hit => itemsOf_chainSegs chain e he it (itemsOf_exprSegs e t ht it hit)
  unfold expandPairs
  simp only
  split
  · rw [expandAux_eq_combos _ _ _ (by rw [paramList_names]; exact dedup_nodup _) (by simp)]
    apply optConcatMap_congr
    intro c hc
    simp only [pairsLeaf, List.nil_append, pairsWith]
    have hterms : ∀ e ∈ chain, renderTermsWith cfg (itemValGraph q cfg c.env) e
        = renderTermsWith cfg (specItemVal q cfg c) e := by
      intro e he
      have : ∀ (ts : Expr), (∀ t ∈ ts, t ∈ e) →
          renderTermsWith cfg (itemValGraph q cfg c.env) ts = renderTermsWith cfg (specItemVal q cfg c) ts := by
        intro ts
        induction ts with
        | nil => intro _; rfl
        | cons t r ih =>
          intro hts
          simp only [renderTermsWith]
          rw [renderSegsWith_congr cfg _ (specItemVal q cfg c) t.segs
            (fun it hit => itemValGraph_eq_spec q cfg _ c hc it
              (hnd it (hsub e he t (hts t (by simp)) it hit))),
            ih (fun x hx => hts x (by simp [hx]))]
      exact this e (fun _ h => h)
    rw [optConcatMap_congr _ (fun e => (renderTermsWith cfg (specItemVal q cfg c) e).map
      fun ts => [dropNodes q isRemoveToken ts]) chain (fun e he => by rw [hterms e he])]
  · rfl

example : expandPairs ⟨false, false, false⟩
    [⟨"m", [.int 0, .int 1, .int 2], [.lit "_m", .field "m" .s]⟩]
    [[⟨"", [.lit "a"]⟩, ⟨"&", [.lit "foo", .group [⟨"m", .offset (-1)⟩]]⟩], [⟨"", [.lit "bar", .group [⟨"m", .plain⟩]]⟩]]
    = some [(none, "a"), (some "a", "bar_m0"), (none, "a"), (none, "foo_m0"), (some "a&foo_m0", "bar_m1"),
            (none, "a"), (none, "foo_m1"), (some "a&foo_m1", "bar_m2")] := by decide

/-! ### offsets -/

/-- what the code computes for `p+k` / `p-k` (position of the current value found with
`list.index`, then the neighbour or the sentinel) is the member `k` positions from the picked
one, and the removal sentinel when there is none.  Needs a duplicate-free value list. -/
theorem offset_selects_neighbour (q : Quirks) (cfg : Cfg) (names : List String) (c : Combo)
    (hc : c ∈ combos (paramList cfg names)) (p : String) (k : Int) (pk : Pick)
    (hp : c.pick? p = some pk) (hnd : (cfg.values p).Nodup) :
    (cfg.values p)[pk.idx]? = some pk.val ∧
    itemValGraph q cfg c.env ⟨p, .offset k⟩ =
      if 0 ≤ (pk.idx : Int) + k ∧ (pk.idx : Int) + k < (cfg.values p).length
      then (cfg.values p)[((pk.idx : Int) + k).toNat]? else some sentinel := by
  constructor
  · have ⟨hmem, hname⟩ := pick?_mem c p pk hp
    obtain ⟨vs, hvs, hget⟩ := combos_consistent _ c hc pk hmem
    have := mem_paramList cfg names _ _ hvs
    rw [hname] at this; subst this; exact hget
  · rw [itemValGraph_eq_spec q cfg names c hc _ (fun _ => hnd)]
    simp [specItemVal, hp]

/-- "negative offsets refer to the previous value, the node being marked for removal where no
previous value exists": the case `k = -1` -/
theorem offset_prev (q : Quirks) (cfg : Cfg) (names : List String) (c : Combo)
    (hc : c ∈ combos (paramList cfg names)) (p : String) (pk : Pick)
    (hp : c.pick? p = some pk) (hnd : (cfg.values p).Nodup) :
    itemValGraph q cfg c.env ⟨p, .offset (-1)⟩ =
      match pk.idx with
      | 0 => some sentinel
      | i + 1 => (cfg.values p)[i]? := by
  obtain ⟨hget, h⟩ := offset_selects_neighbour q cfg names c hc p (-1) pk hp hnd
  rw [h]
  have hlt : pk.idx < (cfg.values p).length := by
    rcases Nat.lt_or_ge pk.idx (cfg.values p).length with h | h
    · exact h
    · rw [List.getElem?_eq_none h] at hget; cases hget
  cases hi : pk.idx with
  | zero => simp
  | succ i =>
    have h1 : (0 : Int) ≤ ((i + 1 : Nat) : Int) + -1 ∧ ((i + 1 : Nat) : Int) + -1 < (cfg.values p).length := by
      omega
    rw [if_pos h1]
    congr 1
    omega

example : ([⟨"m", 1, .str "dog"⟩] : Combo) ∈ combos (paramList [⟨"m", [.str "cat", .str "dog"], []⟩] ["m"])
    ∧ Combo.pick? [⟨"m", 1, .str "dog"⟩] "m" = some ⟨"m", 1, .str "dog"⟩
    ∧ (Cfg.values [⟨"m", [.str "cat", .str "dog"], []⟩] "m").Nodup := by decide
example : itemValGraph ⟨false, false, false⟩ [⟨"m", [.str "cat", .str "dog"], []⟩]
    (Combo.env [⟨"m", 1, .str "dog"⟩]) ⟨"m", .offset (-1)⟩ = some (.str "cat") := by decide
example : itemValGraph ⟨false, false, false⟩ [⟨"m", [.str "cat", .str "dog"], []⟩]
    (Combo.env [⟨"m", 0, .str "cat"⟩]) ⟨"m", .offset (-1)⟩ = some sentinel := by decide

/-- `offset_selects_neighbour` needs the duplicate-free list: with `m = 1, 2, 1, 3` the code takes
`list.index(1) = 0` for the third member and marks `m-1` for removal although a previous value exists -/
theorem offset_duplicates_counterexample :
    ¬ ∀ (q : Quirks) (cfg : Cfg) (names : List String) (c : Combo), c ∈ combos (paramList cfg names) →
      ∀ (p : String) (k : Int) (pk : Pick), c.pick? p = some pk →
        itemValGraph q cfg c.env ⟨p, .offset k⟩ =
          if 0 ≤ (pk.idx : Int) + k ∧ (pk.idx : Int) + k < (cfg.values p).length
          then (cfg.values p)[((pk.idx : Int) + k).toNat]? else some sentinel := by
  intro h
  have := h ⟨false, false, false⟩ [⟨"m", [.int 1, .int 2, .int 1, .int 3], []⟩] ["m"]
    [⟨"m", 2, .int 1⟩] (by decide) "m" (-1) ⟨"m", 2, .int 1⟩ (by decide)
  revert this
  decide

/-! ### specific values -/

/-- "a specific value selects only that value": what is accepted and substituted for `p=raw` is a
member of the value list that `raw` names (the same text, or the same integer) -/
def fixed_selects_member_full (member : Bool) : Prop :=
  ∀ (vs : List Val) (raw : String) (v : Val), fixedVal member vs raw = some v →
    fixedSubst member vs raw = some v ∧ v ∈ vs ∧ Matches raw v

/-- for both behaviours: the value `_expand_graph` substitutes for `p=raw` is the one `expand`
checked (so a line passes the check with exactly the values that are then substituted) -/
theorem fixed_subst_eq_checked (member : Bool) (vs : List Val) (raw : String) (v : Val)
    (h : fixedVal member vs raw = some v) : fixedSubst member vs raw = some v := by
  cases member with
  | true => simpa [fixedVal, fixedSubst] using h
  | false =>
    simp only [fixedVal, Bool.false_eq_true, if_false] at h
    simp only [fixedSubst, Bool.false_eq_true, if_false]
    unfold fixedOld at h
    cases hn : pyInt? raw with
    | none =>
      simp only [hn] at h
      split at h
      · exact h
      · cases h
    | some n =>
      simp only [hn] at h
      split at h
      · exact h
      · split at h
        · exact h
        · cases h

example : fixedVal false [.int 0, .int 1] "01" = some (.int 1) := by decide

/-- the repaired code (`findings/C34-fix-1.diff`) satisfies it, and accepts every `raw` that names a member -/
theorem select_member_spec :
    fixed_selects_member_full true ∧
    ∀ (vs : List Val) (raw : String), (∃ v ∈ vs, Matches raw v) → (fixedVal true vs raw).isSome := by
  constructor
  · intro vs raw v h
    simp only [fixedVal, if_true] at h
    exact ⟨by simp [fixedSubst, h], selectMember_sound vs raw v h⟩
  · intro vs raw h
    simp only [fixedVal, if_true]
    exact selectMember_complete vs raw h

example : fixedVal true [.str "072", .str "a", .str "5"] "072" = some (.str "072") := by decide
example : fixedVal true [.int 0, .int 1, .int 2] "01" = some (.int 1) := by decide

/-- which lines the repaired `GraphExpander.expand` accepts: every parameter used is defined with a
non-empty value list and every `p=raw` names a member -/
theorem check_iff_valid (q : Quirks) (hq : q.selMemberGraph = true) (cfg : Cfg) (it : Item) :
    checkItemGraph q cfg it = true ↔
      cfg.values it.name ≠ [] ∧ ∀ raw, it.sel = .fixed raw → ∃ v ∈ cfg.values it.name, Matches raw v := by
  unfold checkItemGraph
  cases hv : cfg.values it.name with
  | nil => simp
  | cons a r =>
    cases hs : it.sel with
    | plain => simp
    | offset k => simp
    | fixed raw =>
      simp only [hq, fixedVal, if_true, ne_eq, reduceCtorEq, not_false_eq_true, true_and, Sel.fixed.injEq]
      constructor
      · intro h raw' e
        subst e
        cases hsel : selectMember (a :: r) raw with
        | none => simp [hsel] at h
        | some v =>
          have := selectMember_sound _ _ _ hsel
          exact ⟨v, this.1, this.2⟩
      · intro h
        exact selectMember_complete _ _ (h raw rfl)

example : checkItemGraph ⟨true, true, true⟩ [⟨"m", [.str "072", .str "a"], []⟩] ⟨"m", .fixed "72"⟩ = true := by decide

/-- the current code agrees with the repaired one when the value list holds integers only (as cylc
builds it for `m = 0..3`) or when `raw` is not a number -/
theorem fixed_old_partial (vs : List Val) (raw : String)
    (h : (∀ v ∈ vs, ∃ i, v = Val.int i) ∨ pyInt? raw = none) :
    fixedVal false vs raw = fixedVal true vs raw ∧
    ((fixedVal false vs raw).isSome → fixedSubst false vs raw = fixedVal false vs raw) := by
  simp only [fixedVal, if_true, Bool.false_eq_true, if_false]
  unfold fixedOld selectMember fixedSubst
  rcases h with hall | hnone
  · have hstr := str_not_mem_ints raw vs hall
    cases hn : pyInt? raw with
    | none => simp [hstr]
    | some n =>
      simp only [hstr, if_false]
      by_cases hmem : Val.int n ∈ vs
      · simp [hmem, find?_int n vs hmem hall]
      · simp [hmem, scanInt_ints n vs hall hmem, find?_int_none n vs hmem hall]
  · simp only [hnone]
    by_cases hmem : Val.str raw ∈ vs <;> simp [hmem]

example : fixedVal false [.int 0, .int 1, .int 2] "01" = some (.int 1) := by decide
example : fixedVal false [.str "cat", .str "dog"] "dog" = some (.str "dog") := by decide

/-- the current code does not: with `m = 072, a` (kept as strings by cylc) `m=072` is accepted and
the integer 72 is substituted, which is not a member (`foo_72` instead of `foo_072`) -/
theorem fixed_old_counterexample : ¬ fixed_selects_member_full false := by
  intro h
  have := (h [.str "072", .str "a"] "072" (.int 72) (by decide)).2.1
  revert this
  decide

/-! ### out-of-range nodes -/

/-- dropping all flagged nodes (repaired parser, `findings/C34-fix-3.diff`): exactly the unflagged
nodes stay, in order -/
theorem drop_all_spec {α} (flag : α → Bool) (ts : List (String × α)) :
    (dropNodes ⟨false, false, true⟩ flag ts).map (·.2) = (ts.filter fun t => !flag t.2).map (·.2) := by
  simp [dropNodes, dropAll_nodes]

example : dropNodes ⟨false, false, true⟩ id [("", true), ("&", true), ("|", false), ("&", true), ("&", false)]
    = [("", false), ("&", false)] := by decide

/-- the full statement for the current parser -/
def drop_once_full : Prop :=
  ∀ (flag : Bool → Bool) (ts : List (String × Bool)),
    (dropNodes ⟨false, false, false⟩ flag ts).map (·.2) = (ts.filter fun t => !flag t.2).map (·.2)

/-- the current parser (one left-to-right pass of `REC_NODE_OUT_OF_RANGE`) does the same unless the
first two nodes of the expression are both out of range -/
theorem drop_once_partial {α} (flag : α → Bool) (ts : List (String × α))
    (h : ∀ t1 t2 rest, ts = t1 :: t2 :: rest → ¬ (flag t1.2 = true ∧ flag t2.2 = true)) :
    (dropNodes ⟨false, false, false⟩ flag ts).map (·.2) = (ts.filter fun t => !flag t.2).map (·.2) := by
  simp only [dropNodes, Bool.false_eq_true, if_false]
  exact dropOnce_nodes flag ts h

example : (dropNodes ⟨false, false, false⟩ id [("", false), ("&", true), ("|", false), ("&", true)]).map (·.2)
    = [false, false] := by decide

/-- `foo<m-1> & bar<m-1> & c`: the second node survives -/
theorem drop_once_counterexample : ¬ drop_once_full := by
  intro h
  have := h id [("", true), ("&", true), ("&", false)]
  revert this
  decide

/-- the generated constants fit together: a node that carries the decimal sentinel after at least
one character and before at least one more is recognised as out of range by the needle the real
regex requires -/
theorem sentinel_has_needle (pre post : List Char) (hpre : pre ≠ []) (hpost : post ≠ []) :
    isRemoveToken (String.ofList (pre ++ (toString Generated.Params.removeSentinel).toList ++ post)) = true := by
  have hs : (toString Generated.Params.removeSentinel).toList
      = Generated.Params.removeNeedle.toList ++
        ((toString Generated.Params.removeSentinel).toList.drop Generated.Params.removeNeedle.toList.length) := by
    decide
  cases pre with
  | nil => exact absurd rfl hpre
  | cons a t =>
    simp only [isRemoveToken, String.toList_ofList, List.cons_append, List.append_assoc]
    rw [hs, List.append_assoc]
    apply needleThenMore_append
    cases post with
    | nil => exact absurd rfl hpost
    | cons b u => simp

/-- the full statement: whatever the template, a node whose parameter is out of range carries the
sentinel in a form the parser recognises -/
def sentinel_format_full : Prop :=
  ∀ (c : Conv), fmtVal c sentinel = some (toString Generated.Params.removeSentinel)

/-- `%s` and `%d` with (zero-padded) width up to 6 write the sentinel as `-32768` … -/
theorem sentinel_format_partial (c : Conv) (h : match c with | .s => True | .d _ w => w ≤ 6) :
    fmtVal c sentinel = some (toString Generated.Params.removeSentinel) := by
  cases c with
  | s => decide
  | d plus w =>
    simp only at h
    rcases w with _|_|_|_|_|_|_|w
    all_goals first | (cases plus <;> decide) | omega

example : fmtVal (.d false 3) sentinel = some (toString Generated.Params.removeSentinel) := by decide

/-- … wider zero padding (the default template of an 8-digit integer parameter) does not, and the
node is then not recognised -/
theorem sentinel_wide_counterexample : ¬ sentinel_format_full := by
  intro h
  have := h (.d false 8)
  revert this
  decide

example : isRemoveToken ("foo_m" ++ toString Generated.Params.removeSentinel) = true := by decide
example : isRemoveToken ("foo_date" ++ (fmtVal (.d false 8) sentinel).getD "") = false := by decide

/-! ### runtime headings -/

/-- `NameExpander.expand` for one name with groups: one instance per combination of the values of
the parameters used plain (each taken once), the parameters given a specific value held at the
value selected, the name being the template of the name filled with both -/
def heading_full (q : Quirks) : Prop :=
  ∀ (cfg : Cfg) (segs : List Seg) (st : NameState),
    nameSegs q cfg {} segs = some st → st.grouped = true →
    expandName q cfg segs =
      optConcatMap (fun c => nameLeaf (tmplOfSegs cfg segs) (st.spec ++ c.env))
        (combos (paramList cfg (dedup (plainNames segs))))

/-- it holds for names in which no parameter occurs twice; then, in addition, the dict of specific
values holds, for each `p=raw` of the name, what `raw` selects -/
theorem heading_is_product_partial (q : Quirks) (cfg : Cfg) (segs : List Seg) (st : NameState)
    (h : nameSegs q cfg {} segs = some st) (hg : st.grouped = true)
    (hnd : ((itemsOf segs).map (·.name)).Nodup) :
    expandName q cfg segs =
      optConcatMap (fun c => nameLeaf (tmplOfSegs cfg segs) (st.spec ++ c.env))
        (combos (paramList cfg (dedup (plainNames segs)))) ∧
    ∀ kv ∈ st.spec, ∃ raw, (⟨kv.1, .fixed raw⟩ : Item) ∈ itemsOf segs ∧
      fixedVal q.selMemberName (cfg.values kv.1) raw = some kv.2 := by
  obtain ⟨hu, hs⟩ := nameSegs_spec q cfg {} st segs h
  have ht := nameSegs_tmpl q cfg {} st segs h
  simp at hu ht
  obtain ⟨hpn, hdisj⟩ := plain_fixed_disjoint (itemsOf segs) hnd
  have hs' : ∀ kv ∈ st.spec, ∃ raw, (⟨kv.1, .fixed raw⟩ : Item) ∈ itemsOf segs ∧
      fixedVal q.selMemberName (cfg.values kv.1) raw = some kv.2 := by
    intro kv hkv
    rcases hs kv hkv with h1 | h1
    · simp at h1
    · exact h1
  refine ⟨?_, hs'⟩
  unfold expandName
  simp only [h, hg, if_true]
  have hd : dedup (plainNames segs) = plainNames segs := dedup_of_nodup _ hpn
  rw [hd, ← hu, ← ht]
  apply expandAux_eq_combos
  · rw [hu, paramList_names]; exact hpn
  · intro kv hkv hmem
    rw [hu, paramList_names] at hmem
    obtain ⟨raw, hraw, _⟩ := hs' kv hkv
    exact hdisj kv.1 hmem raw hraw

example : expandName ⟨false, false, false⟩
    [⟨"m", [.int 0, .int 1], [.lit "_m", .field "m" .s]⟩, ⟨"n", [.int 5, .int 6], [.lit "_n", .field "n" .s]⟩]
    [.lit "foo", .group [⟨"m", .plain⟩, ⟨"n", .fixed "6"⟩], .lit "x"]
    = some [("foo_m0_n6x", [("n", .int 6), ("m", .int 0)]), ("foo_m1_n6x", [("n", .int 6), ("m", .int 1)])] := by decide

/-- and fails otherwise: `foo<m>_x<m>` with `m = 0, 1` gives four results (each name twice) -/
theorem heading_repeated_counterexample : ¬ heading_full ⟨false, false, false⟩ := by
  intro h
  have := h [⟨"m", [.int 0, .int 1], [.lit "_m", .field "m" .s]⟩]
    [.lit "foo", .group [⟨"m", .plain⟩], .lit "_x", .group [⟨"m", .plain⟩]]
    ⟨[.lit "foo", .lit "_m", .field "m" .s, .lit "_x", .lit "_m", .field "m" .s], [],
     [("m", [.int 0, .int 1]), ("m", [.int 0, .int 1])], true⟩ (by rfl) rfl
  revert this
  decide

end CylcModel.C34
