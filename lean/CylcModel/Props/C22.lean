/-
C22 — Broadcasts override in precedence order and persist exactly.

Property statements only; the model is `CylcModel/Bcast.lean`, helper lemmas are in
`CylcModel/BcastLemmas.lean`.  Stores, filters, inheritance chains, points and histories are
unbounded.  A store is an insertion-ordered dictionary from (point, namespace, key path) to the
value; `NodupKeys` says its keys are distinct, which every reachable store satisfies
(`run_nodup`).
-/
import CylcModel.BcastLemmas
namespace CylcModel.C22
open CylcModel.Bcast

/-! ## 1. precedence -/

theorem get_fold (st : Store) (hst : NodupKeys st) (path : Path) :
    ∀ (srcs : List (String × String)) (acc : AList Path), NodupKeys acc →
      NodupKeys (srcs.foldl (fun acc (cn : String × String) => upsertAll acc (entriesOf st cn.1 cn.2)) acc) ∧
      lookup (srcs.foldl (fun acc (cn : String × String) => upsertAll acc (entriesOf st cn.1 cn.2)) acc) path =
        match lastSome (srcs.map fun cn => lookup st ⟨cn.1, cn.2, path⟩) with
        | some v => some v
        | none => lookup acc path := by
  intro srcs
  induction srcs with
  | nil => intro acc h; exact ⟨h, by simp [lastSome]⟩
  | cons cn r ih =>
    intro acc hacc
    simp only [List.foldl_cons, List.map_cons, lastSome]
    have hn := nodup_upsertAll (entriesOf st cn.1 cn.2) hacc
    obtain ⟨h1, h2⟩ := ih (upsertAll acc (entriesOf st cn.1 cn.2)) hn
    refine ⟨h1, ?_⟩
    rw [h2, lookup_upsertAll _ (nodup_entriesOf hst cn.1 cn.2), lookup_entriesOf]
    cases lastSome (r.map fun cn => lookup st ⟨cn.1, cn.2, path⟩) with
    | some v => rfl
    | none => cases lookup st ⟨cn.1, cn.2, path⟩ <;> rfl

/-- `get_broadcast` of a task: for every item, the value is the one of the **last** source that
defines it, in the order
  all-cycle broadcasts (`*`, then the aliases) to root, ..., ancestors, ..., the task itself,
  then broadcasts to the task's own cycle to root, ..., ancestors, ..., the task itself
(`sources`), i.e. own cycle overrides all-cycle, and nearer namespaces override farther ones. -/
theorem get_precedence (st : Store) (hst : NodupKeys st) (ancestors : List String) (point : String) (path : Path) :
    lookup (getBroadcast st ancestors point) path =
      lastSome ((sources ancestors point).map fun cn => lookup st ⟨cn.1, cn.2, path⟩) ∧
    sources ancestors point =
      (allCycleNames.flatMap fun c => ancestors.reverse.map fun ns => (c, ns)) ++ ancestors.reverse.map fun ns => (point, ns) := by
  constructor
  · have := (get_fold st hst path (sources ancestors point) [] (by simp [NodupKeys])).2
    unfold getBroadcast
    rw [this]
    cases lastSome ((sources ancestors point).map fun cn => lookup st ⟨cn.1, cn.2, path⟩) <;> rfl
  · simp [sources, List.flatMap_append]

/-- The runtime configuration a task receives = its static configuration overridden by that. -/
theorem rtconfig_override (static : AList Path) (st : Store) (hst : NodupKeys st)
    (ancestors : List String) (point : String) (path : Path) :
    lookup (rtconfig static st ancestors point) path =
      match lastSome ((sources ancestors point).map fun cn => lookup st ⟨cn.1, cn.2, path⟩) with
      | some v => some v
      | none => lookup static path := by
  have hn : NodupKeys (getBroadcast st ancestors point) := by
    unfold getBroadcast
    exact (get_fold st hst path (sources ancestors point) [] (by simp [NodupKeys])).1
  unfold rtconfig
  rw [lookup_upsertAll _ hn, (get_precedence st hst ancestors point path).1]
  cases lastSome ((sources ancestors point).map fun cn => lookup st ⟨cn.1, cn.2, path⟩) <;> rfl

/-- non-vacuity: a store with distinct keys in which root/all-cycles, family/all-cycles and the
task's own cycle define the same item: the own-cycle value wins; a static item not broadcast stays -/
example :
    let st : Store := [(⟨"*", "root", ["script"]⟩, "r"), (⟨"*", "FAM", ["script"]⟩, "f"), (⟨"1", "root", ["script"]⟩, "c")]
    NodupKeys st ∧ lookup (getBroadcast st ["t", "FAM", "root"] "1") ["script"] = some "c" ∧
      lookup (getBroadcast st ["t", "FAM", "root"] "2") ["script"] = some "f" ∧
      lookup (rtconfig [(["pre-script"], "p")] st ["t", "FAM", "root"] "1") ["pre-script"] = some "p" := by
  decide

/-! ## 2. clear and expire -/

/-- `clear_broadcast` removes exactly the targeted items (those matching the point, namespace and
key-path filters; an empty filter list matches everything), reports exactly those, and leaves
every other item with its value. -/
theorem clear_exact (st : Store) (f : Filter) :
    (∀ k, lookup (clear st f).1 k = if f.hits k then none else lookup st k) ∧
    (∀ e, e ∈ (clear st f).1 ↔ e ∈ st ∧ f.hits e.1 = false) ∧
    (∀ e, e ∈ (clear st f).2 ↔ e ∈ st ∧ f.hits e.1 = true) := by
  refine ⟨?_, ?_, ?_⟩
  · intro k
    have := lookup_filter_key (fun k => !f.hits k) st k
    simp only [clear]
    rw [this]
    cases f.hits k <;> simp
  · intro e; simp [clear, List.mem_filter]
  · intro e; simp [clear, List.mem_filter]

example :
    let st : Store := [(⟨"1", "root", ["script"]⟩, "a"), (⟨"1", "t", ["environment", "A"]⟩, "b"), (⟨"2", "t", ["script"]⟩, "c")]
    (clear st ⟨["1"], [], [["script"]]⟩).1 = [(⟨"1", "t", ["environment", "A"]⟩, "b"), (⟨"2", "t", ["script"]⟩, "c")] := by
  decide

/-- `expire_broadcast cutoff` removes exactly the broadcasts to a specific cycle (not `*` or an
alias of it) earlier than the cutoff, everything else stays (`cutoff = none`: everything goes). -/
theorem expire_exact (st : Store) (cutoff : Option Nat) :
    ∀ e, e ∈ (expire st cutoff).1 ↔
      e ∈ st ∧ ¬ (match cutoff with
                  | none => True
                  | some c => e.1.point ∉ allCycleNames ∧ pointVal e.1.point < c) := by
  intro e
  have hpts : ∀ p, p ∈ expirePoints st cutoff ↔ p ∈ st.map (·.1.point) ∧
      (match cutoff with | none => True | some c => p ∉ allCycleNames ∧ pointVal p < c) := by
    intro p
    unfold expirePoints
    rw [List.mem_filter]
    cases cutoff <;> simp
  unfold expire
  by_cases hem : (expirePoints st cutoff).isEmpty = true
  · simp only [hem, if_true]
    constructor
    · intro he
      refine ⟨he, ?_⟩
      intro hx
      have : e.1.point ∈ expirePoints st cutoff := (hpts _).2 ⟨List.mem_map.2 ⟨e, he, rfl⟩, hx⟩
      rw [List.isEmpty_iff] at hem
      rw [hem] at this
      cases this
    · exact fun h => h.1
  · simp only [hem, Bool.false_eq_true, if_false]
    rw [(clear_exact st _).2.1 e]
    constructor
    · rintro ⟨he, hh⟩
      refine ⟨he, ?_⟩
      intro hx
      have hm : e.1.point ∈ expirePoints st cutoff := (hpts _).2 ⟨List.mem_map.2 ⟨e, he, rfl⟩, hx⟩
      simp [Filter.hits, hem, hm] at hh
    · rintro ⟨he, hx⟩
      refine ⟨he, ?_⟩
      simp only [Filter.hits, hem, Bool.false_or, List.isEmpty_nil, Bool.true_or, Bool.and_true]
      cases hc : (expirePoints st cutoff).contains e.1.point with
      | false => rfl
      | true =>
        exfalso
        have : e.1.point ∈ expirePoints st cutoff := by simpa using hc
        exact hx ((hpts _).1 this).2

example :
    let st : Store := [(⟨"1", "root", ["script"]⟩, "a"), (⟨"*", "root", ["script"]⟩, "b"), (⟨"3", "t", ["script"]⟩, "c")]
    (expire st (some 3)).1 = [(⟨"*", "root", ["script"]⟩, "b"), (⟨"3", "t", ["script"]⟩, "c")] ∧ (expire st none).1 = [] := by
  decide

end CylcModel.C22
