/-
C22 — Broadcasts override in precedence order and persist exactly.

Property statements only; the model is `CylcModel/Bcast.lean`, helper lemmas are in
`CylcModel/BcastLemmas.lean`.  Stores, filters, inheritance chains, points and histories are
unbounded.  A store is an insertion-ordered dictionary from (point, namespace, key path) to the
value; `NodupKeys` says its keys are distinct, which every reachable store satisfies
(`run_nodup`).
-/
import CylcModel.BcastLemmas
namespace CylcModel.C22
open CylcModel.Bcast

/-! ## 1. precedence -/

/-- `get_broadcast` of a task: for every item, the value is the one of the **last** source that
defines it, in the order
  all-cycle broadcasts (`*`, then the aliases) to root, ..., ancestors, ..., the task itself,
  then broadcasts to the task's own cycle to root, ..., ancestors, ..., the task itself
(`sources`), i.e. own cycle overrides all-cycle, and nearer namespaces override farther ones. -/
theorem get_precedence (st : Store) (hst : NodupKeys st) (ancestors : List String) (point : String) (path : Path) :
    lookup (getBroadcast st ancestors point) path =
      lastSome ((sources ancestors point).map fun cn => lookup st ⟨cn.1, cn.2, path⟩) ∧
    sources ancestors point =
      (allCycleNames.flatMap fun c => ancestors.reverse.map fun ns => (c, ns)) ++ ancestors.reverse.map fun ns => (point, ns) := by
  constructor
  · have := (get_fold st hst path (sources ancestors point) [] (by simp [NodupKeys])).2
    unfold getBroadcast
    rw [this]
    cases lastSome ((sources ancestors point).map fun cn => lookup st ⟨cn.1, cn.2, path⟩) <;> rfl
  · simp [sources, List.flatMap_append]

/-- The runtime configuration a task receives = its static configuration overridden by that. -/
theorem rtconfig_override (static : AList Path) (st : Store) (hst : NodupKeys st)
    (ancestors : List String) (point : String) (path : Path) :
    lookup (rtconfig static st ancestors point) path =
      match lastSome ((sources ancestors point).map fun cn => lookup st ⟨cn.1, cn.2, path⟩) with
      | some v => some v
      | none => lookup static path := by
  have hn : NodupKeys (getBroadcast st ancestors point) := by
    unfold getBroadcast
    exact (get_fold st hst path (sources ancestors point) [] (by simp [NodupKeys])).1
  unfold rtconfig
  rw [lookup_upsertAll _ hn, (get_precedence st hst ancestors point path).1]
  cases lastSome ((sources ancestors point).map fun cn => lookup st ⟨cn.1, cn.2, path⟩) <;> rfl

/-- non-vacuity: a store with distinct keys in which root/all-cycles, family/all-cycles and the
task's own cycle define the same item: the own-cycle value wins; a static item not broadcast stays -/
example :
    let st : Store := [(⟨"*", "root", ["script"]⟩, "r"), (⟨"*", "FAM", ["script"]⟩, "f"), (⟨"1", "root", ["script"]⟩, "c")]
    NodupKeys st ∧ lookup (getBroadcast st ["t", "FAM", "root"] "1") ["script"] = some "c" ∧
      lookup (getBroadcast st ["t", "FAM", "root"] "2") ["script"] = some "f" ∧
      lookup (rtconfig [(["pre-script"], "p")] st ["t", "FAM", "root"] "1") ["pre-script"] = some "p" := by
  decide

/-! ## 2. clear and expire -/

/-- `clear_broadcast` removes exactly the targeted items (those matching the point, namespace and
key-path filters; an empty filter list matches everything), reports exactly those, and leaves
every other item with its value. -/
theorem clear_exact (st : Store) (f : Filter) :
    (∀ k, lookup (clear st f).1 k = if f.hits k then none else lookup st k) ∧
    (∀ e, e ∈ (clear st f).1 ↔ e ∈ st ∧ f.hits e.1 = false) ∧
    (∀ e, e ∈ (clear st f).2 ↔ e ∈ st ∧ f.hits e.1 = true) := by
  refine ⟨?_, ?_, ?_⟩
  · intro k
    have := lookup_filter_key (fun k => !f.hits k) st k
    simp only [clear]
    rw [this]
    cases f.hits k <;> simp
  · intro e; simp [clear, List.mem_filter]
  · intro e; simp [clear, List.mem_filter]

example :
    let st : Store := [(⟨"1", "root", ["script"]⟩, "a"), (⟨"1", "t", ["environment", "A"]⟩, "b"), (⟨"2", "t", ["script"]⟩, "c")]
    (clear st ⟨["1"], [], [["script"]]⟩).1 = [(⟨"1", "t", ["environment", "A"]⟩, "b"), (⟨"2", "t", ["script"]⟩, "c")] := by
  decide

/-- `expire_broadcast cutoff` removes exactly the broadcasts to a specific cycle (not `*` or an
alias of it) earlier than the cutoff, everything else stays (`cutoff = none`: everything goes). -/
theorem expire_exact (st : Store) (cutoff : Option Nat) :
    ∀ e, e ∈ (expire st cutoff).1 ↔
      e ∈ st ∧ ¬ (match cutoff with
                  | none => True
                  | some c => e.1.point ∉ allCycleNames ∧ pointVal e.1.point < c) := by
  intro e
  have hpts : ∀ p, p ∈ expirePoints st cutoff ↔ p ∈ st.map (·.1.point) ∧
      (match cutoff with | none => True | some c => p ∉ allCycleNames ∧ pointVal p < c) := by
    intro p
    unfold expirePoints
    rw [List.mem_filter]
    cases cutoff <;> simp
  unfold expire
  by_cases hem : (expirePoints st cutoff).isEmpty = true
  · simp only [hem, if_true]
    constructor
    · intro he
      refine ⟨he, ?_⟩
      intro hx
      have : e.1.point ∈ expirePoints st cutoff := (hpts _).2 ⟨List.mem_map.2 ⟨e, he, rfl⟩, hx⟩
      rw [List.isEmpty_iff] at hem
      rw [hem] at this
      cases this
    · exact fun h => h.1
  · simp only [hem, Bool.false_eq_true, if_false]
    rw [(clear_exact st _).2.1 e]
    constructor
    · rintro ⟨he, hh⟩
      refine ⟨he, ?_⟩
      intro hx
      have hm : e.1.point ∈ expirePoints st cutoff := (hpts _).2 ⟨List.mem_map.2 ⟨e, he, rfl⟩, hx⟩
      simp [Filter.hits, hem, hm] at hh
    · rintro ⟨he, hx⟩
      refine ⟨he, ?_⟩
      simp only [Filter.hits, hem, Bool.false_or, List.isEmpty_nil, Bool.true_or, Bool.and_true]
      cases hc : (expirePoints st cutoff).contains e.1.point with
      | false => rfl
      | true =>
        exfalso
        have : e.1.point ∈ expirePoints st cutoff := by simpa using hc
        exact hx ((hpts _).1 this).2

example :
    let st : Store := [(⟨"1", "root", ["script"]⟩, "a"), (⟨"*", "root", ["script"]⟩, "b"), (⟨"3", "t", ["script"]⟩, "c")]
    (expire st (some 3)).1 = [(⟨"*", "root", ["script"]⟩, "b"), (⟨"3", "t", ["script"]⟩, "c")] ∧ (expire st none).1 = [] := by
  decide

/-! ## 3. after a restart the broadcast state is identical -/

/-- every reachable store has distinct keys (so the precedence theorems apply to it) and the
database, once written, holds it item by item -/
theorem run_persist (known : List String) (ops : List Op) (hsafe : ∀ op ∈ ops, SafeOp op) :
    Persist (run true known ops) ∧ NodupKeys (run true known ops).store :=
  ⟨persist_run known ops {} hsafe persist_init, (persist_run known ops {} hsafe persist_init).storeNodup⟩

/-- The full-strength statement, for a given behaviour of the change iterator: after any history a
clean stop and restart gives back the same broadcast state. -/
def reload_identity_full (allKeys : Bool) : Prop :=
  ∀ (known : List String) (ops : List Op) (k : Key),
    lookup (step allKeys known (run allKeys known ops) .restart).store k = lookup (run allKeys known ops).store k

/-- **Restart identity.** For the behaviour "every item of a setting is recorded"
(`changeIterAllKeys = true`, the repaired `get_broadcast_change_iter`): after *any* history of
put / clear / expire operations, database writes at arbitrary moments and earlier restarts — with
any points, namespaces, values, multi-item and nested settings — a clean stop and restart
rebuilds, from the `broadcast_states` table, a store that gives the same value (or absence) for
every (point, namespace, key path); and what is in the table after a write is the store, item by
item.  Hypothesis: the key paths set in the history are representable in the `key` column
(`SafeOp`: no `[` / `]` inside a name, section names non-empty) — without it the statement is false,
`reload_identity_counterexample`. -/
theorem reload_identity_partial (known : List String) (ops : List Op) (hsafe : ∀ op ∈ ops, SafeOp op) :
    (∀ k, lookup (step true known (run true known ops) .restart).store k = lookup (run true known ops).store k) ∧
    (∀ k, SafeKey k →
      lookup (run true known ops).db.flush.rows (renderK k) = lookup (run true known ops).store k) := by
  have h := (run_persist known ops hsafe).1
  constructor
  · exact (persist_restart _ _ h).2
  · intro k hk
    rw [lookup_flush]
    exact h.view k hk

/-- The same statement for the behaviour probed on the live code: it applies as soon as the generated
flag says that the live `get_broadcast_change_iter` records every item. -/
theorem reload_identity_live (hlive : Generated.BcastCfg.changeIterAllKeys = true)
    (known : List String) (ops : List Op) (hsafe : ∀ op ∈ ops, SafeOp op) :
    ∀ k, lookup (step Generated.BcastCfg.changeIterAllKeys known (run Generated.BcastCfg.changeIterAllKeys known ops) .restart).store k
      = lookup (run Generated.BcastCfg.changeIterAllKeys known ops).store k := by
  rw [hlive]
  exact (reload_identity_partial known ops hsafe).1

/-- The same for the unrepaired iterator (`changeIterAllKeys = false`, first item only), on the
domain where it loses nothing: every setting dictionary holds a single item (what the command line
sends). -/
theorem reload_identity_single_item_partial (known : List String) (ops : List Op)
    (hsafe : ∀ op ∈ ops, SafeOp op) (hsingle : ∀ op ∈ ops, SingleItems op) :
    ∀ k, lookup (step false known (run false known ops) .restart).store k = lookup (run false known ops).store k := by
  have hrun : ∀ (ops : List Op) (s : State), (∀ op ∈ ops, SingleItems op) →
      ops.foldl (step false known) s = ops.foldl (step true known) s := by
    intro ops
    induction ops with
    | nil => intro s _; rfl
    | cons op r ih =>
      intro s hs
      simp only [List.foldl_cons]
      rw [step_single known s op (hs op (by simp)), ih _ (fun o ho => hs o (by simp [ho]))]
  have : run false known ops = run true known ops := hrun ops {} hsingle
  rw [this]
  exact (reload_identity_partial known ops hsafe).1

/-- non-vacuity: a history with a multi-item nested setting, a clear of one item, a pending
re-put and an expiry satisfies the hypotheses, and its store is not empty -/
example :
    let ops : List Op := [
      .put ["1", "*"] ["root", "t"] [[(["environment", "A"], "1"), (["environment", "B"], "2"), (["script"], "x")]],
      .flush,
      .clear ⟨["1"], [], [["environment", "A"]]⟩,
      .put ["02"] ["t"] [[(["script"], "y")]],
      .expire (some 2)]
    (∀ op ∈ ops, SafeOp op) ∧ (run true ["root", "t"] ops).store.length = 7 := by
  decide

/-- With the first-item-only iterator (the unrepaired code) the full statement is false: a
two-item setting loses its second item over a restart. -/
theorem reload_first_item_only_counterexample :
    ¬ ∀ (known : List String) (ops : List Op), (∀ op ∈ ops, SafeOp op) →
      ∀ k, lookup (step false known (run false known ops) .restart).store k = lookup (run false known ops).store k := by
  intro h
  have := h ["root"] [.put ["1"] ["root"] [[(["environment", "A"], "1"), (["environment", "B"], "2")]]]
    (by decide)
    ⟨"1", "root", ["environment", "B"]⟩
  revert this
  decide

/-- Without the hypothesis on brackets the statement is false even with the repaired iterator:
the item `a]b` of `[directives]` comes back as `b`. -/
theorem reload_identity_counterexample : ¬ reload_identity_full true := by
  intro h
  have := h ["root"] [.put ["1"] ["root"] [[(["directives", "a]b"], "1")]]] ⟨"1", "root", ["directives", "a]b"]⟩
  revert this
  decide

end CylcModel.C22
