/-
C45 — Absolute-trigger outputs satisfy every dependent instance.
Statements only; proofs by reference to `SchedLemmasC45` (the absolute-trigger invariant as a `Frame`).

Reading of the property over `Sched`: an *absolute output* `a = (point, task, message)` is an output
with a graph child that comes from an absolute trigger (`foo[^]`, `foo[^+P1]`, `foo[2]`); it is
*completed* when `spawn_on_output` runs for it on a pooled instance, which records it in `absDone`
(`abs_output_recorded`, `abs_recorded_forever`); a *dependent instance* is a pooled proxy of a task
listed as an absolute child of `a`; "has that prerequisite satisfied" is: every occurrence of the atom
is satisfied, or all prerequisites of the instance are satisfied anyway (the code skips the
absolute-output fix-up for instances whose prerequisites are already all satisfied).

The full statement is FALSE for the current code (`abs_satisfies_all_counterexample`, replayed on the
real scheduler by the check, finding `abs-first-child-unavailable`): `spawn_on_output` updates the
pooled instances of the dependent task only if the *first child* of the trigger (the instance at the
start of the child's sequence, the one listed in the graph children) is in the pool or can be spawned.
If it cannot (it lies before the start point of a warm start, or it already ran and completed through
another branch of an `|`, or it was removed by a suicide trigger), the pooled instances stay
unsatisfied.  What is proved is the statement with exactly that case excluded
(`abs_satisfies_all_partial`), for all instance graphs and all op lists.

Not in `Sched` v1 (so not stated): restart — reloading `abs_outputs_done` from the
`absolute_outputs` table (`load_abs_outputs_for_restart`).
-/
import CylcModel.SchedLemmasC45
namespace CylcModel.C45
open CylcModel.Sched

/-- every pooled dependent of every recorded absolute output has the atom (or is satisfied anyway) -/
def AbsSatisfied (g : Graph) (s : State) : Prop :=
  ∀ a ∈ s.absDone, ∀ x ∈ s.pool, dependentB g a x.name = true →
    x.atomSat a = true ∨ x.prereqsSatisfied = true

instance (g : Graph) (s : State) : Decidable (AbsSatisfied g s) := by
  unfold AbsSatisfied; infer_instance

/-- the full-strength statement (DESIGN §5 `abs_satisfies_all`, current instances) -/
def abs_satisfies_all_full : Prop :=
  ∀ (g : Graph), absWfB g = true → ∀ (ops : List Op), ∀ s ∈ run g ops, AbsSatisfied g s

/-- **What holds for every instance graph and every op list**: in every state of every run, every
pooled instance of a task that depends on a recorded absolute output has that atom satisfied, or has
all its prerequisites satisfied, or the first child of the trigger is neither in the pool nor
spawnable (`Unavail`, the excluded case). -/
theorem abs_satisfies_all_partial (g : Graph) (hwf : absWfB g = true) (ops : List Op) :
    ∀ s ∈ run g ops, ∀ a ∈ s.absDone, ∀ x ∈ s.pool, dependentB g a x.name = true →
      x.atomSat a = true ∨ x.prereqsSatisfied = true ∨ Unavail g s a x.name := by
  intro s hs a ha x hx hd
  rcases (absInv_run g hwf ops s hs).1 x hx a ha hd with h | h | h | h
  · exact absurd h id
  · exact Or.inr (Or.inl h)
  · exact Or.inl h
  · exact Or.inr (Or.inr h)

/-- the full statement holds in every state in which no first child is unavailable -/
theorem abs_satisfies_all_of_available (g : Graph) (hwf : absWfB g = true) (ops : List Op) :
    ∀ s ∈ run g ops, (∀ a ∈ s.absDone, ∀ d, ¬ Unavail g s a d) → AbsSatisfied g s := by
  intro s hs hav a ha x hx hd
  rcases abs_satisfies_all_partial g hwf ops s hs a ha x hx hd with h | h | h
  · exact Or.inl h
  · exact Or.inr h
  · exact absurd h (hav a ha _)

/-- **Future instances** (`spawn_task` reads `abs_outputs_done`): whatever state the scheduler is in,
an instance of a task with absolute triggers that `spawnTask` creates has every recorded absolute
output satisfied, unless all its prerequisites are satisfied already. -/
theorem abs_future_instances (g : Graph) (s : State) (name : String) (p : Int) (x : Proxy) (t : TaskDefn)
    (ht : g.task? name = some t) (habs : t.hasAbs = true) (h : spawnTask g s name p = some x) :
    x.prereqsSatisfied = true ∨ ∀ a ∈ s.absDone, x.atomSat a = true := by
  rw [spawnTask_eq] at h
  cases hc : spawnCore g s.hist name p with
  | none => simp [hc] at h
  | some y =>
    simp only [hc, Option.map_some, Option.some.injEq] at h
    subst h
    by_cases hy : y.prereqsSatisfied = true
    · left
      have he : absFinish g s.absDone name y = y := by unfold absFinish; simp [ht, hy]
      rw [he]; exact hy
    · right
      intro a ha
      have he : absFinish g s.absDone name y = s.absDone.foldl (fun z a => z.satisfyMe a) y := by
        unfold absFinish; simp [ht, habs, hy]
      rw [he]; exact foldl_satisfyMe_atomSat _ _ _ ha

/-- **Completion records the output**: `spawn_on_output` for an output of a pooled instance that has an
absolute child puts the output into `absDone` … -/
theorem abs_output_recorded (g : Graph) (s : State) (p : Int) (n out : String) (x : Proxy)
    (hx : s.get? p n = some x) (hfl : x.flows.isEmpty = false)
    (habs : ∃ c ∈ childrenOf g x out, c.isAbs = true) :
    (⟨p, n, out⟩ : Atom) ∈ (spawnOnOutput g s p n out).absDone :=
  spawnOnOutput_records g s p n out x hx hfl habs

/-- … **and it stays there** through every later op ("once … completed"). -/
theorem abs_recorded_forever (g : Graph) (s : State) (ops : List Op) (a : Atom) (h : a ∈ s.absDone) :
    a ∈ (ops.foldl (step g) s).absDone := by
  induction ops generalizing s with
  | nil => exact h
  | cons op ops ih => exact ih _ (absDone_step g s op a h)

/-! ### the counterexample and non-vacuity -/

/-- `P1 = "a[^+P1]:start => c"`, points 1..2 -/
def exGraph (start : Int) : Graph :=
  { icp := 1, fcp := 2, start := start, runahead := 1, seqs := [[1, 2]], stopPoint := some 2,
    tasks := [
      { name := "a",
        insts := [(1, { pre := [], sui := [], children := [], nextParentless := some 2 }),
                  (2, { pre := [], sui := [], children := [("started", [⟨"c", 1, true⟩])], nextParentless := none })],
        firstParentless := some start,
        completion := CE.var "succeeded",
        outputs := [⟨"submitted", "submitted"⟩, ⟨"started", "started"⟩, ⟨"succeeded", "succeeded"⟩] },
      { name := "c",
        insts := [(1, { pre := [⟨[(⟨2, "a", "started"⟩, false)], none⟩], sui := [], children := [],
                        nextParentless := some 2 }),
                  (2, { pre := [⟨[(⟨2, "a", "started"⟩, false)], none⟩], sui := [], children := [],
                        nextParentless := none })],
        firstParentless := some start,
        completion := CE.var "succeeded",
        outputs := [⟨"submitted", "submitted"⟩, ⟨"started", "started"⟩, ⟨"succeeded", "succeeded"⟩],
        hasAbs := true }] }

def exOps : List Op := [.loop, .subres 2 "a" true 1, .msg 2 "a" 1 "started", .loop]

-- cold start: 2/a:started is recorded and both pooled instances of c have the atom
example : absWfB (exGraph 1) = true := by decide
example :
    ((run (exGraph 1) exOps).getLast?.map fun s =>
      (s.absDone, s.pool.map fun x => (x.pt, x.name, x.atomSat ⟨2, "a", "started"⟩))) =
      some ([⟨2, "a", "started"⟩], [(1, "a", true), (1, "c", true), (2, "a", true), (2, "c", true)]) := by decide

/-- warm start at 2: the first child 1/c lies before the start point, `spawnTask` refuses it, and the
pooled 2/c never gets the atom although 2/a:started is recorded -/
theorem abs_satisfies_all_counterexample : ¬ abs_satisfies_all_full := by
  intro h
  have h1 := h (exGraph 2) (by decide) exOps
  revert h1
  decide

-- in the counterexample the excluded case is exactly what happens
example :
    ((run (exGraph 2) exOps).getLast?.map fun s =>
      (s.absDone, s.pool.map fun x => (x.pt, x.name, x.atomSat ⟨2, "a", "started"⟩))) =
      some ([⟨2, "a", "started"⟩], [(2, "a", true), (2, "c", false)]) := by decide
example :
    ((run (exGraph 2) exOps).getLast?.map fun s =>
      ((s.get? 1 "c").isNone && (spawnTask (exGraph 2) s "c" 1).isNone)) = some true := by decide

end CylcModel.C45
