/-
C19 — Stop-and-restart preserves the workflow state.
Statements only; proofs by reference to `SchedLemmasC19` (one lemma per primitive of the frozen `Sched2` model,
lifted over op lists with `run_inv`).

`restore_persist` is delivered field by field: for EVERY state `s` of EVERY run (any instance graph, any list of
main loops, submit results, job messages, hold / release / hold-point / stop / stop-point / stop-task / pause /
resume commands and earlier restarts), `restart g s` is `s` up to the documented normalisation.  Two items of the
property text are false on the code as it is; they are stated at full strength as `def … : Prop`, refuted by a
concrete reachable state (`…_counterexample`, replayed on the real scheduler: findings/C19.json) and proved in
the exact form the code implements (`restart_outputs`, `restart_held`).
-/
import CylcModel.SchedLemmasC19
import CylcModel.SchedLemmasC19B
namespace CylcModel.C19
open CylcModel.Sched2

/-! ### the pooled tasks -/

/-- **Same task instances**, in the same order. -/
theorem restart_same_instances (g : Graph) (ops : List Op) :
    ∀ s ∈ run g ops, ((restart g s).pool.map fun x => (x.pt, x.name)) = s.pool.map fun x => (x.pt, x.name) := by
  intro s hs
  rw [restart_pool g s (nodup_run g ops s hs), List.map_map]
  apply List.map_congr_left
  intro x _
  simp only [Function.comp]
  unfold normProxy
  split
  · exact restoreProxy_key x
  · rw [(holdBeyond_other _ _).1, (holdBeyond_other _ _).2.1]; exact restoreProxy_key x

/-- **Status**: a task caught in job preparation comes back waiting; every other status is restored. -/
theorem restart_status (g : Graph) (ops : List Op) :
    ∀ s ∈ run g ops, (restart g s).pool.map (·.status) =
      s.pool.map fun x => if x.status = .preparing then Status.waiting else x.status := by
  intro s hs
  rw [restart_map (·.status) (fun p x => (holdBeyond_other p x).2.2.1) g ops s hs]
  apply List.map_congr_left
  intro x _
  exact restoreProxy_status x

/-- **Submit number**: restored; for a task that was preparing it is the previous one, so that the job is
prepared again under the same submit number. -/
theorem restart_submit_num (g : Graph) (ops : List Op) :
    ∀ s ∈ run g ops, (restart g s).pool.map (·.submitNum) =
      s.pool.map fun x => if x.status = .preparing then x.submitNum - 1 else x.submitNum := by
  intro s hs
  rw [restart_map (·.submitNum) (fun p x => (holdBeyond_other p x).2.2.2.1) g ops s hs]
  apply List.map_congr_left
  intro x _
  exact restoreProxy_submitNum x

/-- **Flow numbers** are restored. -/
theorem restart_flows (g : Graph) (ops : List Op) :
    ∀ s ∈ run g ops, (restart g s).pool.map (·.flows) = s.pool.map (·.flows) := by
  intro s hs
  rw [restart_map (·.flows) (fun p x => (holdBeyond_other p x).2.2.2.2.1) g ops s hs]
  apply List.map_congr_left
  intro x _
  exact (restoreProxy_other x).2.2.1

/-- **Prerequisite satisfaction** (ordinary and suicide prerequisites, every atom) is restored. -/
theorem restart_prereqs (g : Graph) (ops : List Op) :
    ∀ s ∈ run g ops, (restart g s).pool.map (fun x => (x.pre, x.sui)) = s.pool.map fun x => (x.pre, x.sui) := by
  intro s hs
  rw [restart_map (fun x => (x.pre, x.sui))
    (fun p x => by rw [(holdBeyond_other p x).2.2.2.2.2.2.1, (holdBeyond_other p x).2.2.2.2.2.2.2.1]) g ops s hs]
  apply List.map_congr_left
  intro x _
  rw [(restoreProxy_other x).2.2.2.2.1, (restoreProxy_other x).2.2.2.2.2.1]

/-- **Retry state** (try numbers, existence of the try timers) is restored. -/
theorem restart_tries (g : Graph) (ops : List Op) :
    ∀ s ∈ run g ops, (restart g s).pool.map (fun x => (x.execTry, x.subTry, x.timers)) =
      s.pool.map fun x => (x.execTry, x.subTry, x.timers) := by
  intro s hs
  rw [restart_map (fun x => (x.execTry, x.subTry, x.timers))
    (fun p x => by
      rw [(holdBeyond_other p x).2.2.2.2.2.2.2.2.2.2.1, (holdBeyond_other p x).2.2.2.2.2.2.2.2.2.2.2.1,
        (holdBeyond_other p x).2.2.2.2.2.2.2.2.2.2.2.2]) g ops s hs]
  apply List.map_congr_left
  intro x _
  rw [(restoreProxy_other x).2.2.2.2.2.2.1, (restoreProxy_other x).2.2.2.2.2.2.2.1,
    (restoreProxy_other x).2.2.2.2.2.2.2.2.1]

/-- **Completed outputs, as implemented**: restored for running, failed and succeeded tasks; EMPTY for every
other status (submitted, submit-failed, waiting for a retry, preparing again after a retry). -/
theorem restart_outputs (g : Graph) (ops : List Op) :
    ∀ s ∈ run g ops, (restart g s).pool.map (·.done) =
      s.pool.map fun x => if x.status = .running ∨ x.status = .failed ∨ x.status = .succeeded then x.done else [] := by
  intro s hs
  rw [restart_map (·.done) (fun p x => (holdBeyond_other p x).2.2.2.2.2.1) g ops s hs]
  apply List.map_congr_left
  intro x _
  exact restoreProxy_done x

/-- the property text: completed outputs are restored (for every pooled task) -/
def restart_outputs_full : Prop :=
  ∀ (g : Graph) (ops : List Op), ∀ s ∈ run g ops, (restart g s).pool.map (·.done) = s.pool.map (·.done)

/-- what holds: the outputs of running / failed / succeeded tasks are restored -/
theorem restart_outputs_partial (g : Graph) (ops : List Op) :
    ∀ s ∈ run g ops, (∀ x ∈ s.pool, x.status = .running ∨ x.status = .failed ∨ x.status = .succeeded ∨ x.done = []) →
      (restart g s).pool.map (·.done) = s.pool.map (·.done) := by
  intro s hs hall
  rw [restart_outputs g ops s hs]
  apply List.map_congr_left
  intro x hx
  split
  · rfl
  · rename_i hn
    rcases hall x hx with h | h | h | h
    · exact absurd (Or.inl h) hn
    · exact absurd (Or.inr (Or.inl h)) hn
    · exact absurd (Or.inr (Or.inr h)) hn
    · exact h.symm

/-- **Held state, as implemented**: restored, except that `configure` re-applies the hold point after the pool is
loaded, so every pooled task beyond the hold point comes back held — also one released individually before. -/
theorem restart_held (g : Graph) (ops : List Op) :
    ∀ s ∈ run g ops, (restart g s).pool.map (·.held) =
      s.pool.map fun x => x.held || (match s.holdPoint with | some hp => decide (x.pt > hp) | none => false) := by
  intro s hs
  rw [restart_pool g s (nodup_run g ops s hs), List.map_map]
  apply List.map_congr_left
  intro x _
  simp only [Function.comp]
  cases hh : s.holdPoint with
  | none => simp [normProxy, (restoreProxy_other x).2.2.2.1]
  | some hp =>
    simp only [normProxy]
    rw [holdBeyond_held, (restoreProxy_other x).2.2.2.1, (restoreProxy_other x).1]

/-- the property text: the held state of every pooled task is restored -/
def restart_held_full : Prop :=
  ∀ (g : Graph) (ops : List Op), ∀ s ∈ run g ops, (restart g s).pool.map (·.held) = s.pool.map (·.held)

/-- no pooled task beyond the hold point is currently released -/
def NoReleasedBeyondHoldPoint (s : State) : Prop :=
  ∀ hp, s.holdPoint = some hp → ∀ x ∈ s.pool, x.pt > hp → x.held = true

/-- what holds: the held state is restored unless a task beyond the hold point had been released individually -/
theorem restart_held_partial (g : Graph) (ops : List Op) :
    ∀ s ∈ run g ops, NoReleasedBeyondHoldPoint s → (restart g s).pool.map (·.held) = s.pool.map (·.held) := by
  intro s hs hno
  rw [restart_held g ops s hs]
  apply List.map_congr_left
  intro x hx
  cases hh : s.holdPoint with
  | none => simp
  | some hp =>
    simp only
    by_cases hgt : x.pt > hp
    · rw [hno hp hh x hx hgt]; rfl
    · simp [hgt]

/-- **Normalisation of the scheduling flags** (documented): queues are rebuilt (nothing queued), every task loads
runahead-limited except the finished ones (failed / succeeded / expired), to be released by the next main loop. -/
theorem restart_flags (g : Graph) (ops : List Op) :
    ∀ s ∈ run g ops, (restart g s).pool.map (fun x => (x.queued, x.runahead)) =
      s.pool.map fun x => (false, !(x.status == .failed || x.status == .succeeded || x.status == .expired)) := by
  intro s hs
  rw [restart_map (fun x => (x.queued, x.runahead))
    (fun p x => by rw [(holdBeyond_other p x).2.2.2.2.2.2.2.2.1, (holdBeyond_other p x).2.2.2.2.2.2.2.2.2.1]) g ops s hs]
  apply List.map_congr_left
  intro x _
  rw [(restoreProxy_other x).2.2.2.2.2.2.2.2.2, restoreProxy_runahead]

/-! ### workflow-level state -/

/-- **Hold point** restored (any state). -/
theorem restart_hold_point (g : Graph) (s : State) : (restart g s).holdPoint = s.holdPoint :=
  (restart_globals g s).1

/-- **Stop task** restored (any state). -/
theorem restart_stop_task (g : Graph) (s : State) : (restart g s).stopTask = s.stopTask :=
  (restart_globals g s).2.1

/-- **Record of completed absolute outputs** (satisfies the absolute triggers of tasks spawned later) restored. -/
theorem restart_abs_outputs (g : Graph) (s : State) : (restart g s).absDone = s.absDone :=
  (restart_globals g s).2.2.1

/-- **Database history** of removed instances (decides that finished work is not run again) restored. -/
theorem restart_history (g : Graph) (s : State) : (restart g s).hist = s.hist :=
  (restart_globals g s).2.2.2.1

/-- the restarted scheduler is running again, with no stop request pending -/
theorem restart_running (g : Graph) (s : State) : (restart g s).stop = none ∧ (restart g s).stopMode = none :=
  ⟨(restart_globals g s).2.2.2.2.2.1, (restart_globals g s).2.2.2.2.2.2.1⟩

/-- **Stop point** restored: in every state of every run over a graph whose start-up stop point is the configured
one (`WFStop`, checked by the driver on every extracted graph), unless the scheduler shut down on its own — it
does so on reaching the stop point and then forgets it by design ("forget early stop point in case of a restart"). -/
theorem restart_stop_point (g : Graph) (hw : WFStop g) (ops : List Op) :
    ∀ s ∈ run g ops, s.stop ≠ some "AUTOMATIC" → (restart g s).stopPoint = s.stopPoint := by
  intro s hs hne
  have hinv := (inv_run g hw ops s hs).2 hne
  have h1 : (restart g s).stopPoint = restartStop g s := by
    have hi := inv_restart g s (nodup_run g ops s hs)
    have h2 := hi.2 (by rw [(restart_globals g s).2.2.2.2.2.1]; simp)
    unfold stopQ at h2
    rw [(restart_globals g s).2.2.2.2.1] at h2
    exact h2
  rw [h1]
  exact hinv.symm

/-- **`tasks_to_hold`, as implemented**: the holds recorded before the stop (pooled and future instances), plus —
when a hold point is set — every pooled task beyond it that was not in the table. -/
theorem restart_tasks_to_hold (g : Graph) (ops : List Op) :
    ∀ s ∈ run g ops, (restart g s).tasksToHold =
      match s.holdPoint with
      | none => s.tasksToHold
      | some hp => (s.pool.map restoreProxy).foldl (addHold hp) s.tasksToHold := by
  intro s hs
  rw [restart_spec g s (nodup_run g ops s hs)]
  cases hh : s.holdPoint with
  | none => rfl
  | some hp => rfl

/-- every hold recorded before the stop is still recorded after the restart -/
theorem restart_tasks_to_hold_kept (g : Graph) (ops : List Op) :
    ∀ s ∈ run g ops, ∀ k ∈ s.tasksToHold, k ∈ (restart g s).tasksToHold := by
  intro s hs k hk
  rw [restart_tasks_to_hold g ops s hs]
  cases hh : s.holdPoint with
  | none => exact hk
  | some hp =>
    simp only
    have : ∀ (l : List Proxy) (th : List (String × Int)), k ∈ th → k ∈ l.foldl (addHold hp) th := by
      intro l
      induction l with
      | nil => intro th h; exact h
      | cons x l ih =>
        intro th h
        simp only [List.foldl_cons]
        apply ih
        unfold addHold
        split
        · split
          · exact h
          · exact List.mem_append_left _ h
        · exact h
    exact this _ _ hk

/-- the table is restored exactly when every pooled task beyond the hold point is in it -/
theorem restart_tasks_to_hold_partial (g : Graph) (ops : List Op) :
    ∀ s ∈ run g ops, (∀ hp, s.holdPoint = some hp → ∀ x ∈ s.pool, x.pt > hp → (x.name, x.pt) ∈ s.tasksToHold) →
      (restart g s).tasksToHold = s.tasksToHold := by
  intro s hs hall
  rw [restart_tasks_to_hold g ops s hs]
  cases hh : s.holdPoint with
  | none => rfl
  | some hp =>
    simp only
    have : ∀ (l : List Proxy) (th : List (String × Int)),
        (∀ x ∈ l, x.pt > hp → (x.name, x.pt) ∈ th) → l.foldl (addHold hp) th = th := by
      intro l
      induction l with
      | nil => intro th _; rfl
      | cons x l ih =>
        intro th h
        simp only [List.foldl_cons]
        have hx : addHold hp th x = th := by
          unfold addHold
          split
          · rename_i hgt
            have := h x (List.mem_cons_self) hgt
            simp [this]
          · rfl
        rw [hx]
        exact ih th (fun y hy => h y (List.mem_cons_of_mem _ hy))
    apply this
    intro y hy hgt
    obtain ⟨x, hx, rfl⟩ := List.mem_map.mp hy
    rw [(restoreProxy_other x).1] at hgt
    rw [(restoreProxy_other x).1, (restoreProxy_other x).2.1]
    exact hall hp hh x hx hgt

/-- **Successive restarts**: a second restart with nothing in between changes nothing but the internal
`is_updated` flags — pooled proxies, `tasks_to_hold`, hold point, stop point, stop task, absolute outputs and
history are those of the first restart (in every state of every run). -/
theorem successive_restarts (g : Graph) (ops : List Op) : ∀ s ∈ run g ops,
    (restart g (restart g s)).pool.map forgetUpd = (restart g s).pool.map forgetUpd ∧
    (restart g (restart g s)).tasksToHold = (restart g s).tasksToHold ∧
    (restart g (restart g s)).holdPoint = (restart g s).holdPoint ∧
    (restart g (restart g s)).stopPoint = (restart g s).stopPoint ∧
    (restart g (restart g s)).stopTask = (restart g s).stopTask ∧
    (restart g (restart g s)).absDone = (restart g s).absDone ∧
    (restart g (restart g s)).hist = (restart g s).hist :=
  fun s hs => restart_restart g s (nodup_run g ops s hs)

/-! ### concrete runs: non-vacuity, and the two refutations -/

/-- one task `a` on cycle points 1 and 2, runahead limit P1 -/
def exGraph : Graph :=
  { icp := 1, fcp := 2, start := 1, runahead := 1, seqs := [[1, 2]], stopPoint := some 2,
    tasks := [
      { name := "a",
        insts := [(1, { pre := [], sui := [], children := [], nextParentless := some 2 }),
                  (2, { pre := [], sui := [], children := [], nextParentless := none })],
        firstParentless := some 1,
        completion := CE.var "succeeded",
        outputs := [⟨"submitted", "submitted"⟩, ⟨"started", "started"⟩, ⟨"succeeded", "succeeded"⟩] }] }

example : WFStop exGraph := by decide

-- one main loop: both instances are in job preparation under submit number 1; a stop + restart brings them back
-- waiting under submit number 0 (to be prepared again under 1), not queued, runahead-limited
example :
    ((after exGraph [.loop]).pool.map fun x => (x.pt, x.name, x.status, x.submitNum)) =
      [(1, "a", .preparing, 1), (2, "a", .preparing, 1)] ∧
    ((restart exGraph (after exGraph [.loop, .stop "REQUEST(NOW)", .loop])).pool.map
        fun x => (x.pt, x.name, x.status, x.submitNum, x.queued, x.runahead)) =
      [(1, "a", .waiting, 0, false, true), (2, "a", .waiting, 0, false, true)] := by decide

-- ... and the next main loop after the restart prepares them again under the same submit number
example :
    (step exGraph (restart exGraph (after exGraph [.loop, .stop "REQUEST(NOW)", .loop])) .loop).launched =
      [(1, "a", 1), (2, "a", 1)] := by decide

-- a running task keeps status, submit number and outputs; a stop point set by command, the stop task and a hold
-- on a future instance survive the restart (the scheduler was stopped with `stop --now`)
def exStopped : State :=
  after exGraph [.loop, .subres 1 "a" true 1, .msg 1 "a" 1 "started", .loop, .stopPoint 1,
    .stopTask 2 "a", .hold [(2, "a")], .stop "REQUEST(NOW)", .loop]

example :
    exStopped.stop = some "REQUEST(NOW)" ∧
    ((restart exGraph exStopped).pool.map fun x => (x.pt, x.name, x.status, x.submitNum)) =
      [(1, "a", .running, 1), (2, "a", .waiting, 0)] ∧
    ((restart exGraph exStopped).pool.map fun x => (x.done, x.held)) =
      [(["submitted", "started"], false), ([], true)] ∧
    (restart exGraph exStopped).stopPoint = some 1 ∧ exStopped.stopPoint = some 1 ∧
    (restart exGraph exStopped).stopTask = some (2, "a") ∧
    (restart exGraph exStopped).tasksToHold = [("a", 2)] := by
  refine ⟨by decide, by decide, by decide, by decide, by decide, by decide, by decide⟩

/-- **The property text on completed outputs is false on the code**: a *submitted* task has completed its
`submitted` output; after stop + restart it has none. -/
theorem restart_outputs_counterexample : ¬ restart_outputs_full := by
  intro h
  have h1 := h exGraph [.loop, .subres 1 "a" true 1] _ (after_mem_run _ _)
  revert h1
  decide

/-- **The property text on the held state is false on the code**: hold point 1, `2/a` released individually;
after stop + restart `2/a` is held again. -/
theorem restart_held_counterexample : ¬ restart_held_full := by
  intro h
  have h1 := h exGraph [.setHoldPoint 1, .release [(2, "a")]] _ (after_mem_run _ _)
  revert h1
  decide

-- the hypotheses of the two `_partial` theorems are satisfiable in non-trivial states
def exRunning : State := after exGraph [.loop, .subres 1 "a" true 1, .msg 1 "a" 1 "started", .loop]

example :
    (∀ x ∈ exRunning.pool, x.status = .running ∨ x.status = .failed ∨ x.status = .succeeded ∨ x.done = []) ∧
    (exRunning.pool.map fun x => (x.status, x.done)) =
      [(.running, ["submitted", "started"]), (.preparing, [])] := by decide

def exHeld : State := after exGraph [.setHoldPoint 1]

example :
    NoReleasedBeyondHoldPoint exHeld ∧
    (∀ hp, exHeld.holdPoint = some hp → ∀ x ∈ exHeld.pool, x.pt > hp → (x.name, x.pt) ∈ exHeld.tasksToHold) ∧
    (exHeld.pool.map fun x => (x.pt, x.held)) = [(1, false), (2, true)] := by
  have h1 : exHeld.holdPoint = some 1 := by decide
  refine ⟨?_, ?_, by decide⟩
  · intro hp hh
    have : hp = 1 := by rw [h1] at hh; exact (Option.some.inj hh).symm
    subst this; decide
  · intro hp hh
    have : hp = 1 := by rw [h1] at hh; exact (Option.some.inj hh).symm
    subst this; decide

/-! ### broadcasts (`Sched2B` = `Sched2` + the broadcast store and its `broadcast_states` queue) -/

/-- The scheduler side of a `Sched2B` run is a `Sched2` run (of the same ops, a broadcast request counting as a
`release` of nothing): every theorem above applies to the runs with broadcasts. -/
theorem with_broadcasts_is_sched2 (cfg : Sched2B.Cfg) (g : Graph) (ops : List Sched2B.Op) :
    (Sched2B.run cfg g ops).map (·.s) = run g (ops.map Sched2B.proj) :=
  Sched2B.run_proj cfg g ops

/-- **Broadcasts restored**: in every state of every run — any interleaving of broadcast set / clear / expire
requests (any points, namespaces, keys, several between two database writes), main loops with their automatic
expiry and database write, commands and earlier restarts — a stop + restart rebuilds from the `broadcast_states`
table a store with the same value (or absence) for every (point, namespace, key), without duplicate entries.
Hypothesis (`SafeOps`, checked by the driver on every case): key paths representable in the `key` column. -/
theorem restart_broadcasts (cfg : Sched2B.Cfg) (g : Graph) (ops : List Sched2B.Op) (hsafe : Sched2B.SafeOps ops) :
    ∀ y ∈ Sched2B.run cfg g ops,
      (∀ k, Bcast.lookup (Sched2B.step cfg g y (.sched .restart)).b.store k = Bcast.lookup y.b.store k) ∧
      Bcast.NodupKeys (Sched2B.step cfg g y (.sched .restart)).b.store ∧ Bcast.NodupKeys y.b.store := by
  intro y hy
  have hp := Sched2B.persist_run cfg g ops hsafe y hy
  have hr := Bcast.persist_restart y.b.store y.b.db hp
  exact ⟨hr.2, hr.1.storeNodup, hp.storeNodup⟩

/-- in every state of every run the table, once its pending deletes and inserts are written, holds the store item
by item — in particular a broadcast set in the same main-loop iteration in which another one sharing its point,
namespace or key is cleared or expires is not lost -/
theorem broadcast_table_holds_store (cfg : Sched2B.Cfg) (g : Graph) (ops : List Sched2B.Op)
    (hsafe : Sched2B.SafeOps ops) :
    ∀ y ∈ Sched2B.run cfg g ops, ∀ k, Bcast.SafeKey k →
      Bcast.lookup y.b.db.flush.rows (Bcast.renderK k) = Bcast.lookup y.b.store k := by
  intro y hy k hk
  rw [Bcast.lookup_flush]
  exact (Sched2B.persist_run cfg g ops hsafe y hy).view k hk

/-- a run with broadcasts: FOO is set for cycle 1, written by a main loop; then FOO is set for cycle 2 and the
cycle-1 broadcast is cleared with no main loop in between (the two share namespace and key); stop --now, restart -/
def exBcastOps : List Sched2B.Op :=
  [.bcast (.put ["1"] ["a"] [[(["environment", "FOO"], "for-1")]]), .sched .loop,
   .bcast (.put ["2"] ["a"] [[(["environment", "FOO"], "for-2")]]),
   .bcast (.clear ⟨["1"], [], []⟩),
   .sched (.stop "REQUEST(NOW)"), .sched .loop]

def exBcastCfg : Sched2B.Cfg := { known := ["a", "root"], longest := 1 }

example : Sched2B.SafeOps exBcastOps := by decide

example :
    ((exBcastOps.foldl (Sched2B.step exBcastCfg exGraph) (Sched2B.init exGraph)).b.store =
      [(⟨"2", "a", ["environment", "FOO"]⟩, "for-2")]) ∧
    ((Sched2B.step exBcastCfg exGraph (exBcastOps.foldl (Sched2B.step exBcastCfg exGraph) (Sched2B.init exGraph))
      (.sched .restart)).b.store = [(⟨"2", "a", ["environment", "FOO"]⟩, "for-2")]) := by
  refine ⟨by decide, by decide⟩

/-! ### the continued run -/

/-- **`spawn_task` decides the same after a restart**: whether (and as what) an instance is spawned on demand reads
only the DB history, `tasks_to_hold`, the hold point and the record of absolute outputs, all of which a restart
preserves — so work recorded as finished is not run again and instances not yet spawned are spawned as before. -/
theorem spawn_after_restart (g : Graph) (ops : List Op) :
    ∀ s ∈ run g ops, (restart g s).tasksToHold = s.tasksToHold →
      ∀ n p, (spawnTask g (restart g s) n p).2 = (spawnTask g s n p).2 := by
  intro s _ hth n p
  rw [spawnTask_decision, spawnTask_decision, hth, restart_history, restart_hold_point, restart_abs_outputs]

/-- `continuation_equiv`, the second sentence of the property, over the model closed with a deterministic job
environment (`plan`: what every job reports; `SchedLemmasC19`, closed-loop execution): whenever the uninterrupted
run of `n` rounds finishes, the run that is stopped after `k` rounds (in either mode), restarted and continued
launches the same set of task instances and ends with the same outputs of every instance.
NOT PROVED (needs a stuttering bisimulation up to the normalisation; the closed-loop model refutes it by
evaluation for a plan in which a retried job does not repeat an output of its first try — the
`outputs-not-restored` finding); decided on real runs by the differential judge of the driver. -/
def continuation_equiv_full : Prop :=
  ∀ (g : Graph) (plan : Plan) (k n : Nat) (mode : String),
    mode = "REQUEST(CLEAN)" ∨ mode = "REQUEST(NOW)" →
    (runU g plan n).s.stop = some "AUTOMATIC" →
    sameOutcome (runU g plan n) (runI g plan k mode n) = true

end CylcModel.C19
