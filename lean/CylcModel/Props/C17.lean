/-
C17 — Datetime recurrences are consistent with brute-force enumeration; caches are transparent.

The model (`CylcModel/IsoSeq.lean`) is the query/caching logic of `ISO8601Sequence` over an abstract
recurrence `s.rc`: the list `pts` obtained by iterating the isodatetime `TimeRecurrence` (instants),
its `get_next` / `get_prev` as functions, an arbitrary exclusion predicate `s.excl`, an arbitrary
`point_parse` (`s.val`), any cache size `s.cap`.  Brute force = list operations on
`s.L = pts.filter (not excluded)`: `specValid`, `specNext`, `specFirst`, `specPrev`, `specStart`,
`specStop` (`CylcModel/IsoSeqLemmas.lean`).  No bound on the length of `pts`, of the query history,
or on the instants.

Hypotheses that appear below:
* `Sorted s`  : the iteration is strictly increasing;
* `NextOK s`  : `recurrence.get_next`, applied to a member re-parsed from its own string, gives the
  next member of the iteration.  isodatetime guarantees this when the re-parsed point is the
  iterated one; it FAILS for calendar durations (months, years) when the recurrence start is
  written in another time zone than the cycle point time zone (finding `step-off-iteration`);
* `PrevOK s`  : the same for `get_prev`; fails at month ends (`p + P1M - P1M ≠ p`; finding
  `prev-inexact-duration`);
* `fuel`      : bound on loop iterations of the executable model, any value above `pts.length`.
-/
import CylcModel.IsoSeqLemmas
namespace CylcModel.C17
open CylcModel.IsoSeq

/-! ## statements -/

/-- The full-strength statement: in every state reachable by queries, every query is answered
with the brute-force answer. -/
def iso_query_spec_full : Prop :=
  ∀ (s : Seq) (fuel : Nat) (qs : List Q) (q : Q), Sorted s → s.rc.pts.length < fuel →
    (step s fuel (run s fuel {} qs) q).2 = specAns s q

/-- **iso_query_spec (partial).** After any history of queries `qs`, membership (`is_valid`,
`is_on_sequence`), next, first, start are answered with the brute-force answer over the iterated
list minus exclusions; so are previous (for a point of the iteration, when stepping back inverts
stepping forward: `PrevOK`), nearest-previous (for off-sequence or excluded points always, for valid
points under `PrevOK`) and stop (when the recurrence is unbounded, or one of its last two points is
not excluded, or the code skips all trailing exclusions: `stopSkipsExcluded`, probed from the live
code).  Missing for the full statement: `NextOK`/`PrevOK` are assumptions on isodatetime that fail for
calendar durations (see the counterexamples), `get_prev_point` of a point that is not on the
recurrence, and `get_stop_point` behind two or more trailing exclusions on the unpatched code. -/
theorem iso_query_spec_partial (s : Seq) (fuel : Nat) (qs : List Q) (q : Q)
    (hs : Sorted s) (hn : NextOK s) (hf : s.rc.pts.length < fuel) (hc : Covered s q) :
    (step s fuel (run s fuel {} qs) q).2 = specAns s q := by
  have hi := run_inv hs hn fuel hf qs {} (inv_init s)
  rw [(step_ref hs hn fuel hf hi q).1, ref_spec hs fuel hf q hc]

/-- The full-strength statement of cache transparency: the answer to `q` after any history equals
the answer of a fresh sequence object. -/
def cache_transparent_full : Prop :=
  ∀ (s : Seq) (fuel : Nat) (qs : List Q) (q : Q), Sorted s → s.rc.pts.length < fuel →
    (step s fuel (run s fuel {} qs) q).2 = (step s fuel {} q).2

/-- **cache_transparent (partial).** For every query list `qs` and every query `q` (all eight
kinds, no side condition on `q`, any cache size including 0 and 1, any exclusions), the answer to `q`
after `qs` equals the answer to `q` from the initial state.  Missing for the full statement: `NextOK`
(see `cache_transparent_counterexample`). -/
theorem cache_transparent_partial (s : Seq) (fuel : Nat) (qs : List Q) (q : Q)
    (hs : Sorted s) (hn : NextOK s) (hf : s.rc.pts.length < fuel) :
    (step s fuel (run s fuel {} qs) q).2 = (step s fuel {} q).2 := by
  have hi := run_inv hs hn fuel hf qs {} (inv_init s)
  rw [(step_ref hs hn fuel hf hi q).1, (step_ref hs hn fuel hf (inv_init s) q).1]

/-- **answers_history_free (partial).** The whole list of answers of one long-lived sequence object
is the list of answers of fresh objects (what the harness observes as `a` and `f`). Same missing
part as `cache_transparent_partial`. -/
theorem answers_history_free_partial (s : Seq) (fuel : Nat) (qs : List Q)
    (hs : Sorted s) (hn : NextOK s) (hf : s.rc.pts.length < fuel) :
    answers s fuel {} qs = qs.map (fun q => (step s fuel {} q).2) := by
  rw [answers_eq hs hn fuel hf qs {} (inv_init s)]
  apply List.map_congr_left
  intro q _
  exact (step_ref hs hn fuel hf (inv_init s) q).1.symm

/-- **cache_invariant (partial).** In every reachable state every entry of the four caches (and of
the `lru_cache` of `is_on_sequence`) agrees with brute force, and every "recent valid point" is a
non-excluded point of the iteration.  Same missing part (`NextOK`). -/
theorem cache_invariant_partial (s : Seq) (fuel : Nat) (qs : List Q)
    (hs : Sorted s) (hn : NextOK s) (hf : s.rc.pts.length < fuel) : Inv s (run s fuel {} qs) :=
  run_inv hs hn fuel hf qs {} (inv_init s)

/-- **stop_spec_of_fix.** Once `get_stop_point` skips every trailing exclusion
(findings/C17-fix-1.diff), the stop point of a bounded recurrence is the last non-excluded point of
the iteration (`none` when everything is excluded), for every recurrence and exclusion predicate. -/
theorem stop_spec_of_fix (h : stopSkipsExcluded = true) (s : Seq) (hb : s.rc.bounded = true) :
    getStop s = .pt (specStop s) :=
  getStop_spec s hb (Or.inl h)

/-! ## counterexamples to the full statements -/

/-- `R5/20000101T00Z/P1D!(20000105T00Z,20000104T00Z)` in days: five points, the last two excluded. -/
def exStop : Seq where
  rc := { pts := [1, 2, 3, 4, 5]
          next := fun p => [1, 2, 3, 4, 5].find? (fun x => decide (p < x))
          prevC := fun p => [5, 4, 3, 2, 1].find? (fun x => decide (x < p))
          prevK := fun _ => none
          bounded := true }
  excl := fun x => x == 4 || x == 5
  val := fun _ => 0
  cap := 100

/-- On the unpatched code (`stopSkipsExcluded = false`) the stop point behind two trailing exclusions
is the excluded point 4, not 3. -/
theorem stop_counterexample (h : stopSkipsExcluded = false) : ¬ iso_query_spec_full := by
  intro hall
  have := hall exStop 10 [] .stop (by unfold Sorted; decide) (by decide)
  simp only [run, step, getStop, h] at this
  revert this
  decide

/-- `R/19991231T00Z/P1M` in days since 1999-12-31: Dec 31, Jan 31, Feb 29, Mar 29;
isodatetime: Feb 29 - P1M = Jan 29 (day 29), which is not a point of the recurrence. -/
def exPrev : Seq where
  rc := { pts := [0, 31, 60, 89]
          next := fun p => [0, 31, 60, 89].find? (fun x => decide (p < x))
          prevC := fun p => if p = 60 then some 29 else [89, 60, 31, 0].find? (fun x => decide (x < p))
          prevK := fun k => if k = "20000229T0000Z" then some 29 else none
          bounded := false }
  excl := fun _ => false
  val := fun k => if k = "20000229T0000Z" then 60 else 0
  cap := 100

/-- Stepping back by a calendar duration is not the inverse of stepping forward:
`get_prev_point(20000229T0000Z)` is day 29, brute force says day 31 (holds for every
value of `stopSkipsExcluded`; `NextOK exPrev` holds). -/
theorem prev_counterexample : ¬ iso_query_spec_full := by
  intro hall
  have := hall exPrev 10 [] (.prev "20000229T0000Z") (by unfold Sorted; decide) (by decide)
  revert this
  decide

/-- `R/20000131T00+01/P1M` with cycle point time zone Z, in days since 2000-01-01T23Z - 2:
the iteration (in +01) is Jan 30T23Z, Feb 28T23Z, Mar 28T23Z (days 30, 59, 88), but stepping from
the re-parsed `20000130T2300Z` gives `20000229T2300Z` (day 60). -/
def exStep : Seq where
  rc := { pts := [30, 59, 88]
          next := fun p => if p = 30 then some 60 else if p = 60 then some 89
                           else [30, 59, 88].find? (fun x => decide (p < x))
          prevC := fun p => [88, 59, 30].find? (fun x => decide (x < p))
          prevK := fun _ => none
          bounded := false }
  excl := fun _ => false
  val := fun k => if k = "20000101T0000Z" then 1 else if k = "20000210T0000Z" then 41 else 0
  cap := 100

/-- Without `NextOK` the caches are not transparent: `get_next_point(20000210T0000Z)` is day 59
on a fresh object but day 60 (a point that is not in the recurrence) after
`get_next_point(20000101T0000Z)` has put the start point into the recent valid points. -/
theorem cache_transparent_counterexample : ¬ cache_transparent_full := by
  intro hall
  have := hall exStep 10 [.next "20000101T0000Z"] (.next "20000210T0000Z")
    (by unfold Sorted; decide) (by decide)
  revert this
  decide

/-! ## non-vacuity -/

/-- point strings used in the examples, and their instants (hours) -/
def exVal (k : String) : Int :=
  (look k [("0", 0), ("1", 1), ("5", 5), ("7", 7), ("11", 11), ("13", 13), ("18", 18), ("24", 24),
           ("25", 25), ("30", 30)]).getD 0

/-- `PT6H` from day 0 in hours with the `T12` points and hour 30 excluded, tiny caches -/
def exOk : Seq where
  rc := { pts := [0, 6, 12, 18, 24, 30, 36, 42, 48]
          next := fun p => [0, 6, 12, 18, 24, 30, 36, 42, 48].find? (fun x => decide (p < x))
          prevC := fun p => [48, 42, 36, 30, 24, 18, 12, 6, 0].find? (fun x => decide (x < p))
          prevK := fun k => [48, 42, 36, 30, 24, 18, 12, 6, 0].find? (fun x => decide (x < exVal k))
          bounded := true }
  excl := fun x => x % 24 == 12 || x == 30
  val := exVal
  cap := 1

theorem exOk_sorted : Sorted exOk := by unfold Sorted; decide
theorem exOk_next : NextOK exOk := fun _ _ => rfl
theorem exOk_prev : PrevOK exOk := ⟨fun _ _ => rfl, fun _ _ => rfl⟩

/-- the hypotheses of the theorems are satisfiable together, with every kind of query covered -/
example : Sorted exOk ∧ NextOK exOk ∧ PrevOK exOk ∧ exOk.rc.pts.length < 10 ∧
    Covered exOk (.prev "24") ∧ Covered exOk (.nearestPrev "25") ∧ Covered exOk (.nearestPrev "24") ∧
    Covered exOk .stop ∧ Covered exOk (.next "7") :=
  ⟨exOk_sorted, exOk_next, exOk_prev, by decide, ⟨exOk_prev, by decide⟩, Or.inl (by decide),
   Or.inr exOk_prev, Or.inr (Or.inr (by decide)), trivial⟩

/-- a history that fills and evicts the caches (cap = 1), then questions whose brute-force answers
skip the excluded points 12, 30, 36: the instance of `iso_query_spec_partial` -/
example : (step exOk 10 (run exOk 10 {} [.next "0", .next "13", .valid "24", .first "5", .next "1"])
    (.next "25")).2 = .pt (some 42) := by
  rw [iso_query_spec_partial exOk 10 _ (.next "25") exOk_sorted exOk_next (by decide) trivial]
  decide

example : specAns exOk (.first "11") = .pt (some 18) ∧ specAns exOk (.prev "18") = .pt (some 6) ∧
    specAns exOk (.valid "30") = .bool false ∧ specAns exOk .stop = .pt (some 48) ∧
    specAns exOk .start = .pt (some 0) := by decide

/-- the caches really are exercised: after the history the state is not the initial one -/
example : (run exOk 10 {} [.next "0", .next "13", .valid "24", .first "5"]).recent = [18] ∧
    (run exOk 10 {} [.next "0", .next "13", .valid "24", .first "5"]).nextC = [("0", 6), ("13", 18)] := by
  decide

/-- instances of `cache_transparent_partial` / `answers_history_free_partial` on a history that
goes through the recent valid points and evicts cache entries -/
example : (step exOk 10 (run exOk 10 {} [.next "0", .next "13", .valid "24"]) (.next "1")).2
    = (step exOk 10 {} (.next "1")).2 :=
  cache_transparent_partial exOk 10 _ _ exOk_sorted exOk_next (by decide)

example : answers exOk 10 {} [.next "0", .next "13", .valid "24", .nearestPrev "25", .stop]
    = [.pt (some 6), .pt (some 18), .bool true, .pt (some 24), .pt (some 48)] := by
  rw [answers_history_free_partial exOk 10 _ exOk_sorted exOk_next (by decide)]
  decide

/-- `Inv` holds in a non-initial state -/
example : Inv exOk (run exOk 10 {} [.next "0", .next "13", .valid "24", .first "5"]) :=
  cache_invariant_partial exOk 10 _ exOk_sorted exOk_next (by decide)

/-- `stop_spec_of_fix` is about a non-trivial case: with the last two points excluded brute force
says 3 -/
example : exStop.rc.bounded = true ∧ specStop exStop = some 3 := by decide

end CylcModel.C17
