/-
C20 — Crash-restart neither loses nor duplicates work (work in progress: statements follow).
-/
import CylcModel.Sched3Crash
namespace CylcModel.C20
open CylcModel.Sched3Crash

/-- a process that has died commits nothing more -/
theorem dead_commit (s : State) (h : s.dead = true) : commit s = s := by
  unfold commit; simp [h]

end CylcModel.C20
