/-
C20 — Crash-restart neither loses nor duplicates work.

Statements over the `Sched3Crash` model: the scheduler of `Sched2` with the private database AS COMMITTED kept apart
from the memory of the process, commit boundaries exactly where the code has them, and kill points (`crash`: between
two ops; `loopCrash k`: at the k-th commit boundary of a main loop, or anywhere inside that transaction).
Helper lemmas: `Sched3CrashLemmas` (one lemma per primitive, lifted over all op lists with `run_inv`); the closed
job environment of the run-level statements: `Sched3CrashEnv`.

What the property text claims and what is delivered (details in the doc-strings):
* kill points reduce to commit boundaries, a dead process commits nothing, a restart reads nothing but the
  committed database, between ops nothing of a pool-table write is pending — PROVED for all graphs and op lists;
* `no_loss` — FALSE on the code as found (`no_loss_counterexample`, `lost_before_first_loop`): the early commits
  write `task_states` rows but not the `task_pool` table; the mechanism is proved in general (`stranded_is_lost`);
  with the repair (behaviour flags up) it is proved for the witness workflows and every single kill point of their
  runs (`no_loss_repaired_bounded`), not in general;
* `no_rerun` (no instance is run again) — FALSE on the code as found by the same window (`no_rerun_counterexample`),
  general mechanism `finished_not_respawned`, repaired: bounded as above;
* `no_dup_launch` — FALSE by design, before and after the repair (`no_dup_launch_counterexample`): a task killed in
  job preparation is prepared again under the same submit number; what holds is `no_dup_launch_partial`.
-/
import CylcModel.Sched3CrashLemmas
import CylcModel.Sched3CrashEnv
import CylcModel.Generated.CrashFlags
namespace CylcModel.C20
open CylcModel.Sched3Crash

/-! ### kill points, transactions, and what survives -/

/-- **A commit is all or nothing**: `process_queued_ops` either leaves the committed database as it was (the
process is dead, or dies at this very boundary) or applies everything that was queued. -/
theorem commit_all_or_nothing (s : State) :
    (commit s).cdb = s.cdb ∨ ((commit s).cdb = applyQ s.cdb s.q ∧ (commit s).q = {}) := by
  unfold commit
  split
  · exact Or.inl rfl
  · split
    · exact Or.inl rfl
    · exact Or.inr ⟨rfl, rfl⟩
    · exact Or.inr ⟨rfl, rfl⟩

/-- **Statement-level kill points reduce to commit boundaries**: a process that dies at a commit boundary — before
the transaction starts or anywhere inside it (C21: an interrupted transaction leaves no trace) — leaves the
committed database exactly as it was at the boundary, and is dead. -/
theorem kill_at_boundary (s : State) (h : s.dead = false) :
    (commit { s with fuse := some 0 }).dead = true ∧ (commit { s with fuse := some 0 }).cdb = s.cdb := by
  unfold commit
  simp [h]

/-- **The premise of `kill_at_boundary`, probed on the live code** on every check: a scheduler killed inside a batch
of queued operations (after 1, 2, ... statements, whatever the DAO's connection settings) leaves the database file
exactly as it was before the batch - the batch is one sqlite transaction.  (`CrashFlags.batchAtomic` is written by
the check from reading the real database file after injected deaths; if a batch is ever found half-written this
theorem no longer builds and the judge `judgeAtomic` supplies the failing run.) -/
theorem batch_atomic_live : CrashFlags.batchAtomic = true := by decide

/-- **A dead process commits nothing**: whatever the rest of the main loop would have done, the database stays as
it was at the death (so the model may let the loop run on: only the database is read afterwards). -/
theorem dead_commits_nothing (g : Graph) (s : State) (h : s.dead = true) :
    (mainLoop g s).dead = true ∧ (mainLoop g s).cdb = s.cdb :=
  dead_dstep (dstep_mainLoop g s) h

/-- **A restart reads nothing but the committed database**: two schedulers that die with the same committed
database restart into the same state, whatever was in their memory (pool, queued operations, message queue,
holds, stop requests).  (`launched` / `ncommit`: what the outside world had seen of the current op.) -/
theorem crash_reads_only_database (g : Graph) (s s' : State)
    (hd : s.cdb = s'.cdb) (hl : s.launched = s'.launched) (hn : s.ncommit = s'.ncommit) :
    crashRestart g s = crashRestart g s' := by
  unfold crashRestart startFrom loadDb
  simp only [hd, hl, hn]

/-- **Between ops** — in every state of every run, for all instance graphs and all op lists including kill points,
clean restarts and commands — the scheduler is alive, no fuse burns and no write of the task-pool table is left
queued: the `task_pool` table is only ever written in the same transaction in which it was queued. -/
theorem between_ops_live (g : Graph) (ops : List Op) : ∀ s ∈ run g ops, Live s := live_run g ops

/-! ### what a restart restores -/

/-- **The restored pool comes from the pool table**: every instance in the pool of the restarted scheduler is
listed in the committed `task_pool` table and has a committed `task_states` row. -/
theorem restart_pool_from_table (g : Graph) (s : State) :
    ∀ k ∈ keys (crashRestart g s),
      k ∈ s.cdb.pool.map (fun x => (x.pt, x.name)) ∧ ∃ r ∈ s.cdb.rows, r.isKey k.1 k.2 = true := by
  intro k hk
  exact mem_keys_startFrom g s k hk

/-- **Status and submit number as loaded**: a task listed as preparing in the pool table comes back waiting with
the recorded submit number minus one (to be prepared again under the same number); every other task comes back
with its recorded status and submit number. -/
theorem restart_submit_num (g : Graph) (s : State) :
    ∀ y ∈ (loadDb g s).pool, ∃ x ∈ s.cdb.pool, ∃ r ∈ s.cdb.rows, r.isKey x.pt x.name = true ∧
      y.pt = x.pt ∧ y.name = x.name ∧
      y.status = (if x.status == .preparing then Status.waiting else x.status) ∧
      y.submitNum = (if x.status == .preparing then r.submitNum - 1 else r.submitNum) := by
  intro y hy
  unfold loadDb at hy
  simp only at hy
  obtain ⟨x, hx, hxy⟩ := List.mem_filterMap.mp hy
  unfold restoreProxy at hxy
  split at hxy
  · exact absurd hxy (by simp)
  · rename_i r hr
    simp only [Option.some.injEq] at hxy
    subst hxy
    exact ⟨x, hx, r, List.mem_of_find?_eq_some hr, by simpa using List.find?_some hr, rfl, rfl, rfl, rfl⟩

/-- **`no_dup_launch`, what holds**: unless the pool table lists the task as preparing, the restarted scheduler
continues from the submit number the database has recorded — the next job of the task gets a number the database
has not seen.  (A job is launched under `submitNum + 1`, `release_and_submit`.) -/
theorem no_dup_launch_partial (g : Graph) (s : State) :
    ∀ y ∈ (loadDb g s).pool, ∃ x ∈ s.cdb.pool, ∃ r ∈ s.cdb.rows, r.isKey x.pt x.name = true ∧
      y.pt = x.pt ∧ y.name = x.name ∧ (x.status ≠ .preparing → y.submitNum = r.submitNum) := by
  intro y hy
  obtain ⟨x, hx, r, hr, hk, h1, h2, _, h4⟩ := restart_submit_num g s y hy
  refine ⟨x, hx, r, hr, hk, h1, h2, ?_⟩
  intro hne
  rw [h4]
  have : (x.status == Status.preparing) = false := by
    cases hs : x.status <;> simp_all
  simp [this]

/-! ### the loss mechanism, in general -/

/-- **How work is lost** (code as found): an instance with a committed `task_states` row that has no completed
outputs, and that the committed `task_pool` table does not list, is not in the pool of the restarted scheduler
and is refused by `spawn_task` ("task was removed") whenever a parent's output asks for it — it never runs.
Such rows are committed by the early commits (`remove`, absolute outputs, suicides, start-up) for tasks spawned
since the pool table was last written. -/
theorem stranded_is_lost (g : Graph) (hf : g.poolAtStart = false) (s : State) (p : Int) (n : String) (r : Row)
    (hr : histOf s p n = some r) (ho : r.outs = []) (hp : (p, n) ∉ s.cdb.pool.map (fun x => (x.pt, x.name))) :
    (p, n) ∉ keys (crashRestart g s) ∧ (spawnTask g (crashRestart g s) n p).2 = none := by
  constructor
  · intro hk
    exact hp (mem_keys_startFrom g s (p, n) hk).1
  · apply spawnTask_blocked g _ n p r _ ho
    unfold histOf crashRestart
    simp only
    rw [rows_startFrom g s hf]
    exact hr

/-- **Finished work is not spawned again**: an instance whose committed row has a final status and complete
outputs is refused by `spawn_task`, before and after any restart. -/
theorem finished_not_respawned (g : Graph) (s : State) (n : String) (p : Int) (r : Row) (t : TaskDefn)
    (hr : histOf s p n = some r) (hfin : r.status.isFinal = true) (ht : g.task? n = some t)
    (hc : isComplete t r.outs = true) : (spawnTask g s n p).2 = none :=
  spawnTask_finished g s n p r t hr hfin ht hc

/-! ### run-level statements over the closed job environment

`closedRun g kills`: every job launched is submitted, starts and succeeds, its reports arrive before the next main
loop; round `i` is an ordinary main loop, or the process dies right before it, or inside it at a commit boundary; a
restart is followed by the restart poll; jobs launched before a death keep reporting. -/

/-- the behaviour flags of a graph set to `f` (false: code as found, true: repaired) -/
def flagged (f : Bool) (g : Graph) : Graph :=
  { g with poolAtRemove := f, poolAtAbs := f, poolAtSuicide := f, poolAtStart := f }

/-- the killed-and-restarted run launches the same task instances as the uninterrupted run of as many rounds -/
def NoLoss (g : Graph) (kills : List Kill) : Prop :=
  sameSet (launchedKeys (closedRun g kills)) (launchedKeys (closedRun g (quiet kills.length))) = true

/-- no instance that the database has recorded with a final status is launched again -/
def NoRerun (g : Graph) (kills : List Kill) : Prop := (closedRun g kills).reruns = []

/-- no two launches carry the same (point, name, submit number) -/
def NoDupLaunch (g : Graph) (kills : List Kill) : Prop := (closedRun g kills).launches.Nodup

instance (g : Graph) (kills : List Kill) : Decidable (NoLoss g kills) := by unfold NoLoss; infer_instance
instance (g : Graph) (kills : List Kill) : Decidable (NoRerun g kills) := by unfold NoRerun; infer_instance
instance (g : Graph) (kills : List Kill) : Decidable (NoDupLaunch g kills) := by unfold NoDupLaunch; infer_instance

/-- the property text, per value of the behaviour flags -/
def no_loss_full (f : Bool) : Prop := ∀ (g : Graph) (kills : List Kill), NoLoss (flagged f g) kills
def no_rerun_full (f : Bool) : Prop := ∀ (g : Graph) (kills : List Kill), NoRerun (flagged f g) kills
def no_dup_launch_full (f : Bool) : Prop := ∀ (g : Graph) (kills : List Kill), NoDupLaunch (flagged f g) kills

def stdOuts : List OutDef :=
  [⟨"submitted", "submitted"⟩, ⟨"started", "started"⟩, ⟨"succeeded", "succeeded"⟩, ⟨"failed", "failed"⟩]

/-- `a => b` on one cycle point -/
def exAB : Graph :=
  { icp := 1, fcp := 1, start := 1, runahead := 1, seqs := [[1]], stopPoint := some 1,
    tasks := [
      { name := "a",
        insts := [(1, { pre := [], sui := [], children := [("succeeded", [⟨"b", 1, false⟩])], nextParentless := none })],
        firstParentless := some 1, completion := CE.var "succeeded", outputs := stdOuts },
      { name := "b",
        insts := [(1, { pre := [{ atoms := [(⟨1, "a", "succeeded"⟩, false)], expr := none }], sui := [], children := [],
                        nextParentless := none })],
        firstParentless := none, completion := CE.var "succeeded", outputs := stdOuts }] }

/-- `a[-P1] => a => b` on cycle points 1..3, runahead limit P1 -/
def exCyc : Graph :=
  let a (p : Int) (last : Bool) : Int × InstDef :=
    (p, { pre := if p == 1 then [] else [{ atoms := [(⟨p - 1, "a", "succeeded"⟩, false)], expr := none }], sui := [],
          children := [("succeeded", [⟨"b", p, false⟩] ++ (if last then [] else [⟨"a", p + 1, false⟩]))],
          nextParentless := none })
  let b (p : Int) : Int × InstDef :=
    (p, { pre := [{ atoms := [(⟨p, "a", "succeeded"⟩, false)], expr := none }], sui := [], children := [],
          nextParentless := none })
  { icp := 1, fcp := 3, start := 1, runahead := 1, seqs := [[1, 2, 3]], stopPoint := some 3,
    tasks := [
      { name := "a", insts := [a 1 false, a 2 false, a 3 true], firstParentless := some 1,
        completion := CE.var "succeeded", outputs := stdOuts },
      { name := "b", insts := [b 1, b 2, b 3], firstParentless := none,
        completion := CE.var "succeeded", outputs := stdOuts }] }

-- the uninterrupted runs are not trivial: everything runs, once
example : (closedRun (flagged false exAB) (quiet 4)).launches = [(1, "a", 1), (1, "b", 1)] := by decide
example : launchedKeys (closedRun (flagged false exCyc) (quiet 8)) =
    [(1, "a"), (1, "b"), (2, "a"), (2, "b"), (3, "a"), (3, "b")] := by decide

/-- **`no_loss` is false on the code as found**: `a => b`; the main loop that processes `a:succeeded` commits in
`remove(a)` — the `task_states` row of the freshly spawned `b` included — and dies before the end-of-loop commit
writes `b` into `task_pool`.  The restart reloads `a` (still listed as preparing: it is run again), the restart
poll re-delivers its success, `spawn_task(b)` finds a row without outputs: `b` never runs. -/
theorem no_loss_counterexample : ¬ no_loss_full false := by
  intro h
  have h1 := h exAB [.none, .inLoop 1, .none, .none, .none]
  revert h1
  decide

/-- ... and a new run killed before its first main loop completes restarts with an empty pool: nothing ever runs. -/
theorem lost_before_first_loop : ¬ NoLoss (flagged false exAB) [.before, .none, .none, .none] := by decide

/-- **`no_rerun` is false on the code as found** (same window): `a`, recorded as succeeded, is run again. -/
theorem no_rerun_counterexample : ¬ no_rerun_full false := by
  intro h
  have h1 := h exAB [.none, .inLoop 1, .none, .none, .none]
  revert h1
  decide

/-- **`no_dup_launch` is false by design**, with or without the repair: killed while `a` is in job preparation (the
database has not seen its job submitted), the restart prepares it again under the same submit number. -/
theorem no_dup_launch_counterexample : ¬ no_dup_launch_full false ∧ ¬ no_dup_launch_full true := by
  constructor
  · intro h
    have h1 := h exAB [.none, .before, .none, .none]
    revert h1
    decide
  · intro h
    have h1 := h exAB [.none, .before, .none, .none]
    revert h1
    decide

/-- the scheduler of `no_loss_counterexample` at the moment of its death (the main loop has run on in the model) -/
def exDead : State :=
  mainLoop (flagged false exAB)
    { (clearOp (applyOps (flagged false exAB) (init (flagged false exAB))
        [.loop, .subres 1 "a" true 1, .msg 1 "a" 1 "started", .msg 1 "a" 1 "succeeded"])) with fuse := some 1 }

-- the hypotheses of `dead_commits_nothing`, `stranded_is_lost` and `finished_not_respawned` are met there: the
-- process is dead; `b` has a committed row without outputs and is not in the committed pool table (which still
-- lists `a` as preparing); `a` has a committed row that says succeeded, with complete outputs
example :
    exDead.dead = true ∧
    (histOf exDead 1 "b").map (fun r => (r.status, r.outs)) = some (.waiting, []) ∧
    (1, "b") ∉ exDead.cdb.pool.map (fun x => (x.pt, x.name)) ∧
    exDead.cdb.pool.map (fun x => (x.pt, x.name, x.status)) = [(1, "a", .preparing)] ∧
    (histOf exDead 1 "a").map (fun r => (r.status, r.outs)) =
      some (.succeeded, ["submitted", "started", "succeeded"]) := by decide

-- ... and the restart puts `a` back as a waiting task under submit number 0 (`restart_submit_num`), `b` nowhere
example :
    (crashRestart (flagged false exAB) exDead).pool.map (fun x => (x.pt, x.name, x.status, x.submitNum)) =
      [(1, "a", .waiting, 0)] := by decide

/-- every way of killing the scheduler once in `n` rounds: in round `i`, between ops or at commit boundary 0..2 -/
def singleKills (n : Nat) : List (List Kill) :=
  (List.range n).flatMap fun i =>
    [Kill.before, Kill.inLoop 0, Kill.inLoop 1, Kill.inLoop 2].map fun k =>
      (List.replicate i Kill.none) ++ [k] ++ List.replicate (n - i - 1) Kill.none

/-- **With the repair** (every early commit writes the pool table along): for the witness workflows, whatever
single kill point of the run is chosen — any round, between ops or at any commit boundary of the main loop — the
restarted run launches exactly the instances of the uninterrupted run and runs nothing again that the database
had recorded as finished.  (Bounded: these workflows, one kill per run; the general statement is not proved.) -/
theorem no_loss_repaired_bounded :
    (∀ kills ∈ singleKills 6, NoLoss (flagged true exAB) kills ∧ NoRerun (flagged true exAB) kills) ∧
    (∀ kills ∈ singleKills 9, NoLoss (flagged true exCyc) kills ∧ NoRerun (flagged true exCyc) kills) := by
  constructor <;> decide

/-- the same kill points on the code as found: some of them lose work -/
theorem loss_found_bounded :
    ¬ (∀ kills ∈ singleKills 9, NoLoss (flagged false exCyc) kills) := by decide

/-- **Tie to the live code** (the flags are probed from the running code on every check): the witness run of
`no_loss_counterexample` keeps `b` exactly when `TaskPool.remove` writes the pool table with its commit ... -/
theorem lost_child_live :
    NoLoss { exAB with poolAtRemove := CrashFlags.poolAtRemove } [.none, .inLoop 1, .none, .none, .none] ↔
      CrashFlags.poolAtRemove = true := by
  generalize CrashFlags.poolAtRemove = f
  cases f <;> decide

/-- ... and a run killed before its first main loop restarts with its tasks exactly when start-up writes it. -/
theorem lost_at_start_live :
    NoLoss { exAB with poolAtStart := CrashFlags.poolAtStart } [.before, .none, .none, .none] ↔
      CrashFlags.poolAtStart = true := by
  generalize CrashFlags.poolAtStart = f
  cases f <;> decide

end CylcModel.C20
